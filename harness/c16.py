"""C16 - Hy-MMSBM sampler: correspondence of lean/Hgxv/Model/C16.lean with
hypergraphx.generation.hy_mmsbm_sampling.HyMMSBMSampler and independent property oracles on the sampler's outputs.

Initial hypergraphs carry node labels of every comparable TYPE (`gen_universe`: the ids, look-alikes of the ids, floats, ints
next to floats, huge / negative ints, strings, numeric strings, Fractions, numpy scalars, bools), cases hold them as JSON tokens
(`lab` makes a fresh equal object per occurrence); the model is asked twice: over the naturals (labels coded by rank) and
generically on the label values (`fromhygQ` / `fromhygS`: C16.sampleFromHygG).

All instrumentation is done from here through attributes (no hook in /repo): `sampler._rng` and
`sampler._model._rng` are replaced by recording proxies, `_mcmc_step`, `_mcmc_routine`, `_extract_hye`,
`_match_sequences` are wrapped on the instance, `sample_truncated_poisson` and scipy's `stats.poisson.ppf` are
wrapped RECORD-ONLY (nothing they return is altered) and `np.random.default_rng` is wrapped while a sampler is built /
runs (to know which generator is seeded with what).  Every case with `ustream = 0` is run a third time on a sampler
that carries no instrumentation at all; it must deliver the same samples.  `ustream = k > 0` is the adversarial draw
source for the truncated-Poisson weights: entries of the uniform vector `rng.random(E)` are replaced by extreme values
`Generator.random` can return (0, 2^-53, 1 - 2^-53, ...) - everything downstream is the real code.

Sessions (`mode = session`): ONE sampler object, 2-5 `sample(...)` calls of all conditioning kinds in every order, their
generators consumed one after the other or interleaved; the recording is routed to one Trace per call (`Router`), every
call is judged with the conditioning of THAT call and replayed on the model, and the whole session is replayed on the
model's sampler-state record (`new`, `callhyg` / `callseqs` / `callmodel` / `calldeg` / `calldim`: `C16.callStepX`).

Extension round: all four flag pairs of `_match_sequences` and its error path are in the model (`C16.matchFull`, driver command
`matchr`): every recorded run of `_match_sequences` - inside sampler cases, inside sessions, and called directly (`direct_match`) - is
compared with it, a raising run by the value it leaves in `matching_sequences`; `sample(deg_seq=...)` / `sample(dim_seq=...)` are case
modes `degonly` / `dimonly` (single calls and calls of sessions)."""
import contextlib
import math
import signal

import hgxv

RULE = ("three conditioning modes of HyMMSBMSampler.sample: (A) initial hypergraph with >= 2 hyperedges of size 2-5 over a label "
        "universe of every comparable TYPE (the ids 0..n-1, nearly the ids, look-alikes of the ids: min 0 / max n-1 with non-integer "
        "floats in between, i+eps, fractions k/d of the ids, small ints with negatives, the ids as floats / strings / bools; non-integer "
        "floats, ints next to floats, ints around 2^31..2^70 next to small / negative ints and floats, negative ints below -2^63, sparse "
        "ints, strings with case / prefix / empty / non-ASCII, numeric strings, Fractions, numpy scalars), every label occurrence a fresh "
        "equal object, an integer-valued label written as int in one hyperedge and as float in another, random node order inside and "
        "random order of the hyperedges, 30 % reached through a history with a temporary hyperedge / node removed again (isolated nodes, "
        "sometimes weighted, sometimes more rows in u than nodes); every universe also in 3 fixed zoo cases per run, "
        "(B) degree (dtype int64 / int32 / uint8 / float64 / object) + size "
        "sequence with equal totals - taken from a random hypergraph (mostly matching) or a skewed split of the same total "
        "(mostly non-matching), plus a few pairs with unequal totals (correspondence only), (C) sampling from the model "
        "(u, w dyadic k/8, max size 3-5, exact dyadic sampling on/off), (H) hard communities: one-hot u, diagonal w, initial "
        "hypergraphs / sequences with cross-community hyperedges whose Poisson parameter is structurally zero, 0-5 MCMC steps; "
        "parameter magnitudes u = k/udiv, w = k/wdiv with divisors 1 .. 2^40 (Poisson means from the 1e-10 clip to thousands), "
        "rows of u that are all zero; burn_in and intermediate steps from {0,1,5,40}, 3 consecutive samples per run, every run "
        "executed twice instrumented with the same seed and (ustream=0) a third time without any instrumentation; the "
        "truncated-Poisson sampler is the real one on real uniforms (ustream=0) or on uniform vectors in which entries are "
        "replaced by extreme legal values 0, 2^-53, 1-2^-53, ... (ustream>0); the D44 witnesses (seeds whose uniforms round p "
        "to P(X=0) / to 1) are replayed every run; plus direct calls of _pairwise_reshuffle, _deg_seq_to_dict, _extract_hye "
        "(all four flag combinations) and sample_truncated_poisson (means 1e-300 .. 1e5, scalar and array); (S) sessions: ONE sampler "
        "object used for 2-6 sample(...) calls - initial hypergraphs each with its own label universe (as in A), 45 % of the later ones "
        "a sibling of an earlier one (same number of nodes and same smallest / largest label but other labels in between, same labels "
        "but other hyperedges, labels moved by one, same count from another universe), 20 % of the sessions start with an initial "
        "hypergraph holding a hyperedge larger than max_hye_size followed by sampling from the model, degree/size sequences that match "
        "or not, sampling from the model, in every order, a call "
        "repeated later (with the same argument objects or equal fresh ones) - whose generators are created lazily or all up front "
        "and consumed 1-3 samples each, one after the other or interleaved; each session runs on two recorded samplers and (real "
        "uniforms) on an uninstrumented one; every call is judged against the conditioning of that call, its report "
        "matching_sequences is read right after its first sample. A case is distinct by its "
        "canonical input (mode, parameters, sequences / hyperedges, steps, seed); non-trivial when at least one accepted "
        "proposal changed the configuration (direct calls: when the call returned); extension round (own PRNG, the older streams are unchanged per seed): "
        "(D) sample(deg_seq=d) - d sparse / all positive / random, the size sequence drawn by the inner model - and sample(dim_seq=m), single calls and "
        "inside sessions; sessions with 1-3 further calls put in at random positions: the two new kinds and sequence calls that raise inside _match_sequences "
        "(a size < 1 before / after an extraction ran out of nodes); direct _match_sequences calls with all four flag pairs, 1-3 calls on ONE sampler, sequences "
        "from a hypergraph or random, sizes 0..N+2, no node of degree 0 - returning and raising ones in any order; round f (own PRNG): (U) sample_truncated_poisson as a "
        "unit under a SCRIPTED generator (uniforms all 0 / all 1-2^-53 / 2^-53 / the extreme values in turn, Poisson draws 0 for every rate <= 36) for every rate regime "
        "(1e-300..1e-3, ~1, 7.5..36, 40..500, 690..1e5), homogeneous and mixed 1-D arrays, scalars float / numpy / int - every draw an integer >= 1; the adversarial "
        "source of the sampler cases (ustream > 0) also turns Poisson draws of the sampler's own generator into 0; (Z) degenerate sizes: initial hypergraphs with 1-3 "
        "one-node hyperedges (15 % also the empty hyperedge) and degree/size sequences with the key 1, judged by the property's words alone; (F) frozen chains: initial "
        "hypergraph, burn_in = intermediate = 0, one community with u = c/8 (c = 1..1024: means from 1e-3 to thousands), 5 samples, each must be the initial hypergraph")
ASSUMPTIONS = [
    "the model's whole-run functions have initial hyperedges of size >= 2 and size-sequence keys >= 2; degenerate sizes (one-node / empty hyperedges, the key 1) are judged on the "
    "implementation (stream Z) and their chain and output stage replayed on the model (`chain`, `outd`: C16.outputStageD - nan mean, non-positive weight): they count in the conditioning (nothing may exceed it), never appear in a sample (the code drops them: nan mean -> non-positive weight; the construction "
    "from sequences extracts and forgets them), and exactness is demanded for the hyperedges of size >= 2 of the chain state; an input with the EMPTY hyperedge may raise (no output)",
    "matching_sequences is the report of the most recently STARTED sequence-conditioned call (an attribute of the sampler object): it is read right after the first sample of a call; sample(initial_hyg=...) makes no report",
    "in a session every call's deg_seq has one entry per row of u and every initial hypergraph at most as many nodes as u has rows (the sampler's internal ids are row indices)",
    "labels reach the model over the naturals through an order isomorphism onto naturals (C16_hyg_any_labels: the choice of the names is immaterial) and, "
    "in addition, the generic model sampleFromHygG by their VALUES (numbers as exact rationals - equal labels of different numeric types are one node -, "
    "strings as opaque tokens); the classes are handed to the model in Python's sorted order",
    "output labels are compared by equality (numpy scalars / 1.0 for 1 are the same node, as for the container itself)",
    "labels of one hypergraph are mutually comparable scalars (tuple labels make Hypergraph.get_mapping raise inside sklearn: no output, outside)",
    "an exception of the sampler is 'no output' (the model must answer none on the same draws); it is reported as a broken correspondence when the model returns",
    "sample(deg_seq=d) / sample(dim_seq=m) (one sequence given, the other drawn by the inner model) are outside the property's quantifier but inside the model since the "
    "extension round: their guarantees are the docstring's (force_dim_seq: the size sequence is kept exactly; force_deg_seq: no node above its degree, whatever the report) "
    "and are judged on the outputs; the second phase of force_deg_seq alone evaluates self.model (AttributeError) as soon as two nodes keep residual degree - modelled as the "
    "code stands (C16.phase2), an accepted exception exactly then",
    "matching_sequences after a call that RAISED inside _match_sequences is compared with the model's sampler state (None, or False when an extraction had run out of "
    "nodes before the exception); size-sequence keys of sample(...) calls are <= N (a larger key fails the caller's assertion before _match_sequences is entered and before "
    "the attribute is touched - outside the model); direct _match_sequences calls go beyond N",
]
TRUSTED = [
    "numpy Generator.choice(pop, size=k, replace=False) returns k distinct members of pop (checked on every recorded draw), Generator determinism under a seed",
    "accept bit of _mcmc_step (rng.random() < transition_prob), the quantiles scipy.stats.poisson.ppf returns inside sample_truncated_poisson and the inner model's Gaussian / Poisson draws are oracles of the model; only their types (bit, naturals) are used - the weight is max(quantile, 1) in the model, and every weight the real function returns is checked to be a finite integer >= 1",
    "Hypergraph(edge_list, weighted=True, weights) stores what it is given (C01)",
]
BUDGET_S = {"quick": 55, "thorough": 800}
# extreme values a numpy Generator.random() can return (multiples of 2^-53 in [0, 1))
EXTREME_U = [0.0, 1.0 - 2.0 ** -53, 2.0 ** -53, 1.0 - 2.0 ** -24, 2.0 ** -30, 1.0 - 2.0 ** -52, 2.0 ** -20]
STEPS = [0, 1, 5, 40]
NSAMPLES = 3


class Timeout(Exception):
    pass


@contextlib.contextmanager
def time_limit(sec):
    def handler(signum, frame):
        raise Timeout()
    old = signal.signal(signal.SIGALRM, handler)
    signal.setitimer(signal.ITIMER_REAL, sec)
    try:
        yield
    finally:
        signal.setitimer(signal.ITIMER_REAL, 0)
        signal.signal(signal.SIGALRM, old)


# ------------------------------------------------------------------------------------------
# instrumentation

class Trace:
    def __init__(self):
        self.log = []          # (source, name, args, kwargs, result) of every generator call
        self.rng_seeds = []    # arguments of np.random.default_rng while building / running
        self.steps = []        # per _mcmc_step: (log slice, accepted)
        self.routine = None    # dict(init=..., fixed=..., yields=[...])
        self.extracts = []     # per _extract_hye: dict(...)
        self.match = None      # dict(deg_seq, dim_seq, fd, fm, result, flag)
        self.weights = []      # per sample_truncated_poisson call: the returned values as naturals (0 = not a positive integer)
        self.tp_calls = []     # per sample_truncated_poisson call: dict(mean, raw, quant, unif)
        self.step_marks = []   # number of steps done at each yield
        self.sink = self.log   # where the generator proxies write


class LogRouter:
    def __init__(self, router):
        self.router = router

    def append(self, entry):
        object.__getattribute__(self.router, "_cur").log.append(entry)


class Router:
    """stands for "the Trace of the call whose generator is running now": several `sample(...)` calls on ONE sampler
    share the instrumented sampler object; every attribute access goes to the trace selected with `use`"""

    def __init__(self, first):
        object.__setattr__(self, "_cur", first)
        object.__setattr__(self, "sink", LogRouter(self))

    def use(self, trace):
        object.__setattr__(self, "_cur", trace)

    def __getattr__(self, name):
        return getattr(object.__getattribute__(self, "_cur"), name)

    def __setattr__(self, name, value):
        setattr(object.__getattribute__(self, "_cur"), name, value)


def sorted_cfg(cfg):
    return [sorted(int(x) for x in e) for e in cfg]


@contextlib.contextmanager
def patched_default_rng(trace):
    import numpy as np
    real = np.random.default_rng

    def wrapper(*a, **k):
        seed_arg = a[0] if a else k.get("seed")
        trace.rng_seeds.append(seed_arg)
        g = real(*a, **k)
        if seed_arg is None:
            return hgxv.RngProxy(g, trace.sink, "unseeded")
        return g
    np.random.default_rng = wrapper
    try:
        yield
    finally:
        np.random.default_rng = real


class AdvRng(hgxv.RngProxy):
    """the sampler's own seeded generator, recorded; with `every = k > 0` it is the adversarial draw source for the
    truncated-Poisson weights: in each vector of uniforms `random(E)` the entries i with (i + call) % k == 0 are
    replaced by extreme values that `Generator.random` can legally return.  Scalar draws (the accept test of
    `_mcmc_step`) and every other method are untouched."""

    def __init__(self, real, log, source, every=0):
        super().__init__(real, log, source)
        object.__setattr__(self, "_every", every)
        object.__setattr__(self, "_calls", 0)

    def __getattr__(self, name):
        attr = getattr(self._real, name)
        if not callable(attr):
            return attr

        def wrapper(*a, **k):
            import numpy as np
            r = attr(*a, **k)
            if name == "random" and self._every and isinstance(r, np.ndarray) and r.ndim == 1:
                c = self._calls
                object.__setattr__(self, "_calls", c + 1)
                r = r.copy()
                for i in range(len(r)):
                    if (i + c) % self._every == 0:
                        r[i] = EXTREME_U[(i // self._every + c) % len(EXTREME_U)]
            if name == "poisson" and self._every:
                r = adversarial_poisson(r, a[0] if a else k.get("lam", 1.0))
            self._log.append((self._source, name, a, k, r))
            return r
        return wrapper


# a Poisson draw of 0 has probability exp(-rate): for rates up to 36.7 that is at least 2^-53, the probability of the extreme
# uniforms above - the adversarial draw source delivers it (larger rates: the real draw)
POISSON_ZERO_UP_TO = 36.0


def adversarial_poisson(r, lam):
    import numpy as np
    lam_b = np.broadcast_to(np.asarray(lam, dtype=float), np.shape(r))
    out = np.where(lam_b <= POISSON_ZERO_UP_TO, 0, np.asarray(r))
    return out.astype(np.asarray(r).dtype) if isinstance(r, np.ndarray) else type(r)(out)


def build_sampler(trace, u, w, D, exact, burn, thin, seed, ustream=0):
    """a HyMMSBMSampler with every randomness source and the chain routines recorded"""
    from hypergraphx.generation import hy_mmsbm_sampling as S
    with patched_default_rng(trace):
        s = S.HyMMSBMSampler(u=u.copy(), w=w.copy(), max_hye_size=D, exact_dyadic_sampling=exact,
                             burn_in_steps=burn, intermediate_steps=thin, seed=seed)
    trace.built_seeds = list(trace.rng_seeds)
    own_src = "own"
    inner = s._model._rng
    if isinstance(inner, hgxv.RngProxy):          # built by default_rng(None): already a proxy tagged "unseeded"
        pass
    else:
        s._model._rng = hgxv.RngProxy(inner, trace.sink, "inner")
    if not isinstance(s._rng, hgxv.RngProxy):
        s._rng = AdvRng(s._rng, trace.sink, own_src, ustream)

    real_step = s._mcmc_step

    def step(hye_list):
        a0, n0 = s.accept_count, len(trace.log)
        real_step(hye_list)
        trace.steps.append((trace.log[n0:], s.accept_count - a0))
    s._mcmc_step = step

    real_routine = s._mcmc_routine

    def routine(hye_list, fixed_hyperedges=None):
        rec = {"init": sorted_cfg(hye_list), "fixed": sorted_cfg(fixed_hyperedges or []), "yields": []}
        trace.routine = rec
        for y in real_routine(hye_list, fixed_hyperedges=fixed_hyperedges):
            rec["yields"].append(sorted_cfg(y))
            trace.step_marks.append(len(trace.steps))
            yield y
    s._mcmc_routine = routine

    real_extract = s._extract_hye

    def extract(nodes_with_deg, hye_size, force_deg_seq=False, force_dim_seq=True):
        n0 = len(trace.log)
        before = s.matching_sequences
        s.matching_sequences = None
        rec = {"dict": nodes_with_deg, "size": int(hye_size), "fd": bool(force_deg_seq), "fm": bool(force_dim_seq)}
        trace.extracts.append(rec)
        try:
            r = real_extract(nodes_with_deg, hye_size, force_deg_seq, force_dim_seq)
        finally:
            rec["draws"] = trace.log[n0:]
            rec["exhausted"] = s.matching_sequences is False
            if s.matching_sequences is None:
                s.matching_sequences = before
        rec["result"] = sorted(int(x) for x in r)
        return r
    s._extract_hye = extract

    real_todict = s._deg_seq_to_dict

    def todict(deg_seq):
        d = real_todict(deg_seq)
        trace.last_dict = d          # the nodes_with_deg object _match_sequences is going to work on
        return d
    s._deg_seq_to_dict = todict

    real_match = s._match_sequences

    def match(deg_seq, dim_seq, force_deg_seq=False, force_dim_seq=True):
        rec = {"deg_seq": [x for x in deg_seq], "dim_seq": [(k, v) for k, v in dim_seq.items()],
               "fd": bool(force_deg_seq), "fm": bool(force_dim_seq)}
        trace.match = rec
        r = real_match(deg_seq, dim_seq, force_deg_seq=force_deg_seq, force_dim_seq=force_dim_seq)
        rec["dict"] = getattr(trace, "last_dict", {})
        rec["result"] = sorted_cfg(r)
        rec["flag"] = s.matching_sequences
        return r
    s._match_sequences = match
    return s


def nat_of(v):
    """a truncated-Poisson value / scipy quantile as a natural; None when it is not a finite integer"""
    try:
        f = float(v)
    except Exception:  # noqa: BLE001
        return None
    if not math.isfinite(f) or f != math.floor(f) or abs(f) > 2 ** 62:
        return None
    return int(f)


@contextlib.contextmanager
def recorded_poisson(trace):
    """RECORD-ONLY wrappers: `sample_truncated_poisson` in the sampler's module (means, returned values, the uniforms
    drawn meanwhile) and `stats.poisson.ppf` while it runs (the quantiles).  Nothing that is returned is altered -
    the weights of every run are those of the real truncated-Poisson sampler."""
    import numpy as np
    from hypergraphx.generation import hy_mmsbm_sampling as S
    real = S.sample_truncated_poisson
    dist = S.stats.poisson
    real_ppf = dist.ppf
    active = []

    def ppf(*a, **k):
        r = real_ppf(*a, **k)
        if active:
            active[-1]["quant"] = [x for x in np.atleast_1d(np.asarray(r, dtype=float)).ravel()]
        return r

    def wrapper(lambd, rng=None):
        n0 = len(trace.log)
        rec = {"mean": [float(x) for x in np.atleast_1d(np.asarray(lambd, dtype=float)).ravel()], "quant": None}
        active.append(rec)
        try:
            r = real(lambd, rng)
        finally:
            active.pop()
        rec["unif"] = [float(x) for e in trace.log[n0:] if e[1] == "random" for x in np.atleast_1d(np.asarray(e[4], dtype=float)).ravel()]
        rec["raw"] = [x for x in np.atleast_1d(np.asarray(r, dtype=float)).ravel()]
        trace.tp_calls.append(rec)
        trace.weights.append([(nat_of(x) if (nat_of(x) or 0) > 0 else 0) for x in rec["raw"]])
        return r
    S.sample_truncated_poisson = wrapper
    dist.ppf = ppf            # instance attribute shadowing the method; removed again below
    try:
        yield
    finally:
        S.sample_truncated_poisson = real
        try:
            del dist.ppf
        except AttributeError:
            pass


def quantile_tape(trace):
    """per recorded call the naturals handed to the model: scipy's quantiles when they were seen (a negative quantile
    - ppf answers -1 for p = 0 - counts as 0), else the values the function returned"""
    tape = []
    for rec, wl in zip(trace.tp_calls, trace.weights):
        q = rec.get("quant")
        if q is not None and len(q) == len(wl) and all(nat_of(x) is not None for x in q):
            tape.append([max(0, nat_of(x)) for x in q])
        else:
            tape.append(list(wl))
    return tape


def show_h(h):
    """canonical rendering of a yielded Hypergraph: sorted [(sorted nodes, weight)]"""
    edges = h.get_edges()
    ws = h.get_weights()
    return sorted(((tuple(sorted(plain(x) for x in e)), plain(w)) for e, w in zip(edges, ws)), key=repr)


def plain(x):
    import numpy as np
    if isinstance(x, np.generic):
        return x.item()
    return x


def case_params(case):
    import numpy as np
    return (np.array(case["u"], dtype=float) / float(case.get("udiv", 8)),
            np.array(case["w"], dtype=float) / float(case.get("wdiv", 8)))


def lab(tok, lkind="num"):
    """a FRESH label object for the JSON token `tok` (a new equal object per occurrence: no call ever sees the object of
    another occurrence).  lkind: num (ints of any size / floats as they stand), str, frac ("p/q" -> Fraction), np (numpy
    scalars), bool (tokens 0 / 1 are False / True, other tokens ints)"""
    import numpy as np
    from fractions import Fraction
    if isinstance(tok, str):
        return Fraction(tok) if lkind == "frac" else "".join(list(tok))
    if isinstance(tok, bool):
        return bool(int(tok))
    if lkind == "np":
        return np.float64(float(repr(tok))) if isinstance(tok, float) else np.int64(int(str(tok)))
    if lkind == "bool" and isinstance(tok, int) and tok in (0, 1):
        return bool(tok)
    if isinstance(tok, float):
        return float(repr(tok))
    return int(str(tok))


def lab_edge(e, lkind):
    return tuple(lab(x, lkind) for x in e)


DDTYPES = ["int64", "int64", "int64", "int32", "uint8", "float64", "object"]


def deg_array(case):
    """the degree sequence as the array the caller hands in (the sampler asks for an ndarray of shape (N,); every integer-valued
    dtype is the same sequence)"""
    import numpy as np
    return np.array([int(x) for x in case["deg_seq"]], dtype=case.get("ddtype", "int64"))


def seq_kwargs(case):
    """keyword arguments of a sample(...) call that goes through _sampling_from_sequences: both sequences, only the degree
    sequence (`degonly`: force_deg_seq alone), only the size sequence (`dimonly`: force_dim_seq alone), none (`model`)"""
    k = {}
    if case["mode"] in ("seqs", "degonly"):
        k["deg_seq"] = deg_array(case)
    if case["mode"] in ("seqs", "dimonly"):
        k["dim_seq"] = {int(a): int(b) for a, b in case["dim_seq"]}
    if case["mode"] == "seqs":
        k["allow_rescaling"] = case.get("rescale", False)
    return k


def make_h0(case):
    """the initial hypergraph of a case, reached through its history: temporary hyperedges / nodes first (removed again
    below), isolated nodes, then the hyperedges in the order and with the node order of the case; every label occurrence
    is a fresh equal object"""
    from hypergraphx import Hypergraph
    lk = case.get("lkind", "num")
    h0 = Hypergraph(weighted=case.get("weighted", False))
    temp = [lab_edge(e, lk) for e in case.get("temp", [])]
    for e in temp:
        if case.get("weighted", False):
            h0.add_edge(e, weight=7)
        else:
            h0.add_edge(e)
    iso = list(case.get("isolated", []))
    late = iso[len(iso) // 2:] if case.get("temp") is not None else []      # histories: half of the isolated nodes come last
    for x in iso[:len(iso) - len(late)]:
        h0.add_node(lab(x, lk))
    for i, e in enumerate(case["edges"]):
        if case.get("weighted", False):
            h0.add_edge(lab_edge(e, lk), weight=1 + i % 3)
        else:
            h0.add_edge(lab_edge(e, lk))
    for x in late:
        h0.add_node(lab(x, lk))
    if temp:
        keep = {lab(x, lk) for e in case["edges"] for x in e} | {lab(x, lk) for x in iso}
        for e in case["temp"]:
            h0.remove_edge(lab_edge(e, lk))
        for x in {x for e in temp for x in e}:
            if x not in keep:
                h0.remove_node(x)
    return h0


def run_naked(case):
    """the same case on a sampler without ANY instrumentation (no proxy, no wrapper, nothing patched)"""
    import numpy as np
    from hypergraphx.generation.hy_mmsbm_sampling import HyMMSBMSampler
    u, w = case_params(case)
    res = {"hs": [], "out": [], "exc": None, "flag": None}
    try:
        with time_limit(case.get("limit", 10)):
            s = HyMMSBMSampler(u=u.copy(), w=w.copy(), max_hye_size=case.get("D"), exact_dyadic_sampling=case.get("exact", True),
                               burn_in_steps=case["burn"], intermediate_steps=case["thin"], seed=case["seed"])
            if case["mode"] == "hyg":
                res["h0"] = make_h0(case)
                g = s.sample(initial_hyg=res["h0"])
            else:
                g = s.sample(**seq_kwargs(case))
            for _ in range(case.get("nsamples", NSAMPLES)):
                h = next(g)
                res["hs"].append(h)
                res["out"].append(show_h(h))
            res["flag"] = s.matching_sequences
    except Timeout:
        res["exc"] = "timeout"
    except Exception as e:  # noqa: BLE001
        res["exc"] = type(e).__name__ + ": " + str(e)[:120]
    return res


def run_sampler(case, trace):
    """runs the real sampler on `case`; returns dict(out=[...] | exc=str, flag=..., hs=[Hypergraph])"""
    import numpy as np
    from hypergraphx import Hypergraph
    u, w = case_params(case)
    res = {"hs": [], "out": [], "exc": None, "flag": None}
    try:
        with time_limit(case.get("limit", 10)), recorded_poisson(trace):
            s = build_sampler(trace, u, w, case.get("D"), case.get("exact", True), case["burn"], case["thin"], case["seed"],
                              case.get("ustream", 0))
            res["sampler"] = s
            with patched_default_rng(trace):
                if case["mode"] == "hyg":
                    h0 = make_h0(case)
                    res["h0"] = h0
                    g = s.sample(initial_hyg=h0)
                else:
                    g = s.sample(**seq_kwargs(case))
                for _ in range(case.get("nsamples", NSAMPLES)):
                    h = next(g)
                    res["hs"].append(h)
                    res["out"].append(show_h(h))
            res["flag"] = s.matching_sequences
    except Timeout:
        res["exc"] = "timeout"
    except Exception as e:  # noqa: BLE001 - an exception of the sampler is an observation
        res["exc"] = type(e).__name__ + ": " + str(e)[:120]
        res["flag"] = getattr(res.get("sampler"), "matching_sequences", None)
    return res


# ------------------------------------------------------------------------------------------
# encoding of recorded draws for the model

class BadTrace(Exception):
    pass


def ints_of(r):
    import numpy as np
    a = np.asarray(r).ravel()
    out = []
    for x in a:
        if float(x) != int(x) or int(x) < 0:
            raise BadTrace(f"draw result {r!r} is not a list of naturals")
        out.append(int(x))
    return out


def check_choice(entry):
    """numpy's contract on a recorded choice(pop, size=k, replace=False) (trusted base, observed)"""
    import numpy as np
    _, name, a, k, r = entry
    if name != "choice":
        raise BadTrace(f"expected a choice draw, saw {name}")
    pop = a[0]
    pop = list(range(int(pop))) if np.ndim(pop) == 0 else [int(x) for x in pop]
    size = k.get("size", a[1] if len(a) > 1 else None)
    res = ints_of(r)
    if len(res) != int(size) or len(set(res)) != len(res) or not set(res) <= set(pop):
        raise BadTrace(f"choice contract broken: pop={pop} size={size} result={res}")
    return pop, res


def enc_step(step):
    draws, acc = step
    if len(draws) != 3 or acc not in (0, 1):
        raise BadTrace(f"_mcmc_step made {len(draws)} generator calls ({[d[1] for d in draws]}), accept_count moved by {acc}")
    _, ij = check_choice(draws[0])
    if len(ij) != 2:
        raise BadTrace("index draw is not a pair")
    _, pick = check_choice(draws[1])
    if draws[2][1] != "random":
        raise BadTrace("third draw of a step is not random()")
    return [ij[0], ij[1], acc] + pick


def enc_steps(steps):
    return hgxv.enc_lists([enc_step(s) for s in steps])


def enc_blocks(blocks):
    if not blocks:
        return "-"
    return "|".join((";".join(hgxv.enc_list(enc_step(s), "_") for s in b) if b else "_") for b in blocks)


def enc_picks(extracts):
    """every choice draw of _extract_hye, in call order (a key of nodes_with_deg whose set is empty yields a draw of size 0)"""
    picks = []
    for rec in extracts:
        for d in rec["draws"]:
            pop, res = check_choice(d)
            picks.append(res)
    return picks


def dict_state(d, n):
    """(key list in insertion order, residual degree per node) of a nodes_with_deg dictionary"""
    keys = [int(k) for k in d.keys()]
    resid = [None] * n
    for k, nodes in d.items():
        for x in nodes:
            resid[int(x)] = int(k)
    return keys, resid


def split_steps(trace, burn, thin, nyields):
    steps = trace.steps
    b = steps[:burn]
    blocks = []
    prev = burn
    for m in trace.step_marks[:nyields]:
        blocks.append(steps[prev:m])
        prev = m
    return b, blocks


def dec_outs(ans):
    """driver rendering of a list of outputs -> list of sorted [(nodes, w)]"""
    if ans == "-":
        return []
    outs = []
    for part in ans.split("|"):
        o = []
        if part != "_":
            for item in part.split(";"):
                xs = [int(t) for t in item.split(",")]
                o.append((tuple(sorted(xs[1:])), xs[0]))
        outs.append(sorted(o, key=repr))
    return outs


def val_tok(x):
    """wire token of a label VALUE for the generic model (`sampleFromHygG`): numbers by their exact rational value (equal labels
    of different numeric types are one node and get one token), strings hex-coded"""
    import numbers
    from fractions import Fraction
    x = plain(x)
    if isinstance(x, str):
        return "s" + x.encode("utf-8").hex()
    if isinstance(x, bool):
        return str(int(x))
    if isinstance(x, int):
        return str(x)
    if isinstance(x, (float, Fraction, numbers.Rational)):
        fr = Fraction(x)
        return str(fr.numerator) if fr.denominator == 1 else f"{fr.numerator}/{fr.denominator}"
    raise BadTrace(f"label {x!r} of type {type(x).__name__} has no wire token")


def dec_outs_tok(ans):
    if ans == "-":
        return []
    outs = []
    for part in ans.split("|"):
        o = []
        if part != "_":
            for item in part.split(";"):
                xs = item.split(",")
                o.append((tuple(sorted(xs[1:])), int(xs[0])))
        outs.append(sorted(o))
    return outs


def dec_cfgs(ans):
    if ans == "-":
        return []
    return [([] if part == "_" else [[] if e == "_" else [int(t) for t in e.split(",")] for e in part.split(";")])
            for part in ans.split("|")]


# ------------------------------------------------------------------------------------------
# property oracles (independent of the model)

def count_deg(edges):
    d = {}
    for e in edges:
        for x in set(e):
            d[x] = d.get(x, 0) + 1
    return d


def count_sizes(edges):
    c = {}
    for e in edges:
        c[len(e)] = c.get(len(e), 0) + 1
    return c


def distinct_states(trace):
    """per yield: True when no two hyperedges of the chain state (incl. the fixed dyads) coincide, None when the
    routine was not observed"""
    if trace is None or trace.routine is None:
        return []
    return [len({frozenset(e) for e in y}) == len(y) for y in trace.routine["yields"]]


def oracle_outputs(ctx, case, res, trace, code_of, tag=""):
    """the property's clauses on every yielded Hypergraph.  Exactness is demanded in the property's own words:
    whenever no two hyperedges of the chain state the sample was made from coincide (the weights are those of the real
    truncated-Poisson sampler in every stream: no excuse for a hyperedge that lost its weight)."""
    import numpy as np
    distinct = distinct_states(trace)
    mode = case["mode"]
    N = len(case["u"])
    if mode == "hyg":
        if "h0" not in res:
            return
        h0 = res["h0"]
        e0 = [tuple(e) for e in h0.get_edges()]
        allowed = set(h0.get_nodes())
        cond_deg = {x: 0 for x in allowed}
        cond_deg.update(count_deg(e0))
        cond_size = count_sizes(e0)
    else:
        allowed = set(range(N))
        cond_deg = cond_size = None
        if mode == "seqs":
            cond_size = {int(k): int(v) for k, v in case["dim_seq"] if int(v) > 0}
            if res["flag"] is True:
                cond_deg = {i: int(d) for i, d in enumerate(case["deg_seq"])}
        elif mode == "dimonly":
            # force_dim_seq alone: the size sequence is kept whatever degree sequence the inner model draws
            cond_size = {int(k): int(v) for k, v in case["dim_seq"] if int(v) > 0}
    # force_deg_seq alone: the construction never adds a node beyond its degree (it shrinks hyperedges instead) - no node
    # exceeds its conditioned degree, whatever the report says
    cap_deg = {i: int(d) for i, d in enumerate(case["deg_seq"])} if mode == "degonly" else None
    for k, h in enumerate(res["hs"]):
        where = {**case, "sample_no": k}
        if tag:
            where["run"] = tag
        if h.is_weighted() is not True:
            ctx.violation(where, f"sample {k} is not weighted")
        edges = [tuple(plain(x) for x in e) for e in h.get_edges()]
        ws = list(h.get_weights())
        if len(ws) != len(edges):
            ctx.violation(where, f"sample {k}: {len(edges)} hyperedges but {len(ws)} weights")
        for e, wt in zip(edges, ws):
            if not (isinstance(wt, (int, np.integer)) and not isinstance(wt, bool)) or wt <= 0:
                ctx.violation(where, f"sample {k}: weight {wt!r} of {e} is not a positive integer")
        if len({frozenset(e) for e in edges}) != len(edges) or any(len(set(e)) != len(e) for e in edges):
            ctx.violation(where, f"sample {k} repeats a hyperedge (or a node inside one)")
        for e in edges:
            if len(e) < 2:
                ctx.violation(where, f"sample {k} has the hyperedge {e} of size < 2")
            if mode == "model" and len(e) > (case["D"] or N):       # max_hye_size=None: the number of nodes
                ctx.violation(where, f"sample {k} has the hyperedge {e} larger than max_hye_size={case['D'] or N}")
            if not set(e) <= allowed:
                ctx.violation(where, f"sample {k}: hyperedge {e} has a node outside the {'initial hypergraph' if mode == 'hyg' else 'model'}")
        if cap_deg is not None:
            for x, d in count_deg(edges).items():
                if d > cap_deg.get(x, 0):
                    ctx.violation(where, f"sample {k} of sample(deg_seq=...): node {x!r} has degree {d}, conditioned degree {cap_deg.get(x, 0)}")
        if cond_size is not None and case.get("equal_totals", True):
            total = sum(cond_size.values())
            # no two sampled hyperedges coincided: seen on the recorded chain state; a run without recording (or whose
            # routine was not observed) falls back to "as many hyperedges as conditioned" and, for an initial
            # hypergraph with no MCMC step at all, to the initial configuration itself (distinct by construction)
            if k < len(distinct):
                full, why = distinct[k], "no two hyperedges of the chain state it was made from coincide"
            elif mode == "hyg" and case["burn"] == 0 and case["thin"] == 0:
                full, why = True, "burn_in_steps = intermediate_steps = 0, it is made from the initial hypergraph (pairwise distinct hyperedges)"
            else:
                full, why = len(edges) == total, "it has as many hyperedges as conditioned"
            sz = count_sizes(edges)
            for s_, c in sz.items():
                if c > cond_size.get(s_, 0):
                    ctx.violation(where, f"sample {k}: {c} hyperedges of size {s_}, conditioned count {cond_size.get(s_, 0)}")
            if full and sz != cond_size:
                ctx.violation(where, f"sample {k}: {why}, but size counts {sz} != conditioned {cond_size}{lost_weights(trace, k)}")
            if cond_deg is not None:
                dg = count_deg(edges)
                for x, d in dg.items():
                    if d > cond_deg.get(x, 0):
                        ctx.violation(where, f"sample {k}: node {x!r} has degree {d}, conditioned degree {cond_deg.get(x, 0)}")
                if full and any(dg.get(x, 0) != d for x, d in cond_deg.items()):
                    ctx.violation(where, f"sample {k}: {why}, but degrees {dg} != conditioned {cond_deg}{lost_weights(trace, k)}")


def lost_weights(trace, k):
    """explanation for a report: the recorded truncated-Poisson draws of sample k that are no positive integers"""
    if trace is None or k >= len(trace.tp_calls):
        return ""
    rec = trace.tp_calls[k]
    bad = [(i, float(rec["raw"][i]), rec["mean"][i] if i < len(rec["mean"]) else None, rec["unif"][i] if i < len(rec["unif"]) else None)
           for i in range(len(rec["raw"])) if (nat_of(rec["raw"][i]) or 0) < 1]
    if not bad:
        return ""
    return "; truncated-Poisson draws (index, value, mean, uniform) that are no positive integer: " + repr(bad[:4])


def oracle_weights(ctx, case, trace):
    """contract of the truncated Poisson Y = X | X > 0, observed on every recorded call of the REAL function: one
    finite integer >= 1 per mean (the model's weights are max(quantile, 1); a value <= 0 / inf / nan makes `sample`
    drop the hyperedge)"""
    for k, rec in enumerate(trace.tp_calls):
        ctx.count("tp_draws", len(rec["raw"]))
        ctx.count("tp_mean_clipped", sum(1 for m in rec["mean"] if m <= 1.0e-10))
        ctx.count("tp_mean_tiny", sum(1 for m in rec["mean"] if 1.0e-10 < m < 1.0e-6))
        ctx.count("tp_mean_large", sum(1 for m in rec["mean"] if m > 100))
        if rec["quant"] is not None:
            ctx.count("tp_quantile_nonpositive", sum(1 for q in rec["quant"] if not q >= 1))
        bad = [i for i, x in enumerate(rec["raw"]) if (nat_of(x) or 0) < 1]
        if len(rec["raw"]) != len(rec["mean"]):
            ctx.disagree({**case, "sample_no": k}, f"sample_truncated_poisson returned {len(rec['raw'])} values for {len(rec['mean'])} means")
        elif bad:
            ctx.disagree({**case, "sample_no": k}, "sample_truncated_poisson returned a value that is no integer >= 1 "
                         f"(the model clamps every quantile to >= 1){lost_weights(trace, k)}")


def oracle_chain(ctx, case, trace):
    """every yielded configuration keeps per-node degrees and per-size counts of the initial one;
    every step keeps the two sizes and the node multiset of the pair"""
    rec = trace.routine
    if rec is None:
        return
    base = rec["init"] + rec["fixed"]
    d0, s0 = count_deg(base), count_sizes(base)
    for k, y in enumerate(rec["yields"]):
        if count_deg(y) != d0 or count_sizes(y) != s0 or any(len(set(e)) != len(e) for e in y):
            ctx.violation({**case, "sample_no": k}, f"chain state at yield {k} does not keep the degrees / size counts of the initial configuration: {y} vs {base}")


def oracle_matching(ctx, case, trace):
    m = trace.match
    if m is None or "result" not in m:
        return
    cfg = m["result"]
    dim = {int(k): int(v) for k, v in m["dim_seq"] if int(v) > 0}
    if any(k < 2 for k in dim):
        return
    if m["fd"] and not m["fm"]:
        want = {i: int(d) for i, d in enumerate(m["deg_seq"])}
        over = {x: d for x, d in count_deg(cfg).items() if d > want.get(x, 0)}
        if over:
            ctx.violation(case, f"_match_sequences(force_deg_seq alone): nodes used more often than their degree: {over} (degree sequence {m['deg_seq']})")
        left = [x for x, d in enumerate(dict_state(m["dict"], len(want))[1]) if d is not None and d > 0]
        if len(left) > 1:
            ctx.violation(case, f"_match_sequences(force_deg_seq alone) returned although the nodes {left} still have residual degree")
    if m["fm"] or not m["fd"]:
        if count_sizes(cfg) != dim:
            ctx.violation(case, f"_match_sequences: size counts {count_sizes(cfg)} != requested {dim} (flag {m['flag']})")
    if m["flag"] is True and case["mode"] == "seqs" and case.get("equal_totals", True) and m["fd"] and m["fm"]:
        want = {i: int(d) for i, d in enumerate(m["deg_seq"]) if int(d) > 0}
        if count_deg(cfg) != want:
            ctx.violation(case, f"_match_sequences reports matching sequences but node usage {count_deg(cfg)} != degree sequence {want}")
    if m["flag"] is not True and case["mode"] == "seqs" and case.get("equal_totals", True) and m["fd"] and m["fm"]:
        # "realisable by the sampler's greedy construction or not - it says which through its matching_sequences flag":
        # a construction that had to leave the degree sequence used a node of residual degree 0 once more, so a
        # configuration that realises both sequences exactly was built without leaving them - the report for THIS
        # call must be True (a False / None here is the report of an earlier call on the same sampler, or none at all)
        want = {i: int(d) for i, d in enumerate(m["deg_seq"]) if int(d) > 0}
        if count_deg(cfg) == want and count_sizes(cfg) == dim:
            ctx.violation(case, f"the sampler reports matching_sequences={m['flag']} for a degree and a size sequence that its construction "
                          f"realised exactly (initial configuration {cfg}): the report does not describe the call at hand")


def legit_exception(case, t):
    """the only exceptions the sampler may raise inside the property's quantifier: (a) _extract_hye cannot top up
    (fewer degree-0 nodes than missing members), (b) an MCMC step on a configuration with < 2 hyperedges,
    (c) the output stage on a configuration with < 2 hyperedges in total"""
    if t.extracts and "result" not in t.extracts[-1]:
        rec = t.extracts[-1]
        pos = sum(len(v) for k, v in rec["dict"].items() if k > 0)
        zeros = len(rec["dict"].get(0, ()))
        topup = rec["fm"] or not rec["fd"]
        if rec["size"] < 1:
            return True
        if topup:
            return pos < rec["size"] and zeros < rec["size"] - pos
        return not any(k > 0 for k in rec["dict"])      # shrink branch: set.union() of nothing
    if t.match is not None and "result" not in t.match:
        # second phase of force_deg_seq alone: `self.model` (AttributeError) as soon as two nodes keep residual degree
        d = getattr(t, "last_dict", None) or {}
        return bool(t.match["fd"] and not t.match["fm"] and sum(len(v) for k, v in d.items() if k > 0) > 1)
    if t.routine is not None and len(t.routine["init"]) < 2 and (case["burn"] > 0 or case["thin"] > 0):
        return True
    if t.routine is not None and len(t.routine["init"]) + len(t.routine["fixed"]) < 2:
        # 0 or 1 hyperedge in total: the inner model's numerical code raises (np.vectorize on an empty array;
        # scipy returns a 0-d array for a 1-column incidence, `assert second_addend.shape == (E,)`) - no output
        return True
    return False


# ------------------------------------------------------------------------------------------
# one sampler case

def check_case(ctx, drv, case):
    mode = case["mode"]
    t1, t2 = Trace(), Trace()
    r1 = run_sampler(case, t1)
    if r1["exc"] == "timeout" and "limit" not in case:
        # a loaded machine is not a hanging sampler: confirm once with a longer limit before reporting
        case = {**case, "limit": 25}
        t1 = Trace()
        r1 = run_sampler(case, t1)
    r2 = run_sampler(case, t2) if r1["exc"] != "timeout" else r1
    # third run, real uniforms only: a sampler that carries no instrumentation at all
    r3 = run_naked(case) if (r1["exc"] != "timeout" and not case.get("ustream", 0)) else None
    key = repr(sorted((k, repr(v)) for k, v in case.items()))
    changed = any(acc for _, acc in t1.steps) and t1.routine is not None and any(y != t1.routine["init"] + t1.routine["fixed"] for y in t1.routine["yields"])
    ctx.case(key, bool(changed), sample=case)
    ctx.count("mode_" + mode)
    if "universe" in case:
        ctx.count("universe_" + case["universe"])
        ctx.count("hyg_with_history", 1 if case.get("temp") else 0)
    ctx.count("ustream_real" if not case.get("ustream", 0) else "ustream_extreme")
    ctx.count("steps", len(t1.steps))
    ctx.count("accepted", sum(acc for _, acc in t1.steps))
    if r1["exc"] == "timeout" or r2["exc"] == "timeout" or (r3 is not None and r3["exc"] == "timeout"):
        ctx.violation(case, "the sampler did not deliver its samples within the time limit (non-termination guard)")
        ctx.extra["timed_out"] = True
        return
    # -- seed: two samplers, same parameters and seed -> same sequence
    if (r1["out"], r1["exc"] is None) != (r2["out"], r2["exc"] is None):
        src = {}
        for e in t1.log:
            src[e[0]] = src.get(e[0], 0) + 1
        ctx.violation(case, "two samplers built with the same parameters and seed produced different sequences of samples; "
                      f"generator calls by source: {src}, generators were built with default_rng{tuple(t1.rng_seeds)!r} "
                      "(a source other than the sampler's seeded generator feeds the run)")
    if r3 is not None and (r1["out"], r1["exc"] is None) != (r3["out"], r3["exc"] is None):
        ctx.violation({**case, "run": "uninstrumented"},
                      "a sampler without any instrumentation and the recorded sampler, built with the same parameters and seed, "
                      f"produced different sequences of samples: {str(r3['out'])[:300]} ({r3['exc']}) vs {str(r1['out'])[:300]} ({r1['exc']})")
    call = judge(ctx, drv, case, r1, t1, r3)
    if drv is not None and call is not None and call["sets_flag"]:
        # the call on the model's sampler-state record (C16.callStepX), started in a state with a stale report: report,
        # samples and the attribute afterwards - also when the call raised inside _match_sequences
        prev = "callseqs 2,0,0 2,1;3,1 0;1;_;0;1,2 - - -"         # leaves matching_sequences = False
        a = drv.batch(["new", prev, call["line"]])[2]
        parts = a.split(" ")
        if len(parts) < 2 or a == "bad-op":
            ctx.disagree({**case, "line": call["line"]}, f"model answers {a!r}")
        elif parts[1] != STATE_TOK.get(r1["flag"], "?"):
            ctx.disagree({**case, "line": call["line"]}, f"matching_sequences after the call ({'it raised ' + r1['exc'] if r1['exc'] else 'returned'}) "
                         f"is {r1['flag']!r}, the model's sampler state has {parts[1]!r}")
        elif call.get("raised_in_match") and parts[0] != "none":
            ctx.disagree({**case, "line": call["line"]}, f"the call raised inside _match_sequences ({r1['exc']}), the model delivers {a[:200]!r}")
        elif call["complete"] and (parts[0] != call["report"] or len(parts) != 3 or dec_outs(parts[2]) != call["outs"]):
            ctx.disagree({**case, "line": call["line"]}, f"model run of the call differs: {a[:300]!r}, implementation report={call['report']} {call['outs']}")


def judge(ctx, drv, case, r1, t1, r3=None):
    """ONE `sample(...)` call (`case` = its arguments + the sampler's parameters, `r1` = what it delivered, `t1` = the
    recording of this call only, `r3` = the same call on a sampler without instrumentation): the property's clauses on
    the outputs and the replay of the recorded draws on the model.  Returns the `call...` line of this call for the
    replay of a whole session on the model's sampler-state record (None when the run cannot be encoded)."""
    mode = case["mode"]
    if r1["exc"]:
        ctx.count("runs_raising")
        if not legit_exception(case, t1):
            ctx.disagree(case, f"the sampler raised {r1['exc']} although every draw it needs exists (the model returns for every valid draw list)")
    if r1["flag"] is not None:
        ctx.count("flag_true" if r1["flag"] else "flag_false")

    # -- property oracles on the real outputs
    try:
        oracle_outputs(ctx, case, r1, t1, None)
        if r3 is not None:
            # the property's clauses on the un-instrumented run, judged without any recording
            oracle_outputs(ctx, {**case, "equal_totals": case.get("equal_totals", True)},
                           r3, None, None, tag="uninstrumented")
        oracle_weights(ctx, case, t1)
        oracle_chain(ctx, case, t1)
        oracle_matching(ctx, case, t1)
    except Exception as e:  # noqa: BLE001 - the outputs do not even have the shape of a hypergraph
        ctx.violation(case, f"the yielded objects cannot be inspected as weighted hypergraphs: {type(e).__name__}: {e}")
    if drv is None:
        return None

    # -- model replay
    call = None
    try:
        n_y = len(t1.routine["yields"]) if t1.routine else 0
        burn, blocks = split_steps(t1, case["burn"], case["thin"], n_y)
        if r1["exc"] is None and (len(burn) != case["burn"] or any(len(b) != case["thin"] for b in blocks)):
            raise BadTrace(f"{len(burn)} steps before the first block and blocks of {[len(b) for b in blocks]} steps, "
                           f"expected burn_in_steps={case['burn']} and intermediate_steps={case['thin']} per sample")
        n_out = len(r1["out"])
        weights = quantile_tape(t1)
        lines, expect = [], []
        if t1.routine:
            rec = t1.routine
            lines.append(f"chain {hgxv.enc_lists(rec['init'])} {hgxv.enc_lists(rec['fixed'])} {enc_steps(burn)} {enc_blocks(blocks)}")
            expect.append(("cfgs", rec["yields"]))
        if mode == "hyg":
            h0 = r1["h0"]
            nodes = sorted(h0.get_nodes())
            # labels reach the model through an order isomorphism onto naturals (C16_hyg_relabel: the model's answer on the
            # image is the image of its answer); small naturals stand for themselves
            code = ({x: x for x in nodes} if all(type(x) is int and 0 <= x < 2 ** 62 for x in nodes)
                    else {x: 3 + 7 * i for i, x in enumerate(nodes)})
            edges = [[code[x] for x in e] for e in h0.get_edges()]
            lines.append(f"fromhyg {hgxv.enc_list([code[x] for x in nodes])} {hgxv.enc_lists(edges)} {enc_steps(burn)} "
                         f"{enc_blocks(blocks[:n_out])} {hgxv.enc_lists(weights[:n_out])}")
            want = [sorted(((tuple(sorted(code[x] for x in e)), wt) for e, wt in o), key=repr) for o in r1["out"]]
            expect.append(("outs", want, r1["exc"] if n_out < case.get("nsamples", NSAMPLES) else None))
            call = {"line": "call" + lines[-1][4:], "report": "-", "outs": want, "complete": r1["exc"] is None, "sets_flag": False}
            # the generic model on the label VALUES themselves (rationals / opaque strings): C16.sampleFromHygG
            kinds = {isinstance(plain(x), str) for x in nodes}
            if len(kinds) == 1:
                cmd = "fromhygS" if kinds.pop() else "fromhygQ"
                tl = lambda xs: ",".join(val_tok(x) for x in xs) if xs else "_"      # noqa: E731
                lines.append(f"{cmd} {tl(nodes)} {';'.join(tl(e) for e in h0.get_edges())} {enc_steps(burn)} "
                             f"{enc_blocks(blocks[:n_out])} {hgxv.enc_lists(weights[:n_out])}")
                want_t = [sorted((tuple(sorted(val_tok(x) for x in e)), int(wt)) for e, wt in o) for o in r1["out"]]
                expect.append(("outs_tok", want_t, r1["exc"] if n_out < case.get("nsamples", NSAMPLES) else None))
                ctx.count("generic_model_" + cmd)
        elif t1.match is not None:
            m = t1.match
            if mode in ("model", "dimonly") and any(float(x) < 0 for x in m["deg_seq"]):
                # the inner model drew a negative degree (its Gaussian approximation takes the square root of an expected
                # degree that is a rounding-negative zero: nan -> INT_MIN): such a node is in no bucket the construction
                # looks at - no clause of the property is concerned, and the model's degrees are naturals: no replay
                ctx.count("inner_model_negative_degree")
                return None
            if mode == "model":
                bound = case.get("D") or len(case["u"])
                over = sorted(int(k) for k, v in m["dim_seq"] if int(k) > bound)
                if over:
                    # hypothesis of C16_sample_seqs for "at most the maximum size when sampling from the model": the keys of
                    # the size sequence the inner model offers are bounded by max_hye_size (also those with count 0)
                    ctx.disagree(case, f"sampling from the model: the size sequence drawn by the inner model has the sizes {over} beyond "
                                 f"max_hye_size={bound} the sampler was built with (counts {[int(v) for k, v in m['dim_seq'] if int(k) > bound]})")
            deg = ints_of(m["deg_seq"])
            dim = [[int(k), int(v)] for k, v in m["dim_seq"]]
            picks = enc_picks(t1.extracts)
            old_pair = not (m["fd"] and not m["fm"])       # C16.matchSequences / sampleFromSeqs: three flag pairs
            if old_pair:
                lines.append(f"match {hgxv.enc_list(deg)} {hgxv.enc_lists(dim)} {int(m['fd'])} {int(m['fm'])} {hgxv.enc_lists(picks)}")
                if "result" in m:
                    keys, resid = dict_state(m["dict"], len(deg))
                    expect.append(("match", m["result"], bool(m["flag"]), resid, keys))
                else:
                    expect.append(("none",))
            # C16.matchFull: all four flag pairs, and what a raising run leaves in matching_sequences
            lines.append(f"matchr {hgxv.enc_list(deg)} {hgxv.enc_lists(dim)} {int(m['fd'])} {int(m['fm'])} {hgxv.enc_lists(picks)}")
            if "result" in m:
                keys, resid = dict_state(m["dict"], len(deg))
                expect.append(("matchr", m["result"], bool(m["flag"]), resid, keys))
            else:
                expect.append(("matchr_raised", r1["flag"]))
            ctx.count(f"match_flags_{int(m['fd'])}{int(m['fm'])}_{'returned' if 'result' in m else 'raised'}")
            fixed = t1.routine["fixed"] if t1.routine else []
            if old_pair:
              lines.append(f"fromseqs {hgxv.enc_list(deg)} {hgxv.enc_lists(dim)} {int(m['fd'])} {int(m['fm'])} {hgxv.enc_lists(fixed)} "
                         f"{hgxv.enc_lists(picks)} {enc_steps(burn)} {enc_blocks(blocks[:n_out])} {hgxv.enc_lists(weights[:n_out])}")
              if "result" in m:
                expect.append(("flag_outs", bool(r1["flag"]), r1["out"], r1["exc"] if n_out < case.get("nsamples", NSAMPLES) else None))
              else:
                expect.append(("none",))
            tail = f"{hgxv.enc_lists(picks)} {enc_steps(burn)} {enc_blocks(blocks[:n_out])} {hgxv.enc_lists(weights[:n_out])}"
            if mode == "seqs" and m["fd"] and m["fm"] and not fixed:
                line = f"callseqs {hgxv.enc_list(deg)} {hgxv.enc_lists(dim)} {tail}"
            elif mode == "model" and not m["fd"] and not m["fm"]:
                line = f"callmodel {hgxv.enc_list(deg)} {hgxv.enc_lists(dim)} {hgxv.enc_lists(fixed)} {tail}"
            elif mode == "degonly" and m["fd"] and not m["fm"] and not fixed and deg == [int(x) for x in case["deg_seq"]]:
                line = f"calldeg {hgxv.enc_list(deg)} {hgxv.enc_lists(dim)} {tail}"
            elif mode == "dimonly" and not m["fd"] and m["fm"] and not fixed and dim == [[int(k), int(v)] for k, v in case["dim_seq"]]:
                line = f"calldim {hgxv.enc_list(deg)} {hgxv.enc_lists(dim)} {tail}"
            else:
                raise BadTrace(f"sample() in mode {mode} called _match_sequences with force_deg_seq={m['fd']}, force_dim_seq={m['fm']} "
                               f"and {len(fixed)} fixed hyperedges")
            call = {"line": line, "report": str(int(bool(r1["flag"]))), "outs": r1["out"],
                    "complete": r1["exc"] is None and "result" in m, "sets_flag": True, "raised_in_match": "result" not in m}
    except BadTrace as e:
        ctx.disagree(case, f"recorded run does not have the shape the model expects: {e}")
        return None
    except Exception as e:  # noqa: BLE001 - e.g. an output node that is no label of the initial hypergraph
        ctx.disagree(case, f"recorded run cannot be encoded for the model: {type(e).__name__}: {e}")
        return None
    if not lines:
        if r1["exc"] is None:
            ctx.disagree(case, "the sampler returned samples without running _mcmc_routine / _match_sequences")
        return None
    ans = drv.batch(lines)
    for ln, a, ex in zip(lines, ans, expect):
        what = None
        if ex[0] == "none":
            if a != "none":
                what = f"implementation raised ({r1['exc']}) but the model returns {a[:200]!r}"
        elif a == "none" or a == "bad-op":
            # the model stops where the code raised: only acceptable when the code raised inside this stage
            if not (len(ex) > 1 and ex[-1] is not None and ex[0] in ("outs", "flag_outs", "outs_tok")) or a == "bad-op":
                what = f"model answers {a!r}, implementation returned {str(ex[1])[:200]}"
        elif ex[0] == "cfgs":
            got = [[sorted(e) for e in c] for c in dec_cfgs(a)]
            if got != ex[1]:
                what = f"chain states differ: model {got} implementation {ex[1]}"
        elif ex[0] == "outs":
            if dec_outs(a) != ex[1]:
                what = f"samples differ: model {dec_outs(a)} implementation {ex[1]}"
        elif ex[0] == "outs_tok":
            if dec_outs_tok(a) != ex[1]:
                what = f"samples differ from the generic model run on the label values: model {dec_outs_tok(a)} implementation {ex[1]}"
        elif ex[0] == "match":
            cfg_s, flag_s, keys_s, resid_s, unused = a.split(" ")
            got = [sorted(e) for e in hgxv.dec_lists(cfg_s)]
            if (got != ex[1] or (flag_s == "1") != ex[2] or hgxv.dec_list(resid_s) != ex[3] or hgxv.dec_list(keys_s) != ex[4]
                    or unused != "0"):
                what = f"_match_sequences differs: model {a!r} implementation cfg={ex[1]} flag={ex[2]} resid={ex[3]} keys={ex[4]}"
        elif ex[0] == "matchr":
            parts = a.split(" ")
            got = [sorted(e) for e in hgxv.dec_lists(parts[1])] if len(parts) == 6 else None
            if (len(parts) != 6 or parts[0] != "done" or got != ex[1] or (parts[2] == "1") != ex[2] or hgxv.dec_list(parts[4]) != ex[3]
                    or hgxv.dec_list(parts[3]) != ex[4] or parts[5] != "0"):
                what = f"_match_sequences differs: model {a!r} implementation cfg={ex[1]} flag={ex[2]} resid={ex[3]} keys={ex[4]}"
        elif ex[0] == "matchr_raised":
            if a != "raised " + STATE_TOK.get(ex[1], "?"):
                what = (f"_match_sequences raised ({r1['exc']}) and left matching_sequences={ex[1]!r}; model answers {a!r} "
                        "(`raised -` = None, `raised 0` = False)")
        elif ex[0] == "flag_outs":
            flag_s, outs_s = a.split(" ")
            if (flag_s == "1") != ex[1] or dec_outs(outs_s) != ex[2]:
                what = f"samples differ: model flag={flag_s} {dec_outs(outs_s)} implementation flag={ex[1]} {ex[2]}"
        if what:
            ctx.disagree({**case, "line": ln}, what)
    return call


# ------------------------------------------------------------------------------------------
# sessions: several sample(...) calls on ONE sampler object

STATE_TOK = {None: "-", True: "1", False: "0"}
SHARED = ("u", "w", "udiv", "wdiv", "D", "exact", "burn", "thin", "seed", "ustream")


def sub_case(sess, k):
    """call k of a session as a single-call case (the sampler's parameters + this call's arguments)"""
    c = {x: sess[x] for x in SHARED if x in sess}
    c.update({x: v for x, v in sess["calls"][k].items() if x != "same_as"})
    c["nsamples"] = sum(1 for x in sess["schedule"] if x == k)
    return c


class SubCtx:
    """ctx seen by `judge` for call k of a session: every report carries the whole session (that is the replay)"""

    def __init__(self, ctx, sess, k):
        self._ctx, self._sess, self._k = ctx, sess, k

    def _where(self, case):
        w = {**self._sess, "call_no": self._k}
        for x in ("sample_no", "run", "line"):
            if x in case:
                w[x] = case[x]
        return w

    def _what(self, what):
        return f"call {self._k} ({self._sess['calls'][self._k]['mode']}) of a session on one sampler: {what}"

    def violation(self, case, what):
        self._ctx.violation(self._where(case), self._what(what))

    def disagree(self, case, what):
        self._ctx.disagree(self._where(case), self._what(what))

    def __getattr__(self, name):
        return getattr(self._ctx, name)


def make_args(call):
    """the argument objects of one sample(...) call"""
    import numpy as np
    if call["mode"] == "hyg":
        return {"initial_hyg": make_h0(call)}
    return seq_kwargs(call)


def args_intact(call, args):
    """the objects handed to sample(...) still hold what the caller put into them"""
    if call["mode"] == "hyg":
        h0 = args["initial_hyg"]
        lk = call.get("lkind", "num")
        edges = [frozenset(e) for e in h0.get_edges()]
        want = [frozenset(lab_edge(e, lk)) for e in call["edges"]]
        return (len(edges) == len(want) and set(edges) == set(want)
                and set(h0.get_nodes()) == {lab(x, lk) for e in call["edges"] for x in e} | {lab(x, lk) for x in call.get("isolated", [])})
    ok = True
    if "deg_seq" in args:
        ok = ok and [int(x) for x in args["deg_seq"]] == [int(x) for x in call["deg_seq"]]
    if "dim_seq" in args:
        ok = ok and list(args["dim_seq"].items()) == [(int(k), int(v)) for k, v in call["dim_seq"]]
    return ok


def run_session(sess, instrumented):
    """ONE sampler, the calls of `sess`, their generators consumed in the order of `sess['schedule']` (entry k = one
    next() on the generator of call k; `eager`: all generator objects are created before the first next()).
    Returns dict(res=[per call: hs, out, exc, flag, h0], traces=[Trace per call] | None, order=[...], exc=...)."""
    from hypergraphx.generation.hy_mmsbm_sampling import HyMMSBMSampler
    u, w = case_params(sess)
    n = len(sess["calls"])
    res = [{"hs": [], "out": [], "exc": None, "flag": None, "state": []} for _ in range(n)]
    traces = [Trace() for _ in range(n)] if instrumented else None
    build = Trace()
    router = Router(build)
    out = {"res": res, "traces": traces, "order": [], "exc": None, "build": build}
    try:
        with contextlib.ExitStack() as st:
            st.enter_context(time_limit(sess.get("limit", 20)))
            if instrumented:
                st.enter_context(recorded_poisson(router))
                s = build_sampler(router, u, w, sess.get("D"), sess.get("exact", True), sess["burn"], sess["thin"], sess["seed"],
                                  sess.get("ustream", 0))
                st.enter_context(patched_default_rng(router))
            else:
                s = HyMMSBMSampler(u=u.copy(), w=w.copy(), max_hye_size=sess.get("D"), exact_dyadic_sampling=sess.get("exact", True),
                                   burn_in_steps=sess["burn"], intermediate_steps=sess["thin"], seed=sess["seed"])
            gens = [None] * n
            objs = {}
            out["objs"] = objs

            def create(k):
                call = sess["calls"][k]
                root = call.get("same_as", k) if sess.get("share") else k      # `share`: a repeated call gets the SAME objects
                if root not in objs:
                    objs[root] = make_args(call)
                if "initial_hyg" in objs[root]:
                    res[k]["h0"] = objs[root]["initial_hyg"]
                gens[k] = s.sample(**objs[root])
            if sess.get("eager"):
                for k in range(n):
                    create(k)
            for k in sess["schedule"]:
                if res[k]["exc"] is not None:
                    continue                      # its generator is finished (it raised)
                if traces is not None:
                    router.use(traces[k])
                if gens[k] is None:
                    create(k)
                try:
                    h = next(gens[k])
                    res[k]["hs"].append(h)
                    res[k]["out"].append(show_h(h))
                    out["order"].append((k, res[k]["out"][-1]))
                except Timeout:
                    raise
                except StopIteration:
                    res[k]["exc"] = "StopIteration: the generator ended"
                    out["order"].append((k, "exc"))
                except Exception as e:  # noqa: BLE001 - an exception of the sampler is an observation
                    res[k]["exc"] = type(e).__name__ + ": " + str(e)[:120]
                    out["order"].append((k, "exc"))
                res[k]["state"].append(s.matching_sequences)
                if len(res[k]["state"]) == 1:
                    res[k]["flag"] = s.matching_sequences      # the report made by the start of this call
                if traces is not None:
                    router.use(build)
    except Timeout:
        out["exc"] = "timeout"
    except Exception as e:  # noqa: BLE001 - building the sampler / creating a generator object raised
        out["exc"] = type(e).__name__ + ": " + str(e)[:120]
    return out


def check_session(ctx, drv, sess):
    n = len(sess["calls"])
    R1 = run_session(sess, True)
    if R1["exc"] == "timeout" and "limit" not in sess:
        sess = {**sess, "limit": 50}
        R1 = run_session(sess, True)
    R2 = run_session(sess, True) if R1["exc"] != "timeout" else R1
    R3 = run_session(sess, False) if (R1["exc"] != "timeout" and not sess.get("ustream", 0)) else None
    key = repr(sorted((k, repr(v)) for k, v in sess.items()))
    T = R1["traces"]
    changed = [any(acc for _, acc in t.steps) and t.routine is not None and any(y != t.routine["init"] + t.routine["fixed"] for y in t.routine["yields"])
               for t in T]
    delivered = [k for k in range(n) if R1["res"][k]["out"]]
    ctx.case(key, bool(any(changed) and len(delivered) >= 2), sample=sess)
    ctx.count("mode_session")
    ctx.count("session_calls", n)
    for a, b in zip(sess["calls"], sess["calls"][1:]):
        ctx.count(f"session_{a['mode']}_then_{b['mode']}")
    ctx.count("session_interleaved" if sess["schedule"] != sorted(sess["schedule"]) else "session_sequential")
    ctx.count("steps", sum(len(t.steps) for t in T))
    ctx.count("accepted", sum(acc for t in T for _, acc in t.steps))
    if any(R is not None and R["exc"] == "timeout" for R in (R1, R2, R3)):
        ctx.violation(sess, "the sampler did not deliver the samples of the session within the time limit (non-termination guard)")
        ctx.extra["timed_out"] = True
        return
    if R1["exc"]:
        ctx.violation(sess, f"building the sampler / creating the generator objects raised {R1['exc']}")
        return

    # -- seed: two samplers, same parameters and seed, same calls -> same sequence of samples (and reports)
    def seen(R):
        return (R["order"], [r["flag"] for r in R["res"]], R["exc"])
    if seen(R1) != seen(R2):
        ctx.violation(sess, "two samplers built with the same parameters and seed, used for the same sequence of sample(...) calls, "
                      f"produced different samples / reports: {str(seen(R1))[:300]} vs {str(seen(R2))[:300]}")
    if R3 is not None and seen(R1) != seen(R3):
        ctx.violation({**sess, "run": "uninstrumented"},
                      "a sampler without any instrumentation and the recorded sampler, built with the same parameters and seed and used "
                      f"for the same sequence of calls, produced different samples / reports: {str(seen(R3))[:300]} vs {str(seen(R1))[:300]}")

    for R, tag in ((R1, "recorded"), (R3, "uninstrumented")):
        if R is not None:
            for k, a in R.get("objs", {}).items():
                try:
                    ok = args_intact(sess["calls"][k], a)
                except Exception:  # noqa: BLE001
                    ok = False
                if not ok:
                    ctx.disagree({**sess, "call_no": k, "run": tag}, f"call {k} of the session: sample(...) changed the objects it was called with "
                                 "(the model's calls take values; a repeated call with the same objects is conditioned on something else)")

    # -- every call on its own: the property's clauses with the conditioning of THAT call, model replay of its draws
    calls = []
    for k in range(n):
        sub = SubCtx(ctx, sess, k)
        ck = sub_case(sess, k)
        r3 = R3["res"][k] if R3 is not None else None
        ctx.count("session_call_" + ck["mode"])
        if "universe" in ck:
            ctx.count("universe_" + ck["universe"])
        if "sibling" in ck:
            ctx.count("session_sibling_" + ck["sibling"])
        calls.append(judge(sub, drv, ck, R1["res"][k], T[k], r3) if ck["nsamples"] else None)
    if drv is None:
        return

    # -- the session on the model's sampler-state record: the calls in the order in which they were started
    started = []
    for k in sess["schedule"]:
        if k not in started:
            started.append(k)
    if any(calls[k] is None for k in started):
        return                                   # reported by judge already
    ans = drv.batch(["new"] + [calls[k]["line"] for k in started])
    state_known = True
    for k, a in zip(started, ans[1:]):
        c = calls[k]
        parts = a.split(" ")
        if not c["complete"]:
            if c["sets_flag"]:
                # the call raised: _match_sequences was entered (else there is no call line), so the model's sampler state
                # is the attribute the exception left behind - None or False when it came from inside _match_sequences
                state_known = True
                real_state = R1["res"][k]["state"][0]
                where = {**sess, "call_no": k, "line": c["line"]}
                if len(parts) < 2 or a == "bad-op":
                    ctx.disagree(where, f"call {k} of the session: model answers {a[:200]!r}")
                elif c.get("raised_in_match") and parts[0] != "none":
                    ctx.disagree(where, f"call {k} of the session raised inside _match_sequences ({R1['res'][k]['exc']}), the model delivers {a[:200]!r}")
                elif parts[1] != STATE_TOK.get(real_state, "?"):
                    ctx.disagree(where, f"call {k} of the session raised ({R1['res'][k]['exc']}): matching_sequences afterwards is {real_state!r}, "
                                 f"the model's sampler state has {parts[1]!r}")
            continue
        where = {**sess, "call_no": k, "line": c["line"]}
        if parts[0] == "none" or a == "bad-op" or len(parts) != 3:
            ctx.disagree(where, f"call {k} of the session: model answers {a[:200]!r}, implementation delivered {str(c['outs'])[:200]}")
            continue
        if c["sets_flag"]:
            state_known = True
        rep, state, outs_s = parts
        real_state = R1["res"][k]["state"][0]
        if rep != c["report"] or dec_outs(outs_s) != c["outs"]:
            ctx.disagree(where, f"call {k} of the session differs from the model run on the same draws: model report={rep} {dec_outs(outs_s)}, "
                         f"implementation report={c['report']} {c['outs']}")
        elif state_known and state != STATE_TOK.get(real_state, "?"):
            ctx.disagree(where, f"call {k} of the session: matching_sequences after the start of the call is {real_state!r}, the model's "
                         f"sampler state has {state!r}")


UNIVERSES = ["ids", "near", "look", "lookfloor", "dense", "neglook", "float", "mix", "floatids", "big", "neg", "sparse", "str", "strorder",
             "numstr", "frac", "np", "bool"]
BIG_BASES = [2 ** 31, 2 ** 32, 2 ** 53, 2 ** 53, 2 ** 63, 2 ** 63, 2 ** 64, 2 ** 70, 10 ** 30]


def distinct_by_value(toks, lkind):
    seen, out = set(), []
    for t in toks:
        v = lab(t, lkind)
        if v not in seen:
            seen.add(v)
            out.append(t)
    return out


def gen_universe(rng, n, kind=None):
    """n pairwise different, mutually comparable node labels as JSON tokens + how tokens become objects (`lab`).  One
    universe per comparable TYPE a user can label nodes with - a label's RANK among the labels (= the sampler's internal
    id) must never be mistaken for its VALUE:
      ids        0..n-1                       near       1..n / 0..n-2 and one label off / 0,2,..,n
      look       min 0 and max n-1, non-integer floats in between (n >= 3)
      lookfloor  i + eps_i: floor (or rounding) of the sorted labels gives 0..n-1
      dense      fractions of the ids: 0, 1/d, 2/d, ... (min 0, gaps below 1), sometimes shifted
      neglook    small ints around the id range with negatives (max = n-1 or min = 0 without being the ids)
      float      non-integer floats (negative, tiny, large)         mix  ints next to floats (some integer-valued)
      floatids   the ids (or a shift of them) written as floats, all or some
      big        ints around 2^31 .. 2^70 (consecutive: they differ beyond float precision), next to small / negative ints / floats
      neg        negative ints, also below -2^63                   sparse  sparse non-negative ints
      str / strorder (upper/lower case, prefixes, '', blanks, non-ASCII) / numstr (numeric strings: '10' < '9', the ids as strings)
      frac       Fractions (an object array in the encoder)       np  numpy scalars       bool  False / True next to ints"""
    kind = kind or rng.choice(UNIVERSES)
    lk = "num"
    if kind in ("look", "lookfloor") and n < 3:
        kind = "near"
    if kind == "ids":
        toks = list(range(n))
    elif kind == "near":
        toks = rng.choice([[x + 1 for x in range(n)], list(range(n - 1)) + [n + rng.randint(0, 3)], [0] + [x + 2 for x in range(n - 1)],
                           [x - 1 for x in range(n)]])
    elif kind == "look":
        inner = set()
        while len(inner) < n - 2:
            x = rng.choice([rng.randint(1, 4 * (n - 1) - 1) / 4, rng.randint(1, 10 * (n - 1) - 1) / 10, rng.randint(1, max(1, n - 2))])
            if 0 < x < n - 1:
                inner.add(x)
        inner = sorted(inner)
        if all(float(x) == int(x) for x in inner):
            inner[rng.randrange(len(inner))] += rng.choice([0.5, 0.25, -0.5, 0.1])
        ends = rng.choice([(0, n - 1), (0, n - 1), (0.0, float(n - 1)), (0, float(n - 1))])
        toks = [ends[0]] + [int(x) if float(x) == int(x) and rng.random() < 0.5 else float(x) for x in inner] + [ends[1]]
        if rng.random() < 0.2:                  # only one end looks like the ids
            toks[rng.choice([0, -1])] = rng.choice([-0.5, n - 0.5, n + 1, -2])
    elif kind == "lookfloor":
        eps = [rng.choice([0, 0, 0.25, 0.5, 0.75, 0.1, 0.9]) for _ in range(n)]
        if rng.random() < 0.5:
            eps = [rng.choice([0, 0, 0.25, -0.25, 0.4, -0.4]) for _ in range(n)]      # rounding gives the ids
        if not any(eps):
            eps[rng.randrange(n)] = 0.5
        toks = [i if e == 0 else i + e for i, e in enumerate(eps)]
    elif kind == "dense":
        d = rng.choice([2, 4, 4, 8, 10, 5])
        sh = rng.choice([0, 0, 0, 1, -1, 0.5])
        toks = [sh + k / d for k in range(n)]
        toks = [int(x) if x == int(x) and rng.random() < 0.5 else x for x in toks]
    elif kind == "neglook":
        lo = -rng.randint(1, 3)
        toks = sorted(rng.sample(range(lo, n + 2), n))
        r = rng.random()
        if r < 0.4:                             # max = n-1, min negative
            toks = sorted(rng.sample(range(lo, n - 1), n - 1)) + [n - 1] if n - 1 - lo >= n - 1 else toks
            if toks[0] >= 0:
                toks[0] = lo
        elif r < 0.6:                           # sum of the labels = sum of the ids
            toks = [-1] + list(range(1, n - 1)) + [n] if n >= 3 else toks
    elif kind == "float":
        pool = [k / 4 for k in range(-9, 40) if k % 4] + [k / 10 for k in range(1, 50) if k % 10] + [k + 1 / 3 for k in range(6)] + \
               [-k / 8 for k in range(1, 30, 2)] + [1.0e-3, 2.5e-7, 1.0e6 + 0.5, 1.0e15 + 0.5, -1.0e9 - 0.25, 1.0e300, 5.0e-324]
        toks = rng.sample(pool, n)
    elif kind == "mix":
        pool = list(range(-3, 12)) + [k / 2 for k in range(-5, 20)] + [float(k) for k in range(0, 12, 3)] + [0.1, 2.5, 1.0e3, 40, 41.0]
        toks = rng.sample(pool, 3 * n)
    elif kind == "floatids":
        sh = rng.choice([0, 0, 0, 1, 5])
        allf = rng.random() < 0.5
        toks = [float(i + sh) if (allf or rng.random() < 0.5) else i + sh for i in range(n)]
    elif kind == "big":
        b = rng.choice(BIG_BASES)
        r = rng.random()
        toks = [b + d for d in rng.sample(range(-3, 6), rng.randint(2, min(n, 9)))]
        if r < 0.3:
            toks += [rng.choice(BIG_BASES) + d for d in range(-1, 3)]
        extra = list(range(0, 9)) + [-1, -5, -2 ** 63, -2 ** 63 - 1, -2 ** 53 - 1]
        if r > 0.6:
            extra += [0.5, 2.5, -0.25, 1.0e3, 7.0]
        toks += rng.sample(extra, n)
        rng.shuffle(toks)
    elif kind == "neg":
        toks = rng.sample(list(range(-40, 0)) + [-2 ** 63 - 1, -2 ** 63, -2 ** 53 - 1, -2 ** 53, -2 ** 31, -10 ** 20], n)
        if rng.random() < 0.3:
            toks[0] = rng.choice([0, 3])
    elif kind == "sparse":
        toks = rng.sample(range(0, 60), n) if rng.random() < 0.7 else rng.sample(range(0, 5000, 7), n)
    elif kind == "str":
        lk = "str"
        toks = rng.sample([chr(97 + i) * rng.randint(1, 2) for i in range(20)] + ["E1", "N0", "Z"], min(23, 2 * n))
    elif kind == "strorder":
        lk = "str"
        toks = rng.sample(["a", "B", "aa", "ab", "b", "A", "Z", "z", "", " ", "a b", "\u00e9", "e", "f", "Ab", "aB", "_", "~", "node", "Node",
                           "node10", "node9", "x" * 30], min(23, 2 * n))
    elif kind == "numstr":
        lk = "str"
        if rng.random() < 0.4:
            sh = rng.choice([0, 0, 1, 8])
            toks = [str(i + sh) for i in range(n)]              # the ids as strings ('10' < '9' when they reach 10)
        else:
            toks = rng.sample(["0", "1", "2", "9", "10", "11", "100", "-1", "1.5", "01", "1e3", "20", "3", "007", "0.5", "+1"], min(16, 2 * n))
    elif kind == "frac":
        lk = "frac"
        toks = rng.sample(["1/2", "3/2", "7/3", "-1/3", "2", "5/4", "0", "3", "1", "22/7", "-5", "1/3", "2/3", "10/3", "1/1000000007"], min(15, 2 * n))
    elif kind == "np":
        lk = "np"
        toks = rng.choice([rng.sample(range(0, 60), n), list(range(n)), [k / 4 for k in rng.sample(range(-8, 40), n)],
                           [0] + [i + 0.5 for i in range(n - 2)] + [n - 1] if n >= 3 else [1, 2],
                           rng.sample(range(2 ** 40, 2 ** 40 + 50), n)])
    else:
        kind, lk = "bool", "bool"
        toks = rng.choice([[0, 1], [1], [0]]) + rng.sample(range(2, 24), n)
        if rng.random() < 0.3:
            toks = list(range(n))               # False, True, 2, 3, ...: equal to the ids
    toks = distinct_by_value(toks, lk)[:n]
    if len(toks) < n:                           # cannot happen with the pools above; keep the case well-formed anyway
        toks = list(range(n))
        lk = "num"
    rng.shuffle(toks)
    return toks, lk, kind


def gen_hyg_edges(rng, toks, lkind, n_edges):
    """hyperedges over the tokens: node order inside a hyperedge and order of the hyperedges are random (labels are first met
    in an order that is not their sorted order); in numeric universes an integer-valued label may be written as an int in one
    hyperedge and as an equal float in another (one node: equal keys)"""
    edges, seen = [], set()
    for _ in range(n_edges * 3):
        size = min(len(toks), rng.choice([2, 2, 2, 3, 3, 4, 5]))
        e = rng.sample(toks, size)
        key = frozenset(lab(x, lkind) for x in e)
        if key not in seen:
            seen.add(key)
            edges.append([alt_numeric(rng, x) if lkind == "num" else x for x in e])
        if len(edges) == n_edges:
            break
    return edges


def alt_numeric(rng, x):
    if isinstance(x, bool) or rng.random() > 0.12:
        return x
    if isinstance(x, int) and abs(x) <= 2 ** 53:
        return float(x)
    if isinstance(x, float) and x == int(x) and abs(x) <= 2 ** 53:
        return int(x)
    return x


def gen_initial(rng, n, kind=None):
    """the `initial_hyg` part of a case: label universe, hyperedges, isolated nodes, history (temporary items)"""
    toks, lk, kind = gen_universe(rng, n, kind)
    edges = gen_hyg_edges(rng, toks, lk, rng.randint(2, 8))
    used = {lab(x, lk) for e in edges for x in e}
    iso = [x for x in toks if lab(x, lk) not in used and rng.random() < 0.5]
    part = {"edges": edges, "isolated": iso, "lkind": lk, "universe": kind}
    if rng.random() < 0.3:
        # history: a temporary hyperedge (over present labels and, mostly, one more label of the same universe), removed again
        more, lk2, _ = gen_universe(rng, n + 2, kind)
        fresh = [x for x in more if lk2 == lk and lab(x, lk) not in {lab(y, lk) for y in toks}][:rng.choice([0, 1, 1, 2])]
        te = rng.sample(toks, min(len(toks), rng.randint(1, 2))) + fresh
        have = {frozenset(lab(x, lk) for x in e) for e in edges}
        if len(te) >= 2 and frozenset(lab(x, lk) for x in te) not in have and len({lab(x, lk) for x in te}) == len(te):
            part["temp"] = [te]
    return part


# in sessions the look-alikes of the ids matter most (an earlier call's encoder / a cached decision must not leak)
SESSION_UNIVERSES = UNIVERSES + ["ids", "ids", "near", "look", "lookfloor", "neglook", "floatids", "numstr", "str", "sparse"]


def sibling_initial(rng, prev, n_max, flavour=None):
    """another initial hypergraph for the SAME sampler that a cheap signature cannot tell from `prev` (an earlier call's): the same
    number of nodes with the same smallest and largest label but other labels in between (`ends`), the same labels but other
    hyperedges (`labels`), every label moved by one (`shift`), or just the same number of nodes from another universe (`count`)"""
    lk = prev["lkind"]
    toks = distinct_by_value([x for e in prev["edges"] for x in e] + list(prev["isolated"]), lk)
    n = len(toks)
    flavour = flavour or rng.choice(["ends", "ends", "labels", "shift", "count"])
    new = None
    if flavour in ("ends", "shift") and lk == "num" and n >= 3 and all(math.isfinite(x) for x in toks):
        vals = sorted(toks)
        if flavour == "shift":
            new = [x + 1 for x in vals]
        else:
            lo, hi = vals[0], vals[-1]
            cands = set()
            if isinstance(lo, int) and isinstance(hi, int):
                cands |= {lo + ((hi - lo) * k) // 16 for k in range(1, 16)} | {lo + 1, lo + 2, hi - 1, hi - 2}
            if abs(lo) < 2 ** 40 and abs(hi) < 2 ** 40:
                cands |= {lo + (hi - lo) * k / 16 for k in range(1, 16)} | {lo + (hi - lo) * k / 10 for k in range(1, 10)}
            cands = [x for x in distinct_by_value(sorted(cands), lk) if lo < x < hi]
            fresh = [x for x in cands if x not in set(vals)]
            pool = fresh if len(fresh) >= n - 2 else cands
            if len(pool) >= n - 2 and fresh:
                inner = rng.sample(pool, n - 2)
                if all(x in set(vals) for x in inner):
                    inner[0] = fresh[0] if fresh[0] not in inner else inner[0]
                new = [lo] + inner + [hi]
                if len(distinct_by_value(new, lk)) != n:
                    new = None
    if new is None and flavour == "count" and 3 <= n <= n_max:
        new, lk, kind = gen_universe(rng, n)
        part_kind = kind
    elif new is None:
        new, part_kind = list(toks), prev.get("universe", "?")        # the same labels, other hyperedges
    else:
        part_kind = prev.get("universe", "?")
    rng.shuffle(new)
    edges = gen_hyg_edges(rng, new, lk, rng.randint(2, 7))
    used = {lab(x, lk) for e in edges for x in e}
    iso = [x for x in new if lab(x, lk) not in used]                    # all labels stay nodes: the count is the same
    return {"edges": edges, "isolated": iso, "lkind": lk, "universe": part_kind, "sibling": flavour}


def add_large_edge(rng, c, D):
    """one more hyperedge of size > D for the initial hypergraph of call `c` (when it has more than D nodes)"""
    lk = c["lkind"]
    pool = distinct_by_value([x for e in c["edges"] for x in e] + list(c["isolated"]), lk)
    have = {frozenset(lab(x, lk) for x in e) for e in c["edges"] + c.get("temp", [])}
    if len(pool) <= D:
        return False
    e = rng.sample(pool, rng.randint(D + 1, len(pool)))
    if frozenset(lab(x, lk) for x in e) in have:
        return False
    c["edges"] = [list(x) for x in c["edges"]] + [e]
    used = {lab(x, lk) for x in e}
    c["isolated"] = [x for x in c["isolated"] if lab(x, lk) not in used]
    return True


def zoo_sessions():
    """fixed sessions, one per look-alike universe: an initial hypergraph with its own labels and a hyperedge larger than
    max_hye_size, then - same sampler - sampling from the model, matching sequences, another initial hypergraph, the model again
    (parameters for which the model draws 15-20 hyperedges on 6 nodes)"""
    import random
    for i, kind in enumerate(["look", "numstr", "neglook", "big", "ids", "lookfloor", "frac", "floatids"]):
        rng = random.Random(2000 + i)
        N, D = 6, 3
        first = {"mode": "hyg", **gen_initial(rng, 6, kind), "weighted": False}
        for _ in range(5):
            if add_large_edge(rng, first, D):
                break
        if i % 2 == 0:
            other = {"mode": "hyg", **gen_initial(rng, rng.randint(3, 6), UNIVERSES[(3 * i + 1) % len(UNIVERSES)]), "weighted": i % 3 == 0}
        else:   # a sibling of the first one: same count, same smallest / largest label (numeric universes), else same labels
            other = {"mode": "hyg", **sibling_initial(rng, first, N, "ends"), "weighted": False}
        seqs = {"mode": "seqs", "deg_seq": [2, 2, 1, 1, 2, 0], "dim_seq": [[3, 2], [2, 1]], "equal_totals": True, "rescale": False,
                "ddtype": DDTYPES[i % len(DDTYPES)]}
        calls = [first, {"mode": "model"}, seqs, other, {"mode": "model"}]
        schedule = [0, 1, 2, 3, 4, 4] if i % 2 == 0 else [0, 3, 1, 0, 4, 2, 3, 1]
        yield {"mode": "session", "u": [[3 + (k % 3), 1 + (k % 2)] for k in range(N)], "w": [[8, 1], [1, 6]], "udiv": 4, "wdiv": 8,
               "D": D, "exact": i % 2 == 0, "burn": 1, "thin": 1, "seed": 5 + i, "ustream": 0, "calls": calls, "schedule": schedule,
               "eager": i % 4 == 3, "share": False, "zoo": kind}


def gen_session(rng):
    """ONE sampler, 2-4 sample(...) calls of all conditioning kinds in every order (initial hypergraphs with their own
    label sets, degree/size sequences matching or not, sampling from the model), generators consumed one after the
    other or interleaved"""
    N = rng.randint(4, 9)
    u, w = gen_uw(rng, N)
    n_calls = rng.choice([2, 2, 3, 3, 4])
    calls = []
    for _ in range(n_calls):
        kind = rng.choice(["hyg", "hyg", "seqs", "seqs", "model"])
        if kind == "hyg":
            n = rng.randint(3, N)
            earlier = [c for c in calls if c["mode"] == "hyg"]
            if earlier and rng.random() < 0.45:
                calls.append({"mode": "hyg", **sibling_initial(rng, rng.choice(earlier), N), "weighted": rng.random() < 0.15})
            else:
                calls.append({"mode": "hyg", **gen_initial(rng, n, rng.choice(SESSION_UNIVERSES)), "weighted": rng.random() < 0.15})
        elif kind == "seqs":
            edges = gen_edges(rng, list(range(N)), rng.randint(2, 8))
            deg = [0] * N
            for e in edges:
                for x in e:
                    deg[x] += 1
            if rng.random() < 0.45:
                total = sum(deg)                                  # same total, skewed: usually not realisable greedily
                deg = [0] * N
                for _ in range(total):
                    deg[min(N - 1, int(rng.random() ** 2 * N))] += 1
            dim = list(count_sizes(edges).items())
            rng.shuffle(dim)
            if rng.random() < 0.15:
                deg, dim = hub_sequences(rng, N)
            calls.append({"mode": "seqs", "deg_seq": deg, "dim_seq": [[k, v] for k, v in dim], "equal_totals": True,
                          "rescale": rng.random() < 0.1, "ddtype": rng.choice(DDTYPES)})
        else:
            calls.append({"mode": "model"})
    if rng.random() < 0.35:
        j = rng.randrange(len(calls))                              # the same call once more, later on the same sampler
        calls.insert(rng.randint(j + 1, len(calls)), {**{k: v for k, v in calls[j].items() if k != "same_as"}, "same_as": j})
        for c in calls:                                             # positions moved by the insertion
            if "same_as" in c:
                c["same_as"] = j
    D = rng.randint(3, min(5, N)) if rng.random() < 0.6 else None
    carry = N >= 5 and rng.random() < 0.2
    if carry:
        # what an initial-hypergraph call may leave behind on the long-lived sampler / inner model: the first call is conditioned on
        # an initial hypergraph that is larger in every respect than what the sampler was built for (hyperedges beyond max_hye_size,
        # its own labels), the second samples from the model - with parameters for which the model does draw hyperedges
        D = 3
        if calls[0]["mode"] != "hyg" or "same_as" in calls[0] or any(c.get("same_as") == 0 for c in calls):
            calls = [{"mode": "hyg", **gen_initial(rng, rng.randint(5, N), rng.choice(SESSION_UNIVERSES)), "weighted": False}] + \
                    [c for c in calls if "same_as" not in c]
        calls.insert(1, {"mode": "model"})
        for c in calls:
            if "same_as" in c:
                c["same_as"] += 1
    if D is not None:
        # an initial hypergraph may hold hyperedges larger than max_hye_size (its chain only keeps the sizes it finds); a later
        # call that samples from the model on the same sampler is still bound by max_hye_size
        for i, c in enumerate(calls):
            if (c["mode"] == "hyg" and "same_as" not in c and any(d["mode"] == "model" for d in calls[i + 1:])
                    and (rng.random() < 0.7 or (carry and i == 0))):
                if add_large_edge(rng, c, D):
                    for d in calls:
                        if d.get("same_as") == i:
                            d["edges"], d["isolated"] = [list(x) for x in c["edges"]], list(c["isolated"])
    per = [rng.choice([1, 2, 2, 3]) for _ in calls]
    schedule = [k for k, c in enumerate(per) for _ in range(c)]
    if rng.random() < 0.5:
        rng.shuffle(schedule)
    return {"mode": "session", "u": u, "w": w, "D": D,
            "exact": rng.random() < 0.6, "burn": rng.choice([0, 1, 5, 5, 40]), "thin": rng.choice([0, 1, 5, 40]),
            "seed": 0 if rng.random() < 0.06 else rng.randint(0, 10**6), **({} if carry else gen_magnitude(rng, large=False)),
            **gen_streams(rng), "calls": calls, "schedule": schedule, "eager": rng.random() < 0.3, "share": rng.random() < 0.5}


def witness_sessions():
    """D48 (fixed): a call whose sequences the greedy construction cannot realise (report False), then - same sampler -
    a call whose sequences it realises exactly: the unrepaired `_match_sequences` never reset `matching_sequences`
    and the second call reported False as well.  Regression: must pass."""
    base = {"mode": "session", "u": [[8]] * 4, "w": [[8]], "D": None, "exact": True, "burn": 0, "thin": 1, "seed": 1, "ustream": 0}
    bad = {"mode": "seqs", "deg_seq": [4, 1, 1, 0], "dim_seq": [[2, 3]], "equal_totals": True, "rescale": False}
    good = {"mode": "seqs", "deg_seq": [2, 2, 1, 1], "dim_seq": [[3, 2]], "equal_totals": True, "rescale": False}
    yield {**base, "calls": [bad, good], "schedule": [0, 1], "eager": False, "witness": "D48"}
    yield {**base, "calls": [good, bad, good], "schedule": [0, 1, 2, 0, 2], "eager": True, "witness": "D48"}


# ------------------------------------------------------------------------------------------
# direct calls of the building blocks

def direct_reshuffle(ctx, drv, rng):
    import numpy as np
    from hypergraphx.generation.hy_mmsbm_sampling import HyMMSBMSampler
    n = rng.randint(2, 9)
    h1 = set(rng.sample(range(n + 3), rng.randint(1, min(6, n))))
    h2 = set(rng.sample(range(n + 3), rng.randint(1, min(6, n))))
    seed = rng.randint(0, 10**6)
    case = {"mode": "reshuffle", "h1": sorted(h1), "h2": sorted(h2), "seed": seed}
    tr = Trace()
    s = HyMMSBMSampler(u=np.ones((n + 3, 1)), w=np.ones((1, 1)), seed=seed)
    s._rng = hgxv.RngProxy(s._rng, tr.log, "own")
    try:
        with time_limit(5):
            a, b = s._pairwise_reshuffle(set(h1), set(h2))
        got = [sorted(int(x) for x in a), sorted(int(x) for x in b)]
    except Timeout:
        ctx.violation(case, "_pairwise_reshuffle did not return")
        return
    except Exception as e:  # noqa: BLE001
        got = None
        case["exc"] = type(e).__name__
    ctx.case(repr(case), got is not None)
    ctx.count("direct_reshuffle")
    if got is not None:
        if len(got[0]) != len(h1) or len(got[1]) != len(h2) or sorted(got[0] + got[1]) != sorted(list(h1) + list(h2)):
            ctx.violation(case, f"_pairwise_reshuffle({sorted(h1)}, {sorted(h2)}) = {got}: sizes / node multiset of the pair not kept")
    if drv is None:
        return
    try:
        pick = check_choice(tr.log[0])[1] if tr.log else []
    except BadTrace as e:
        ctx.disagree(case, str(e))
        return
    a = drv.ask(f"reshuffle {hgxv.enc_list(sorted(h1))} {hgxv.enc_list(sorted(h2))} {hgxv.enc_list(pick)}")
    want = "none" if got is None else hgxv.enc_lists(got)
    if a != want:
        ctx.disagree(case, f"_pairwise_reshuffle: model {a!r}, implementation {want!r} (pick {pick})")


def direct_dict(ctx, drv, rng):
    import numpy as np
    from hypergraphx.generation.hy_mmsbm_sampling import HyMMSBMSampler
    deg = [rng.choice([0, 0, 1, 1, 2, 3, 5]) for _ in range(rng.randint(0, 9))]
    case = {"mode": "dict", "deg_seq": deg}
    try:
        d = HyMMSBMSampler._deg_seq_to_dict(np.array(deg, dtype=int))
        got = hgxv.enc_lists([[int(k)] + sorted(int(x) for x in v) for k, v in d.items()])
    except Exception as e:  # noqa: BLE001
        got = "exc " + type(e).__name__
    ctx.case(repr(case), True)
    ctx.count("direct_dict")
    want = {}
    for i, x in enumerate(deg):
        want.setdefault(x, []).append(i)
    if got != hgxv.enc_lists([[k] + v for k, v in want.items()]):
        ctx.violation(case, f"_deg_seq_to_dict({deg}) = {got}: not the nodes grouped by degree")
    if drv is not None:
        a = drv.ask(f"dict {hgxv.enc_list(deg)}")
        if a != got:
            ctx.disagree(case, f"_deg_seq_to_dict: model {a!r}, implementation {got!r}")


def direct_extract(ctx, drv, rng):
    import numpy as np
    from hypergraphx.generation.hy_mmsbm_sampling import HyMMSBMSampler
    n = rng.randint(1, 8)
    resid = [rng.choice([0, 0, 1, 1, 2, 3, 4]) for _ in range(n)]
    size = rng.randint(0, 6) if rng.random() < 0.1 else rng.randint(1, 5)
    fd, fm = rng.random() < 0.5, rng.random() < 0.5
    seed = rng.randint(0, 10**6)
    stale = sorted({rng.randint(0, 5) for _ in range(rng.choice([0, 0, 1, 2]))})
    case = {"mode": "extract", "resid": resid, "size": size, "fd": fd, "fm": fm, "seed": seed, "stale": stale}
    tr = Trace()
    s = HyMMSBMSampler(u=np.ones((n, 1)), w=np.ones((1, 1)), seed=seed)
    s._rng = hgxv.RngProxy(s._rng, tr.log, "own")
    d = HyMMSBMSampler._deg_seq_to_dict(np.array(resid, dtype=int))
    for k in case["stale"]:
        d.setdefault(k, set())       # a key whose set has become empty (as left behind by earlier extractions)
    keys0 = [int(k) for k in d.keys()]
    got = None
    try:
        with time_limit(5):
            r = s._extract_hye(d, size, fd, fm)
        keys2, res2 = dict_state(d, n)
        got = (sorted(int(x) for x in r), res2, s.matching_sequences is False, keys2)
    except Timeout:
        ctx.violation(case, "_extract_hye did not return")
        return
    except Exception as e:  # noqa: BLE001
        case["exc"] = type(e).__name__
    ctx.case(repr(case), got is not None)
    ctx.count("direct_extract")
    if got is not None:
        hye, res2, exhausted, _ = got
        # what the step promises: chosen nodes are distinct, positive-degree nodes lose exactly one unit,
        # nobody else changes; without exhaustion the hyperedge has the requested size
        ok = len(set(hye)) == len(hye) and all(0 <= x < n for x in hye)
        if not exhausted:
            ok = ok and len(hye) == size and all(resid[x] > 0 for x in hye)
        if ok and None not in res2:
            for x in range(n):
                dec = 1 if (x in hye and resid[x] > 0) else 0
                ok = ok and res2[x] == resid[x] - dec
        else:
            ok = False
        if not ok:
            ctx.violation(case, f"_extract_hye(resid={resid}, size={size}, force_deg={fd}, force_dim={fm}) = {hye}, residual degrees {res2}, exhausted={exhausted}")
    if drv is None:
        return
    try:
        picks = enc_picks([{"draws": tr.log}])
    except BadTrace as e:
        ctx.disagree(case, str(e))
        return
    a = drv.ask(f"extract {hgxv.enc_list(keys0)} {hgxv.enc_list(resid)} {size} {int(fd)} {int(fm)} {hgxv.enc_lists(picks)}")
    want = "none" if got is None else f"{hgxv.enc_list(got[0])} {hgxv.enc_list(got[3])} {hgxv.enc_list(got[1])} {int(got[2])} 0"
    if a != want:
        ctx.disagree(case, f"_extract_hye: model {a!r}, implementation {want!r} (picks {picks})")


# ------------------------------------------------------------------------------------------
# generators

def gen_hard_uw(rng, N, rounded=False):
    """hard communities: one-hot memberships and a diagonal affinity matrix - every hyperedge without two nodes of
    the same community has the Poisson parameter 0 exactly (`rounded`: 3-5 communities and a wide range of values,
    meant for divisors that are no powers of two - the parameters are then rounded sums)"""
    K = rng.choice([3, 3, 4, 5]) if rounded else rng.choice([2, 3, 3, 4])
    vals = [1, 3, 7, 10, 19, 27, 30, 33, 61, 99, 270] if rounded else [1, 1, 8, 8, 3, 5, 7, 19, 27]
    u = [[0] * K for _ in range(N)]
    for i, row in enumerate(u):
        row[i % K if rng.random() < 0.5 else rng.randrange(K)] = rng.choice(vals)
    if rng.random() < 0.15:
        u[rng.randrange(N)] = [0] * K            # a node that belongs to no community
    w = [[0] * K for _ in range(K)]
    for a in range(K):
        w[a][a] = rng.randint(1, 24)
    return u, w


def gen_magnitude(rng, large=True):
    """divisors of the integer matrices: Poisson means from (far) below the 1e-10 clip up to the thousands
    (`large=False` when the model itself draws the sequences: the number of hyperedges grows with the parameters)"""
    r = rng.random()
    if r < 0.5:
        return {}
    if r < 0.62:
        # not dyadic: products and sums of the parameters are rounded (the closed form of the Poisson parameters
        # cancels to a tiny negative number instead of 0 for some hyperedges without two nodes of a common community)
        if not large:
            # the model draws the sequences itself: u <= 16/7, w <= 2 (with u = 16/3 it draws thousands of hyperedges
            # on 8 nodes and one sample takes half a minute - a slow harness case, not a hanging sampler)
            return {"udiv": rng.choice([10, 7, 100]), "wdiv": rng.choice([8, 10])}
        return {"udiv": rng.choice([10, 7, 3, 100]), "wdiv": rng.choice([8, 10, 3])}
    if r < 0.74:
        if not large:
            return {"udiv": 16}
        return {"udiv": 1, "wdiv": rng.choice([1, 8])}                       # large means, weights in the hundreds
    if r < 0.86:
        return {"udiv": 2 ** rng.choice([6, 10, 14]), "wdiv": 8}             # means 1e-3 .. 1e-9: tiny, not clipped
    return {"udiv": 2 ** rng.choice([20, 30, 40]), "wdiv": rng.choice([8, 2 ** 20])}    # below the clip


def gen_streams(rng):
    return {"ustream": rng.choice([0, 0, 0, 1, 2, 3])}


def gen_uw(rng, N):
    if rng.random() < 0.3 and N >= 2:
        return gen_hard_uw(rng, N)
    K = rng.randint(1, 3)
    scale = rng.choice([2, 4, 8, 16])
    if rng.random() < 0.6 and K > 1:
        # communities: most of a node's mass on one of them -> proposals mixing communities are often rejected
        u = [[0] * K for _ in range(N)]
        for row in u:
            row[rng.randrange(K)] = rng.randint(1, scale)
            if rng.random() < 0.25:
                row[rng.randrange(K)] += 1
    else:
        u = [[rng.randint(0, scale) for _ in range(K)] for _ in range(N)]
    for row in u:
        if not any(row) and rng.random() < 0.85:
            row[rng.randrange(K)] = 1
    w = [[0] * K for _ in range(K)]
    for a in range(K):
        for b in range(a, K):
            w[a][b] = w[b][a] = rng.randint(1, 16) if a == b else rng.choice([0, 0, 1, 2, 6])
    return u, w


def gen_edges(rng, labels, n_edges):
    edges, seen = [], set()
    for _ in range(n_edges * 3):
        size = min(len(labels), rng.choice([2, 2, 2, 3, 3, 4, 5]))
        e = tuple(sorted(rng.sample(labels, size)))
        if e not in seen:
            seen.add(e)
            edges.append(e)
        if len(edges) == n_edges:
            break
    return edges


def gen_hyg(rng):
    n = rng.randint(3, 9)
    part = gen_initial(rng, n)
    lk = part["lkind"]
    n_nodes = len({lab(x, lk) for e in part["edges"] for x in e} | {lab(x, lk) for x in part["isolated"]})
    extra = rng.choice([0, 0, 0, 2])
    u, w = gen_uw(rng, n_nodes + extra)
    return {"mode": "hyg", **part, "weighted": rng.random() < 0.2,
            "u": u, "w": w, "D": None, "exact": True, "burn": rng.choice(STEPS), "thin": rng.choice(STEPS),
            "seed": rng.randint(0, 10**6), **gen_magnitude(rng), **gen_streams(rng)}


def zoo_cases():
    """every label universe once per run with fixed small parameters: 0 MCMC steps (the first samples are the initial
    hypergraph itself) and a few steps"""
    import random
    for i, kind in enumerate(UNIVERSES):
        rng = random.Random(1000 + i)
        for j, (burn, thin) in enumerate(((0, 0), (5, 1), (1, 0))):
            n = 4 + (i + j) % 3
            part = gen_initial(rng, n, kind)
            lk = part["lkind"]
            n_nodes = len({lab(x, lk) for e in part["edges"] for x in e} | {lab(x, lk) for x in part["isolated"]})
            yield {"mode": "hyg", **part, "weighted": False, "u": [[3 + (k % 3), 1 + (k % 2)] for k in range(n_nodes)],
                   "w": [[8, 1], [1, 6]], "udiv": 4, "wdiv": 8, "D": None, "exact": True, "burn": burn, "thin": thin,
                   "seed": 77 + i, "ustream": 0, "nsamples": 2, "zoo": kind}


def gen_hard(rng):
    """(H) the class of D44 / of a lowered clip: hard communities, hyperedges that join different communities only
    (Poisson parameter structurally 0 -> the clipped mean), few MCMC steps so that they survive in the chain;
    as an initial hypergraph or as degree / size sequences of such a hypergraph"""
    rounded = rng.random() < 0.4
    n = rng.randint(6, 14) if rounded else rng.randint(4, 12)
    u, w = gen_hard_uw(rng, n, rounded)
    comm = [next((k for k, x in enumerate(row) if x), -1 - i) for i, row in enumerate(u)]
    edges, seen = [], set()
    target = rng.randint(5, 20) if rounded else rng.randint(2, 16)
    for _ in range(80):
        size = rng.choice([3, 3, 4, 4, 5, 2]) if rounded else rng.choice([2, 2, 2, 3, 3, 4])
        if rng.random() < (0.85 if rounded else 0.65):
            # cross-community only: at most one node per community
            pick = {}
            for x in rng.sample(range(n), n):
                pick.setdefault(comm[x], x)
            e = tuple(sorted(rng.sample(sorted(pick.values()), min(size, len(pick)))))
        else:
            e = tuple(sorted(rng.sample(range(n), min(size, n))))
        if len(e) >= 2 and e not in seen:
            seen.add(e)
            edges.append(e)
        if len(edges) >= target:
            break
    if len(edges) < 2:
        edges = [(0, 1), (1, 2)]
    steps = [0, 0, 0, 1, 1, 2, 5]
    div = ({"udiv": rng.choice([10, 7, 3, 100]), "wdiv": rng.choice([8, 10, 3])} if rounded else
           {"udiv": rng.choice([1, 8, 8, 2 ** 12, 10]), "wdiv": rng.choice([1, 8, 10])})
    base = {"u": u, "w": w, "D": None, "exact": True, "burn": rng.choice(steps), "thin": rng.choice(steps),
            "seed": rng.randint(0, 10**6), **div, **gen_streams(rng)}
    if rng.random() < 0.6:
        used = {x for e in edges for x in e}
        # labels are the node indices: the unused nodes are added as isolated ones so that row i of u is node i
        iso = [x for x in range(n) if x not in used]
        return {"mode": "hyg", "edges": [list(e) for e in edges], "isolated": iso, "weighted": False, **base}
    deg = [0] * n
    for e in edges:
        for x in e:
            deg[x] += 1
    dim = list(count_sizes(edges).items())
    rng.shuffle(dim)
    return {"mode": "seqs", "deg_seq": deg, "dim_seq": [[k, v] for k, v in dim], "equal_totals": True, "rescale": False, **base}


def hub_sequences(rng, N):
    """equal totals that the greedy construction cannot realise, with the break NOT in the last hyperedge built: k hubs carry the
    whole degree total, one hyperedge larger than k (listed first in 70 %: it is padded with degree-0 nodes) and r hyperedges of a
    size <= k that the hubs fill on their own afterwards - the report must stay False although the last hyperedges were fine"""
    k = rng.randint(2, min(3, N - 2))
    s1 = rng.randint(k + 1, min(N, k + 3))
    sz = rng.randint(2, k)
    r = rng.randint(1, 3)
    total = s1 + r * sz
    deg = [0] * N
    for j in range(total):
        deg[j % k] += 1
    hubs = rng.sample(range(N), k)                       # the hubs are not always the first nodes
    deg2 = [0] * N
    for j, hnode in enumerate(hubs):
        deg2[hnode] = deg[j]
    dim = [[s1, 1], [sz, r]]
    if rng.random() < 0.3:
        dim.reverse()
    return deg2, dim


def gen_seqs(rng):
    N = rng.randint(3, 10)
    edges = gen_edges(rng, list(range(N)), rng.randint(2, 9))
    deg = [0] * N
    for e in edges:
        for x in e:
            deg[x] += 1
    dimc = count_sizes(edges)
    r = rng.random()
    equal = True
    if r < 0.35:
        # same total, skewed degrees: usually not realisable by the greedy construction
        total = sum(deg)
        deg = [0] * N
        for _ in range(total):
            deg[min(N - 1, int(rng.random() ** 2 * N))] += 1
    elif r < 0.45:
        # unequal totals: outside the property's quantifier, correspondence only
        deg[rng.randrange(N)] += rng.randint(1, 3)
        equal = False
    dim = list(dimc.items())
    rng.shuffle(dim)
    if rng.random() < 0.12 and N >= 4:
        deg, dim = hub_sequences(rng, N)
        equal = True
    u, w = gen_uw(rng, N)
    return {"mode": "seqs", "deg_seq": deg, "dim_seq": [[k, v] for k, v in dim], "equal_totals": equal,
            "rescale": rng.random() < 0.15, "ddtype": rng.choice(DDTYPES), "u": u, "w": w, "D": None, "exact": True, "burn": rng.choice(STEPS),
            "thin": rng.choice(STEPS), "seed": rng.randint(0, 10**6), **gen_magnitude(rng), **gen_streams(rng)}


def gen_model(rng):
    N = rng.randint(4, 9)
    u, w = gen_uw(rng, N)
    return {"mode": "model", "u": u, "w": w, "D": rng.randint(3, min(5, N)), "exact": rng.random() < 0.6,
            "burn": rng.choice(STEPS), "thin": rng.choice(STEPS), "seed": rng.randint(0, 10**6),
            **gen_magnitude(rng, large=False), **gen_streams(rng)}


def gen_degonly(rng):
    """sample(deg_seq=d): force_deg_seq alone, the size sequence is drawn by the inner model"""
    N = rng.randint(4, 9)
    u, w = gen_uw(rng, N)
    r = rng.random()
    if r < 0.4:
        deg = [0] * N                                       # little degree to spend: the second phase finds <= 1 node left
        for x in rng.sample(range(N), rng.randint(0, 3)):
            deg[x] = rng.randint(1, 2)
    elif r < 0.5:
        deg = [rng.randint(1, 3) for _ in range(N)]         # no node of degree 0
    else:
        deg = [rng.choice([0, 0, 1, 1, 2, 3]) for _ in range(N)]
    return {"mode": "degonly", "deg_seq": deg, "ddtype": rng.choice(DDTYPES), "u": u, "w": w, "D": rng.randint(3, min(5, N)),
            "exact": rng.random() < 0.6, "burn": rng.choice(STEPS), "thin": rng.choice(STEPS), "seed": rng.randint(0, 10**6),
            **gen_magnitude(rng, large=False), **gen_streams(rng)}


def gen_dimonly(rng):
    """sample(dim_seq=m): force_dim_seq alone, the degree sequence is drawn by the inner model"""
    N = rng.randint(4, 9)
    u, w = gen_uw(rng, N)
    sizes = rng.sample(range(2, min(5, N) + 1), rng.randint(1, min(3, min(5, N) - 1)))
    dim = [[k, rng.choice([0, 1, 1, 2, 3])] for k in sizes]
    if all(v == 0 for _, v in dim):
        dim[0][1] = 2
    return {"mode": "dimonly", "dim_seq": dim, "equal_totals": True, "u": u, "w": w, "D": rng.randint(3, min(5, N)),
            "exact": rng.random() < 0.6, "burn": rng.choice(STEPS), "thin": rng.choice(STEPS), "seed": rng.randint(0, 10**6),
            **gen_magnitude(rng, large=False), **gen_streams(rng)}


def raising_seqs(rng, N):
    """sample(deg_seq, dim_seq) calls that raise INSIDE _match_sequences (totals differ: outside the property's quantifier,
    correspondence + what the exception leaves on the sampler object).  With sizes <= N (asserted by the caller) the top-up
    always finds its nodes, so the exception is the ValueError of a size < 1 - before any extraction ran out of nodes (the
    attribute stays None) or after one did (it stays False)"""
    r = rng.randrange(4)
    if r == 0:
        deg, dim = [rng.choice([0, 1, 2]) for _ in range(N)], [[0, 1]]
    elif r == 1:
        deg, dim = [1] + [0] * (N - 1), [[3, 1], [0, 1]]
    elif r == 2:
        deg, dim = [rng.choice([0, 1, 2]) for _ in range(N)], [[2, rng.randint(1, 3)], [0, 2]]
    else:
        deg, dim = [1] + [0] * (N - 1), [[N, 2], [1, 1], [0, 1]]
    return {"mode": "seqs", "deg_seq": deg, "dim_seq": dim, "equal_totals": False, "rescale": False, "ddtype": rng.choice(DDTYPES)}


def gen_session_x(rng):
    """a session (as gen_session) with calls of the further kinds put in at random positions: sample(deg_seq=...),
    sample(dim_seq=...), sequence calls that raise inside _match_sequences - what such a call leaves on the sampler object
    must not reach the later calls, and the attribute after it is compared with the model's sampler state"""
    sess = gen_session(rng)
    N = len(sess["u"])
    calls = [{k: v for k, v in c.items() if k != "same_as"} for c in sess["calls"]]
    for _ in range(rng.choice([1, 2, 2, 3])):
        r = rng.random()
        if r < 0.3:
            c = {x: v for x, v in gen_degonly(rng).items() if x in ("mode", "deg_seq", "ddtype")}
            c["deg_seq"] = (c["deg_seq"] + [0] * N)[:N]
        elif r < 0.55:
            c = {x: v for x, v in gen_dimonly(rng).items() if x in ("mode", "dim_seq", "equal_totals")}
            c["dim_seq"] = [[min(k, N), v] for k, v in c["dim_seq"]]
            c["dim_seq"] = [kv for i, kv in enumerate(c["dim_seq"]) if kv[0] not in [x[0] for x in c["dim_seq"][:i]]]
        else:
            c = raising_seqs(rng, N)
        calls.insert(rng.randint(0, len(calls)), c)
    per = [rng.choice([1, 2, 2, 3]) for _ in calls]
    schedule = [k for k, c in enumerate(per) for _ in range(c)]
    if rng.random() < 0.5:
        rng.shuffle(schedule)
    return {**sess, "calls": calls, "schedule": schedule, "share": False}


def direct_match(ctx, drv, rng):
    """_match_sequences itself, all four flag pairs, 1-3 calls on ONE sampler object (returning and raising ones in any order):
    result, report, final nodes_with_deg resp. the attribute the exception leaves - against C16.matchFull, which knows no history"""
    import numpy as np
    from hypergraphx.generation.hy_mmsbm_sampling import HyMMSBMSampler
    N = rng.randint(2, 7)
    seed = rng.randint(0, 10**6)
    s = HyMMSBMSampler(u=np.ones((N, 1)), w=np.ones((1, 1)), seed=seed)
    log = []
    s._rng = hgxv.RngProxy(s._rng, log, "own")
    real_todict = s._deg_seq_to_dict
    last = {}

    def todict(deg_seq):
        last["d"] = real_todict(deg_seq)
        return last["d"]
    s._deg_seq_to_dict = todict
    calls = []
    for _ in range(rng.choice([1, 2, 2, 3])):
        r = rng.random()
        if r < 0.4:
            edges = gen_edges(rng, list(range(N)), rng.randint(1, 5)) if N >= 2 else []
            deg = [sum(1 for e in edges if x in e) for x in range(N)]
            dim = list(count_sizes(edges).items())
            rng.shuffle(dim)
            if rng.random() < 0.3:
                deg[rng.randrange(N)] += rng.randint(1, 2)
            if rng.random() < 0.3 and dim:
                dim[rng.randrange(len(dim))] = (rng.randint(1, N), rng.randint(0, 3))
        else:
            deg = [rng.choice([0, 0, 1, 1, 2, 3, 4]) if rng.random() < 0.8 else rng.randint(1, 4) for _ in range(N)]
            if rng.random() < 0.25:
                deg = [max(1, x) for x in deg]
            sizes = rng.sample(range(0 if rng.random() < 0.1 else 1, N + (3 if rng.random() < 0.15 else 1)), rng.randint(1, min(3, N)))
            dim = [(k, rng.choice([0, 1, 1, 2, 3])) for k in sizes]
        dim = list(dict(dim).items())                          # a dict: one entry per size
        calls.append({"deg_seq": deg, "dim_seq": [[int(k), int(v)] for k, v in dim], "fd": rng.random() < 0.5, "fm": rng.random() < 0.5})
    case = {"mode": "match", "N": N, "seed": seed, "calls": calls}
    lines, wants, returned = [], [], 0
    for c in calls:
        n0 = len(log)
        last.pop("d", None)
        got = None
        try:
            with time_limit(5):
                r = s._match_sequences(np.array(c["deg_seq"], dtype=int), {k: v for k, v in c["dim_seq"]}, force_deg_seq=c["fd"], force_dim_seq=c["fm"])
            cfg = sorted_cfg(r)
            keys, resid = dict_state(last["d"], N)
            got = ("done", cfg, s.matching_sequences, resid, keys)
            returned += 1
        except Timeout:
            ctx.violation(case, f"_match_sequences did not return on {c}")
            return
        except Exception as e:  # noqa: BLE001 - an exception is an observation
            got = ("raised", s.matching_sequences, type(e).__name__)
        ctx.count(f"direct_match_{int(c['fd'])}{int(c['fm'])}_{got[0]}")
        try:
            picks = enc_picks([{"draws": log[n0:]}])
        except BadTrace as e:
            ctx.disagree(case, str(e))
            return
        lines.append(f"matchr {hgxv.enc_list(c['deg_seq'])} {hgxv.enc_lists(c['dim_seq'])} {int(c['fd'])} {int(c['fm'])} {hgxv.enc_lists(picks)}")
        wants.append(got)
        if got[0] == "done":
            # the guarantees per flag pair, in the words of the docstring / the property, on the real result
            cfg, flag = got[1], got[2]
            dim = {}
            for k, v in c["dim_seq"]:
                if k >= 2 and v > 0:
                    dim[k] = v
            used = count_deg(cfg)
            bad = None
            if any(len(set(e)) != len(e) or len(e) < 2 or not all(0 <= x < N for x in e) for e in cfg):
                bad = "a hyperedge is no set of >= 2 nodes of the model"
            elif (c["fm"] or not c["fd"]) and count_sizes(cfg) != dim:
                bad = f"force_dim_seq: size counts {count_sizes(cfg)} != requested {dim}"
            elif c["fd"] and not c["fm"] and any(d > c["deg_seq"][x] for x, d in used.items()):
                bad = f"force_deg_seq: node usage {used} exceeds the degree sequence"
            elif c["fd"] and not c["fm"] and sum(1 for x in got[3] if x is not None and x > 0) > 1:
                bad = f"force_deg_seq: returned although more than one node keeps residual degree (usage {used})"
            elif flag is True and all(k >= 2 for k, v in c["dim_seq"]) and any(d > c["deg_seq"][x] for x, d in used.items()):
                bad = f"report True but node usage {used} exceeds the degree sequence"
            elif flag not in (True, False):
                bad = f"matching_sequences is {flag!r} after a returning call"
            if bad:
                ctx.violation({**case, "failing_call": c}, f"_match_sequences(deg_seq={c['deg_seq']}, dim_seq={c['dim_seq']}, force_deg_seq={c['fd']}, "
                              f"force_dim_seq={c['fm']}) = {cfg}, report {flag}: {bad}")
        elif got[1] is True:
            ctx.violation({**case, "failing_call": c}, f"_match_sequences raised {got[2]} and left matching_sequences=True on the sampler (a report for a "
                          "call that built nothing; the next reader sees a stale True)")
    ctx.case(repr(case), returned > 0)
    ctx.count("direct_match")
    if drv is None:
        return
    for c, ln, a, w in zip(calls, lines, drv.batch(lines), wants):
        if w[0] == "done":
            want = f"done {hgxv.enc_lists(w[1])} {int(bool(w[2]))} {hgxv.enc_list(w[4])} {hgxv.enc_list(w[3])} 0"
            parts = a.split(" ")
            same = (len(parts) == 6 and parts[0] == "done" and [sorted(e) for e in hgxv.dec_lists(parts[1])] == w[1]
                    and parts[2:] == want.split(" ")[2:])
        else:
            want = "raised " + STATE_TOK.get(w[1], "?")
            same = a == want
        if not same:
            ctx.disagree({**case, "line": ln}, f"_match_sequences: model {a!r}, implementation {want!r}" + (f" ({w[2]})" if w[0] == "raised" else ""))


def witness_cases():
    """D44 (fixed): one-hot u (4 + 4 nodes), w = diag(3, 2), the 16 dyads joining the two communities (Poisson
    parameter 0 -> clipped mean 1e-10), no MCMC step.  With these seeds one of the 16 uniforms of the first sample is
    within 5.5e-7 of 0 (p rounds to P(X = 0): quantile 0) resp. of 1 (p rounds to 1: quantile inf); the unrepaired
    sample_truncated_poisson returned 0 / inf there and `sample` dropped the hyperedge.  Regression: must pass."""
    u = [[1, 0]] * 4 + [[0, 1]] * 4
    edges = [[a, 4 + (a + d) % 4] for d in range(4) for a in range(4)]
    for seed in (11970, 30015, 55667, 207828):
        yield {"mode": "hyg", "edges": edges, "isolated": [], "weighted": False, "u": u, "w": [[3, 0], [0, 2]], "udiv": 1, "wdiv": 1,
               "D": None, "exact": True, "burn": 0, "thin": 0, "seed": seed, "ustream": 0, "witness": "D44"}
    # D45 (fixed): parameters that are no dyadic fractions; 0.5 * (s^T w s - sum_i u_i^T w u_i) of the hyperedge {4, 6, 8}
    # (three communities, diagonal w) is -2.8e-17 instead of 0: log -> nan mean -> nan weight -> hyperedge dropped, for every seed
    u = [[270, 0, 0], [0, 19, 0], [0, 0, 19], [30, 0, 0], [0, 30, 0], [0, 0, 10], [10, 0, 0], [0, 10, 0], [0, 0, 30]]
    for burn, seed in ((0, 1), (1, 2)):
        yield {"mode": "hyg", "edges": [[4, 6, 8], [0, 3], [1, 4, 7], [2, 3, 4]], "isolated": [5], "weighted": False, "u": u,
               "w": [[15, 0, 0], [0, 23, 0], [0, 0, 15]], "udiv": 100, "wdiv": 8, "D": None, "exact": True, "burn": burn, "thin": 0,
               "seed": seed, "ustream": 0, "witness": "D45"}


def witness_labels():
    """D57 (fixed): the labels 3, 7, 2^53+3, 2^53+4 (+5); node 3 is written as the integer 3 in one hyperedge and as the float 3.0
    in the hyperedge it shares with 2^53+3.  The unrepaired `sample` encoded each hyperedge with `LabelEncoder.transform`, numpy made
    the array (3.0, 2^53+3) float64 and rounded the integer to 2^53+4: the id of the neighbouring node (silently: with 0 MCMC steps
    the sample is not the initial hypergraph, 2^53+4 has degree 2 > 1) or no label at all (ValueError).  Regression: must pass."""
    B = 2 ** 53
    for other, burn, seed in ((B + 4, 0, 1), (B + 5, 0, 2), (B + 4, 5, 3)):
        yield {"mode": "hyg", "edges": [[3, 7], [3.0, B + 3], [7, other]], "isolated": [], "lkind": "num", "weighted": False,
               "u": [[8]] * 4, "w": [[8]], "D": None, "exact": True, "burn": burn, "thin": 0, "seed": seed, "ustream": 0, "witness": "D57"}


def witness_rescale():
    """D58 (fixed): four hard communities with at most one member each, parameters that are no dyadic fractions: every expected
    degree of the model is 0, computed as -1e-19 .. -6e-19.  `allow_rescaling=True` took the square root of the negative
    least-squares constant: u = nan in place, every truncated-Poisson mean nan, every sample of this call and of every later call on
    the sampler empty (although sequences were reported as matching / no two hyperedges coincided).  Regression: must pass."""
    base = {"u": [[7, 0, 0, 0], [0, 7, 0, 0], [0, 0, 0, 0], [0, 0, 7, 0]], "udiv": 100, "w": [[12, 0, 0, 0], [0, 24, 0, 0], [0, 0, 7, 0], [0, 0, 0, 3]],
            "wdiv": 8, "D": None, "exact": False, "seed": 274555, "ustream": 0, "witness": "D58"}
    seqs = {"mode": "seqs", "deg_seq": [2, 2, 1, 1], "dim_seq": [[3, 2]], "equal_totals": True, "rescale": True, "ddtype": "int64"}
    yield {**base, **seqs, "burn": 0, "thin": 0}
    hyg = {"mode": "hyg", "edges": [[2, 1, 3], [2, 0, 3, 1], [3, 1], [3, 0]], "isolated": [], "lkind": "num", "weighted": False}
    yield {**base, "mode": "session", "burn": 1, "thin": 1, "calls": [hyg, seqs], "schedule": [1, 0, 0, 1], "eager": True, "share": False}


TP_MEANS = [1.0e-300, 1.0e-30, 1.0e-17, 1.0e-12, 1.0e-10, 1.0e-10, 3.0e-9, 1.0e-7, 1.0e-4, 0.01, 0.3, 0.6931, 0.7, 1.0, 2.5, 30.0,
            200.0, 745.0, 800.0, 5000.0, 1.0e5]


def direct_trunc(ctx, drv, rng):
    """sample_truncated_poisson itself: array and scalar means from 1e-300 to 1e5, real and extreme uniforms; the
    value is a finite integer >= 1 per mean, equal to max(scipy's quantile, 1) (model `truncWeights`), and at least
    the quantile; same generator state -> same values"""
    import numpy as np
    from hypergraphx.generation import hy_mmsbm_sampling as S
    scalar = rng.random() < 0.15
    k = 1 if scalar else rng.randint(1, 12)
    means = [rng.choice(TP_MEANS) * rng.choice([1.0, 1.0, 0.5, 3.0]) for _ in range(k)]
    seed = rng.randint(0, 10**6)
    every = rng.choice([0, 0, 1, 1, 2, 3])
    case = {"mode": "trunc", "means": means, "scalar": scalar, "seed": seed, "ustream": every}
    outs = []
    tr = Trace()
    for rep_no in range(2):
        t = tr if rep_no == 0 else Trace()
        g = AdvRng(np.random.default_rng(seed), t.log, "own", every)
        try:
            with time_limit(5), recorded_poisson(t), np.errstate(all="ignore"):
                r = S.sample_truncated_poisson(means[0] if scalar else np.array(means, dtype=float), g)
            outs.append([x for x in np.atleast_1d(np.asarray(r, dtype=float)).ravel()])
        except Timeout:
            ctx.violation(case, "sample_truncated_poisson did not return")
            return
        except Exception as e:  # noqa: BLE001
            outs.append("exc " + type(e).__name__ + ": " + str(e)[:80])
    ctx.case(repr(case), not isinstance(outs[0], str))
    ctx.count("direct_trunc")
    if isinstance(outs[0], str):
        ctx.violation(case, f"sample_truncated_poisson raised {outs[0]} on positive means")
        return
    if repr(outs[0]) != repr(outs[1]):
        ctx.violation(case, f"sample_truncated_poisson: same generator state, different values {outs[0]} / {outs[1]}")
    vals = outs[0]
    bad = [(i, float(vals[i]), means[i] if i < len(means) else None) for i in range(len(vals)) if (nat_of(vals[i]) or 0) < 1]
    if len(vals) != len(means):
        ctx.violation(case, f"sample_truncated_poisson returned {len(vals)} values for {len(means)} means")
        return
    if bad:
        unif = tr.tp_calls[0]["unif"] if tr.tp_calls else []
        ctx.violation(case, "sample_truncated_poisson returned values that are no positive integers (index, value, mean): "
                      f"{bad[:4]}; uniforms {unif[:12]} - `sample` drops such hyperedges")
        return
    rec = tr.tp_calls[0] if tr.tp_calls else None
    if drv is None or rec is None or rec["quant"] is None or len(rec["quant"]) != len(vals) or any(nat_of(q) is None for q in rec["quant"]):
        return
    q = [max(0, nat_of(x)) for x in rec["quant"]]
    ctx.count("direct_trunc_quantile_zero", sum(1 for x in q if x == 0))
    a = drv.ask(f"trunc {hgxv.enc_list(q)}")
    want = hgxv.enc_list([nat_of(x) for x in vals])
    if a != want:
        ctx.disagree(case, f"sample_truncated_poisson: model max(quantile, 1) = {a!r}, implementation {want!r} (quantiles {q})")


# ------------------------------------------------------------------------------------------
# round f: the truncated-Poisson sampler as a unit under a SCRIPTED generator, degenerate sizes, frozen chains

class ScriptRng(hgxv.RngProxy):
    """a numpy Generator whose draws are scripted: `random(...)` has the shape of the real call but its entries follow `plan`
    (a constant extreme value, or the extreme values in turn); `poisson(...)` returns 0 wherever the rate is <= 36 (an outcome
    at least as likely as the extreme uniforms); every other method is the real one.  All values are legal outcomes."""

    def __init__(self, real, log, plan):
        super().__init__(real, log, "own")
        object.__setattr__(self, "_plan", plan)

    def __getattr__(self, name):
        attr = getattr(self._real, name)
        if not callable(attr):
            return attr

        def wrapper(*a, **k):
            import numpy as np
            r = attr(*a, **k)
            if name in ("random", "uniform") and (name == "random" or (not a and set(k) <= {"size"})):
                arr = np.array(r, dtype=float)
                flat = arr.ravel()
                for i in range(len(flat)):
                    flat[i] = self._plan[i % len(self._plan)]
                r = flat.reshape(arr.shape) if isinstance(r, np.ndarray) else float(flat[0])
            elif name == "poisson":
                r = adversarial_poisson(r, a[0] if a else k.get("lam", 1.0))
            self._log.append((self._source, name, a, k, r))
            return r
        return wrapper


# every rate regime of the sampler: clipped / tiny (p rounds to P(X = 0) or to 1), around 1, around a "large rate" cut-off
# (8 .. 40), 50 .. 500, and beyond 700 where exp(-rate) is subnormal / zero
TP_REGIMES = {
    "tiny": [1.0e-300, 1.0e-30, 1.0e-16, 1.0e-10, 3.0e-9, 1.0e-6, 1.0e-3],
    "one": [0.05, 0.3, 0.6931, 1.0, 1.5, 2.5, 4.0],
    "ten": [7.5, 9.99, 10.0, 10.5, 11.0, 12.5, 14.0, 15.0, 16.0, 20.0, 25.0, 30.0, 36.0],
    "fifty": [40.0, 50.0, 64.0, 100.0, 256.0, 500.0],
    "huge": [690.0, 700.0, 708.0, 745.0, 746.0, 800.0, 5000.0, 1.0e5],
}
TP_PLANS = [[0.0], [1.0 - 2.0 ** -53], [2.0 ** -53], [0.5], EXTREME_U, [0.0, 1.0 - 2.0 ** -53], [1.0 - 2.0 ** -24, 2.0 ** -30, 0.25]]


def direct_guard(ctx, drv, rng):
    """the argument checks of `_sampling_from_sequences` (second extension round): `sample(deg_seq=d, dim_seq=m)` on a sampler whose
    attribute `matching_sequences` holds None / False / True from earlier calls, with degree sequences of the wrong length and sizes
    around N: which `assert` fires, whether `_match_sequences` is reached, the attribute after the call - against C16.argGuard /
    C16.callStepG (a refused call delivers nothing and leaves the attribute untouched)"""
    import numpy as np
    from hypergraphx.generation.hy_mmsbm_sampling import HyMMSBMSampler
    N = rng.randint(2, 6)
    seed = rng.randint(0, 10**6)
    s = HyMMSBMSampler(u=np.ones((N, 1)), w=np.ones((1, 1)), burn_in_steps=0, intermediate_steps=0, seed=seed)
    prior = rng.choice([None, False, True])
    L = rng.choice([N, N, N, N - 1, N + 1, 0, N + 2])
    deg = [rng.choice([1, 1, 2, 3]) for _ in range(L)]
    sizes = rng.sample(range(2, N + 3), rng.randint(1, min(3, N + 1)))
    if rng.random() < 0.5:
        sizes = [k for k in sizes if k <= N] or [2]
    dim = [[int(k), rng.choice([0, 1, 1, 2])] for k in sizes]
    stop_inside = rng.random() < 0.5
    case = {"mode": "guard", "N": N, "seed": seed, "prior": prior, "deg_seq": deg, "dim_seq": dim, "stop_inside": stop_inside}
    ctx.case(repr(sorted((k, repr(v)) for k, v in case.items())), True, sample=case)
    ctx.count("direct_guard")
    entered = []
    real_match = s._match_sequences

    class _Stop(BaseException):
        pass

    def rec_match(*a, **k):
        entered.append(s.matching_sequences)
        if stop_inside:
            raise _Stop()
        return real_match(*a, **k)
    s._match_sequences = rec_match
    s.matching_sequences = prior
    verdict, exc = None, None
    try:
        with time_limit(5):
            next(s.sample(deg_seq=np.array(deg, dtype=int), dim_seq={k: v for k, v in dim}, allow_rescaling=False))
        verdict = "ok"
    except _Stop:
        verdict = "ok"
    except Timeout:
        ctx.violation(case, "sample(deg_seq, dim_seq) did not deliver its first sample within the time limit")
        return
    except AssertionError as e:
        verdict = "ok" if entered else ("badDim" if str(e).startswith("The dimension sequence") else "badShape")
        exc = "AssertionError"
    except Exception as e:  # noqa: BLE001 - an exception is an observation
        verdict = "ok" if entered else f"exc:{type(e).__name__}"
        exc = type(e).__name__
    after = s.matching_sequences
    ctx.count("direct_guard_" + str(verdict))
    want = "ok" if (len(deg) == N and all(k <= N for k, _ in dim)) else ("badShape" if len(deg) != N else "badDim")
    if verdict != want:
        ctx.violation(case, f"sample(deg_seq, dim_seq) on a model with {N} nodes: argument checks answered {verdict} ({exc}), `_match_sequences` "
                      f"{'was' if entered else 'was not'} entered; a degree sequence of length N and sizes <= N are accepted, anything else is refused: {want}")
    if bool(entered) != (want == "ok"):
        ctx.violation(case, f"`_match_sequences` {'was' if entered else 'was not'} entered although the arguments are {'valid' if want == 'ok' else 'invalid'}")
    if want != "ok" and after is not prior:
        ctx.violation(case, f"a call refused by the argument checks changed `matching_sequences` from {prior} to {after}")
    if drv is not None:
        fl = lambda v: "-" if v is None else ("1" if v else "0")    # noqa: E731
        dm = hgxv.enc_lists(dim)
        lines = [f"guard {N} {hgxv.enc_list(deg)} {dm}"]
        if want != "ok":
            lines += [f"setstate {fl(prior)}", f"callseqsN {N} {hgxv.enc_list(deg)} {dm} {hgxv.enc_lists([])} {enc_steps([])} {enc_blocks([])} {hgxv.enc_lists([])}"]
        ans = drv.batch(lines)
        if ans[0] != verdict:
            ctx.disagree({**case, "line": lines[0]}, f"argument checks: model {ans[0]} implementation {verdict}")
        if want != "ok" and (ans[1] != "ok" or ans[2] != f"none {fl(after)}"):
            ctx.disagree({**case, "line": lines[2]}, f"refused call: model {ans[1:]} implementation delivered nothing and left {fl(after)}")


def tp_model_line(ctx, drv, case, mean, u, val):
    """one draw of the unit stream against the model of the inverse-cdf scheme (C16.truncDrawTab on exact rationals: the uniform,
    exp(-rate), nextafter(1, 0) and scipy's own Poisson cdf table as the doubles they are).  The model computes p exactly, numpy in
    doubles, and scipy inverts the cdf through a continuous inverse: a different draw counts only when p is not within 1e-9
    (relative) of the cdf boundary that would explain it."""
    import numpy as np
    from fractions import Fraction
    from scipy import stats
    k = nat_of(val)
    if drv is None or k is None or k < 1 or k > 60 or not (mean == mean) or not (0.0 <= u < 1.0):
        return
    with np.errstate(all="ignore"):
        e = float(np.exp(-mean))
        tab = [float(x) for x in stats.poisson.cdf(np.arange(k + 3), mean)]
    pmax = float(np.nextafter(1.0, 0.0))
    if not all(math.isfinite(x) for x in tab) or tab[0] <= 0.0 or e < 2.3e-308:
        return          # rates beyond ~708: exp(-rate) is subnormal / 0 and scipy's cdf(0) underflows - no table with cdf 0 = e > 0 in doubles
    q = lambda x: (lambda f: f"{f.numerator}/{f.denominator}")(Fraction(float(x)))    # noqa: E731
    ln = f"tpois {q(u)} {q(e)} {q(pmax)} {','.join(q(x) for x in tab)}"
    a = drv.ask(ln)
    ctx.count("tp_model_lines")
    if a == str(k):
        return
    pf = min(u + (1.0 - u) * e, pmax)
    tol = 1e-9
    if pf * (1 - tol) <= tab[k] and (k == 1 or tab[k - 1] < pf * (1 + tol)):
        ctx.count("tp_model_boundary")
        return
    ctx.disagree({**case, "line": ln[:400]}, f"sample_truncated_poisson, rate {mean}, uniform {u!r}: model draw {a}, implementation {k} "
                 f"(p = {pf!r}, cdf around it {tab[max(0, k - 2):k + 1]})")


def unit_trunc(ctx, rng, drv=None):
    """documented contract of sample_truncated_poisson (Y = X | X > 0: every draw an integer >= 1, one per rate, finite) for
    every rate regime, homogeneous and mixed 1-D arrays, scalars (float, int, numpy scalar), under the scripted
    generator; the same script gives the same values"""
    import numpy as np
    from hypergraphx.generation import hy_mmsbm_sampling as S
    regime = rng.choice(list(TP_REGIMES) + ["mixed", "mixed", "ten"])
    shape_kind = rng.choice(["array", "array", "array", "scalar", "one"])
    k = {"scalar": 1, "one": 1}.get(shape_kind, rng.randint(2, 9))
    pool = [m for v in TP_REGIMES.values() for m in v] if regime == "mixed" else TP_REGIMES[regime]
    means = [rng.choice(pool) for _ in range(k)]
    if regime == "mixed" and k > 1:
        means[rng.randrange(k)] = rng.choice(TP_REGIMES["ten"])        # a mixed array always holds a rate around 10
    stype = rng.choice(["float", "npfloat", "int"]) if shape_kind == "scalar" else None
    if stype == "int":
        means = [float(max(1, round(means[0])))]
    plan = rng.choice(TP_PLANS)
    seed = rng.randint(0, 10**6)
    case = {"mode": "trunc_unit", "regime": regime, "means": means, "shape": shape_kind, "stype": stype, "plan": plan, "seed": seed}
    outs = []
    for _ in range(2):
        g = ScriptRng(np.random.default_rng(seed), [], plan)
        if shape_kind == "scalar":
            arg = {"float": float, "npfloat": np.float64, "int": int}[stype](means[0])
        else:
            arg = np.array(means, dtype=float)
        try:
            with time_limit(5), np.errstate(all="ignore"):
                r = S.sample_truncated_poisson(arg, g)
            outs.append([x for x in np.atleast_1d(np.asarray(r, dtype=float)).ravel()])
        except Timeout:
            outs.append("timeout")
        except Exception as e:  # noqa: BLE001
            outs.append("exc " + type(e).__name__ + ": " + str(e)[:80])
    ctx.case(repr(case), not isinstance(outs[0], str), sample=case)
    ctx.count("unit_trunc")
    ctx.count("unit_trunc_" + regime)
    if isinstance(outs[0], str):
        ctx.violation(case, f"sample_truncated_poisson on positive rates: {outs[0]}")
        return
    if repr(outs[0]) != repr(outs[1]):
        ctx.violation(case, f"sample_truncated_poisson: same generator, same script, different values {outs[0]} / {outs[1]}")
    vals = outs[0]
    if len(vals) != len(means):
        ctx.violation(case, f"sample_truncated_poisson returned {len(vals)} values for {len(means)} rates")
        return
    if drv is not None and vals:
        try:
            i = seed % len(vals)            # no draw from the stream: the older cases stay what they were per seed
            tp_model_line(ctx, drv, case, means[i], float(plan[i % len(plan)]), vals[i])
        except Exception as e:  # noqa: BLE001
            ctx.disagree(case, f"truncated-Poisson draw cannot be put to the model: {type(e).__name__}: {e}")
    bad = [(i, float(vals[i]), means[i]) for i in range(len(vals)) if (nat_of(vals[i]) or 0) < 1]
    if bad:
        ctx.violation(case, "sample_truncated_poisson (Y = X | X > 0) returned values that are no integers >= 1 (index, value, rate): "
                      f"{bad[:4]} with the uniforms scripted as {plan} and Poisson draws of 0 for rates <= {POISSON_ZERO_UP_TO} - `sample` drops such hyperedges")


def gen_degenerate(rng):
    """initial hypergraphs / size sequences with degenerate sizes: hyperedges with ONE node (several, repeated nodes, next to
    hyperedges that contain the node), sometimes the EMPTY hyperedge; sequences with the key 1"""
    N = rng.randint(3, 8)
    u, w = gen_uw(rng, N)
    base = {"u": u, "w": w, "D": None, "exact": True, "burn": rng.choice([0, 0, 1, 5, 40]), "thin": rng.choice([0, 0, 1, 5]),
            "seed": rng.randint(0, 10**6), **gen_magnitude(rng), "ustream": rng.choice([0, 0, 1, 2]), "degenerate": True}
    if rng.random() < 0.6:
        labels = list(range(N)) if rng.random() < 0.6 else sorted(rng.sample(range(-5, 40), N))
        edges = [list(e) for e in gen_edges(rng, labels, rng.randint(1, 6))]
        singles = rng.sample(labels, rng.randint(1, min(3, N)))
        edges += [[x] for x in singles]
        if rng.random() < 0.15:
            edges.append([])
        rng.shuffle(edges)
        used = {x for e in edges for x in e}
        return {"mode": "hyg", "edges": edges, "isolated": [x for x in labels if x not in used], "lkind": "num", "weighted": False, **base}
    # sequences taken from a configuration with one-node hyperedges: mostly matching
    cfg = [list(e) for e in gen_edges(rng, list(range(N)), rng.randint(1, 6))] + [[rng.randrange(N)] for _ in range(rng.randint(1, 3))]
    dg, sz = count_deg(cfg), count_sizes(cfg)
    dim = sorted(sz.items())
    if rng.random() < 0.3:
        rng.shuffle(dim)
    return {"mode": "seqs", "deg_seq": [dg.get(i, 0) for i in range(N)], "dim_seq": [[k, v] for k, v in dim], "equal_totals": True,
            "rescale": False, "ddtype": rng.choice(DDTYPES), **base}


def gen_frozen(rng):
    """a chain that cannot move (burn_in_steps = intermediate_steps = 0) from an initial hypergraph: every sample is made
    from the initial hypergraph, so every conditioned degree and size is met in EVERY sample; ONE community, u = c for all
    nodes: the Poisson mean of a hyperedge depends on its size only and c is spread so that the means cover every rate
    regime; the adversarial draw source is on in 3 of 4 cases"""
    N = rng.randint(4, 9)
    c = rng.choice([1, 2, 3, 4, 6, 8, 11, 16, 23, 32, 45, 64, 90, 128, 181, 256, 362, 512, 1024])
    edges = [list(e) for e in gen_edges(rng, list(range(N)), rng.randint(2, 9))]
    used = {x for e in edges for x in e}
    return {"mode": "hyg", "edges": edges, "isolated": [x for x in range(N) if x not in used], "lkind": "num", "weighted": False,
            "u": [[c]] * N, "w": [[rng.choice([1, 2, 3, 5, 7])]], "udiv": 8, "wdiv": rng.choice([1, 8]), "D": None, "exact": True, "burn": 0, "thin": 0,
            "seed": rng.randint(0, 10**6), "ustream": rng.choice([0, 1, 1, 2]), "nsamples": 5, "frozen": True}


def check_degenerate(ctx, drv, case):
    """cases with degenerate sizes are judged by the property's words alone (the model's hypotheses exclude sizes < 2):
    every sample is a valid hypergraph with hyperedges of size >= 2 only; nothing exceeds its conditioned degree / count
    (the degenerate hyperedges count in the conditioning); whenever no two hyperedges of size >= 2 of the chain state coincide,
    the sample consists of exactly these hyperedges; same seed, same samples - recorded twice and without instrumentation"""
    t1, t2 = Trace(), Trace()
    r1 = run_sampler(case, t1)
    r2 = run_sampler(case, t2)
    r3 = run_naked(case) if not case.get("ustream", 0) else None
    has_empty = case["mode"] == "hyg" and any(len(e) == 0 for e in case["edges"])
    ctx.case(repr(sorted((k, repr(v)) for k, v in case.items())), r1["exc"] is None, sample=case)
    ctx.count("degenerate_" + case["mode"])
    ctx.count("degenerate_with_empty_hyperedge", int(has_empty))
    if "timeout" in (r1["exc"], r2["exc"], r3["exc"] if r3 else None):
        ctx.violation(case, "the sampler did not deliver its samples within the time limit (non-termination guard)")
        return
    if (r1["out"], r1["exc"] is None) != (r2["out"], r2["exc"] is None):
        ctx.violation(case, "two samplers built with the same parameters and seed produced different sequences of samples")
    if r3 is not None and (r1["out"], r1["exc"] is None) != (r3["out"], r3["exc"] is None):
        ctx.violation({**case, "run": "uninstrumented"}, "a sampler without any instrumentation and the recorded sampler, same parameters and seed, "
                      f"produced different sequences of samples: {str(r3['out'])[:300]} ({r3['exc']}) vs {str(r1['out'])[:300]} ({r1['exc']})")
    if r1["exc"]:
        ctx.count("degenerate_raising")
        if not has_empty and not legit_exception(case, t1):
            ctx.violation(case, f"the sampler raised {r1['exc']} on an input with one-node hyperedges although every draw it needs exists")
    try:
        # the general clauses (sizes >= 2, weights, nodes, nothing above its conditioned degree / count) - exactness is judged below
        for res, tr, tag in ((r1, t1, ""), (r3, None, "uninstrumented")):
            if res is not None:
                oracle_outputs(ctx, {**case, "burn": 1}, {**res, "hs": list(res["hs"])}, _NoExact(tr), None, tag=tag)
        oracle_weights_degenerate(ctx, case, t1)
        oracle_chain(ctx, case, t1)
        ys = t1.routine["yields"] if t1.routine else []
        inv = None
        if case["mode"] == "hyg" and "h0" in r1:
            nodes = sorted(r1["h0"].get_nodes())
            inv = {i: plain(x) for i, x in enumerate(nodes)}
        for k, o in enumerate(r1["out"]):
            if k >= len(ys):
                break
            proper = [frozenset(inv[x] if inv else x for x in e) for e in ys[k] if len(e) >= 2]
            got = [frozenset(e) for e, _ in o]
            if len(set(proper)) == len(proper) and set(got) != set(proper):
                ctx.violation({**case, "sample_no": k}, f"sample {k}: no two hyperedges of size >= 2 of the chain state coincide, but the sample {sorted(map(sorted, got))} "
                              f"is not the set of its hyperedges of size >= 2 {sorted(map(sorted, proper))}{lost_weights(t1, k)}")
            elif set(got) != set(proper):
                ctx.violation({**case, "sample_no": k}, f"sample {k} {sorted(map(sorted, got))} does not consist of the hyperedges of size >= 2 of the chain state {sorted(map(sorted, proper))}")
        m = t1.match
        if case["mode"] == "seqs" and m is not None and "result" in m:
            # the construction extracts a one-node hyperedge (its node loses one unit of degree) and does not keep it
            dim = {int(a): int(b) for a, b in case["dim_seq"] if int(b) > 0 and int(a) >= 2}
            ones = sum(int(b) for a, b in case["dim_seq"] if int(a) == 1)
            got_sz = {a: b for a, b in count_sizes(m["result"]).items() if a >= 2}
            kept = sum(1 for e in m["result"] if len(e) == 1)
            if got_sz != dim or kept > ones:
                ctx.violation(case, f"_match_sequences: size counts {count_sizes(m['result'])} != requested {dim} (flag {m['flag']})")
            want = {i: int(d) for i, d in enumerate(case["deg_seq"])}
            use = count_deg(m["result"])
            if m["flag"] is True and (any(d > want.get(x, 0) for x, d in use.items()) or sum(want.values()) - sum(use.values()) != ones - kept):
                ctx.violation(case, f"_match_sequences reports matching sequences but node usage {use} is not the degree sequence {want} less {ones} one-node hyperedges")
    except Exception as e:  # noqa: BLE001
        ctx.violation(case, f"the yielded objects cannot be inspected as weighted hypergraphs: {type(e).__name__}: {e}")
    if drv is not None and t1.routine and (case["mode"] != "hyg" or "h0" in r1):
        # the output stage on the model with degenerate hyperedges (C16.outputStageD: a hyperedge with fewer than two nodes has a
        # nan mean, hence a non-positive weight, whatever the quantile tape holds): every delivered sample
        try:
            tape = quantile_tape(t1)
            if case["mode"] == "hyg":
                nodes = sorted(r1["h0"].get_nodes())
                code = {plain(x): 3 + 7 * i for i, x in enumerate(nodes)}
                labels = hgxv.enc_list([code[plain(x)] for x in nodes])
            else:
                code, labels = None, "-"
            lines, wants = [], []
            for k, o in enumerate(r1["out"]):
                if k >= len(t1.routine["yields"]) or k >= len(tape):
                    break
                lines.append(f"outd {hgxv.enc_lists(t1.routine['yields'][k])} {hgxv.enc_list(tape[k])} {labels}")
                wants.append(sorted(((tuple(sorted((code[x] if code else x) for x in e)), int(wt)) for e, wt in o), key=repr))
            for ln, a, want in zip(lines, drv.batch(lines) if lines else [], wants):
                got = None if a in ("none", "bad-op") else sorted(dec_outs(a)[0], key=repr)
                ctx.count("degenerate_output_replays")
                if got != want:
                    ctx.disagree({**case, "line": ln}, f"sample with degenerate hyperedges in the chain state: model {got if got is not None else a} implementation {want}")
        except Exception as e:  # noqa: BLE001
            ctx.disagree(case, f"recorded run cannot be encoded for the model: {type(e).__name__}: {e}")
    if drv is not None and t1.routine and r1["exc"] is None and not has_empty and case["mode"] == "hyg" and "h0" in r1:
        # the WHOLE run as one model run (C16.sampleFromHygD, second extension round: no hypothesis on sizes; theorems
        # C16_sample_hyg_all_sizes / C16_run_agrees): labels, hyperedges of the initial hypergraph, recorded steps, quantile tape
        try:
            n_y = len(t1.routine["yields"])
            burn, blocks = split_steps(t1, case["burn"], case["thin"], n_y)
            tape = quantile_tape(t1)
            n_out = min(len(r1["out"]), len(tape), len(blocks))
            h0 = r1["h0"]
            nodes = sorted(h0.get_nodes())
            code = {plain(x): 3 + 7 * i for i, x in enumerate(nodes)}
            edges = [[code[plain(x)] for x in e] for e in h0.get_edges()]
            if n_out > 0 and all(all(int(x) >= 0 for x in tq) for tq in tape[:n_out]):
                ln = (f"fromhygD {hgxv.enc_list([code[plain(x)] for x in nodes])} {hgxv.enc_lists(edges)} {enc_steps(burn)} "
                      f"{enc_blocks(blocks[:n_out])} {hgxv.enc_lists([[int(x) for x in tq] for tq in tape[:n_out]])}")
                want = [sorted(((tuple(sorted(code[x] for x in e)), int(wt)) for e, wt in o), key=repr) for o in r1["out"][:n_out]]
                a = drv.ask(ln)
                got = None if a in ("none", "bad-op") else [sorted(o, key=repr) for o in dec_outs(a)]
                ctx.count("degenerate_whole_run_replays")
                if got != want:
                    ctx.disagree({**case, "line": ln}, f"whole run from an initial hypergraph with degenerate hyperedges: model {got if got is not None else a} implementation {want}")
        except Exception as e:  # noqa: BLE001
            ctx.disagree(case, f"recorded run cannot be encoded for the model (whole run): {type(e).__name__}: {e}")
    if drv is not None and t1.routine and r1["exc"] is None and not has_empty:
        # the chain itself (sizes are immaterial to the reshuffle) on the model
        try:
            burn, blocks = split_steps(t1, case["burn"], case["thin"], len(t1.routine["yields"]))
            rec = t1.routine
            ln = f"chain {hgxv.enc_lists(rec['init'])} {hgxv.enc_lists(rec['fixed'])} {enc_steps(burn)} {enc_blocks(blocks)}"
            a = drv.ask(ln)
            got = None if a in ("none", "bad-op") else [[sorted(e) for e in c] for c in dec_cfgs(a)]
            if got != rec["yields"]:
                ctx.disagree({**case, "line": ln}, f"chain states differ: model {got if got is not None else a} implementation {rec['yields']}")
        except Exception as e:  # noqa: BLE001
            ctx.disagree(case, f"recorded run cannot be encoded for the model: {type(e).__name__}: {e}")


class _NoExact:
    """a recording as seen by `oracle_outputs` with the exactness clause switched off (every chain state counts as one with
    coinciding hyperedges): the degenerate stream judges exactness itself, on the hyperedges of size >= 2"""

    def __init__(self, trace):
        self.routine = None if trace is None or trace.routine is None else {"yields": [[[0], [0]] for _ in trace.routine["yields"]]}
        self.tp_calls = [] if trace is None else trace.tp_calls


def oracle_weights_degenerate(ctx, case, trace):
    """truncated-Poisson contract on every recorded call, for the rates that are numbers (a one-node hyperedge has the rate nan)"""
    for k, rec in enumerate(trace.tp_calls):
        if len(rec["raw"]) != len(rec["mean"]):
            ctx.violation({**case, "sample_no": k}, f"sample_truncated_poisson returned {len(rec['raw'])} values for {len(rec['mean'])} rates")
            continue
        bad = [(i, float(x), m) for i, (x, m) in enumerate(zip(rec["raw"], rec["mean"])) if m == m and (nat_of(x) or 0) < 1]
        ctx.count("tp_mean_nan", sum(1 for m in rec["mean"] if m != m))
        if bad:
            ctx.violation({**case, "sample_no": k}, f"sample_truncated_poisson returned values that are no integers >= 1 (index, value, rate): {bad[:4]}")


def quiet():
    import logging
    import warnings
    logging.disable(logging.WARNING)
    warnings.filterwarnings("ignore")


def run(ctx):
    quiet()
    drv = ctx.driver() if ctx.model_available else None
    n = ctx.scale(300, 4000)
    for case in witness_cases():
        check_case(ctx, drv, case)
    for sess in witness_sessions():
        check_session(ctx, drv, sess)
    for case in witness_labels():
        check_case(ctx, drv, case)
    for case in witness_rescale():
        (check_session if case["mode"] == "session" else check_case)(ctx, drv, case)
    for case in zoo_cases():
        check_case(ctx, drv, case)
    for sess in zoo_sessions():
        check_session(ctx, drv, sess)
    gens = [gen_hyg, gen_seqs, gen_model, gen_hard]
    # the streams of the extension round draw from their own PRNG: the cases of the older streams stay what they were per seed
    import random
    xr = random.Random(ctx.seed * 7919 + 16)
    fr = random.Random(ctx.seed * 104729 + 1606)
    gr = random.Random(ctx.seed * 15485863 + 1616)    # second extension round (argument checks), own PRNG
    for i in range(n):
        case = gens[i % 4](ctx.rng)
        check_case(ctx, drv, case)
        if i % 4 == 0:
            check_session(ctx, drv, gen_session(ctx.rng))
        if i % 8 == 1:
            check_case(ctx, drv, (gen_degonly if i % 16 == 1 else gen_dimonly)(xr))
        if i % 12 == 3:
            check_session(ctx, drv, gen_session_x(xr))
        direct_match(ctx, drv, xr)
        for _ in range(2):
            direct_reshuffle(ctx, drv, ctx.rng)
            direct_extract(ctx, drv, ctx.rng)
            direct_trunc(ctx, drv, ctx.rng)
        direct_dict(ctx, drv, ctx.rng)
        # round f (own PRNG again)
        for _ in range(3):
            unit_trunc(ctx, fr, drv)
        direct_guard(ctx, drv, gr)
        if i % 3 == 0:
            check_degenerate(ctx, drv, gen_degenerate(fr))
        if i % 3 == 1:
            check_case(ctx, drv, gen_frozen(fr))
        if ctx.too_many() or ctx.extra.get("timed_out") or (ctx.time_left() is not None and ctx.time_left() < 5):
            break


def replay(ctx, case):
    quiet()
    drv = ctx.driver() if ctx.model_available else None
    case = {k: v for k, v in case.items() if k not in ("line", "sample_no", "exc", "run", "zero_every", "call_no")}
    mode = case.get("mode")
    if mode == "session":
        check_session(ctx, drv, case)
    elif case.get("degenerate"):
        check_degenerate(ctx, drv, case)
    elif mode in ("hyg", "seqs", "model", "degonly", "dimonly"):
        check_case(ctx, drv, case)
    else:
        ctx.assumptions.append("direct-call cases are regenerated from VERIF_SEED, not replayed individually")
        run(ctx)
