"""C08 - degrees and connected components equal their combinatorial definitions.

Correspondence of lean/Hgxv/Model/C08.lean with hypergraphx.measures.degree.*, hypergraphx.utils.cc.* and the
Hypergraph methods that forward to them, plus independent oracles (counting / union-find straight from the
property's words) on the implementation's answers."""
import collections
import itertools
import os
import sys
import signal
import warnings
import zlib

import numpy as np

import hgxv

RULE = ("random Hypergraph instances (0-9 nodes, 0-10 hyperedges of size "
        "1-5 incl. singletons, explicit isolated nodes, nodes/hyperedges inserted in random order, repeated insertions, 30% of the histories with remove_edge / remove_node(keep_edges) / re-insertion), "
        "each instance reached through a PROGRAM over up to 4 objects (65% of the cases): temporary hyperedges removed again (id gaps), removal + re-insertion, "
        "copy() / subhypergraph() / constructor / add_edges / remove_edges / remove_nodes / clear, the ORIGINAL of a copy mutated afterwards, the COPY of an original "
        "mutated afterwards, the same object queried - mutated in place (also with equal node/hyperedge counts) - queried again; every object is checked "
        "at the end of the program and at intermediate points against the content the history defines (independent shadow) - one check of one object = one case; "
        "LABELS ARE OBJECTS: one label universe per program - small ints, sparse ints, big ints (257 .. 10**30, beyond 2**53 / 2**63, negative), run-time strings (incl. numeric "
        "strings, '10' < '9'), floats next to ints (incl. +-inf), bytes, int tuples (incl. ()), chains of frozensets (incl. frozenset()), tuples / frozensets NEXT TO their "
        "own members as nodes, strings next to ints (hyperedges within one comparable group; tuple labels for Hypergraph / Directed only) - and EVERY call of the implementation (history op or query) gets a freshly "
        "constructed equal object per label (int(str(x)), the equal float, numpy.int64 / int32 / float64 / str_ where numpy compares exactly, bool for 0/1, re-joined strings, rebuilt tuples / "
        "frozensets / bytes); hyperedges, sides of directed hyperedges, node lists and hyperedge lists come as tuple, list, set, frozenset, range, numpy array, iterator, generator, dict, dict "
        "keys, deque (what the unchanged entry point takes), handed-in containers are scribbled over after the call, every returned list / set / dict is emptied and scribbled over after it was "
        "read and everything is asked again; the filter is given by keyword, by position (the unchanged signature's order), with the other one None, as int or numpy.int64; "
        "EVERY node (the falsy labels 0 / '' / () / frozenset() / b'' are forced into 60% of the cases), every filter value on its own: none, size in 0..7, order in 0..6 (size 0 and values above the largest "
        "hyperedge match nothing) plus two rare values per check (order=-1 = size 0, negative, 256/257, 2**31, 2**63, 10**30), "
        "each through the Hypergraph method and the module-level function, plus the two primitives get_neighbors / get_incident_edges, plus utils/visits.py in full: per filter two "
        "start nodes, for each ONE call of _bfs or _dfs with max_depth drawn from None / -1 / 0 / 1 / 2 / 3 / 4 / n-1 / n / 2**31 / 10**30 (by position, by keyword, left out, as numpy.int64) - "
        "_bfs and the order-independent _dfs calls (max_depth None or <= 1) against the ball of that radius and against the model's own run, a depth-limited _dfs beyond depth 1 against "
        "'start plus nodes within the bound' and against the model's loop run on the get_neighbors answers recorded in the iteration order of the returned sets; DirectedHypergraph / TemporalHypergraph / "
        "MultiplexHypergraph instances of the same shape for the degree functions; "
        "EVERY MUTATOR of the class is part of the programs (the public methods are enumerated with inspect at the start of a run, an unknown one is reported): "
        "add_node / add_nodes (with and without metadata) / add_edge / add_edges / remove_* / clear (followed by old labels coming back, some WITHOUT a hyperedge) / "
        "populate_from_dict (a snapshot of another object; snapshot - work - look - roll back) / set_adj_dict / set_edge_list (the same tables in another order) / "
        "set_weight / the metadata setters / add_empty_edge / add_random_edge(s) of the generation module - route `life`: ONE object, each mutator drawn equally often, "
        "a look at the object after every step; batch calls and clear also for Directed / Temporal / Multiplex where the class has them; "
        "CALLS THAT ARE NO PLAIN USE are part of the programs and the program goes on after them: calls the unchanged code rejects (absent hyperedge / node, a batch "
        "with an absent or repeated member, a weight on an unweighted hypergraph, add_nodes with an incomplete metadata dict, a hyperedge that is no iterable / "
        "cannot be sorted / has unhashable members, a node that is unhashable, batches rejected half-way, Temporal times that are negative / no int), calls it "
        "accepts although the documentation asks for a dict (metadata of a hyperedge / node that is a str, number, list, tuple, list of pairs, frozenset, bytes, "
        "bool; ONE dict object shared by several items), queries it rejects (a node that is not there, order= and size= together); after a mutator call that "
        "raised - whoever raised it - the LISTING get_nodes() / get_edges() is the content from there on (it must be a hypergraph: distinct items, hyperedges over "
        "listed nodes), the object is checked at once and again at the end; a rejected query must leave the content alone; "
        "STARTING POINTS made by the library: random_hypergraph / random_uniform_hypergraph, add_random_edge(s)(inplace=False), save_hypergraph + load_hypergraph "
        "(json and binary, all four classes), subhypergraph_by_orders (sizes / orders, repeated and absent values, keep_nodes), get_edges(subhypergraph=True, "
        "filter, up_to, keep_isolated_nodes), subhypergraph_largest_component (every filter; must be the sub-hypergraph on a reachability class of maximal size), "
        "Temporal aggregate / subhypergraph and Multiplex aggregated_hypergraph (their Hypergraph objects are checked like any other); "
        "labels with EQUAL HASHES forced in pairs (-1 / -2, 0 / 2**61-1, '' / 0, (-1,) / (-2,)); thorough adds ALL 32768 hypergraphs on "
        "4 nodes. A case = one hypergraph (all its nodes and filters), distinct by (class, node order, hyperedge list) in ranks; "
        "non-trivial when for some filter there are >= 2 components, one of them with >= 2 nodes, and >= 1 hyperedge is "
        "excluded by that filter (for the degree-only classes: some filter excludes and some filter keeps a hyperedge)")
ASSUMPTIONS = ["hyperedges are duplicate-free node tuples over nodes of the hypergraph (what get_edges() returns)",
               "labels are mapped to their rank in sorted order (per comparable group) before they reach the model: labels enter only through ==, hash and < ",
               "equal objects of different type (1, 1.0, True, numpy.int64(1); 'ab', numpy.str_('ab')) are ONE label, as for a Python dict; numpy scalars only where numpy "
               "compares them exactly (|x| <= 2**53, integer-valued float64 below 2**53) and only in a universe of one comparable group (numpy.int64(5) == (0, 1) is an array); NaN is no label",
               "a hyperedge holds labels of one comparable group (add_edge sorts it); a hypergraph may hold several groups (a tuple label next to its int members)",
               "the content of an object is what its history (add/remove/copy/subhypergraph/clear, set semantics as documented) defines; "
               "get_nodes()/get_edges() are compared with that content at every check (a difference is reported, the container itself is C01-C04)",
               "both order= and size= given is outside the property (the code rejects it; such calls are made inside programs and must change nothing)",
               "a mutator call that raises is not a finding by itself when it is no plain use (malformed arguments, metadata that is no mapping): the finding is an "
               "object that afterwards answers differently from what it lists; plain calls (documented argument shapes) must not raise",
               "objects made by generators / loaders are taken with the content they list (what they should contain is not C08's business)"]
TRUSTED = ["Python set/dict/deque/max semantics; the visited *set* of _bfs is compared as a set",
           "a Python set built twice by the same calls iterates in the same order (the recorded get_neighbors answers a depth-limited _dfs is replayed on)",
           "largest_component: any component of maximal size is accepted (tie-breaking is not part of the property)"]
BUDGET_S = {"quick": 75, "thorough": 1500}

# every value on its own (each is compared with the definition, not with the equivalent other keyword), including the
# falsy / boundary ones: order=0, size=1, size=0 (matches nothing), values above the maximal hyperedge size
FILTERS = [None] + [("size", k) for k in range(0, 8)] + [("order", k) for k in range(0, 7)]
# rare values (two of them per check): order=-1 is size=0 (only the empty hyperedge has it), negative sizes and huge values
# match nothing
RARE_FILTERS = [("order", -1), ("order", -1), ("size", -1), ("order", -2), ("size", 10 ** 30), ("order", 10 ** 30), ("size", 2 ** 63),
                ("order", 2 ** 31), ("size", 256), ("order", 257)]


class Timeout(BaseException):
    pass


def _alarm(signum, frame):
    raise Timeout()


def guarded(seconds, fn):
    old = signal.signal(signal.SIGALRM, _alarm)
    signal.setitimer(signal.ITIMER_REAL, seconds)
    try:
        return fn()
    finally:
        signal.setitimer(signal.ITIMER_REAL, 0)
        signal.signal(signal.SIGALRM, old)


def kw(f):
    return {} if f is None else {f[0]: f[1]}


def tok(f):
    return "n" if f is None else ("s" if f[0] == "size" else "o") + str(f[1])


def want_size(f):
    return None if f is None else (f[1] if f[0] == "size" else f[1] + 1)


# ------------------------------------------------------------------------------------------
# labels are OBJECTS.  A case stores its labels in a JSON form (enc_label); the canonical label of a node is decoded once
# per case, and EVERY call of the implementation gets a freshly constructed object equal to it (fresh), inside a container
# whose type is chosen per call (Pres).  Universes: small / sparse / big ints (beyond the small-int cache, beyond 2**53,
# 2**63, up to 10**30, negative), run-time strings (incl. numeric strings: '10' < '9'), floats next to ints, bytes, int
# tuples (incl. the falsy ()), chains of frozensets (incl. the falsy frozenset()), tuples / frozensets NEXT TO their own
# members as nodes (hyperedges stay within one comparable group).

def grp(x):
    """comparable group of a label (sorted() inside a hyperedge needs one group)"""
    if isinstance(x, tuple):
        return 2
    if isinstance(x, frozenset):
        return 3
    if isinstance(x, str):
        return 1
    if isinstance(x, bytes):
        return 4
    return 0


def lkey(x):
    return (grp(x), x)


def enc_label(x):
    """JSON form of a label: ints and strings as they are, floats by repr, tuples / frozensets / bytes tagged"""
    if isinstance(x, tuple):
        return {"t": [enc_label(y) for y in x]}
    if isinstance(x, frozenset):
        return {"s": [enc_label(y) for y in sorted(x, key=lkey)]}
    if isinstance(x, bytes):
        return {"b": x.decode("latin-1")}
    if isinstance(x, float):
        return {"f": repr(x)}
    return x


def dec_label(j):
    if isinstance(j, dict):
        if "f" in j:
            return float(j["f"])
        if "b" in j:
            return j["b"].encode("latin-1")
        if "s" in j:
            return frozenset(dec_label(y) for y in j["s"])
        return tuple(dec_label(y) for y in j["t"])
    return j


def map_op(kind, op, fn):
    """the op with fn applied to every label in it"""
    t = op[0]
    if t in ("n", "rn"):
        return [t, fn(op[1])] + list(op[2:])
    if t in ("e", "re"):
        if kind == "D":
            return [t, [[fn(x) for x in op[1][0]], [fn(x) for x in op[1][1]]]] + list(op[2:])
        return [t, [fn(x) for x in op[1]]] + list(op[2:])
    if t in ("E", "RE", "ctor"):
        if kind != "H":             # a batch of records of the other classes: each one written like its add_edge op
            return [t, [map_op(kind, sub, fn) for sub in op[1]]] + list(op[2:])
        return [t, [[fn(x) for x in e] for e in op[1]]] + list(op[2:])
    if t == "RN":
        return [t, [fn(x) for x in op[1]]] + list(op[2:])
    if t == "sub":
        return [t, op[1], [fn(x) for x in op[2]]]
    if t == "N":
        return [t, [fn(x) for x in op[1]]] + list(op[2:])
    if t in ("bad", "q"):
        return [t, op[1], [fn(x) for x in op[2]]] + list(op[3:])
    if t == "meta":
        return [t, op[1], None if op[2] is None else map_op(kind, op[2], fn), [fn(x) for x in op[3]]] + list(op[4:])
    return list(op)


def opt(op, idx):
    """the options of an op (a dict at position idx, when it is there): {"md": k} metadata kind, {"w": x} explicit weight"""
    return op[idx] if len(op) > idx and isinstance(op[idx], dict) else {}


def e_opt(kind, op):
    return opt(op, 2 if kind in "HD" else 3)


# what a caller may hand over as metadata of a hyperedge / node: the unchanged add_edge / add_node store ANY object (the
# documentation says dict).  Every call gets a freshly built object; kind SHARED_MD is ONE dict object per program that is
# handed to several items.
MD_MAKERS = [lambda: None, lambda: {}, lambda: {"label": "x"}, lambda: {"weight": 5, "k": [1, 2]}, lambda: {0: 0},
             lambda: "bridge", lambda: "", lambda: 7, lambda: 0, lambda: 0.5, lambda: ["a", "b"], lambda: ("k", 1),
             lambda: [("k", 1)], lambda: frozenset(), lambda: True, lambda: b"raw", lambda: [1, 2, 3]]
N_MAPPING_MD = 5                      # kinds below are None / mappings (plain use), the others are not mappings
SHARED_MD = len(MD_MAKERS)


def enc_case(case):
    return {**case, "ops": [map_op(case["kind"], op, enc_label) for op in case["ops"]]}


class Mini:
    """tiny deterministic stream, one per call: the presentation of a call depends on (case["pres"], what is called) only,
    so a replay asks every call the same way whatever the implementation did before"""
    M = (1 << 64) - 1

    def __init__(self, seed, text):
        self.s = ((zlib.crc32(text.encode()) << 21) ^ (int(seed) * 0x9E3779B97F4A7C15) ^ 0x5851F42D4C957F2D) & self.M
        self.random()
        self.random()
        self.s0 = self.s
        self.npok = True

    def random(self):
        self.s = (self.s * 6364136223846793005 + 1442695040888963407) & self.M
        return (self.s >> 11) / 9007199254740992.0

    def randrange(self, n):
        return int(self.random() * n)

    def choice(self, xs):
        return xs[int(self.random() * len(xs))]

    def fork(self, k):
        """an independent stream for sub-call k (splitmix64 of the state this stream started from)"""
        m = Mini.__new__(Mini)
        z = (self.s0 + (k + 1) * 0x9E3779B97F4A7C15) & self.M
        z = ((z ^ (z >> 30)) * 0xBF58476D1CE4E5B9) & self.M
        z = ((z ^ (z >> 27)) * 0x94D049BB133111EB) & self.M
        m.s = m.s0 = z ^ (z >> 31)
        m.npok = self.npok
        return m

    def shuffled(self, xs):
        xs = list(xs)
        for i in range(len(xs) - 1, 0, -1):
            j = self.randrange(i + 1)
            xs[i], xs[j] = xs[j], xs[i]
        return xs


def fresh(x, r):
    """an object equal to x (same hash) that is constructed now - never the object stored in the hypergraph"""
    if isinstance(x, tuple):
        return tuple([fresh(y, r) for y in x])
    if isinstance(x, frozenset):
        return frozenset([fresh(y, r) for y in x])
    npok = r.npok
    if isinstance(x, np.generic):       # a label object the implementation handed back: start from the plain Python value
        x = x.item()
    if isinstance(x, str):
        y = "".join(list(x))
        return np.str_(y) if npok and r.random() < 0.05 else y
    if isinstance(x, bytes):
        return bytes(bytearray(x))
    if isinstance(x, bool):
        return x
    if isinstance(x, int):
        c = r.random()
        if c < 0.45:
            return int(str(x))
        if c < 0.70:
            try:
                f = float(x)
                if int(f) == x:
                    return f
            except OverflowError:
                pass
        elif c < 0.92:
            if npok and abs(x) <= 2 ** 53:     # beyond, numpy compares an int64 with a float after rounding: not an equal object
                return np.int32(x) if abs(x) < 2 ** 31 and r.random() < 0.3 else np.int64(x)
        elif c < 0.97:
            if x in (0, 1):
                return bool(x)
        return int(str(x))
    if isinstance(x, float):
        return np.float64(x) if npok and r.random() < 0.25 else float(repr(x))
    return x


JUNK = "C08-junk"


def scribble(x, depth=0):
    """what a caller may do with a container that is HIS (a returned list / set / dict, a container he handed in):
    empty it and put something else in"""
    try:
        if isinstance(x, list):
            if depth == 0:
                for y in x:
                    scribble(y, 1)
            x.clear()
            x.append(JUNK)
        elif isinstance(x, (set, collections.deque)):
            x.clear()
            (x.add if isinstance(x, set) else x.append)(JUNK)
        elif isinstance(x, dict):
            x.clear()
            x[JUNK] = 7
        elif isinstance(x, np.ndarray):
            if x.size and x.dtype.kind in "iuf":
                x += 977
    except Exception:  # noqa: BLE001
        pass


def as_range(base):
    """range object listing exactly the int labels `base` in this order, or None"""
    if not base or not all(type(x) is int and abs(x) < 2 ** 62 for x in base):
        return None
    if len(base) == 1:
        return range(base[0], base[0] + 1)
    d = base[1] - base[0]
    if d == 0 or any(base[j + 1] - base[j] != d for j in range(len(base) - 1)):
        return None
    return range(base[0], base[-1] + (1 if d > 0 else -1), d)


def as_array(objs):
    """1-d numpy array whose elements are equal (and hash-equal) to the given labels, or None"""
    try:
        if not objs or any(isinstance(x, (tuple, frozenset, bytes)) for x in objs):
            return None
        if any(isinstance(x, int) and abs(x) > 2 ** 53 for x in objs):
            return None
        with warnings.catch_warnings():
            warnings.simplefilter("ignore")
            a = np.array(list(objs))
        if a.ndim != 1 or a.dtype.kind not in "iufU" or len(a) != len(objs):
            return None     # (numpy.bool_ raises when it is compared with an int beyond int64: no label)
        if a.dtype.kind == "f" and any(abs(float(v)) >= 2 ** 53 and float(v) == int(v) for v in a if np.isfinite(v)):
            return None     # numpy compares float64(2**53) with the int 2**53 + 1 after rounding: not an equal object of ONE label
        for u, v in zip(a, objs):
            if not (u == v and hash(u) == hash(v)):
                return None
        return a
    except Exception:  # noqa: BLE001
        return None


# container types the unchanged code takes: a hyperedge / a side of a directed hyperedge is anything iterable (it is
# sorted into a tuple); node lists and hyperedge lists are listed once (`list(..)`) except where noted at the call
ONCE = ["tuple"] * 5 + ["list"] * 4 + ["set", "set", "frozenset", "frozenset", "range", "np", "np", "iter", "gen", "dictkeys", "dict", "deque"]
TWICE = [k for k in ONCE if k not in ("iter", "gen")]
HASHABLE = ["tuple", "tuple", "frozenset"]
OUTER = ["list"] * 5 + ["tuple"] * 3 + ["iter", "gen", "dictkeys", "set", "frozenset", "deque"]
OUTER_SIZED = ["list", "list", "tuple"]

# positional parameter order of the unchanged signatures (after self / hg and the node)
POS_OS = ("order", "size")
POS_SO = ("size", "order")
METHOD_POS = {"degree": POS_OS, "degree_sequence": POS_OS, "degree_distribution": POS_OS, "get_neighbors": POS_OS,
              "get_incident_edges": POS_OS}          # every other Hypergraph method: (size, order)


class Pres:
    """HOW a call is written: label objects, container types, calling style; deterministic per (seed, call tag)"""

    def __init__(self, seed, npok=True):
        self.seed = seed
        self.npok = npok          # numpy scalars only in a universe of ONE comparable group: `numpy.int64(5) == (0, 1)` is an
        self.handed = []          # array, not False, so a numpy scalar is no label next to tuple labels (`x in list` raises)

    def at(self, tag):
        r = Mini(self.seed, tag)
        r.npok = self.npok
        return r

    def give(self, x):
        if isinstance(x, (list, set, dict, collections.deque, np.ndarray)):
            self.handed.append(x)
        return x

    def settle(self):
        """aliasing IN: after the call the caller's containers are his again"""
        for x in self.handed:
            scribble(x, 1)
        self.handed = []

    def box(self, r, objs, kinds):
        """the labels objs in a container of a kind drawn from `kinds` (falls back to tuple / list)"""
        kind = r.choice(kinds)
        if kind == "list":
            return self.give(list(objs))
        if kind == "set":
            return self.give(set(objs))
        if kind == "frozenset":
            return frozenset(objs)
        if kind == "iter":
            return iter(list(objs))
        if kind == "gen":
            return (y for y in list(objs))
        if kind == "dictkeys":
            return dict.fromkeys(objs).keys()
        if kind == "dict":
            return self.give(dict.fromkeys(objs, 1))
        if kind == "deque":
            return self.give(collections.deque(objs))
        if kind == "range":
            rg = as_range([int(y) for y in objs]) if all(isinstance(y, (int, np.integer)) and not isinstance(y, bool) for y in objs) else None
            return rg if rg is not None else tuple(objs)
        if kind == "np":
            a = as_array(objs) if self.npok else None
            return self.give(a) if a is not None else self.give(list(objs))
        return tuple(objs)

    def edge(self, r, xs, kinds=ONCE):
        return self.box(r, [fresh(x, r) for x in r.shuffled(xs)], kinds)

    def nodes(self, r, xs, kinds=ONCE):
        return self.box(r, [fresh(x, r) for x in xs], kinds)

    def edges(self, r, es, inner=ONCE, outer=OUTER):
        o = r.choice(outer)
        if o in ("dictkeys", "set", "frozenset"):
            inner = HASHABLE
        items = [self.edge(r, e, inner) for e in es]
        if o in ("set", "frozenset", "dictkeys") and len(set(items)) != len(items):
            o = "list"                   # equal presentations of two hyperedges: a set would swallow one call
        return self.box(r, items, [o])

    def filt(self, r, f, pos):
        """(args, kwargs) of the filter: by keyword, by position (the unchanged signature's order), None given explicitly,
        the value as int or numpy integer"""
        c = r.random()
        if f is None:
            if c < 0.6:
                return (), {}
            if c < 0.75:
                return (), {"order": None, "size": None}
            if c < 0.85:
                return (), {pos[0]: None}
            return ((None,), {}) if c < 0.93 else ((None, None), {})
        name, v = f
        if abs(v) < 2 ** 62 and r.random() < 0.2:
            v = np.int64(v)
        other = "size" if name == "order" else "order"
        if c < 0.6:
            return (), {name: v}
        if c < 0.72:
            return (), {name: v, other: None}
        if pos.index(name) == 0:
            return ((v,), {}) if c < 0.9 else ((v, None), {})
        return ((None, v), {}) if c < 0.9 else ((None,), {name: v})


# ------------------------------------------------------------------------------------------
# generators

BIG = [257, 258, 300, 1000, 1001, 4096, 65536, 2 ** 31 - 1, 2 ** 31, 2 ** 53 - 1, 2 ** 53, 2 ** 53 + 1, 2 ** 63 - 1, 2 ** 63,
       2 ** 64 + 3, 10 ** 30, 10 ** 30 + 1, -6, -7, -300, -1000, -2 ** 31 - 1, -2 ** 53 - 1, -2 ** 63, -2 ** 63 - 1, -10 ** 30,
       2 ** 61 - 1, 2 ** 61, 2 ** 61 + 1, -1, -2]         # hash(2**61 - 1 + k) == hash(k), hash(-1) == hash(-2)
# different labels with EQUAL hashes (a table keyed by hash(label) instead of the label merges them): forced in pairs
COLLIDING = {"small": [(-1, -2)], "sparse": [(-1, -2)], "big": [(-1, -2), (0, 2 ** 61 - 1), (1, 2 ** 61), (2, 2 ** 61 + 1)],
             "float": [(-1, -2), (0, 2 ** 61 - 1)], "tuple": [((-1,), (-2,)), ((-1, 0), (-2, 0))], "tuple+int": [(-1, -2)],
             "str+int": [("", 0)], "fset+int": [(-1, -2)]}
STRS = ([chr(97 + i) * k for i in range(12) for k in (1, 2)] + ["E1", "N0", "Z", "10", "9", "", "0", "2", "100", "1000", "-1", " ",
        "node-17", "node-3", "a b", "A", "é", "(0, 1)"])
FLOATS = [0.5, 1.5, -0.5, 2.25, 2.5, -2.5, 0.1, 1e300, -1e300, 1e-300, float("inf"), float("-inf")]
BYTES = [b"", b"a", b"b", b"ab", b"ba", b"abc", b"10", b"9", b"Z", b"\x00", b"\xff", b"\x00\x01", b"node-1"]
TUPLES = ([(r, c) for r in range(3) for c in range(4)] + [(), (0,), (1,), (1, 2, 3), (0, 0, 0), (300, 5), (10 ** 30, 1), (-1, 0), (2, 10 ** 30)])
UNIVERSES = (["small"] * 18 + ["sparse"] * 7 + ["big"] * 17 + ["str"] * 17 + ["float"] * 8 + ["tuple"] * 12 + ["tuple+int"] * 7
             + ["fset"] * 4 + ["fset+int"] * 4 + ["bytes"] * 5 + ["str+int"])
FALSY = {"small": 0, "sparse": 0, "big": 0, "str": "", "float": 0, "tuple": (), "tuple+int": 0, "fset": frozenset(),
         "fset+int": frozenset(), "bytes": b"", "str+int": ""}


def gen_labels(rng, n, kind="H"):
    """n distinct labels of one universe; returns (labels, universe name)"""
    uni = rng.choice(UNIVERSES)
    if uni.startswith("tuple") and kind not in ("H", "D"):
        uni = "big" if uni == "tuple" else "str"    # D49 / D50: Temporal / Multiplex read a pair of tuples as a directed pair
    if uni == "small":
        pool = list(range(0, 12))
    elif uni == "sparse":
        pool = list(range(-5, 40))
    elif uni == "big":
        pool = BIG + rng.sample(range(0, 12), 3)
    elif uni == "str":
        pool = sorted(set(STRS))
    elif uni == "str+int":
        pool = rng.sample(sorted(set(STRS)), 6) + rng.sample(range(0, 12), 5)
    elif uni == "float":
        pool = FLOATS + [0, 1, 2, 3, -1, 10, 300]
    elif uni == "bytes":
        pool = list(BYTES)
    elif uni == "tuple":
        pool = list(TUPLES)
    elif uni == "tuple+int":
        # tuples NEXT TO their own members: (0, 1) is a node, 0 and 1 are nodes as well
        pool = [0, 1, 2, 3, (0, 1), (2, 3), (0, 2), (1,), (0, 1, 2), (3, 0), (1, 1), (2,)]
    else:
        base = rng.sample(list(range(0, 12)) if rng.random() < 0.7 else ["a", "b", "c", "dd", "10", "9", "", "e", "f", "g", "h", "i"], 12)
        pool = [frozenset(base[:k]) for k in range(0, 12)]          # a chain: totally ordered by <
        if uni == "fset+int":
            pool = pool[:7] + [x for x in base[:6] if not isinstance(x, str)]
    labels = rng.sample(pool, min(n, len(pool)))
    if len(labels) >= 2 and uni in COLLIDING and rng.random() < 0.3:
        a, b = rng.choice(COLLIDING[uni])
        rest = [x for x in labels if x != a and x != b]
        labels = rng.sample([a, b] + rest[:len(labels) - 2], len(labels))
    falsy = FALSY[uni]
    if labels and falsy not in labels and rng.random() < 0.6:
        labels[rng.randrange(len(labels))] = falsy          # the falsy label (0 / '' / () / frozenset() / b'') is a node like any other
    return labels, uni


def sample_group(rng, pool, k):
    """k labels of ONE comparable group of the pool (a hyperedge is sorted)"""
    x0 = rng.choice(pool)
    same = [y for y in pool if grp(y) == grp(x0)]
    return rng.sample(same, min(k, len(same)))


def gen_edge_sets(rng, labels):
    n = len(labels)
    out = []
    if n == 0:
        return out
    style = rng.random()
    for _ in range(rng.choice([0, 1, 2, 3, 4, 5, 6, 8, 10])):
        if style < 0.3:
            size = rng.choice([1, 2, 2, 3])
        elif style < 0.5:
            size = rng.choice([2, 3])
        else:
            size = rng.choice([1, 2, 2, 3, 3, 4, 5])
        out.append(sample_group(rng, labels, min(size, n)))
    return out


def gen_h(rng):
    n = rng.choice([0, 1, 2, 3, 4, 5, 6, 6, 7, 7, 8, 8, 9, 9])
    labels, uni = gen_labels(rng, n)
    n = len(labels)
    edges = gen_edge_sets(rng, labels[: max(1, n - rng.randint(0, 2))] if n else [])
    ops = [["n", x] for x in labels if rng.random() < 0.6] + [["e", e] for e in edges]
    if edges and rng.random() < 0.3:
        ops.append(["e", list(reversed(rng.choice(edges)))])      # the same hyperedge again
    rng.shuffle(ops)
    ops += [["n", x] for x in labels if rng.random() < 0.2]
    if rng.random() < 0.3:
        # a history with removals (and re-insertions): the adjacency lists the degrees are read from have been edited
        present_e, present_n, out = [], set(), []
        for op in ops:
            out.append(op)
            if op[0] == "n":
                present_n.add(op[1])
            else:
                present_e.append(sorted(op[1], key=lkey))
                present_n.update(op[1])
            r = rng.random()
            if r < 0.15 and present_e:
                e = present_e.pop(rng.randrange(len(present_e)))
                present_e = [q for q in present_e if q != e]
                out.append(["re", e])
                if rng.random() < 0.4:
                    out.append(["e", e])
                    present_e.append(e)
            elif r < 0.25 and present_n:
                x = rng.choice(sorted(present_n, key=lkey))
                keep = rng.random() < 0.5
                out.append(["rn", x, keep])
                present_n.discard(x)
                present_e = [[y for y in q if y != x] for q in present_e] if keep else [q for q in present_e if x not in q]
        ops = out
    return {"kind": "H", "ops": ops, "uni": uni}


def gen_other(rng, kind):
    n = rng.choice([1, 2, 3, 4, 5, 6, 7, 8, 9])
    labels, uni = gen_labels(rng, n, kind)
    ops = [["n", x] for x in labels if rng.random() < 0.5]
    for e in gen_edge_sets(rng, labels):
        if kind == "D":
            if len(e) < 2:
                continue
            k = rng.randint(1, len(e) - 1)
            ops.append(["e", [e[:k], e[k:]]])
            if rng.random() < 0.3:
                ops.append(["e", [e[k:], e[:k]]])
        elif kind == "T":
            ops.append(["e", e, rng.randint(0, 3)])
            if rng.random() < 0.4:
                ops.append(["e", list(reversed(e)), rng.randint(0, 3)])
        else:
            ops.append(["e", e, rng.choice(["a", "b", "c"])])
            if rng.random() < 0.4:
                ops.append(["e", list(reversed(e)), rng.choice(["a", "b", "c"])])
    rng.shuffle(ops)
    return {"kind": kind, "ops": ops, "uni": uni}


# ------------------------------------------------------------------------------------------
# programs: every object a user can hold is reached through a history over several objects
#
# ops (JSON lists; `focus` = the object the mutations go to, object 0 at the start):
#   ["n", x]  add_node            ["e", ...] add_edge      (H: e | D: [S, T] | T: e, time | M: e, layer)
#   ["re", ...] remove_edge (same arguments, skipped when the record is absent)   ["rn", x, keep] remove_node(keep_edges)
#   H only: ["ctor", [e..]] Hypergraph(edge_list=..) as the first op, ["E", [e..]] add_edges, ["RE", [e..]] remove_edges,
#           ["RN", [x..], keep] remove_nodes, ["clr"] clear, ["sub", src, [x..]] new object = objs[src].subhypergraph(..)
#   ["cp", src] new object = copy of objs[src]   ["on", i] focus := i   ["chk"(, i(, light))] check an object now
#   options (a dict at the end of "e" / "n" / "N" / "E"): {"md": k} metadata kind (MD_MAKERS; "full" / "short" dict for "N"; a list for "E"),
#           {"w": x} explicit weight (x != 1 on an unweighted hypergraph: rejected)
#   ["re"] / ["rn"] / ["RE"] / ["RN"] naming absent (or repeated) items are CALLED and expected to be rejected
#   ["N", [x..]] add_nodes   ["clr"] clear (H, D, T)   ["pop", src] populate_from_dict(deepcopy(objs[src].expose_data_structures()))
#   ["adj"] / ["el"] set_adj_dict / set_edge_list with the same tables in reversed order (H)
#   ["meta", method, record-op | None, [x], k] a mutator that must leave nodes and hyperedges alone (returns or raises)
#   ["q", query, [x], "absent" | "both"] a query the code rejects   ["bad", name, [x..]] a malformed mutator call (BAD_CALLS)
#   ["rnd", count, size, seed, inplace, by_order] generation.add_random_edge(s)
#   new objects: ["sbo", src, "sizes"|"orders", [..], keep_nodes]  ["slc", src, filter]  ["ges", src, filter, up_to, keep_isolated]
#                ["io", src, binary]  ["gen", "random"|"uniform", n, [[size, count]..], seed] (object 0 when it is the first op)
# every object is checked once more at the end of the program.

MAX_OBJS = 4
LAYERS = ["a", "b", "c"]


class Shadow:
    """the content a history defines (set semantics of the documented operations), independent of the implementation"""

    def __init__(self, kind):
        self.kind = kind
        self.nodes = {}
        self.recs = {}

    def copy(self):
        s = Shadow(self.kind)
        s.nodes, s.recs = dict(self.nodes), dict(self.recs)
        return s

    def rec(self, op):
        k = self.kind
        if k == "H":
            return tuple(sorted(op[1], key=lkey))
        if k == "D":
            return (tuple(sorted(op[1][0], key=lkey)), tuple(sorted(op[1][1], key=lkey)))
        if k == "T":
            return (op[2], tuple(sorted(op[1], key=lkey)))
        return (tuple(sorted(op[1], key=lkey)), op[2])

    def members(self, r):
        k = self.kind
        return r if k == "H" else r[0] + r[1] if k == "D" else r[1] if k == "T" else r[0]

    def add_node(self, x):
        self.nodes.setdefault(x, None)

    def add(self, r):
        self.recs.setdefault(r, None)
        for x in self.members(r):
            self.add_node(x)

    def remove(self, r):
        del self.recs[r]

    def reduce(self, r, x):
        """the record without node x as remove_node(keep_edges=True) re-inserts it; None = dropped"""
        k = self.kind
        if k == "H":
            return tuple(y for y in r if y != x)                 # may be the empty hyperedge ()
        if k == "D":
            q = (tuple(y for y in r[0] if y != x), tuple(y for y in r[1] if y != x))
            return q if q[0] and q[1] else None
        if k == "T":
            q = tuple(y for y in r[1] if y != x)
            return (r[0], q) if q else None
        q = tuple(y for y in r[0] if y != x)
        return (q, r[1]) if q else None

    def remove_node(self, x, keep):
        inc = [r for r in self.recs if x in self.members(r)]
        if keep:
            for r in inc:
                q = self.reduce(r, x)
                if q is not None:
                    self.add(q)
        for r in inc:
            del self.recs[r]
        del self.nodes[x]

    def clear(self):
        self.nodes, self.recs = {}, {}

    def sub(self, nodes):
        s = Shadow(self.kind)
        for x in nodes:
            s.add_node(x)
        keep = set(nodes)
        for r in self.recs:
            if set(self.members(r)) <= keep:
                s.add(r)
        return s


def op_of_rec(kind, r, tag):
    if kind == "H":
        return [tag, list(r)]
    if kind == "D":
        return [tag, [list(r[0]), list(r[1])]]
    if kind == "T":
        return [tag, list(r[1]), r[0]]
    return [tag, list(r[0]), r[1]]


def op_members(kind, op):
    return list(op[1][0]) + list(op[1][1]) if kind == "D" else list(op[1])


def labels_of(case):
    kind = case["kind"]
    for op in case["ops"]:
        t = op[0]
        if t in ("n", "rn"):
            yield op[1]
        elif t in ("e", "re"):
            yield from op_members(kind, op)
        elif t in ("E", "RE", "ctor"):
            for e in op[1]:
                yield from (e if kind == "H" else op_members(kind, e))
        elif t == "RN":
            yield from op[1]
        elif t == "sub":
            yield from op[2]
        elif t == "N":
            yield from op[1]
        elif t in ("bad", "q"):
            yield from op[2]
        elif t == "meta":
            if op[2] is not None:
                yield from op_members(kind, op[2])
            yield from op[3]
        elif t == "gen":
            yield from range(op[2])          # the generators label their nodes 0 .. n-1


WEIGHTS = [2, 0.5, 3, 1]


def new_obj(kind, edge_list=None, weighted=False, P=None, r=None):
    from hypergraphx import Hypergraph, DirectedHypergraph, TemporalHypergraph, MultiplexHypergraph
    if edge_list is not None:
        if weighted:      # the constructor wants distinct hyperedges when weights are given (a sized, hashable listing)
            es = list(dict.fromkeys(tuple(sorted(e, key=lkey)) for e in edge_list))
            return Hypergraph(edge_list=P.edges(r, es, HASHABLE, OUTER_SIZED), weighted=True,
                              weights=[WEIGHTS[j % 4] for j in range(len(es))])
        return Hypergraph(edge_list=P.edges(r, edge_list, ONCE, [k for k in OUTER if k != "deque" or edge_list]))
    cls = {"H": Hypergraph, "D": DirectedHypergraph, "T": TemporalHypergraph, "M": MultiplexHypergraph}[kind]
    return cls(weighted=True) if weighted else cls()


LISTING = {"H": tuple, "D": lambda e: (tuple(e[0]), tuple(e[1])), "T": lambda e: (e[0], tuple(e[1])),
           "M": lambda e: (tuple(e[0]), e[1])}


class Broken(Exception):
    """the object no longer lists a hypergraph (a hyperedge over a node that is not listed, a repeated item)"""


def shadow_classes(s, f):
    """reachability classes of a Hypergraph shadow under filter f (union-find on the labels)"""
    ws = want_size(f)
    parent = {x: x for x in s.nodes}

    def find(x):
        while parent[x] != x:
            x = parent[x]
        return x
    for e in s.recs:
        if ws is None or len(e) == ws:
            for y in e[1:]:
                a, b = find(e[0]), find(y)
                if a != b:
                    parent[a] = b
    cl = {}
    for x in s.nodes:
        cl.setdefault(find(x), []).append(x)
    return list(cl.values())


def jf(f):
    """filter in JSON form (None | [name, value]) -> the tuple form used everywhere else"""
    return None if f is None else (f[0], f[1])


BAD_CALLS = {"H": ["edge-not-iterable", "edge-unsortable", "edge-unhashable", "node-unhashable", "nodes-not-iterable", "nodes-partial",
                   "edges-partial", "edges-weights-short", "edges-metadata-short"],
             "D": ["edge-not-iterable", "edge-unsortable", "edge-unhashable", "node-unhashable", "nodes-not-iterable", "nodes-partial",
                   "edges-partial"],
             "T": ["edge-not-iterable", "edge-unsortable", "edge-unhashable", "node-unhashable", "nodes-not-iterable", "nodes-partial",
                   "time-negative", "time-float"],
             "M": ["edge-not-iterable", "edge-unsortable", "edge-unhashable", "node-unhashable", "nodes-not-iterable", "nodes-partial"]}
# mutators that leave nodes and hyperedges alone (called on present and on absent targets; accepted or rejected, the content stays)
META_CALLS = ["set_weight", "set_edge_metadata", "set_attr_to_edge_metadata", "remove_attr_from_edge_metadata", "set_node_metadata",
              "set_attr_to_node_metadata", "remove_attr_from_node_metadata", "set_hypergraph_metadata",
              "set_attr_to_hypergraph_metadata", "set_incidence_metadata", "add_empty_edge"]
NODE_QUERIES = ["degree", "node_connected_component", "is_isolated", "get_neighbors", "get_incident_edges"]
PRODUCERS = ("cp", "sub", "sbo", "slc", "ges", "io", "gen", "new")


class World:
    """the objects of one program: shadows always, implementation objects and model lines when `rank` is given"""

    def __init__(self, kind, rank=None, weighted=False, pres=0):
        self.kind, self.rank, self.live, self.weighted = kind, rank, rank is not None, bool(weighted)
        self.P = Pres(pres or 0, len({grp(x) for x in rank or ()}) <= 1)
        self.canon = {x: x for x in rank} if self.live else {}
        self.step = 0
        self.sh = [Shadow(kind)]
        self.objs = [new_obj(kind, weighted=self.weighted)] if self.live else [None]
        self.wt = [self.weighted]     # per object: made with weighted=True (what a generator makes is unweighted)
        self.focus = 0
        self.rel = [set()]            # copy / subhypergraph lineage
        self.stale = [False]          # a relative was mutated after the copy was taken
        self.checked = [False]        # queried before ...
        self.touched = [False]        # ... and mutated in place since
        self.lines = ["hnew"] if kind == "H" else []
        self.wants = ["ok"] if kind == "H" else []
        self.nops = 0
        self.events = []              # (object, what): calls that raised and were caught - the object is checked right away
        self.counts = collections.Counter()
        self.shared_md = {"shared": 1}

    # model lines (Hypergraph only: the Lean history model `C08.Hist`)
    def _m(self, *toks, want="ok"):
        if self.live and self.kind == "H":
            self.lines.append(" ".join(str(t) for t in toks))
            self.wants.append(want)

    def _e(self, e):
        return hgxv.enc_list(sorted(self.rank[x] for x in e), "_") if self.live else ""

    def _r(self, x):
        return self.rank[x] if self.live else 0

    def _w(self, j=0):
        """weight keyword of add_edge: weighted hypergraphs count hyperedges all the same"""
        return {"weight": WEIGHTS[(self.nops + j) % 4]} if self.wt[self.focus] else {}

    def _md(self, k):
        return self.shared_md if k == SHARED_MD else MD_MAKERS[k]()

    def _mutated(self, i):
        self.touched[i] = True
        for j in self.rel[i]:
            self.stale[j] = True

    def _spawn(self, src, shadow, make):
        obj = make() if self.live else None
        self.sh.append(shadow)
        self.objs.append(obj)
        self.wt.append(self.wt[src] if src is not None else False)
        k = len(self.sh) - 1
        fam = ({src} | self.rel[src]) if src is not None else set()
        self.rel.append(set(fam))
        for j in fam:
            self.rel[j].add(k)
        self.stale.append(False)
        self.checked.append(False)
        self.touched.append(False)
        return k

    def _mset(self, k):
        """the model takes the content of object k as it stands in the shadow (`hset`: a new object when k is the next index)"""
        if self.live and self.kind == "H":
            s = self.sh[k]
            self._m("hset", k, hgxv.enc_lists([sorted(self.rank[x] for x in e) for e in s.recs]),
                    hgxv.enc_list([self.rank[x] for x in s.nodes]))

    def resync(self, i):
        """the LISTING of object i is its content from here on: after a call that raised (whatever it did before it raised), after a
        call whose outcome the library draws (add_random_edge), for an object a generator / loader made.  The listing must be
        a hypergraph: distinct known nodes, distinct hyperedges over listed nodes - otherwise no degree can be right."""
        if not self.live:
            return
        h, kind, canon = self.objs[i], self.kind, self.canon
        raw_n, raw_e = h.get_nodes(), h.get_edges()
        nodes, recs = {}, {}
        try:
            for x in raw_n:
                if canon[x] in nodes:
                    raise Broken(f"get_nodes() lists {x!r} twice")
                nodes[canon[x]] = None
            for e in raw_e:
                q = LISTING[kind](e)
                lab = lambda t: tuple(sorted((canon[y] for y in t), key=lkey))       # noqa: E731
                q = lab(q) if kind == "H" else (lab(q[0]), lab(q[1])) if kind == "D" else (q[0], lab(q[1])) if kind == "T" \
                    else (lab(q[0]), q[1])
                if q in recs:
                    raise Broken(f"get_edges() lists {q!r} twice")
                recs[q] = None
        except (KeyError, TypeError) as ex:
            raise Broken(f"the object lists an item that no call of this history put there ({type(ex).__name__}: {ex})") from None
        s = self.sh[i]
        for q in recs:
            for y in s.members(q):
                if y not in nodes:
                    raise Broken(f"get_edges() lists {q!r} but get_nodes() does not list {y!r}: the degrees cannot sum to the "
                                 f"total size of the hyperedges")
        s.nodes, s.recs = nodes, recs
        self._mset(i)
        self.counts["listings_taken_as_starting_point"] += 1

    def call(self, mode, fn):
        """one mutator call.  "must": plain use, an exception is a finding (it propagates); "may": the unchanged code takes it
        but it is no plain use (metadata that is no mapping); "rej": the unchanged code rejects it.  True when it returned."""
        if not self.live:
            return mode != "rej"
        try:
            fn()
            ok = True
        except Exception as ex:  # noqa: BLE001
            if mode == "must":
                raise
            ok = False
            self.events.append((self.focus, "%s: %s" % (type(ex).__name__, str(ex)[:80])))
            self.counts["calls_that_raised_inside_programs"] += 1
            if os.environ.get("C08_DEBUG"):
                print("C08_DEBUG raised", mode, self.kind, self.step, self.events[-1], file=sys.stderr)
        if mode == "rej" or not ok:
            self.counts["calls_%s_%s" % ({"may": "unusual", "rej": "malformed"}[mode], "returned" if ok else "raised")] += 1
        return ok

    def quiet(self, fn):
        """a call that must leave nodes and hyperedges alone whether it returns or raises"""
        if not self.live:
            return
        try:
            v = fn()
            scribble(v) if isinstance(v, (list, set)) else None
            self.counts["content_neutral_calls_returned"] += 1
        except Exception:  # noqa: BLE001
            self.counts["content_neutral_calls_raised"] += 1

    def apply(self, op):
        """returns (object index, light) for a "chk" op, else None"""
        try:
            return self._apply(op)
        finally:
            self.P.settle()       # aliasing IN: the containers handed to the call are scribbled over afterwards

    def _rec_args(self, r, recop, pair):
        """positional arguments that name a record in set_weight / set_edge_metadata / ... of this class"""
        kind, P = self.kind, self.P
        if kind == "H":
            return (P.edge(r, recop[1], HASHABLE),)
        if kind == "D":
            return (pair(P.edge(r, recop[1][0], HASHABLE), P.edge(r, recop[1][1], HASHABLE)),)
        return (P.edge(r, recop[1], HASHABLE), recop[2])

    def _produce(self, op, r):
        import copy as _copy
        import pickle as _pickle
        kind, t, P = self.kind, op[0], self.P
        first = t == "gen" and self.nops == 0 and len(self.sh) == 1          # the generated object is object 0
        if len(self.sh) >= MAX_OBJS and not first:
            return None
        if t in ("sub", "sbo", "slc", "ges", "gen") and kind != "H":
            return None
        if t == "new":               # one more empty object of the class, made the way object 0 was made
            k = self._spawn(None, Shadow(kind), lambda: new_obj(kind, weighted=self.wt[0]))
            self.wt[k] = self.wt[0]
            self._mset(k)
            return None
        src = None if t == "gen" else op[1]
        if src is not None and not (isinstance(src, int) and 0 <= src < len(self.sh)):
            return None
        ssrc = None if src is None else self.sh[src]
        osrc = None if src is None else self.objs[src]
        if t == "cp":
            how = r.random()            # copy() (not for Multiplex), copy.deepcopy, a pickle round trip of the object itself
            self._spawn(src, ssrc.copy(), lambda: _pickle.loads(_pickle.dumps(osrc)) if how < 0.1 else
                        _copy.deepcopy(osrc) if kind == "M" or how < 0.22 else osrc.copy())
            self._m("hcp", src)
        elif t == "sub":
            nodes = [x for x in dict.fromkeys(op[2]) if x in ssrc.nodes]
            # subhypergraph walks its argument several times: any re-iterable collection of nodes
            self._spawn(src, ssrc.sub(nodes), lambda: osrc.subhypergraph(P.nodes(r, nodes, TWICE)))
            self._m("hsub", src, hgxv.enc_list([self.rank[x] for x in nodes]) if self.live else "")
        elif t == "sbo":
            which, vals, keep = op[2], list(op[3]), bool(op[4])
            sizes = set(vals) if which == "sizes" else {v + 1 for v in vals}
            sh = Shadow(kind)
            if keep:
                for x in ssrc.nodes:
                    sh.add_node(x)
            for q in ssrc.recs:
                if len(q) in sizes:
                    sh.add(q)
            box = (list, tuple)[r.randrange(2)]
            k = self._spawn(src, sh, lambda: osrc.subhypergraph_by_orders(**{which: box(vals)}, keep_nodes=keep)
                            if r.random() < 0.7 or not keep else osrc.subhypergraph_by_orders(**{which: box(vals)}))
            self._mset(k)
        elif t == "ges":
            f, up_to, keep = jf(op[2]), bool(op[3]), bool(op[4])
            ws = want_size(f)
            sh = Shadow(kind)
            if keep:
                for x in ssrc.nodes:
                    sh.add_node(x)
            for q in ssrc.recs:
                if ws is None or (len(q) <= ws if up_to else len(q) == ws):
                    sh.add(q)
            k = self._spawn(src, sh, lambda: osrc.get_edges(**kw(f), up_to=up_to, subhypergraph=True, keep_isolated_nodes=keep))
            self._mset(k)
        elif t == "slc":
            f = jf(op[2])
            classes = shadow_classes(ssrc, f)
            if not classes:             # no component exists: the code raises (max of nothing); nothing is made
                self.quiet(lambda: osrc.subhypergraph_largest_component(**kw(f)))
                return None
            big = max(len(c) for c in classes)
            k = self._spawn(src, ssrc.sub(next(c for c in classes if len(c) == big)),
                            lambda: osrc.subhypergraph_largest_component(**kw(f)))
            if self.live:
                self.resync(k)
                got = set(self.sh[k].nodes)
                if not any(got == set(c) for c in classes if len(c) == big) or set(self.sh[k].recs) != set(ssrc.sub(list(got)).recs):
                    raise Broken(f"subhypergraph_largest_component({kw(f)}) of object {src} has nodes {sorted(got, key=repr)} / "
                                 f"hyperedges {sorted(self.sh[k].recs, key=repr)}: not the sub-hypergraph on a reachability class "
                                 f"of maximal size {big} (classes {classes})"[:1200])
        elif t == "io":
            made = []
            if self.live:
                import os
                import tempfile
                from hypergraphx.readwrite.save import save_hypergraph
                from hypergraphx.readwrite.load import load_hypergraph
                path = os.path.join(tempfile.gettempdir(), "c08-%d.%s" % (os.getpid(), "hgx" if op[2] else "json"))
                try:
                    save_hypergraph(osrc, path, binary=bool(op[2]))
                    made.append(load_hypergraph(path))
                except Exception:  # noqa: BLE001 - labels / metadata the file format cannot hold: the loaders are not C08's
                    self.counts["save_load_round_trips_not_possible"] += 1
                    return None
                finally:
                    try:
                        os.remove(path)
                    except OSError:
                        pass
            k = self._spawn(src, ssrc.copy(), lambda: made[0])
            if self.live:
                try:
                    self.resync(k)
                except Broken:          # the file format changed the labels (tuples come back as lists): not an object of this universe
                    for l in (self.sh, self.objs, self.rel, self.stale, self.checked, self.touched, self.wt):
                        l.pop()
                    for fam in self.rel:
                        fam.discard(k)
                    self.counts["save_load_round_trips_not_possible"] += 1
                    return None
                self.counts["objects_from_save_load"] += 1
        elif t == "gen":
            n, sizes, seed = op[2], {int(a): int(b) for a, b in op[3]}, op[4]
            sh = Shadow(kind)
            for x in range(n):
                sh.add_node(x)

            def make():
                from hypergraphx.generation.random import random_hypergraph, random_uniform_hypergraph
                if op[1] == "uniform":
                    (sz, cnt), = sizes.items()
                    return random_uniform_hypergraph(n, sz, cnt, seed=seed)
                return random_hypergraph(n, sizes, seed=seed)
            if first:
                self.sh[0], self.wt[0] = sh, False
                if self.live:
                    self.objs[0] = make()
                k = 0
            else:
                k = self._spawn(None, sh, make)
            if self.live:
                self.resync(k)
                self.counts["objects_from_generators"] += 1
        return None

    def _apply(self, op):
        kind, t, i = self.kind, op[0], self.focus
        s, h = self.sh[i], self.objs[i]
        P, live = self.P, self.live
        self.step += 1
        r = P.at("op%d" % self.step)
        pair = lambda a, b: [a, b] if r.random() < 0.3 else (a, b)      # noqa: E731 - a (sources, targets) / (nodes, layer) pair
        if t == "on":
            if 0 <= op[1] < len(self.sh):
                self.focus = op[1]
            return None
        if t == "chk":
            j = op[1] if len(op) > 1 and isinstance(op[1], int) and 0 <= op[1] < len(self.sh) else i
            return (j, bool(op[2]) if len(op) > 2 else False)
        if t in PRODUCERS:
            return self._produce(op, r)
        self.nops += 1
        if t == "n":
            o = opt(op, 2)
            mode = "must"
            if "md" in o:
                md = self._md(o["md"])
                if N_MAPPING_MD <= o["md"] < SHARED_MD:
                    mode = "may"
                ok = self.call(mode, lambda: h.add_node(fresh(op[1], r), md) if r.random() < 0.4 else h.add_node(fresh(op[1], r), metadata=md))
            else:
                ok = self.call(mode, lambda: h.add_node(fresh(op[1], r)))
            if ok:
                self._m("hn", i, self._r(op[1]))
                s.add_node(op[1])
            elif live:
                self.resync(i)
        elif t == "N":
            o = opt(op, 2)
            xs, how = list(op[1]), o.get("md")
            if kind == "D":
                how = None                  # DirectedHypergraph.add_nodes takes the nodes only
            name = "node_metadata" if kind == "M" else "metadata"
            mode = "rej" if how == "short" and xs else "must"       # a node without an entry: the batch is rejected

            def add_nodes():
                if how is None:
                    return h.add_nodes(P.nodes(r, xs, TWICE)) if r.random() < 0.7 else h.add_nodes(node_list=P.nodes(r, xs, TWICE))
                md = {fresh(x, r): self._md(1 + j % (N_MAPPING_MD - 1)) for j, x in enumerate(xs)}
                if how == "short":
                    del md[xs[r.randrange(len(xs))]]
                return h.add_nodes(P.nodes(r, xs, TWICE), **{name: md})
            self.call(mode, add_nodes)
            if mode == "must":
                for x in xs:
                    s.add_node(x)
                    self._m("hn", i, self._r(x))
            elif live:
                self.resync(i)
        elif t == "e":
            o = e_opt(kind, op)
            rec = s.rec(op)
            kws = dict(self._w())
            mode = "must"
            if "md" in o:
                kws["metadata"] = self._md(o["md"])
                if N_MAPPING_MD <= o["md"] < SHARED_MD:
                    mode = "may"
            if "w" in o and not self.wt[i]:
                kws["weight"] = o["w"]
                if o["w"] != 1:
                    mode = "rej"
            if kind == "H":
                ok = self.call(mode, lambda: h.add_edge(P.edge(r, op[1]), **kws))
            elif kind == "D":
                ok = self.call(mode, lambda: h.add_edge(pair(P.edge(r, op[1][0]), P.edge(r, op[1][1])), **kws))
            else:
                ok = self.call(mode, lambda: h.add_edge(P.edge(r, op[1]), op[2], **kws))
            if ok and mode != "rej":
                s.add(rec)
                if kind == "H":
                    self._m("he", i, self._e(op[1]))
            if live and (mode == "rej" or not ok):
                self.resync(i)
        elif t == "re":
            rec = s.rec(op)
            mode = "must" if rec in s.recs else "rej"          # an absent hyperedge: the code raises, the program goes on
            if kind == "H":
                ok = self.call(mode, lambda: h.remove_edge(P.edge(r, op[1])))
                self._m("hre", i, self._e(op[1]), want="ok" if mode == "must" else "rej")
            elif kind == "D":
                ok = self.call(mode, lambda: h.remove_edge(pair(P.edge(r, op[1][0]), P.edge(r, op[1][1]))))
            elif kind == "T":
                ok = self.call(mode, lambda: h.remove_edge(P.edge(r, op[1]), op[2]))
            else:
                ok = self.call(mode, lambda: h.remove_edge(pair(P.edge(r, op[1]), op[2])))
            if mode == "must":
                s.remove(rec)
            elif live:
                self.resync(i)
        elif t == "rn":
            mode = "must" if op[1] in s.nodes else "rej"
            if r.random() < 0.3:
                self.call(mode, lambda: h.remove_node(fresh(op[1], r), bool(op[2])))
            else:
                self.call(mode, lambda: h.remove_node(fresh(op[1], r), keep_edges=bool(op[2])))
            self._m("hrn", i, self._r(op[1]), 1 if op[2] else 0, want="ok" if mode == "must" else "rej")
            if mode == "must":
                s.remove_node(op[1], bool(op[2]))
            elif live:
                self.resync(i)
        elif t == "clr":
            if kind == "M":
                return None
            self.call("must", lambda: h.clear())
            self._m("hclr", i)
            s.clear()
        elif t == "pop":
            import copy as _copy
            src = op[1]
            if not (isinstance(src, int) and 0 <= src < len(self.sh)):
                return None
            osrc = self.objs[src]
            # a snapshot of the tables (what save / load pass around), restored into this object
            self.call("must", lambda: h.populate_from_dict(_copy.deepcopy(osrc.expose_data_structures())))
            self.sh[i], self.wt[i] = self.sh[src].copy(), self.wt[src]
            self._m("hpop", i, src)
            if src != i:
                self.rel[i].add(src)
                self.rel[src].add(i)
        elif t == "meta":
            name, recop, xs, k = op[1], op[2], list(op[3]), op[4]
            if live and hasattr(h, name):
                md = self._md(k % (SHARED_MD + 1))
                rec_a = lambda: self._rec_args(r, recop, pair) if recop is not None else ((),)       # noqa: E731
                node_a = lambda: (fresh(xs[0], r),) if xs else (None,)                               # noqa: E731
                if name == "set_weight":
                    self.quiet(lambda: h.set_weight(*rec_a(), (1, 2.5, 1.0, 0)[k % 4] if not self.wt[i] else (2.5, 1, 0.5, 3)[k % 4]))
                elif name == "set_edge_metadata":
                    self.quiet(lambda: h.set_edge_metadata(*rec_a(), md))
                elif name == "set_attr_to_edge_metadata":
                    self.quiet(lambda: h.set_attr_to_edge_metadata(*rec_a(), "k", md))
                elif name == "remove_attr_from_edge_metadata":
                    self.quiet(lambda: h.remove_attr_from_edge_metadata(*rec_a(), ("k", "label", "absent")[k % 3]))
                elif name == "set_node_metadata":
                    self.quiet(lambda: h.set_node_metadata(*node_a(), md))
                elif name == "set_attr_to_node_metadata":
                    self.quiet(lambda: h.set_attr_to_node_metadata(*node_a(), "k", md))
                elif name == "remove_attr_from_node_metadata":
                    self.quiet(lambda: h.remove_attr_from_node_metadata(*node_a(), ("k", "absent")[k % 2]))
                elif name == "set_hypergraph_metadata":
                    self.quiet(lambda: h.set_hypergraph_metadata({"name": "c08", "k": k}))
                elif name == "set_attr_to_hypergraph_metadata":
                    self.quiet(lambda: h.set_attr_to_hypergraph_metadata("k", md))
                elif name == "set_incidence_metadata":
                    a = rec_a()
                    self.quiet(lambda: h.set_incidence_metadata(*a[:1], *node_a(), md) if kind in "HD"
                               else h.set_incidence_metadata(*a, *node_a(), md))
                elif name == "add_empty_edge":
                    self.quiet(lambda: h.add_empty_edge("E%d" % (k % 3), md))
            return None
        elif t == "q":
            if live:
                self._query_rejected(op, r)
            return None
        elif t == "bad":
            self._bad(op, r, pair)
        elif kind != "H" and t in ("E", "RE", "RN"):
            if not self._batch_other(op, r, pair):
                return None
        elif kind != "H":
            return None
        elif t in ("E", "ctor"):
            o = opt(op, 2)
            mds = o.get("md")
            if t == "ctor" and self.nops == 1 and len(self.sh) == 1:
                if live:
                    self.objs[i] = new_obj("H", op[1], self.wt[i], P, r)
                ok, mode = True, "must"
            else:
                kws, mode = {}, "must"
                es = list(op[1])
                if self.wt[i]:     # with weights the batch must not repeat a hyperedge (the code rejects it)
                    es = list(dict.fromkeys(tuple(sorted(e, key=lkey)) for e in op[1]))
                    kws["weights"] = [self._w(j)["weight"] for j in range(len(es))]
                if mds is not None and len(mds) >= len(es):
                    kws["metadata"] = [self._md(k) for k in mds]
                    if any(N_MAPPING_MD <= k < SHARED_MD for k in mds[:len(es)]):
                        mode = "may"
                if self.wt[i]:
                    ok = self.call(mode, lambda: h.add_edges(P.edges(r, es, HASHABLE, OUTER_SIZED), **kws))
                else:
                    ok = self.call(mode, lambda: h.add_edges(P.edges(r, es), **kws))
            if ok:
                for e in op[1]:
                    s.add(tuple(sorted(e, key=lkey)))
                    self._m("he", i, self._e(e))
            elif live:
                self.resync(i)
        elif t == "RE":
            es = [tuple(sorted(e, key=lkey)) for e in op[1]]
            if not es:
                return None
            mode = "must" if all(q in s.recs for q in es) and len(set(es)) == len(es) else "rej"      # the batch is validated first
            self.call(mode, lambda: h.remove_edges(P.edges(r, es, TWICE)))      # every hyperedge of the batch is looked at twice
            if mode == "must":
                for q in es:
                    s.remove(q)
                    self._m("hre", i, self._e(q))
            elif live:
                self.resync(i)
        elif t == "RN":
            xs = list(op[1])
            if not xs:
                return None
            mode = "must" if all(x in s.nodes for x in xs) and len(set(xs)) == len(xs) else "rej"
            self.call(mode, lambda: h.remove_nodes(P.nodes(r, xs), keep_edges=bool(op[2])))
            if mode == "must":
                for x in xs:
                    s.remove_node(x, bool(op[2]))
                    self._m("hrn", i, self._r(x), 1 if op[2] else 0)
            elif live:
                self.resync(i)
        elif t in ("adj", "el"):
            # the raw tables handed back in another order (fresh containers): the same hypergraph
            if t == "adj":
                self.call("must", lambda: h.set_adj_dict({k: list(v) for k, v in reversed(list(h.get_adj_dict().items()))}))
            else:
                self.call("must", lambda: h.set_edge_list(dict(reversed(list(h.get_edge_list().items())))))
            return None
        elif t == "rnd":
            cnt, size, seed, inplace, by_order = op[1], op[2], op[3], bool(op[4]), bool(op[5])
            if not live:
                return None
            import math
            if size < 0 or math.comb(len(s.nodes), size) < cnt:
                return None                  # add_random_edges draws until it has cnt distinct hyperedges
            from hypergraphx.generation.random import add_random_edge, add_random_edges
            fk = {"order": size - 1} if by_order else {"size": size}
            out = []
            fn = (lambda: out.append(add_random_edge(h, inplace=inplace, seed=seed, **fk))) if cnt == 1 else \
                (lambda: out.append(add_random_edges(h, cnt, inplace=inplace, seed=seed, **fk)))
            ok = self.call("may", fn)
            if inplace or not ok:
                self.resync(i)
            elif out and out[0] is not None and len(self.sh) < MAX_OBJS:
                k = self._spawn(i, s.copy(), lambda: out[0])
                self.resync(k)
            if not inplace:
                return None
        else:
            return None
        self._mutated(i)
        return None

    def _batch_other(self, op, r, pair):
        """add_edges / remove_edges / remove_nodes of DirectedHypergraph, TemporalHypergraph, MultiplexHypergraph (lists, as
        their signatures say); False when the class has no such method"""
        kind, t, i = self.kind, op[0], self.focus
        s, h, P, live = self.sh[i], self.objs[i], self.P, self.live
        if t == "RN":
            xs = list(op[1])
            if not xs or kind == "M":
                return False
            mode = "must" if all(x in s.nodes for x in xs) and len(set(xs)) == len(xs) else "rej"
            self.call(mode, lambda: h.remove_nodes(P.nodes(r, xs, ["list", "tuple"]), keep_edges=bool(op[2])))
            if mode == "must":
                for x in xs:
                    s.remove_node(x, bool(op[2]))
            elif live:
                self.resync(i)
            return True
        subs = [sub for sub in op[1]]
        recs = [s.rec(sub) for sub in subs]
        if not subs:
            return False

        def written(sub):
            if kind == "D":
                return (P.edge(r, sub[1][0], HASHABLE), P.edge(r, sub[1][1], HASHABLE))
            return P.edge(r, sub[1], HASHABLE)
        if t == "RE":
            if kind == "M":
                return False
            mode = "must" if all(q in s.recs for q in recs) and len(set(recs)) == len(recs) else "rej"
            if kind == "D":
                self.call(mode, lambda: h.remove_edges([written(sub) for sub in subs]))
            else:
                self.call(mode, lambda: h.remove_edges([(sub[2], written(sub)) for sub in subs]))
            if mode == "must":
                for q in recs:
                    s.remove(q)
            elif live:
                self.resync(i)
            return True
        keep = list(zip(recs, subs))
        if self.wt[i]:       # with weights a batch must not repeat a record (Temporal: not even the node tuple at another time)
            first = {}
            for q, sub in keep:
                first.setdefault(s.members(q) if kind == "T" else q, (q, sub))
            keep = list(first.values())
        subs = [sub for _, sub in keep]
        kws, mode = {}, "must"
        mds = opt(op, 2).get("md")
        if self.wt[i]:
            kws["weights"] = [self._w(j)["weight"] for j in range(len(subs))]
        if mds is not None and len(mds) >= len(subs):
            kws["metadata"] = [self._md(k) for k in mds[:len(subs)]]
            if any(N_MAPPING_MD <= k < SHARED_MD for k in mds[:len(subs)]):
                mode = "may"
        if kind == "D":
            ok = self.call(mode, lambda: h.add_edges([written(sub) for sub in subs], **kws))
        else:
            ok = self.call(mode, lambda: h.add_edges([written(sub) for sub in subs], [sub[2] for sub in subs], **kws))
        if ok:
            for q, _ in keep:
                s.add(q)
        elif live:
            self.resync(i)
        return True

    def _bad(self, op, r, pair):
        """a malformed call of a mutator (the unchanged code raises, some of them after part of the work); afterwards the
        listing of the object is its content"""
        kind, name, xs, i = self.kind, op[1], list(op[2]), self.focus
        s, h, P = self.sh[i], self.objs[i], self.P
        if not self.live:
            if name == "nodes-partial" and xs:
                s.add_node(xs[0])
            elif name == "edges-partial" and xs and kind == "H":
                s.add(tuple(sorted(xs, key=lkey)))
            return
        if name not in BAD_CALLS[kind]:
            return
        extra = () if kind in "HD" else (1,) if kind == "T" else ("a",)
        fx = [fresh(x, r) for x in xs]
        if name == "edge-not-iterable":
            fn = lambda: h.add_edge(5, *extra)                                           # noqa: E731
        elif name == "edge-unsortable":
            bad = fx + [None]
            fn = (lambda: h.add_edge((bad, fx[:1]))) if kind == "D" else (lambda: h.add_edge(bad, *extra))      # noqa: E731
        elif name == "edge-unhashable":
            bad = [[x] for x in fx] or [[]]
            fn = (lambda: h.add_edge((bad, bad))) if kind == "D" else (lambda: h.add_edge(bad, *extra))      # noqa: E731
        elif name == "node-unhashable":
            fn = lambda: h.add_node(list(fx))                                            # noqa: E731
        elif name == "nodes-not-iterable":
            fn = lambda: h.add_nodes(5)                                                  # noqa: E731
        elif name == "nodes-partial":
            fn = lambda: h.add_nodes(fx[:1] + [[0]])                                     # noqa: E731
        elif name == "edges-partial":
            if len(fx) < 2:
                return
            good = tuple(fx) if kind == "H" else (tuple(fx[:1]), tuple(fx[1:]))
            fn = lambda: h.add_edges([good, 5])                                          # noqa: E731
        elif name == "edges-weights-short":
            fn = lambda: h.add_edges([tuple(fx), tuple(fx[:1])], weights=[1])           # noqa: E731
        elif name == "edges-metadata-short":
            fn = lambda: h.add_edges([tuple(fx), tuple(fx[:1])], metadata=[{}])         # noqa: E731
        elif name == "time-negative":
            fn = lambda: h.add_edge(tuple(fx), -1)                                       # noqa: E731
        else:
            fn = lambda: h.add_edge(tuple(fx), 1.5)                                      # noqa: E731
        self.call("rej", fn)
        self.resync(i)

    def _query_rejected(self, op, r):
        """a query the code rejects (a node that is not there; order= and size= together): it must leave the object alone"""
        from hypergraphx.measures import degree as D
        from hypergraphx.utils import cc as C
        name, xs, how = op[1], list(op[2]), op[3]
        h = self.objs[self.focus]
        if name == "*":             # every query of the class, one after the other
            for q in QUERY_NO:
                if how == "both" or q in NODE_QUERIES:
                    self._query_rejected(["q", q, xs, how], r)
            return
        if not hasattr(h, name):
            return
        fk = {"order": 1, "size": 2} if how == "both" else {}
        pre = (fresh(xs[0], r),) if name in NODE_QUERIES and xs else (None,) if name in NODE_QUERIES else ()
        mod = getattr(D if name.startswith("degree") else C, name, None)
        if mod is not None and (self.kind == "H" or name.startswith("degree")) and r.random() < 0.5:
            self.quiet(lambda: mod(h, *pre, **fk))
        else:
            self.quiet(lambda: getattr(h, name)(*pre, **fk))


# ------------------------------------------------------------------------------------------
# observation of the implementation (never raises, except Timeout)

def obs(fn, canon):
    """one call of the implementation: canonical form of the answer (an exception is an observation); aliasing OUT: whatever
    mutable object came back is the caller's - it is emptied and scribbled over once it has been read"""
    try:
        v = fn()
        c = canon(v)
        scribble(v)
        return c
    except Exception as ex:  # noqa: BLE001 - an exception is an observation
        return ("exc", ("%s: %s" % (type(ex).__name__, ex))[:160])


def is_exc(v):
    return isinstance(v, tuple) and len(v) == 2 and v[0] == "exc"


def c_int(v):
    if isinstance(v, bool) or not isinstance(v, int):
        if isinstance(v, (dict, list, tuple, set, frozenset, str, bytes)):
            raise TypeError("not an integer: %r" % (v,))
        v2 = int(v)
        if v2 != v or isinstance(v, bool):
            raise TypeError("not an integer: %r" % (v,))
        return v2
    return v


def c_bool(v):
    if v is True or v is False or type(v).__name__ in ("bool_", "bool"):
        return bool(v)
    raise TypeError("not a bool: %r" % (v,))


QUERY_NO = {n: i for i, n in enumerate(
    ["degree", "node_connected_component", "is_isolated", "get_neighbors", "get_incident_edges", "degree_sequence",
     "degree_distribution", "connected_components", "num_connected_components", "is_connected", "largest_component",
     "largest_component_size", "isolated_nodes"])}


def ranker(rank):
    def rk(x):
        try:
            return rank[x]
        except (KeyError, TypeError):
            raise ValueError("%r is listed, which is not a node of the hypergraph" % (x,)) from None
    return rk


def observe_h(h, nodes, rank, f, api, P, ck):
    """all C08 observables of a Hypergraph for one filter, through the methods or the module-level functions; every call
    gets freshly constructed label objects and its own calling style (keyword / positional filter, explicit None)"""
    from hypergraphx.measures import degree as D
    from hypergraphx.utils import cc as C
    rk = ranker(rank)
    canon = list(rank)        # rank -> the canonical label (the stored object may be any equal one)

    base = P.at("%s|%s|%s" % (ck, tok(f), api))

    def call(name, x=None):
        r = base.fork(QUERY_NO[name] * 64 + (0 if x is None else 1 + rank[x]))
        if api == "method":
            fa, fk = P.filt(r, f, METHOD_POS.get(name, POS_SO))
            fn, pre = getattr(h, name), ()
        else:
            fa, fk = P.filt(r, f, POS_OS)
            fn, pre = getattr(D if name.startswith("degree") else C, name), (h,)
        if x is not None:
            pre = pre + (fresh(canon[rank[x]], r),)
        return fn(*pre, *fa, **fk)

    c_set = lambda s: tuple(sorted(rk(x) for x in _distinct(s)))              # noqa: E731
    c_edges = lambda l: tuple(sorted(_distinct([tuple(sorted(rk(x) for x in _distinct(e))) for e in l])))     # noqa: E731
    o = {}
    for x in nodes:
        r = rank[x]
        o["deg %d" % r] = obs(lambda: call("degree", x), c_int)
        o["ncomp %d" % r] = obs(lambda: call("node_connected_component", x), c_set)
        o["isiso %d" % r] = obs(lambda: call("is_isolated", x), c_bool)
        if api == "method":       # the two primitives of hypergraph.py everything else is read from
            o["nbrs %d" % r] = obs(lambda: call("get_neighbors", x), c_set)
            o["inc %d" % r] = obs(lambda: call("get_incident_edges", x), c_edges)
    o["seq"] = obs(lambda: call("degree_sequence"), lambda d: tuple(sorted((rk(a), c_int(b)) for a, b in d.items())))
    o["dist"] = obs(lambda: call("degree_distribution"), lambda d: tuple(sorted((c_int(a), c_int(b)) for a, b in d.items())))
    o["cc"] = obs(lambda: call("connected_components"), lambda cs: tuple(sorted(c_set(c) for c in cs)))
    o["ncc"] = obs(lambda: call("num_connected_components"), c_int)
    o["conn"] = obs(lambda: call("is_connected"), c_bool)
    o["largest"] = obs(lambda: call("largest_component"), c_set)
    o["lsize"] = obs(lambda: call("largest_component_size"), c_int)
    o["iso"] = obs(lambda: call("isolated_nodes"), c_set)
    return o


VISIT_DEPTHS = [None, None, -1, 0, 1, 1, 2, 2, 3, 4, "n-1", "n", 2 ** 31, 10 ** 30]


def visit_queries(P, ck, f, nodes_r):
    """utils/visits.py in full: per filter and start node (two per filter) ONE call of _bfs or _dfs with a max_depth drawn from VISIT_DEPTHS
    (None, negative, 0, around the diameter, the node count, huge)"""
    out = []
    pick = P.at("%s|%s|visq" % (ck, tok(f))).shuffled(list(nodes_r))[:2]      # two start nodes per filter
    for r in pick:
        rr = P.at("%s|%s|visq|%d" % (ck, tok(f), r))
        d = rr.choice(VISIT_DEPTHS)
        d = len(nodes_r) - 1 if d == "n-1" else len(nodes_r) if d == "n" else d
        out.append(("b" if rr.random() < 0.5 else "d", r, d))
    return out


def visit_name(q):
    return "vis %s %d %s" % (q[0], q[1], "n" if q[2] is None else q[2])


def observe_visit(h, nodes, rank, f, q, P, ck):
    """one call of _bfs / _dfs (fresh start label, max_depth by position or keyword, as int or numpy.int64, left out when None
    in half of the calls); for a depth-limited _dfs beyond depth 1 - whose result depends on the iteration order of the neighbour
    sets - the answers of get_neighbors are recorded first, in the order the sets iterate, so that the model can run the same loop
    on them.  Returns (observation, table or None)"""
    from hypergraphx.utils import visits as V
    kind, r, d = q
    rk = ranker(rank)
    canon = list(rank)
    rr = P.at("%s|%s|vis|%s|%d|%s" % (ck, tok(f), kind, r, d))
    fn = V._bfs if kind == "b" else V._dfs
    tab = None
    if kind == "d" and d is not None and d >= 2:
        try:
            tab = [(rank[y], [rk(z) for z in h.get_neighbors(y, **kw(f))]) for y in nodes]
        except Exception:  # noqa: BLE001 - reported by the get_neighbors observable
            tab = None
    x = fresh(canon[r], rr)
    dd = np.int64(d) if d is not None and abs(d) < 2 ** 62 and rr.random() < 0.25 else d
    fa, fk = P.filt(rr, f, POS_OS)
    c = rr.random()
    if fa or (c < 0.4 and not (d is None and c < 0.2)):
        call = lambda: fn(h, x, dd, *fa, **fk)                        # noqa: E731
    elif d is None and c < 0.7:
        call = lambda: fn(h, x, **fk)                                 # noqa: E731
    else:
        call = lambda: fn(h, x, max_depth=dd, **fk)                   # noqa: E731
    return obs(call, lambda s_: tuple(sorted(rk(y) for y in _distinct(s_)))), tab


def ball(x, d, ef):
    """the nodes a walk of at most d steps along the filtered hyperedges reaches from x (d None: no bound)"""
    seen, frontier, k = {x}, {x}, 0
    while frontier and (d is None or k < d):
        nxt = {y for e in ef if any(z in frontier for z in e) for y in e} - seen
        seen |= nxt
        frontier = nxt
        k += 1
    return tuple(sorted(seen))


def _distinct(s):
    s = list(s)
    if len(set(s)) != len(s):
        raise ValueError("listing repeats an item: %r" % (s,))
    return s


# ------------------------------------------------------------------------------------------
# the property's own words

def oracle_h(nodes_r, edges_r, f):
    ws = want_size(f)
    ef = [e for e in edges_r if ws is None or len(e) == ws]
    o = {}
    degs = {x: sum(1 for e in set(ef) if x in e) for x in nodes_r}
    parent = {x: x for x in nodes_r}

    def find(x):
        while parent[x] != x:
            x = parent[x]
        return x
    for e in ef:
        for y in e[1:]:
            a, b = find(e[0]), find(y)
            if a != b:
                parent[a] = b
    classes = {}
    for x in nodes_r:
        classes.setdefault(find(x), []).append(x)
    classes = sorted(tuple(sorted(c)) for c in classes.values())
    cls_of = {x: c for c in classes for x in c}
    isolated = {x: not any(x in e and len(e) >= 2 for e in ef) for x in nodes_r}
    for x in nodes_r:
        o["deg %d" % x] = degs[x]
        o["ncomp %d" % x] = cls_of[x]
        o["isiso %d" % x] = isolated[x]
        inc = sorted({tuple(sorted(e)) for e in ef if x in e})
        o["inc %d" % x] = tuple(inc)
        o["nbrs %d" % x] = tuple(sorted({y for e in inc for y in e if y != x}))
    o["seq"] = tuple(sorted(degs.items()))
    hist = {}
    for d in degs.values():
        hist[d] = hist.get(d, 0) + 1
    o["dist"] = tuple(sorted(hist.items()))
    o["cc"] = tuple(classes)
    o["ncc"] = len(classes)
    o["conn"] = len(classes) == 1
    o["lsize"] = max(len(c) for c in classes) if classes else None
    o["largest"] = None  # any class of size lsize
    o["iso"] = tuple(sorted(x for x in nodes_r if isolated[x]))
    # cross-checks of the oracle itself (handshake; isolated <=> singleton class)
    assert sum(degs.values()) == sum(len(e) for e in set(ef))
    assert all(isolated[x] == (cls_of[x] == (x,)) for x in nodes_r)
    nontrivial = len(classes) >= 2 and any(len(c) >= 2 for c in classes) and len(ef) < len(edges_r)
    return o, classes, nontrivial


def parse_model(name, a):
    """decode a model answer into the canonical form used for the implementation"""
    if a == "rej":
        return ("exc", "model-rej")
    head = name.split()[0]
    if head in ("deg", "ncc", "lsize"):
        return int(a)
    if head in ("conn", "isiso"):
        return a == "1"
    if head in ("seq", "dist"):
        return tuple(sorted(tuple(int(t) for t in it.split(":")) for it in a.split(","))) if a != "-" else ()
    if head == "cc":
        return tuple(sorted(tuple(sorted(c)) for c in hgxv.dec_lists(a)))
    if head == "inc":
        return tuple(sorted(tuple(sorted(c)) for c in hgxv.dec_lists(a)))
    if head in ("ncomp", "largest", "iso", "nbrs", "vis"):
        return tuple(sorted(hgxv.dec_list(a)))
    raise ValueError(name)


class Capped:
    """at most CAP violations per check of one object (one wrong adjacency list shows in hundreds of answers)"""
    CAP = 6

    def __init__(self, ctx):
        self.ctx, self.n = ctx, 0

    def __call__(self, where, what):
        self.n += 1
        if self.n <= self.CAP:
            self.ctx.violation(where, what)
        else:
            self.ctx.count("further_violations_of_the_same_check_not_listed")


def content_ok(ctx, where, h, s, listing):
    """get_nodes()/get_edges() against the content the history defines; returns (nodes, records) or None"""
    raw_n, raw_e = h.get_nodes(), h.get_edges()
    nodes = list(raw_n)
    recs = [listing(e) for e in raw_e]
    scribble(raw_n)          # aliasing OUT: the listings are the caller's
    scribble(raw_e, 1)
    if len(set(nodes)) != len(nodes) or set(nodes) != set(s.nodes) or len(set(recs)) != len(recs) or set(recs) != set(s.recs):
        ctx.violation(where, f"after this history the object lists nodes {sorted(nodes, key=repr)} / hyperedges "
                             f"{sorted(recs, key=repr)}; the history defines nodes {sorted(s.nodes, key=repr)} / hyperedges "
                             f"{sorted(s.recs, key=repr)}"[:1500])
        return None
    return nodes, recs


def check_h(ctx, case, w, i, filters=None):
    """one check of object i (runs under the watchdog): the implementation against the definitions evaluated on the
    content the history defines; returns the model dialogue"""
    h, s, rank, P = w.objs[i], w.sh[i], w.rank, w.P
    ck = "c%d" % case.get("check", 0)
    got = content_ok(ctx, case, h, s, tuple)
    if got is None:
        return [], []
    nodes, edges = got
    report = Capped(ctx)
    nodes_r = [rank[x] for x in nodes]
    edges_r = [tuple(rank[x] for x in e) for e in edges]
    key = repr(("H", nodes_r, sorted(edges_r)))
    # the model computes the content from the history itself (`hshow`), then answers on it (`huse`)
    lines = [f"hshow {i}", f"huse {i}"]
    expect = [("content", sorted(sorted(e) for e in edges_r), sorted(nodes_r)), ("ok",)]
    nontrivial = False
    filters = list(filters or FILTERS)
    rx = P.at(ck + "|rare-filters")
    filters += [rx.choice(RARE_FILTERS) for _ in range(2 if len(filters) > len(SMALL_FILTERS) else 0)]
    for f in filters:
        orc, classes, nt = oracle_h(nodes_r, edges_r, f)
        nontrivial = nontrivial or nt
        ctx.count("filter_evaluations")
        if nt:
            ctx.count("filter_evaluations_nontrivial")
        seen = {}
        for api in ("method", "module"):
            o = observe_h(h, nodes, rank, f, api, P, ck)
            seen[api] = o
            for name, want in orc.items():
                if name not in o:
                    continue        # get_neighbors / get_incident_edges are methods only
                got = o[name]
                where = {**case, "filter": tok(f), "api": api, "query": name}
                if name in ("largest", "lsize") and not classes:
                    continue        # no component exists: nothing to be consistent with (the code raises)
                if is_exc(got):
                    report(where, f"{api} {name} {kw(f)} raised {got[1]} on a valid node/filter")
                    ctx.count("violations_by_exception")
                elif name == "largest":
                    if got not in classes or len(got) != orc["lsize"]:
                        report(where, f"{api} largest_component {kw(f)} = {got}: not a reachability class of maximal "
                                             f"size {orc['lsize']} (classes {classes})")
                elif got != want:
                    report(where, f"{api} {name} {kw(f)} = {got}, the definition gives {want}")
        for name in orc:
            lines.append(f"{name.split()[0]} {' '.join(name.split()[1:] + [tok(f)])}")
            expect.append(("q", name, f, seen["method"][name], seen["module"].get(name), classes))
        # utils/visits.py in full: _bfs / _dfs with max_depth (model: Model/C08Visit.lean)
        ws = want_size(f)
        ef = [e for e in edges_r if ws is None or len(e) == ws]
        for q in visit_queries(P, ck, f, nodes_r):
            kind, r, d = q
            name = visit_name(q)
            got, tab = observe_visit(h, nodes, rank, f, q, P, ck)
            where = {**case, "filter": tok(f), "api": "module", "query": name}
            fname = ("_bfs" if kind == "b" else "_dfs") + f"(start={r}, max_depth={d}, {kw(f)})"
            want = ball(r, d, ef)
            exact = kind == "b" or d is None or d <= 1
            ctx.count("visit_calls")
            ctx.count("visit_calls_" + ("bfs" if kind == "b" else "dfs") + ("_unbounded" if d is None else "_bounded"))
            if is_exc(got):
                report(where, f"{fname} raised {got[1]} on a valid node/filter")
                ctx.count("violations_by_exception")
            elif exact and got != want:
                report(where, f"{fname} = {got}, the nodes within that many steps are {want}")
            elif not exact and not (r in got and set(got) <= set(want)):
                report(where, f"{fname} = {got}: not the start plus nodes within that many steps ({want})")
            if tab is not None:
                ctx.count("visit_calls_dfs_on_recorded_neighbour_order")
                lines.append("vist %s %d %s %s %s" % (kind, r, name.split()[3], hgxv.enc_list([t[0] for t in tab]),
                                                      hgxv.enc_lists([t[1] for t in tab])))
                expect.append(("q", name, f, None, got, classes))
            elif exact:
                lines.append(f"{name} {tok(f)}")
                expect.append(("q", name, f, None, got, classes))
    ctx.case(key, nontrivial, sample=case)
    ctx.count("nodes_total", len(nodes))
    ctx.count("hyperedges_total", len(edges))
    if any(op[0] in ("re", "rn", "RE", "RN", "clr") for op in case["ops"]):
        ctx.count("histories_with_removals")
    if () in edges:
        ctx.count("cases_with_empty_hyperedge")
    if any(len(e) == 1 for e in edges):
        ctx.count("cases_with_singleton_hyperedge")
    if any(not any(x in e for e in edges) for x in nodes):
        ctx.count("cases_with_isolated_node")
    return lines, expect


def compare(ctx, drv, case, lines, expect):
    """phase 2: the same history and the same questions to the Lean model"""
    ans = drv.batch(lines)
    skip = False                      # content differs: the answers on it differ for that reason only
    budget = [12]                     # disagreements listed per program

    def disagree(where, what):
        budget[0] -= 1
        if budget[0] >= 0:
            ctx.disagree(where, what)
        else:
            ctx.count("further_disagreements_of_the_same_program_not_listed")
    for ln, a, ex in zip(lines, ans, expect):
        if ex[0] in ("ok", "rej"):
            if a != ex[0]:
                disagree({**case, "line": ln}, f"model answers {a!r} to the history line {ln!r} (the implementation "
                                               f"{'took' if ex[0] == 'ok' else 'rejected'} the call)")
            if ln.startswith(("gload", "dload")):
                skip = False
            continue
        if ex[0] == "content":
            want = hgxv.enc_lists(ex[1]) + "|" + hgxv.enc_list(ex[2])
            skip = a != want
            if skip:
                disagree({**case, "line": ln}, f"the model history gives content {a!r}, the implementation lists {want!r}")
            continue
        if skip:
            continue
        _, name, f, gm, gf, classes = ex
        try:
            m = parse_model(name, a)
        except Exception:  # noqa: BLE001
            disagree({**case, "line": ln}, f"model answer {a!r} to {ln!r} not understood")
            continue
        for api, got in (("method", gm), ("module", gf)):
            if got is None:
                continue
            if is_exc(m) or is_exc(got):
                ok = is_exc(m) and is_exc(got)
            elif name == "largest":
                ok = len(got) == len(m) and (got in classes) == (m in classes)
            else:
                ok = got == m
            if not ok:
                disagree({**case, "filter": tok(f), "api": api, "query": name},
                             f"model answers {m!r} to {ln!r}, implementation ({api}) gives {got!r}")


# ------------------------------------------------------------------------------------------
# degrees of the three other classes

def check_other(ctx, case, w, i, filters=None):
    from hypergraphx.measures import degree as D
    kind = case["kind"]
    h, s, rank, P = w.objs[i], w.sh[i], w.rank, w.P
    ck = "c%d" % case.get("check", 0)
    rk = ranker(rank)
    canon = list(rank)
    listing = LISTING[kind]
    got = content_ok(ctx, case, h, s, listing)
    if got is None:
        return [], []
    nodes, keys = got
    report = Capped(ctx)
    members = [s.members(k) for k in keys]
    nodes_r = [rank[x] for x in nodes]
    if kind == "D":
        lines = ["dload " + hgxv.enc_lists([[rank[x] for x in k[0]] for k in keys]) + " "
                 + hgxv.enc_lists([[rank[x] for x in k[1]] for k in keys]) + " " + hgxv.enc_list(nodes_r)]
        pre = "d"
        rkeys = [(tuple(rank[x] for x in k[0]), tuple(rank[x] for x in k[1])) for k in keys]
    else:
        lines = ["gload " + hgxv.enc_lists([[rank[x] for x in m] for m in members]) + " " + hgxv.enc_list(nodes_r)]
        pre = "g"
        rkeys = [(k[0], tuple(rank[x] for x in k[1])) if kind == "T" else (tuple(rank[x] for x in k[0]), k[1]) for k in keys]
    expect = [("ok",)]
    key = repr((kind, nodes_r, sorted(map(repr, rkeys))))
    kept = excl = False
    rx = P.at(ck + "|rare-filters")
    for f in (filters or FILTERS + [rx.choice(RARE_FILTERS) for _ in range(2)]):
        ws = want_size(f)
        k = kw(f)
        idx = [j for j in range(len(keys)) if ws is None or len(members[j]) == ws]
        degs = {x: len({keys[j] for j in idx if x in members[j]}) for x in nodes}     # DISTINCT records containing x
        kept = kept or bool(idx)
        excl = excl or len(idx) < len(keys)
        if kind == "M" and f is not None:
            # D18 (property C04): MultiplexHypergraph.get_incident_edges has no order/size -> TypeError.
            probe = obs(lambda: h.degree(nodes[0], **k) if nodes else 0, c_int)
            if is_exc(probe) and probe[1].startswith("TypeError"):
                ctx.count("multiplex_filtered_degree_skipped_TypeError_D18")
                continue
        ctx.count("filter_evaluations_" + kind)

        bases = {api: P.at("%s|%s|%s" % (ck, tok(f), api)) for api in ("method", "module")}

        def call(api, name, x=None):
            r = bases[api].fork(QUERY_NO[name] * 64 + (0 if x is None else 1 + rank[x]))
            fa, fk = P.filt(r, f, POS_OS)          # methods and functions: (.., order, size)
            fn, pre_a = (getattr(h, name), ()) if api == "method" else (getattr(D, name), (h,))
            if x is not None:
                pre_a = pre_a + (fresh(canon[rank[x]], r),)
            return fn(*pre_a, *fa, **fk)

        def c_inc(l):
            l = list(l)
            for e in l:
                listing(e)
                for y in s.members(listing(e)):
                    rk(y)
            return len(_distinct([listing(e) for e in l]))

        o_m, o_f = {}, {}
        for x in nodes:
            o_m["deg %d" % rank[x]] = obs(lambda: call("method", "degree", x), c_int)
            o_f["deg %d" % rank[x]] = obs(lambda: call("module", "degree", x), c_int)
            # the primitive the degree is read from: it lists distinct records, and the list is the caller's
            o_m["ninc %d" % rank[x]] = obs(lambda: call("method", "get_incident_edges", x), c_inc)
        c_seq = lambda d: tuple(sorted((rk(a), c_int(b)) for a, b in d.items()))          # noqa: E731
        c_dist = lambda d: tuple(sorted((c_int(a), c_int(b)) for a, b in d.items()))      # noqa: E731
        o_m["seq"] = obs(lambda: call("method", "degree_sequence"), c_seq)
        o_f["seq"] = obs(lambda: call("module", "degree_sequence"), c_seq)
        if hasattr(h, "degree_distribution"):
            o_m["dist"] = obs(lambda: call("method", "degree_distribution"), c_dist)
        o_f["dist"] = obs(lambda: call("module", "degree_distribution"), c_dist)
        hist = {}
        for d in degs.values():
            hist[d] = hist.get(d, 0) + 1
        orc = {"deg %d" % rank[x]: degs[x] for x in nodes}
        orc["seq"] = tuple(sorted((rank[x], d) for x, d in degs.items()))
        orc["dist"] = tuple(sorted(hist.items()))
        assert sum(degs.values()) == sum(len(members[j]) for j in idx)
        for api, o in (("method", o_m), ("module", o_f)):
            for name, got in o.items():
                where = {**case, "filter": tok(f), "api": api, "query": name}
                want = degs_by_rank(orc, name)
                if is_exc(got):
                    report(where, f"{kind} {api} {name} {k} raised {got[1]} on a valid node/filter")
                    ctx.count("violations_by_exception")
                elif got != want:
                    report(where, f"{kind} {api} {name} {k} = {got}, the definition gives {want}")
        for name in orc:
            lines.append(f"{pre}{name.split()[0]} {' '.join(name.split()[1:] + [tok(f)])}")
            expect.append(("q", name, f, o_m.get(name), o_f[name], None))
    ctx.case(key, kept and excl, sample=None)
    ctx.count("cases_" + kind)
    return lines, expect


def degs_by_rank(orc, name):
    """`ninc x` (number of listed incident records) has the degree as its definition"""
    return orc["deg " + name.split()[1]] if name.startswith("ninc ") else orc[name]


WATCHDOG_S = 5        # one check of one object takes ~10 ms


LIGHT_FILTERS = [None, ("size", 1), ("size", 2), ("size", 3), ("order", 1), ("order", 2)]


def derived_objects(kind, h, r):
    """Hypergraph objects the other classes hand out (aggregations / time slices): objects a user holds like any other"""
    out = []
    try:
        if kind == "M":
            out.append(h.aggregated_hypergraph())
        elif kind == "T":
            c = r.random()
            if c < 0.4:
                out += list(h.aggregate(r.choice([1, 2, 3])).values())
            elif c < 0.8:
                out += list(h.subhypergraph(add_all_nodes=r.random() < 0.5).values())
            else:
                out += list(h.subhypergraph(time_window=(0, 2)).values())
    except Exception:  # noqa: BLE001 - labels that cannot be sorted next to each other, ...: no object, nothing to check
        return []
    return out[:2]


def check_case(ctx, drv, case, filters=None):
    """run the program of `case`, check the objects it asks for, every object a call raised on, and every object at the end"""
    kind = case["kind"]
    case = {**case, "ops": [list(op) for op in case["ops"]]}        # labels in JSON form (what a replay file holds)
    real = {**case, "ops": [map_op(kind, op, dec_label) for op in case["ops"]]}
    lines, expect = [], []
    universe = sorted(set(labels_of(real)), key=lkey)               # rank = position in sorted order (per comparable group)
    rank = {x: i for i, x in enumerate(universe)}
    try:
        w = World(kind, rank, case.get("weighted", False), case.get("pres", 0))
    except Exception as ex:  # noqa: BLE001
        ctx.violation(case, f"creating an empty hypergraph raised {type(ex).__name__}: {ex}")
        return
    state = {"n": 0, "sent": 0, "op": -1}

    def check(i, light=False, after=None):
        where = {**case, "check": state["n"], "object": i}
        if after is not None:
            where["after_call_that_raised"] = after
        ck = "c%d" % state["n"]
        state["n"] += 1
        lines.extend(w.lines[state["sent"]:])
        expect.extend([(x,) for x in w.wants[state["sent"]:]])
        state["sent"] = len(w.lines)
        flt = filters
        if light:       # an intermediate look at a long-lived object: a third of the filters
            flt = LIGHT_FILTERS + [w.P.at(ck + "|light").choice(FILTERS)]
            ctx.count("checks_light")
        ln, ex = check_h(ctx, where, w, i, flt) if kind == "H" else check_other(ctx, where, w, i, flt)
        lines.extend(ln)
        expect.extend(ex)
        ctx.count("checks")
        if after is not None:
            ctx.count("checks_right_after_a_call_that_raised")
        if w.stale[i]:
            ctx.count("checks_after_a_copy_relative_was_mutated")
        if w.checked[i] and w.touched[i]:
            ctx.count("rechecks_after_mutation_in_place")
        w.checked[i], w.touched[i] = True, False

    def body():
        for k, op in enumerate(real["ops"]):
            state["op"] = k
            res = w.apply(op)
            if w.events:            # a call raised and the program goes on: the object must still be the hypergraph it lists
                ev, w.events = w.events, []
                for j in dict.fromkeys(e[0] for e in ev):
                    check(j, True, after=[e[1] for e in ev if e[0] == j][0])
            if res is not None:
                check(res[0], res[1])
        state["op"] = len(real["ops"])
        for i in range(len(w.objs)):
            check(i)
        if kind in "TM":
            r = w.P.at("derived")
            for obj in derived_objects(kind, w.objs[r.randrange(len(w.objs))], r) if r.random() < 0.6 else []:
                w2 = World("H", rank, False, case.get("pres", 0))
                w2.objs[0] = obj
                w2.resync(0)
                where = {**case, "check": state["n"], "object": "Hypergraph derived from the %s object" % kind}
                state["n"] += 1
                ln, ex = check_h(ctx, where, w2, 0, LIGHT_FILTERS)
                lines.extend(w2.lines + ln)
                expect.extend([("ok",)] * len(w2.lines) + ex)
                ctx.count("checks_of_hypergraphs_derived_from_temporal_multiplex")

    def at():
        k = state["op"]
        return "operation #%d %r" % (k, case["ops"][k]) if 0 <= k < len(case["ops"]) else "the final checks"

    try:
        guarded(WATCHDOG_S * (2 + sum(1 for op in case["ops"] if op[0] in ("chk",) + PRODUCERS)) + 0.3 * len(case["ops"]), body)
    except Timeout:
        ctx.violation(case, f"a call did not return within the watchdog time on this history ({at()})")
        ctx.count("watchdog_timeouts")
        return
    except (MemoryError, RecursionError) as ex:
        ctx.violation(case, f"a degree / connectivity call died with {type(ex).__name__} on this history ({at()})")
        ctx.count("watchdog_timeouts")
        return
    except AssertionError:
        raise                       # the oracle contradicts itself: tool failure, not a finding
    except Broken as ex:
        ctx.violation(case, f"after {at()}: {ex}")
        return
    except Exception as ex:  # noqa: BLE001 - an operation of the history or reading the object back failed
        ctx.violation(case, f"a valid operation of this history ({at()}) or reading the object back raised {type(ex).__name__}: {ex}")
        return
    finally:
        for name, v in w.counts.items():
            ctx.count(name, v)
    if len(w.objs) > 1:
        ctx.count("programs_with_several_objects")
    if w.weighted:
        ctx.count("programs_on_weighted_hypergraphs")
    for t in {op[0] for op in case["ops"]}:
        ctx.count("programs_with_op_" + t)
    ctx.count("programs_universe_" + str(case.get("uni", "?")))
    if drv is not None and lines:
        compare(ctx, drv, case, lines, expect)


# ------------------------------------------------------------------------------------------
# program generator

def make_op(rng, kind, e, tag="e"):
    if kind == "H":
        return [tag, list(e)]
    if kind == "D":
        k = rng.randint(1, len(e) - 1)
        return [tag, [list(e[:k]), list(e[k:])]]
    if kind == "T":
        return [tag, list(e), rng.randint(0, 3)]
    return [tag, list(e), rng.choice(LAYERS)]


def fresh_record(rng, kind, s, labels, size=None):
    """an add_edge op for a record that is not in s, over nodes of s (20%: one further label)"""
    pool = list(s.nodes) if len(s.nodes) >= 2 else list(labels)
    lo = 2 if kind == "D" else 1
    if len(pool) < lo:
        return None
    for _ in range(6):
        k = size if size is not None else rng.choice([1, 2, 2, 3, 3, 4])
        k = max(lo, min(k, len(pool)))
        e = sample_group(rng, pool, k)
        if len(e) < lo:
            continue
        if size is None and rng.random() < 0.2:
            extra = [x for x in labels if x not in e and grp(x) == grp(e[0])]
            if extra:
                e.append(rng.choice(extra))
        op = make_op(rng, kind, e)
        if s.rec(op) not in s.recs:
            return op
    return None


def with_md(rng, kind, op, p=0.4):
    """the add_edge op with a metadata argument (any kind: None, mappings, objects that are no mapping, the shared dict)"""
    if op is not None and rng.random() < p:
        op = list(op) + [{"md": rng.randrange(SHARED_MD + 1)}]
    return op


# every mutator a program can call, by the name the generator draws it under -> (weight in the random routes, classes)
MUTATORS = {"remove_edge": (20, "HDTM"), "reinsert": (8, "HDTM"), "add_edge": (20, "HDTM"), "add_node": (4, "HDTM"),
            "add_nodes": (5, "HDTM"), "remove_node": (10, "HDTM"), "remove_edges": (3, "HDT"), "remove_nodes": (3, "HDT"),
            "add_edges": (4, "HDTM"), "clear": (4, "HDT"), "populate": (4, "HDTM"), "raw": (2, "H"), "meta": (4, "HDTM"),
            "random_edge": (2, "H"), "malformed": (9, "HDTM"), "query": (3, "HDTM")}
MUT_NAMES = {k: [n for n, (_, ks) in MUTATORS.items() if k in ks] for k in "HDTM"}
MUT_DRAW = {k: [n for n, (wt, ks) in MUTATORS.items() if k in ks for _ in range(wt)] for k in "HDTM"}


def some_labels(rng, s, labels, k):
    """k labels, present and absent ones mixed"""
    pool = list(dict.fromkeys(list(s.nodes) + list(labels)))
    return [rng.choice(pool) for _ in range(k)] if pool else []


def gen_malformed(rng, kind, s, labels, weighted):
    """one call that is no plain use: the unchanged code rejects it (absent items, a weight on an unweighted hypergraph, a batch
    with a bad member, arguments of the wrong shape - some rejected half-way) or takes it although the documentation asks
    for something else (metadata that is no mapping on a NEW hyperedge)"""
    recs, nodes = list(s.recs), list(s.nodes)
    absent = [x for x in labels if x not in s.nodes]
    what = rng.choice(["re-absent", "re-absent", "rn-absent", "rn-absent", "RE-bad", "RN-bad", "weight", "N-short", "md-new", "md-new",
                       "md-new"] + BAD_CALLS[kind])
    if what == "re-absent":
        op = fresh_record(rng, kind, s, labels)
        return [["re"] + op[1:]] if op else []
    if what == "rn-absent":
        return [["rn", rng.choice(absent), rng.random() < 0.5]] if absent else []
    if what == "RE-bad" and kind != "M" and recs:
        op = fresh_record(rng, kind, s, labels)
        wr = (lambda q: list(q)) if kind == "H" else (lambda q: op_of_rec(kind, q, "e"))
        bad = [wr(rng.choice(recs)), (op[1] if kind == "H" else op) if op and rng.random() < 0.6 else wr(rng.choice(recs))]
        return [["RE", bad if rng.random() < 0.5 else bad[::-1]]]
    if what == "RN-bad" and kind != "M" and nodes:
        bad = [rng.choice(nodes), rng.choice(absent) if absent and rng.random() < 0.6 else rng.choice(nodes)]
        return [["RN", bad if rng.random() < 0.5 else bad[::-1], rng.random() < 0.5]]
    if what == "weight" and not weighted:
        op = fresh_record(rng, kind, s, labels) if rng.random() < 0.7 or not recs else op_of_rec(kind, rng.choice(recs), "e")
        return [list(op) + [{"w": rng.choice([2, 0.5, 0, 3])}]] if op else []
    if what == "N-short" and kind != "D":
        xs = some_labels(rng, s, labels, rng.randint(1, 3))
        return [["N", list(dict.fromkeys(xs)), {"md": "short"}]] if xs else []
    if what == "md-new":
        op = fresh_record(rng, kind, s, labels)
        return [list(op) + [{"md": rng.randrange(N_MAPPING_MD, SHARED_MD)}]] if op else []
    if what in BAD_CALLS[kind]:
        pool = nodes if len(nodes) >= 2 and rng.random() < 0.7 else list(labels)
        xs = sample_group(rng, pool, rng.randint(1, 3)) if pool else []
        if what == "nodes-partial":
            xs = [rng.choice(absent)] if absent else xs
        elif what == "edges-partial":
            op = fresh_record(rng, kind, s, labels)
            xs = op_members(kind, op) if op else []
        return [["bad", what, xs]] if xs or what in ("edge-not-iterable", "nodes-not-iterable") else []
    return []


def gen_mut(rng, kind, s, labels, removed, w=None, name=None):
    """one mutation of the object with shadow s, chosen so that it touches what the object holds.  `name` = the mutator to
    use (the life route draws every mutator of the class equally often), else drawn with the weights of MUTATORS"""
    recs, nodes = list(s.recs), list(s.nodes)
    name = name or rng.choice(MUT_DRAW[kind])
    weighted = bool(w and w.wt[w.focus])
    if name == "remove_edge" and recs:
        rec = rng.choice(recs)
        removed.append(rec)
        return [op_of_rec(kind, rec, "re")]
    if name == "reinsert" and removed:
        return [with_md(rng, kind, op_of_rec(kind, removed.pop(rng.randrange(len(removed))), "e"), 0.25)]
    if name == "add_edge":
        if kind == "H" and rng.random() < 0.05:
            return [["e", []]]                    # the empty hyperedge: a record of size 0 that contains no node
        if recs and rng.random() < 0.12:          # a hyperedge that is there already (its metadata is replaced, nothing else)
            return [with_md(rng, kind, op_of_rec(kind, rng.choice(recs), "e"), 0.8)]
        op = with_md(rng, kind, fresh_record(rng, kind, s, labels))
        if op and not isinstance(op[-1], dict) and not weighted and rng.random() < 0.08:
            op = op + [{"w": rng.choice([1, 1.0, True])}]          # weight 1 is what an unweighted hypergraph takes
        return [op] if op else []
    if name == "add_node":
        extra = [x for x in labels if x not in s.nodes]
        pool = extra if extra and (rng.random() < 0.8 or not nodes) else nodes
        if not pool:
            return []
        return [["n", rng.choice(pool)] + ([{"md": rng.randrange(SHARED_MD + 1)}] if rng.random() < 0.35 else [])]
    if name == "add_nodes":
        xs = some_labels(rng, s, labels, rng.choice([0, 1, 2, 2, 3, 4]))
        how = rng.choice([None, None, None, "full", "full"])
        if how is not None:
            xs = list(dict.fromkeys(xs))
        return [["N", xs] + ([{"md": how}] if how else [])]
    if name == "remove_node" and nodes:
        return [["rn", rng.choice(nodes), rng.random() < 0.5]]
    if name == "remove_edges" and len(recs) >= 2:
        two = rng.sample(recs, 2)
        removed.extend(two)
        return [["RE", [list(q) if kind == "H" else op_of_rec(kind, q, "e") for q in two]]]
    if name == "remove_nodes" and len(nodes) >= 2:
        return [["RN", rng.sample(nodes, 2), rng.random() < 0.5]]
    if name == "add_edges":
        ops = [fresh_record(rng, kind, s, labels) for _ in range(2)]
        es = [op[1] if kind == "H" else op for op in ops if op]
        if not es:
            return []
        return [["E", es] + ([{"md": [rng.randrange(SHARED_MD + 1) for _ in es]}] if rng.random() < 0.4 else [])]
    if name == "clear":
        # start again on the same object: old labels come back, some of them WITHOUT a hyperedge, some old hyperedges too
        out = [["clr"]]
        back = rng.sample(nodes, rng.randint(0, len(nodes))) if nodes else []
        again = rng.sample(recs, rng.randint(0, min(2, len(recs)))) if recs else []
        new = [op_of_rec(kind, q, "e") for q in again]
        if back:
            new += [["N", back]] if rng.random() < 0.7 else [["n", x] for x in back]
        if rng.random() < 0.5:
            new.reverse()
        return out + new
    if name == "populate" and w is not None:
        others = [j for j in range(len(w.sh)) if j != w.focus]
        if others and rng.random() < 0.45:
            return [["pop", rng.choice(others)]]         # the tables of another object, copied in
        if len(w.sh) < MAX_OBJS and rng.random() < 0.4:
            # what the binary loader does: a fresh object takes over the tables; the work goes on there
            return [["new"], ["on", len(w.sh)], ["pop", w.focus]]
        if len(w.sh) < MAX_OBJS:
            # snapshot - go on working on the object and look at it - roll back to the snapshot
            mid = gen_mut(rng, kind, s, labels, removed, w, rng.choice(["add_edge", "remove_edge", "remove_node", "add_nodes", "clear"]))
            return [["cp", w.focus]] + mid + [["chk", w.focus, 1], ["pop", len(w.sh)]]
        return [["pop", w.focus]]
    if name == "raw":
        return [[rng.choice(["adj", "el"])]]
    if name == "meta":
        recop = op_of_rec(kind, rng.choice(recs), "e") if recs and rng.random() < 0.7 else fresh_record(rng, kind, s, labels)
        xs = some_labels(rng, s, labels, 1) if rng.random() < 0.9 else []
        return [["meta", rng.choice(META_CALLS), recop, xs, rng.randrange(1000)]]
    if name == "random_edge":
        return [["rnd", rng.choice([1, 1, 2]), rng.choice([1, 2, 2, 3]), rng.randrange(10 ** 6), rng.random() < 0.75, rng.random() < 0.5]]
    if name == "malformed":
        return gen_malformed(rng, kind, s, labels, weighted)
    if name == "query":
        qs = [q for q in QUERY_NO if kind == "H" or q in ("degree", "degree_sequence", "degree_distribution", "get_incident_edges",
                                                          "get_neighbors", "is_isolated", "isolated_nodes")]
        q = rng.choice(qs + ["*"] * len(qs))
        how = rng.choice(["absent", "absent", "both"]) if q in NODE_QUERIES or q == "*" else "both"
        absent = [x for x in labels if x not in s.nodes]
        xs = ([rng.choice(absent)] if absent else []) if how == "absent" else ([rng.choice(nodes)] if nodes else [])
        return [["q", q, xs, how]]
    return []


def gen_swap(rng, kind, s, labels, removed):
    """remove one record and insert another one of the same size over the present nodes: node and hyperedge counts
    (the cheap signatures a cache would look at) stay equal"""
    recs = [q for q in s.recs if len(s.members(q)) >= (2 if kind == "D" else 1)]
    if not recs:
        return []
    rec = rng.choice(recs)
    op = fresh_record(rng, kind, s, labels, size=len(s.members(rec)))
    if op is None or len(op_members(kind, op)) != len(s.members(rec)):
        return []
    removed.append(rec)
    return [op_of_rec(kind, rec, "re"), op]


ROUTES = (["plain"] * 6 + ["detour"] * 3 + ["copy"] * 3 + ["copied"] * 3 + ["requery"] * 3 + ["random"] * 4 + ["sub"] * 2
          + ["life"] * 6 + ["made"] * 5)


def gen_producer(rng, kind, w, src):
    """an op that makes a NEW object out of object src through a filter / loader of the library"""
    if kind != "H":
        return rng.choice([["io", src, True], ["io", src, rng.random() < 0.5], ["cp", src]])
    s = w.sh[src]
    sizes = sorted({len(q) for q in s.recs}) or [2]
    f = rng.choice([None, ["size", rng.choice(sizes)], ["size", rng.choice(sizes)], ["order", rng.choice(sizes) - 1], ["size", rng.randint(0, 5)]])
    r = rng.random()
    if r < 0.25:
        vals = [rng.choice(sizes + [1, 2, 3, 6]) for _ in range(rng.randint(0, 3))]
        return ["sbo", src, "sizes", vals, rng.random() < 0.5] if rng.random() < 0.5 else \
            ["sbo", src, "orders", [v - 1 for v in vals], rng.random() < 0.5]
    if r < 0.55:
        return ["slc", src, f]
    if r < 0.8:
        return ["ges", src, f, rng.random() < 0.4, rng.random() < 0.5]
    return ["io", src, rng.random() < 0.5]


def gen_generated(rng):
    """an op that takes an object over from a generator of the library"""
    n = rng.choice([1, 2, 3, 4, 5, 6, 8])
    if rng.random() < 0.3:
        return ["gen", "uniform", n, [[rng.randint(1, min(n, 3)), rng.randint(0, 4)]], rng.randrange(10 ** 6)]
    sizes = {rng.randint(1, min(n, 4)): rng.randint(0, 3) for _ in range(rng.randint(0, 3))}
    return ["gen", "random", n, sorted([a, b] for a, b in sizes.items()), rng.randrange(10 ** 6)]


def sub_nodes(rng, s, p_all=0.2):
    """node list of a subhypergraph call: all nodes (in another order), none, or a random part"""
    nodes = list(s.nodes)
    r = rng.random()
    if r < p_all:
        return rng.sample(nodes, len(nodes))
    if r < p_all + 0.08:
        return []
    return rng.sample(nodes, rng.randint(0, len(nodes)))


def gen_program(rng, kind):
    """a program in JSON form (labels encoded), with the seed of its presentation"""
    return enc_case({**gen_program_real(rng, kind), "pres": rng.getrandbits(32)})


def gen_program_real(rng, kind):
    g = gen_h(rng) if kind == "H" else gen_other(rng, kind)
    base, uni = g["ops"], g["uni"]
    route = rng.choice(ROUTES)
    labels = list(dict.fromkeys(labels_of({"kind": kind, "ops": base})))
    weighted = rng.random() < 0.2       # a weighted hypergraph is a hypergraph: its degrees count hyperedges
    e_at = 2 if kind in "HD" else 3
    base = [op + [{"md": rng.randrange(SHARED_MD + 1)}] if op[0] == "e" and len(op) == e_at and rng.random() < 0.2 else op
            for op in base]             # metadata of any kind on some of the hyperedges (never part of the content)
    if route == "plain" or not labels:
        return {"kind": kind, "ops": base, "route": "plain", "weighted": weighted, "uni": uni}
    if kind == "H" and rng.random() < 0.2:
        # the hyperedges arrive through the constructor
        base = [["ctor", [op[1] for op in base if op[0] == "e"]]] + [op for op in base if op[0] != "e"]
    w = World(kind, None, weighted)
    ops, removed = [], []

    def add(op):
        ops.append(op)
        w.apply(op)

    def muts(k, swap=False, name=None):
        for _ in range(k):
            s = w.sh[w.focus]
            new = gen_swap(rng, kind, s, labels, removed) if swap else gen_mut(rng, kind, s, labels, removed, w, name)
            for op in new:
                add(op)
            if new and new[-1][0] == "pop" and rng.random() < 0.8:
                # the restored tables are worked on: new hyperedges get their ids from the restored counter
                for op in gen_mut(rng, kind, w.sh[w.focus], labels, removed, w, rng.choice(["add_edge", "add_edge", "add_edges", "remove_node"])):
                    add(op)

    if route == "detour":
        # temporary records inserted first and removed again (internal ids get gaps), then a part of the records
        # removed and inserted again (they move to the end of the adjacency lists, ids are no longer dense)
        temps = [fresh_record(rng, kind, w.sh[0], labels) for _ in range(rng.randint(1, 3))]
        temps = [t for t in temps if t]
        for t in temps:
            add(t)
        half = len(base) // 2
        for op in base[:half]:
            add(op)
        for t in temps:
            add(["re"] + t[1:])
        for op in base[half:]:
            add(op)
        again = rng.sample(list(w.sh[0].recs), min(len(w.sh[0].recs), rng.randint(1, 3)))
        for q in again:
            add(op_of_rec(kind, q, "re"))
        for q in again:
            add(op_of_rec(kind, q, "e"))
    else:
        for op in base:
            add(op)
    if route == "copy":          # object 0 is the ORIGINAL of a copy that is mutated afterwards (and must not notice)
        add(["cp", 0])
        add(["on", 1])
        muts(rng.randint(1, 4))
        if rng.random() < 0.3:
            add(["chk", 0])
            muts(rng.randint(1, 2))
    elif route == "copied":      # object 1 is a COPY whose original is mutated afterwards
        add(["cp", 0])
        muts(rng.randint(1, 4))
        if rng.random() < 0.3:
            add(["chk", 1])
            muts(rng.randint(1, 2))
    elif route == "sub":         # a subhypergraph (boundary: on ALL nodes, on none) and its source, one of them mutated afterwards
        if kind == "H":
            add(["sub", 0, sub_nodes(rng, w.sh[0], 0.5)])
        else:
            add(["cp", 0])
        if rng.random() < 0.5:
            add(["on", 1])
        muts(rng.randint(1, 3))
    elif route == "requery":     # the same object queried, mutated in place, queried again
        add(["chk"])
        muts(rng.randint(1, 2), swap=rng.random() < 0.6)
        add(["chk"])
        muts(rng.randint(0, 2))
    elif route == "life":        # ONE long-lived object: every mutator of the class in turn, a look at the object after each
        add(["chk"])
        for _ in range(rng.randint(3, 6)):
            name = rng.choice(MUT_NAMES[kind])
            muts(1, name=name)
            if rng.random() < 0.3:
                muts(1)
            add(["chk", w.focus, 1])
            if rng.random() < 0.12 and len(w.sh) < MAX_OBJS:
                add(["cp", 0])
    elif route == "made":        # the starting point is an object a generator / loader / filter of the library made
        if kind == "H" and rng.random() < 0.45:
            ops, removed = [], []
            w = World(kind, None, weighted)
            add(gen_generated(rng))
            labels = list(dict.fromkeys(list(w.sh[0].nodes) + [-1, -2] + labels[:3]))
        else:
            add(gen_producer(rng, kind, w, 0))
            if len(w.sh) > 1 and rng.random() < 0.7:
                add(["on", len(w.sh) - 1])
        if rng.random() < 0.5:
            add(["chk", w.focus, 1])
        muts(rng.randint(1, 4))
        if rng.random() < 0.4:
            add(["chk", w.focus, 1])
            muts(rng.randint(1, 2))
    elif route == "random":
        for _ in range(rng.randint(2, 7)):
            r = rng.random()
            if r < 0.18 and len(w.sh) < MAX_OBJS:
                add(["cp", rng.randrange(len(w.sh))])
            elif r < 0.24 and len(w.sh) < MAX_OBJS:
                add(gen_producer(rng, kind, w, rng.randrange(len(w.sh))))
            elif r < 0.32 and kind == "H" and len(w.sh) < MAX_OBJS:
                src = rng.randrange(len(w.sh))
                add(["sub", src, sub_nodes(rng, w.sh[src])])
            elif r < 0.50:
                add(["on", rng.randrange(len(w.sh))])
            elif r < 0.62:
                add(["chk", rng.randrange(len(w.sh))])
            else:
                muts(rng.randint(1, 3), swap=rng.random() < 0.2)
    return {"kind": kind, "ops": ops, "route": route, "weighted": weighted, "uni": uni}


SMALL_FILTERS = [None, ("size", 0), ("size", 1), ("size", 2), ("size", 3), ("size", 4), ("size", 5),
                 ("order", 0), ("order", 1), ("order", 2), ("order", 3), ("order", 4)]


# every public method of the four classes (enumerated with inspect at the start of a run) has one of these roles; a method
# that is not listed here (a new mutator) is reported in the evidence
API_ROLE = {}
for _n in ("add_node add_nodes add_edge add_edges remove_node remove_nodes remove_edge remove_edges clear populate_from_dict "
           "set_adj_dict set_edge_list " + " ".join(META_CALLS)).split():
    API_ROLE[_n] = "mutator_called_in_programs"
for _n in list(QUERY_NO):
    API_ROLE[_n] = "query_checked"
for _n in "copy subhypergraph subhypergraph_by_orders subhypergraph_largest_component get_edges expose_data_structures".split():
    API_ROLE[_n] = "producer_called_in_programs"
for _n in "get_nodes get_adj_dict get_edge_list".split():
    API_ROLE[_n] = "reader_called"
for _n in "set_dataset_metadata set_layer_metadata set_existing_layers".split():
    API_ROLE[_n] = "mutator_of_metadata_not_called"
for _n in ("adjacency_factor adjacency_matrix binary_incidence_matrix check_edge check_node distribution_sizes "
           "dual_random_walk_adjacency expose_attributes_for_hashing get_all_edges_metadata get_all_incidences_metadata "
           "get_all_nodes_metadata get_edge_metadata get_hypergraph_metadata get_incidence_metadata get_mapping get_node_metadata "
           "get_orders get_sizes get_weight get_weights incidence_matrix is_uniform is_weighted max_order max_size num_edges num_nodes "
           "to_line_graph get_source_edges get_sources get_target_edges get_targets aggregate annealed_adjacency_matrix "
           "get_times_for_edge max_time min_time temporal_adjacency_matrix aggregated_hypergraph get_dataset_metadata "
           "get_existing_layers get_layer_metadata").split():
    API_ROLE[_n] = "reader_not_called"


def audit_api(ctx):
    import inspect
    from hypergraphx import Hypergraph, DirectedHypergraph, TemporalHypergraph, MultiplexHypergraph
    for cls in (Hypergraph, DirectedHypergraph, TemporalHypergraph, MultiplexHypergraph):
        for name, _ in inspect.getmembers(cls, inspect.isfunction):
            if name.startswith("_"):
                continue
            role = API_ROLE.get(name)
            if name == "subhypergraph" and cls is TemporalHypergraph:
                role = "reader_not_called"
            if role is None:
                ctx.count("api_methods_NOT_CLASSIFIED")
                ctx.assumptions.append(f"{cls.__name__}.{name} is a public method this check does not know: if it changes nodes or "
                                       f"hyperedges it is not interleaved with the queries")
            else:
                ctx.count("api_methods_" + role)


def stop(ctx, reserve=8):
    return (ctx.too_many() or ctx.extra.get("watchdog_timeouts", 0) >= 2
            or (ctx.time_left() is not None and ctx.time_left() < reserve))


def run(ctx):
    drv = ctx.driver() if ctx.model_available else None
    audit_api(ctx)
    # fixed seeds of the search: D23's shape (a size-2 path next to a size-3 hyperedge), empty hypergraph, one node
    for case in ({"kind": "H", "ops": [["e", [1, 2]], ["e", [2, 3, 4]], ["e", [4, 5]], ["n", 9], ["e", [7]]], "pres": 1},
                 {"kind": "H", "ops": [], "pres": 2}, {"kind": "H", "ops": [["n", "a"]], "pres": 3},
                 # labels that are containers themselves, next to their own members; singleton hyperedges on nodes that
                 # were inserted by another call (another object)
                 enc_case({"kind": "H", "pres": 4, "ops": [["e", [0]], ["e", [1]], ["e", [0, 1]], ["e", [(0, 1), (2, 3)]],
                                                           ["e", [(0, 1)]], ["n", (2, 3)], ["e", [1000, 2000]], ["e", [1000]]]}),
                 enc_case({"kind": "D", "pres": 5, "ops": [["e", [[(0, 1)], [(0, 2), (1, 1)]]], ["e", [[(1, 1)], [(0, 1)]]],
                                                           ["n", (5, 5)]]})):
        check_case(ctx, drv, case)
    n = ctx.scale(650, 3000)
    for i in range(n):
        if stop(ctx):
            break
        r = ctx.rng.random()
        case = gen_program(ctx.rng, "H" if r < 0.7 else "DTM"[i % 3])
        ctx.count("route_" + case["route"])
        check_case(ctx, drv, case)
    if ctx.tier == "thorough":
        subsets = [list(c) for k in range(1, 5) for c in itertools.combinations(range(4), k)]
        for mask in range(1 << len(subsets)):
            if stop(ctx, 20):
                ctx.assumptions.append(f"exhaustive 4-node enumeration stopped at mask {mask} (time budget)")
                break
            es = [subsets[i] for i in range(len(subsets)) if mask >> i & 1]
            case = {"kind": "H", "ops": [["n", x] for x in range(4)] + [["e", e] for e in es], "pres": mask}
            check_case(ctx, drv, case, SMALL_FILTERS)
            ctx.count("exhaustive_4node_hypergraphs")


def replay(ctx, case):
    drv = ctx.driver() if ctx.model_available else None
    case = {"kind": case["kind"], "ops": case["ops"], "weighted": bool(case.get("weighted", False)),
            "pres": case.get("pres", 0), "uni": case.get("uni", "?")}
    check_case(ctx, drv, case)
