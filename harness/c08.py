"""C08 - degrees and connected components equal their combinatorial definitions.

Correspondence of lean/Hgxv/Model/C08.lean with hypergraphx.measures.degree.*, hypergraphx.utils.cc.* and the
Hypergraph methods that forward to them, plus independent oracles (counting / union-find straight from the
property's words) on the implementation's answers."""
import itertools
import signal

import hgxv

RULE = ("random Hypergraph instances (0-9 nodes from a sparse int or str universe mapped to rank, 0-10 hyperedges of size "
        "1-5 incl. singletons, explicit isolated nodes, nodes/hyperedges inserted in random order, repeated insertions, 30% of the histories with remove_edge / remove_node(keep_edges) / re-insertion), "
        "each instance reached through a PROGRAM over up to 4 objects (65% of the cases): temporary hyperedges removed again (id gaps), removal + re-insertion, "
        "copy() / subhypergraph() / constructor / add_edges / remove_edges / remove_nodes / clear, the ORIGINAL of a copy mutated afterwards, the COPY of an original "
        "mutated afterwards, the same object queried - mutated in place (also with equal node/hyperedge counts) - queried again; every object is checked "
        "at the end of the program and at intermediate points against the content the history defines (independent shadow) - one check of one object = one case; "
        "EVERY node (the falsy labels 0 and '' are forced into 60% of the cases), every filter value on its own: none, size in 0..7, order in 0..6 (size 0 and values above the largest hyperedge match nothing), "
        "each through the Hypergraph method and the module-level function; DirectedHypergraph / TemporalHypergraph / "
        "MultiplexHypergraph instances of the same shape for the degree functions; thorough adds ALL 32768 hypergraphs on "
        "4 nodes. A case = one hypergraph (all its nodes and filters), distinct by (class, node order, hyperedge list); "
        "non-trivial when for some filter there are >= 2 components, one of them with >= 2 nodes, and >= 1 hyperedge is "
        "excluded by that filter (for the degree-only classes: some filter excludes and some filter keeps a hyperedge)")
ASSUMPTIONS = ["hyperedges are duplicate-free node tuples over nodes of the hypergraph (what get_edges() returns)",
               "labels are mapped to their rank in sorted order before they reach the model",
               "the content of an object is what its history (add/remove/copy/subhypergraph/clear, set semantics as documented) defines; "
               "get_nodes()/get_edges() are compared with that content at every check (a difference is reported, the container itself is C01-C04)",
               "both order= and size= given is outside the property (the code rejects it)"]
TRUSTED = ["Python set/dict/deque/max semantics; the visited *set* of _bfs is compared as a set",
           "largest_component: any component of maximal size is accepted (tie-breaking is not part of the property)"]
BUDGET_S = {"quick": 75, "thorough": 1500}

# every value on its own (each is compared with the definition, not with the equivalent other keyword), including the
# falsy / boundary ones: order=0, size=1, size=0 (matches nothing), values above the maximal hyperedge size
FILTERS = [None] + [("size", k) for k in range(0, 8)] + [("order", k) for k in range(0, 7)]


class Timeout(BaseException):
    pass


def _alarm(signum, frame):
    raise Timeout()


def guarded(seconds, fn):
    old = signal.signal(signal.SIGALRM, _alarm)
    signal.setitimer(signal.ITIMER_REAL, seconds)
    try:
        return fn()
    finally:
        signal.setitimer(signal.ITIMER_REAL, 0)
        signal.signal(signal.SIGALRM, old)


def kw(f):
    return {} if f is None else {f[0]: f[1]}


def tok(f):
    return "n" if f is None else ("s" if f[0] == "size" else "o") + str(f[1])


def want_size(f):
    return None if f is None else (f[1] if f[0] == "size" else f[1] + 1)


# ------------------------------------------------------------------------------------------
# generators

def gen_labels(rng, n):
    if rng.random() < 0.3:
        pool = [chr(97 + i) * rng.randint(1, 2) for i in range(20)] + ["E1", "N0", "Z", "10", "9", "", "0"]
        labels = rng.sample(sorted(set(pool)), n)
        falsy = ""
    elif rng.random() < 0.2:
        labels, falsy = rng.sample(range(-5, 40), n), 0
    else:
        labels, falsy = rng.sample(range(0, 12), n), 0
    if n and falsy not in labels and rng.random() < 0.6:
        labels[rng.randrange(n)] = falsy          # the falsy label (0 / '') is a node like any other
    return labels


def gen_edge_sets(rng, labels):
    n = len(labels)
    out = []
    if n == 0:
        return out
    style = rng.random()
    for _ in range(rng.choice([0, 1, 2, 3, 4, 5, 6, 8, 10])):
        if style < 0.3:
            size = rng.choice([1, 2, 2, 3])
        elif style < 0.5:
            size = rng.choice([2, 3])
        else:
            size = rng.choice([1, 2, 2, 3, 3, 4, 5])
        size = min(size, n)
        out.append(rng.sample(labels, size))
    return out


def gen_h(rng):
    n = rng.choice([0, 1, 2, 3, 4, 5, 6, 6, 7, 7, 8, 8, 9, 9])
    labels = gen_labels(rng, n)
    edges = gen_edge_sets(rng, labels[: max(1, n - rng.randint(0, 2))] if n else [])
    ops = [["n", x] for x in labels if rng.random() < 0.6] + [["e", e] for e in edges]
    if edges and rng.random() < 0.3:
        ops.append(["e", list(reversed(rng.choice(edges)))])      # the same hyperedge again
    rng.shuffle(ops)
    ops += [["n", x] for x in labels if rng.random() < 0.2]
    if rng.random() < 0.3:
        # a history with removals (and re-insertions): the adjacency lists the degrees are read from have been edited
        present_e, present_n, out = [], set(), []
        for op in ops:
            out.append(op)
            if op[0] == "n":
                present_n.add(op[1])
            else:
                present_e.append(sorted(op[1]))
                present_n.update(op[1])
            r = rng.random()
            if r < 0.15 and present_e:
                e = present_e.pop(rng.randrange(len(present_e)))
                present_e = [q for q in present_e if q != e]
                out.append(["re", e])
                if rng.random() < 0.4:
                    out.append(["e", e])
                    present_e.append(e)
            elif r < 0.25 and present_n:
                x = rng.choice(sorted(present_n, key=repr))
                keep = rng.random() < 0.5
                out.append(["rn", x, keep])
                present_n.discard(x)
                present_e = [[y for y in q if y != x] for q in present_e] if keep else [q for q in present_e if x not in q]
        ops = out
    return {"kind": "H", "ops": ops}


def gen_other(rng, kind):
    n = rng.choice([1, 2, 3, 4, 5, 6, 7, 8, 9])
    labels = gen_labels(rng, n)
    ops = [["n", x] for x in labels if rng.random() < 0.5]
    for e in gen_edge_sets(rng, labels):
        if kind == "D":
            if len(e) < 2:
                continue
            k = rng.randint(1, len(e) - 1)
            ops.append(["e", [e[:k], e[k:]]])
            if rng.random() < 0.3:
                ops.append(["e", [e[k:], e[:k]]])
        elif kind == "T":
            ops.append(["e", e, rng.randint(0, 3)])
            if rng.random() < 0.4:
                ops.append(["e", list(reversed(e)), rng.randint(0, 3)])
        else:
            ops.append(["e", e, rng.choice(["a", "b", "c"])])
            if rng.random() < 0.4:
                ops.append(["e", list(reversed(e)), rng.choice(["a", "b", "c"])])
    rng.shuffle(ops)
    return {"kind": kind, "ops": ops}


# ------------------------------------------------------------------------------------------
# programs: every object a user can hold is reached through a history over several objects
#
# ops (JSON lists; `focus` = the object the mutations go to, object 0 at the start):
#   ["n", x]  add_node            ["e", ...] add_edge      (H: e | D: [S, T] | T: e, time | M: e, layer)
#   ["re", ...] remove_edge (same arguments, skipped when the record is absent)   ["rn", x, keep] remove_node(keep_edges)
#   H only: ["ctor", [e..]] Hypergraph(edge_list=..) as the first op, ["E", [e..]] add_edges, ["RE", [e..]] remove_edges,
#           ["RN", [x..], keep] remove_nodes, ["clr"] clear, ["sub", src, [x..]] new object = objs[src].subhypergraph(..)
#   ["cp", src] new object = copy of objs[src]   ["on", i] focus := i   ["chk"(, i)] check an object now
# every object is checked once more at the end of the program.

MAX_OBJS = 4
LAYERS = ["a", "b", "c"]


class Shadow:
    """the content a history defines (set semantics of the documented operations), independent of the implementation"""

    def __init__(self, kind):
        self.kind = kind
        self.nodes = {}
        self.recs = {}

    def copy(self):
        s = Shadow(self.kind)
        s.nodes, s.recs = dict(self.nodes), dict(self.recs)
        return s

    def rec(self, op):
        k = self.kind
        if k == "H":
            return tuple(sorted(op[1]))
        if k == "D":
            return (tuple(sorted(op[1][0])), tuple(sorted(op[1][1])))
        if k == "T":
            return (op[2], tuple(sorted(op[1])))
        return (tuple(sorted(op[1])), op[2])

    def members(self, r):
        k = self.kind
        return r if k == "H" else r[0] + r[1] if k == "D" else r[1] if k == "T" else r[0]

    def add_node(self, x):
        self.nodes.setdefault(x, None)

    def add(self, r):
        self.recs.setdefault(r, None)
        for x in self.members(r):
            self.add_node(x)

    def remove(self, r):
        del self.recs[r]

    def reduce(self, r, x):
        """the record without node x as remove_node(keep_edges=True) re-inserts it; None = dropped"""
        k = self.kind
        if k == "H":
            return tuple(y for y in r if y != x)                 # may be the empty hyperedge ()
        if k == "D":
            q = (tuple(y for y in r[0] if y != x), tuple(y for y in r[1] if y != x))
            return q if q[0] and q[1] else None
        if k == "T":
            q = tuple(y for y in r[1] if y != x)
            return (r[0], q) if q else None
        q = tuple(y for y in r[0] if y != x)
        return (q, r[1]) if q else None

    def remove_node(self, x, keep):
        inc = [r for r in self.recs if x in self.members(r)]
        if keep:
            for r in inc:
                q = self.reduce(r, x)
                if q is not None:
                    self.add(q)
        for r in inc:
            del self.recs[r]
        del self.nodes[x]

    def clear(self):
        self.nodes, self.recs = {}, {}

    def sub(self, nodes):
        s = Shadow(self.kind)
        for x in nodes:
            s.add_node(x)
        keep = set(nodes)
        for r in self.recs:
            if set(self.members(r)) <= keep:
                s.add(r)
        return s


def op_of_rec(kind, r, tag):
    if kind == "H":
        return [tag, list(r)]
    if kind == "D":
        return [tag, [list(r[0]), list(r[1])]]
    if kind == "T":
        return [tag, list(r[1]), r[0]]
    return [tag, list(r[0]), r[1]]


def op_members(kind, op):
    return list(op[1][0]) + list(op[1][1]) if kind == "D" else list(op[1])


def labels_of(case):
    kind = case["kind"]
    for op in case["ops"]:
        t = op[0]
        if t in ("n", "rn"):
            yield op[1]
        elif t in ("e", "re"):
            yield from op_members(kind, op)
        elif t in ("E", "RE", "ctor"):
            for e in op[1]:
                yield from e
        elif t == "RN":
            yield from op[1]
        elif t == "sub":
            yield from op[2]


WEIGHTS = [2, 0.5, 3, 1]


def new_obj(kind, edge_list=None, weighted=False):
    from hypergraphx import Hypergraph, DirectedHypergraph, TemporalHypergraph, MultiplexHypergraph
    if edge_list is not None:
        if weighted:      # the constructor wants distinct hyperedges when weights are given
            es = list(dict.fromkeys(tuple(sorted(e)) for e in edge_list))
            return Hypergraph(edge_list=es, weighted=True, weights=[WEIGHTS[j % 4] for j in range(len(es))])
        return Hypergraph(edge_list=[tuple(e) for e in edge_list])
    cls = {"H": Hypergraph, "D": DirectedHypergraph, "T": TemporalHypergraph, "M": MultiplexHypergraph}[kind]
    return cls(weighted=True) if weighted else cls()


class World:
    """the objects of one program: shadows always, implementation objects and model lines when `rank` is given"""

    def __init__(self, kind, rank=None, weighted=False):
        self.kind, self.rank, self.live, self.weighted = kind, rank, rank is not None, bool(weighted)
        self.sh = [Shadow(kind)]
        self.objs = [new_obj(kind, weighted=self.weighted)] if self.live else [None]
        self.focus = 0
        self.rel = [set()]            # copy / subhypergraph lineage
        self.stale = [False]          # a relative was mutated after the copy was taken
        self.checked = [False]        # queried before ...
        self.touched = [False]        # ... and mutated in place since
        self.lines = ["hnew"] if kind == "H" else []
        self.nops = 0

    # model lines (Hypergraph only: the Lean history model `C08.Hist`)
    def _m(self, *toks):
        if self.live and self.kind == "H":
            self.lines.append(" ".join(str(t) for t in toks))

    def _e(self, e):
        return hgxv.enc_list(sorted(self.rank[x] for x in e), "_") if self.live else ""

    def _r(self, x):
        return self.rank[x] if self.live else 0

    def _w(self, j=0):
        """weight keyword of add_edge: weighted hypergraphs count hyperedges all the same"""
        return {"weight": WEIGHTS[(self.nops + j) % 4]} if self.weighted else {}

    def _mutated(self, i):
        self.touched[i] = True
        for j in self.rel[i]:
            self.stale[j] = True

    def _spawn(self, src, shadow, make):
        self.sh.append(shadow)
        self.objs.append(make() if self.live else None)
        k = len(self.sh) - 1
        fam = {src} | self.rel[src]
        self.rel.append(set(fam))
        for j in fam:
            self.rel[j].add(k)
        self.stale.append(False)
        self.checked.append(False)
        self.touched.append(False)

    def apply(self, op):
        """returns the index of the object to check for a "chk" op, else None"""
        import copy as _copy
        kind, t, i = self.kind, op[0], self.focus
        s, h = self.sh[i], self.objs[i]
        if t == "on":
            if 0 <= op[1] < len(self.sh):
                self.focus = op[1]
            return None
        if t == "chk":
            return op[1] if len(op) > 1 and 0 <= op[1] < len(self.sh) else i
        if t in ("cp", "sub"):
            src = op[1]
            if not (0 <= src < len(self.sh)) or len(self.sh) >= MAX_OBJS or (t == "sub" and kind != "H"):
                return None
            if t == "cp":
                self._spawn(src, self.sh[src].copy(),
                            lambda: _copy.deepcopy(self.objs[src]) if kind == "M" else self.objs[src].copy())
                self._m("hcp", src)
            else:
                nodes = [x for x in dict.fromkeys(op[2]) if x in self.sh[src].nodes]
                self._spawn(src, self.sh[src].sub(nodes), lambda: self.objs[src].subhypergraph(list(nodes)))
                self._m("hsub", src, hgxv.enc_list([self.rank[x] for x in nodes]) if self.live else "")
            return None
        self.nops += 1
        if t == "n":
            if self.live:
                h.add_node(op[1])
                self._m("hn", i, self._r(op[1]))
            s.add_node(op[1])
        elif t == "e":
            r = s.rec(op)
            if self.live:
                if kind == "H":
                    h.add_edge(tuple(op[1]), **self._w())
                    self._m("he", i, self._e(op[1]))
                elif kind == "D":
                    h.add_edge((tuple(op[1][0]), tuple(op[1][1])), **self._w())
                else:
                    h.add_edge(tuple(op[1]), op[2], **self._w())
            s.add(r)
        elif t == "re":
            r = s.rec(op)
            if r not in s.recs:
                return None
            if self.live:
                if kind == "H":
                    h.remove_edge(tuple(op[1]))
                    self._m("hre", i, self._e(op[1]))
                elif kind == "D":
                    h.remove_edge((tuple(op[1][0]), tuple(op[1][1])))
                elif kind == "T":
                    h.remove_edge(tuple(op[1]), op[2])
                else:
                    h.remove_edge((tuple(op[1]), op[2]))
            s.remove(r)
        elif t == "rn":
            if op[1] not in s.nodes:
                return None
            if self.live:
                h.remove_node(op[1], keep_edges=bool(op[2]))
                self._m("hrn", i, self._r(op[1]), 1 if op[2] else 0)
            s.remove_node(op[1], bool(op[2]))
        elif kind != "H":
            return None
        elif t in ("E", "ctor"):
            if t == "ctor" and self.nops == 1 and len(self.sh) == 1:
                if self.live:
                    self.objs[i] = new_obj("H", op[1], self.weighted)
            elif self.live and self.weighted:     # with weights the batch must not repeat a hyperedge (the code rejects it)
                es = list(dict.fromkeys(tuple(sorted(e)) for e in op[1]))
                h.add_edges(es, weights=[self._w(j)["weight"] for j in range(len(es))])
            elif self.live:
                h.add_edges([tuple(e) for e in op[1]])
            for e in op[1]:
                s.add(tuple(sorted(e)))
                self._m("he", i, self._e(e))
        elif t == "RE":
            es = [r for r in dict.fromkeys(tuple(sorted(e)) for e in op[1]) if r in s.recs]
            if not es:
                return None
            if self.live:
                h.remove_edges(list(es))
            for r in es:
                s.remove(r)
                self._m("hre", i, self._e(r))
        elif t == "RN":
            xs = [x for x in dict.fromkeys(op[1]) if x in s.nodes]
            if not xs:
                return None
            if self.live:
                h.remove_nodes(list(xs), keep_edges=bool(op[2]))
            for x in xs:
                s.remove_node(x, bool(op[2]))
                self._m("hrn", i, self._r(x), 1 if op[2] else 0)
        elif t == "clr":
            if self.live:
                h.clear()
                self._m("hclr", i)
            s.clear()
        else:
            return None
        self._mutated(i)
        return None


# ------------------------------------------------------------------------------------------
# observation of the implementation (never raises, except Timeout)

def obs(fn, canon):
    try:
        return canon(fn())
    except Exception as ex:  # noqa: BLE001 - an exception is an observation
        return ("exc", type(ex).__name__)


def is_exc(v):
    return isinstance(v, tuple) and len(v) == 2 and v[0] == "exc"


def c_int(v):
    if isinstance(v, bool) or not isinstance(v, int):
        v2 = int(v)
        if v2 != v or isinstance(v, bool):
            raise TypeError("not an integer: %r" % (v,))
        return v2
    return v


def c_bool(v):
    if v is True or v is False or type(v).__name__ in ("bool_", "bool"):
        return bool(v)
    raise TypeError("not a bool: %r" % (v,))


def observe_h(h, nodes, rank, f, api):
    """all C08 observables of a Hypergraph for one filter, through the methods or the module-level functions"""
    from hypergraphx.measures import degree as D
    from hypergraphx.utils import cc as C
    k = kw(f)
    if api == "method":
        call = lambda name, *a: getattr(h, name)(*a, **k)                      # noqa: E731
    else:
        call = lambda name, *a: getattr(D if name.startswith("degree") else C, name)(h, *a, **k)   # noqa: E731
    c_set = lambda s: tuple(sorted(rank[x] for x in _distinct(s)))              # noqa: E731
    o = {}
    for x in nodes:
        r = rank[x]
        o["deg %d" % r] = obs(lambda: call("degree", x), c_int)
        o["ncomp %d" % r] = obs(lambda: call("node_connected_component", x), c_set)
        o["isiso %d" % r] = obs(lambda: call("is_isolated", x), c_bool)
    o["seq"] = obs(lambda: call("degree_sequence"), lambda d: tuple(sorted((rank[a], c_int(b)) for a, b in d.items())))
    o["dist"] = obs(lambda: call("degree_distribution"), lambda d: tuple(sorted((c_int(a), c_int(b)) for a, b in d.items())))
    o["cc"] = obs(lambda: call("connected_components"), lambda cs: tuple(sorted(c_set(c) for c in cs)))
    o["ncc"] = obs(lambda: call("num_connected_components"), c_int)
    o["conn"] = obs(lambda: call("is_connected"), c_bool)
    o["largest"] = obs(lambda: call("largest_component"), c_set)
    o["lsize"] = obs(lambda: call("largest_component_size"), c_int)
    o["iso"] = obs(lambda: call("isolated_nodes"), lambda l: tuple(sorted(rank[x] for x in _distinct(l))))
    return o


def _distinct(s):
    s = list(s)
    if len(set(s)) != len(s):
        raise ValueError("listing repeats a node: %r" % (s,))
    return s


# ------------------------------------------------------------------------------------------
# the property's own words

def oracle_h(nodes_r, edges_r, f):
    ws = want_size(f)
    ef = [e for e in edges_r if ws is None or len(e) == ws]
    o = {}
    degs = {x: sum(1 for e in set(ef) if x in e) for x in nodes_r}
    parent = {x: x for x in nodes_r}

    def find(x):
        while parent[x] != x:
            x = parent[x]
        return x
    for e in ef:
        for y in e[1:]:
            a, b = find(e[0]), find(y)
            if a != b:
                parent[a] = b
    classes = {}
    for x in nodes_r:
        classes.setdefault(find(x), []).append(x)
    classes = sorted(tuple(sorted(c)) for c in classes.values())
    cls_of = {x: c for c in classes for x in c}
    isolated = {x: not any(x in e and len(e) >= 2 for e in ef) for x in nodes_r}
    for x in nodes_r:
        o["deg %d" % x] = degs[x]
        o["ncomp %d" % x] = cls_of[x]
        o["isiso %d" % x] = isolated[x]
    o["seq"] = tuple(sorted(degs.items()))
    hist = {}
    for d in degs.values():
        hist[d] = hist.get(d, 0) + 1
    o["dist"] = tuple(sorted(hist.items()))
    o["cc"] = tuple(classes)
    o["ncc"] = len(classes)
    o["conn"] = len(classes) == 1
    o["lsize"] = max(len(c) for c in classes) if classes else None
    o["largest"] = None  # any class of size lsize
    o["iso"] = tuple(sorted(x for x in nodes_r if isolated[x]))
    # cross-checks of the oracle itself (handshake; isolated <=> singleton class)
    assert sum(degs.values()) == sum(len(e) for e in set(ef))
    assert all(isolated[x] == (cls_of[x] == (x,)) for x in nodes_r)
    nontrivial = len(classes) >= 2 and any(len(c) >= 2 for c in classes) and len(ef) < len(edges_r)
    return o, classes, nontrivial


def parse_model(name, a):
    """decode a model answer into the canonical form used for the implementation"""
    if a == "rej":
        return ("exc", "model-rej")
    head = name.split()[0]
    if head in ("deg", "ncc", "lsize"):
        return int(a)
    if head in ("conn", "isiso"):
        return a == "1"
    if head in ("seq", "dist"):
        return tuple(sorted(tuple(int(t) for t in it.split(":")) for it in a.split(","))) if a != "-" else ()
    if head == "cc":
        return tuple(sorted(tuple(sorted(c)) for c in hgxv.dec_lists(a)))
    if head in ("ncomp", "largest", "iso"):
        return tuple(sorted(hgxv.dec_list(a)))
    raise ValueError(name)


class Capped:
    """at most CAP violations per check of one object (one wrong adjacency list shows in hundreds of answers)"""
    CAP = 6

    def __init__(self, ctx):
        self.ctx, self.n = ctx, 0

    def __call__(self, where, what):
        self.n += 1
        if self.n <= self.CAP:
            self.ctx.violation(where, what)
        else:
            self.ctx.count("further_violations_of_the_same_check_not_listed")


def content_ok(ctx, where, h, s, listing):
    """get_nodes()/get_edges() against the content the history defines; returns (nodes, records) or None"""
    nodes = list(h.get_nodes())
    recs = [listing(e) for e in h.get_edges()]
    if len(set(nodes)) != len(nodes) or set(nodes) != set(s.nodes) or len(set(recs)) != len(recs) or set(recs) != set(s.recs):
        ctx.violation(where, f"after this history the object lists nodes {sorted(nodes, key=repr)} / hyperedges "
                             f"{sorted(recs, key=repr)}; the history defines nodes {sorted(s.nodes, key=repr)} / hyperedges "
                             f"{sorted(s.recs, key=repr)}")
        return None
    return nodes, recs


def check_h(ctx, case, w, i, filters=None):
    """one check of object i (runs under the watchdog): the implementation against the definitions evaluated on the
    content the history defines; returns the model dialogue"""
    h, s, rank = w.objs[i], w.sh[i], w.rank
    got = content_ok(ctx, case, h, s, tuple)
    if got is None:
        return [], []
    nodes, edges = got
    report = Capped(ctx)
    nodes_r = [rank[x] for x in nodes]
    edges_r = [tuple(rank[x] for x in e) for e in edges]
    key = repr(("H", nodes_r, sorted(edges_r)))
    # the model computes the content from the history itself (`hshow`), then answers on it (`huse`)
    lines = [f"hshow {i}", f"huse {i}"]
    expect = [("content", sorted(sorted(e) for e in edges_r), sorted(nodes_r)), ("ok",)]
    nontrivial = False
    filters = filters or FILTERS
    for f in filters:
        orc, classes, nt = oracle_h(nodes_r, edges_r, f)
        nontrivial = nontrivial or nt
        ctx.count("filter_evaluations")
        if nt:
            ctx.count("filter_evaluations_nontrivial")
        seen = {}
        for api in ("method", "module"):
            o = observe_h(h, nodes, rank, f, api)
            seen[api] = o
            for name, want in orc.items():
                got = o[name]
                where = {**case, "filter": tok(f), "api": api, "query": name}
                if name in ("largest", "lsize") and not classes:
                    continue        # no component exists: nothing to be consistent with (the code raises)
                if is_exc(got):
                    report(where, f"{api} {name} {kw(f)} raised {got[1]} on a valid node/filter")
                elif name == "largest":
                    if got not in classes or len(got) != orc["lsize"]:
                        report(where, f"{api} largest_component {kw(f)} = {got}: not a reachability class of maximal "
                                             f"size {orc['lsize']} (classes {classes})")
                elif got != want:
                    report(where, f"{api} {name} {kw(f)} = {got}, the definition gives {want}")
        for name in orc:
            lines.append(f"{name.split()[0]} {' '.join(name.split()[1:] + [tok(f)])}")
            expect.append(("q", name, f, seen["method"][name], seen["module"][name], classes))
    ctx.case(key, nontrivial, sample=case)
    ctx.count("nodes_total", len(nodes))
    ctx.count("hyperedges_total", len(edges))
    if any(op[0] in ("re", "rn", "RE", "RN", "clr") for op in case["ops"]):
        ctx.count("histories_with_removals")
    if () in edges:
        ctx.count("cases_with_empty_hyperedge")
    if any(len(e) == 1 for e in edges):
        ctx.count("cases_with_singleton_hyperedge")
    if any(not any(x in e for e in edges) for x in nodes):
        ctx.count("cases_with_isolated_node")
    return lines, expect


def compare(ctx, drv, case, lines, expect):
    """phase 2: the same history and the same questions to the Lean model"""
    ans = drv.batch(lines)
    skip = False                      # content differs: the answers on it differ for that reason only
    budget = [12]                     # disagreements listed per program

    def disagree(where, what):
        budget[0] -= 1
        if budget[0] >= 0:
            ctx.disagree(where, what)
        else:
            ctx.count("further_disagreements_of_the_same_program_not_listed")
    for ln, a, ex in zip(lines, ans, expect):
        if ex[0] == "ok":
            if a != "ok":
                disagree({**case, "line": ln}, f"model answers {a!r} to the history line {ln!r}")
            if ln.startswith(("gload", "dload")):
                skip = False
            continue
        if ex[0] == "content":
            want = hgxv.enc_lists(ex[1]) + "|" + hgxv.enc_list(ex[2])
            skip = a != want
            if skip:
                disagree({**case, "line": ln}, f"the model history gives content {a!r}, the implementation lists {want!r}")
            continue
        if skip:
            continue
        _, name, f, gm, gf, classes = ex
        try:
            m = parse_model(name, a)
        except Exception:  # noqa: BLE001
            disagree({**case, "line": ln}, f"model answer {a!r} to {ln!r} not understood")
            continue
        for api, got in (("method", gm), ("module", gf)):
            if got is None:
                continue
            if is_exc(m) or is_exc(got):
                ok = is_exc(m) and is_exc(got)
            elif name == "largest":
                ok = len(got) == len(m) and (got in classes) == (m in classes)
            else:
                ok = got == m
            if not ok:
                disagree({**case, "filter": tok(f), "api": api, "query": name},
                             f"model answers {m!r} to {ln!r}, implementation ({api}) gives {got!r}")


# ------------------------------------------------------------------------------------------
# degrees of the three other classes

def check_other(ctx, case, w, i):
    from hypergraphx.measures import degree as D
    kind = case["kind"]
    h, s, rank = w.objs[i], w.sh[i], w.rank
    listing = {"D": lambda e: (tuple(e[0]), tuple(e[1])), "T": lambda e: (e[0], tuple(e[1])),
               "M": lambda e: (tuple(e[0]), e[1])}[kind]
    got = content_ok(ctx, case, h, s, listing)
    if got is None:
        return [], []
    nodes, keys = got
    report = Capped(ctx)
    members = [s.members(k) for k in keys]
    nodes_r = [rank[x] for x in nodes]
    if kind == "D":
        lines = ["dload " + hgxv.enc_lists([[rank[x] for x in k[0]] for k in keys]) + " "
                 + hgxv.enc_lists([[rank[x] for x in k[1]] for k in keys]) + " " + hgxv.enc_list(nodes_r)]
        pre = "d"
    else:
        lines = ["gload " + hgxv.enc_lists([[rank[x] for x in m] for m in members]) + " " + hgxv.enc_list(nodes_r)]
        pre = "g"
    expect = [("ok",)]
    key = repr((kind, nodes_r, sorted(zip([tuple(rank[x] for x in m) for m in members], map(repr, keys)))))
    kept = excl = False
    for f in FILTERS:
        ws = want_size(f)
        k = kw(f)
        idx = [i for i in range(len(keys)) if ws is None or len(members[i]) == ws]
        degs = {x: len({keys[i] for i in idx if x in members[i]}) for x in nodes}     # DISTINCT records containing x
        kept = kept or bool(idx)
        excl = excl or len(idx) < len(keys)
        if kind == "M" and f is not None:
            # D18 (property C04): MultiplexHypergraph.get_incident_edges has no order/size -> TypeError.
            probe = obs(lambda: h.degree(nodes[0], **k) if nodes else 0, c_int)
            if probe == ("exc", "TypeError"):
                ctx.count("multiplex_filtered_degree_skipped_TypeError_D18")
                continue
        ctx.count("filter_evaluations_" + kind)
        o_m, o_f = {}, {}
        for x in nodes:
            o_m["deg %d" % rank[x]] = obs(lambda: h.degree(x, **k), c_int)
            o_f["deg %d" % rank[x]] = obs(lambda: D.degree(h, x, **k), c_int)
        c_seq = lambda d: tuple(sorted((rank[a], c_int(b)) for a, b in d.items()))        # noqa: E731
        c_dist = lambda d: tuple(sorted((c_int(a), c_int(b)) for a, b in d.items()))      # noqa: E731
        o_m["seq"] = obs(lambda: h.degree_sequence(**k), c_seq)
        o_f["seq"] = obs(lambda: D.degree_sequence(h, **k), c_seq)
        if hasattr(h, "degree_distribution"):
            o_m["dist"] = obs(lambda: h.degree_distribution(**k), c_dist)
        o_f["dist"] = obs(lambda: D.degree_distribution(h, **k), c_dist)
        hist = {}
        for d in degs.values():
            hist[d] = hist.get(d, 0) + 1
        orc = {"deg %d" % rank[x]: degs[x] for x in nodes}
        orc["seq"] = tuple(sorted((rank[x], d) for x, d in degs.items()))
        orc["dist"] = tuple(sorted(hist.items()))
        assert sum(degs.values()) == sum(len(members[i]) for i in idx)
        for api, o in (("method", o_m), ("module", o_f)):
            for name, got in o.items():
                where = {**case, "filter": tok(f), "api": api, "query": name}
                if is_exc(got):
                    report(where, f"{kind} {api} {name} {k} raised {got[1]} on a valid node/filter")
                elif got != orc[name]:
                    report(where, f"{kind} {api} {name} {k} = {got}, the definition gives {orc[name]}")
        for name in orc:
            lines.append(f"{pre}{name.split()[0]} {' '.join(name.split()[1:] + [tok(f)])}")
            expect.append(("q", name, f, o_m.get(name), o_f[name], None))
    ctx.case(key, kept and excl, sample=None)
    ctx.count("cases_" + kind)
    return lines, expect


WATCHDOG_S = 5        # one check of one object takes ~10 ms


def check_case(ctx, drv, case, filters=None):
    """run the program of `case`, check the objects it asks for and every object at the end"""
    kind = case["kind"]
    case = {**case, "ops": [list(op) for op in case["ops"]]}
    lines, expect = [], []
    try:
        universe = sorted(set(labels_of(case)))
        rank = {x: i for i, x in enumerate(universe)}
        w = World(kind, rank, case.get("weighted", False))
    except Exception as ex:  # noqa: BLE001
        ctx.violation(case, f"creating an empty hypergraph raised {type(ex).__name__}: {ex}")
        return
    state = {"n": 0, "sent": 0}

    def check(i):
        where = {**case, "check": state["n"], "object": i}
        state["n"] += 1
        lines.extend(w.lines[state["sent"]:])
        expect.extend([("ok",)] * (len(w.lines) - state["sent"]))
        state["sent"] = len(w.lines)
        ln, ex = check_h(ctx, where, w, i, filters) if kind == "H" else check_other(ctx, where, w, i)
        lines.extend(ln)
        expect.extend(ex)
        ctx.count("checks")
        if w.stale[i]:
            ctx.count("checks_after_a_copy_relative_was_mutated")
        if w.checked[i] and w.touched[i]:
            ctx.count("rechecks_after_mutation_in_place")
        w.checked[i], w.touched[i] = True, False

    def body():
        for op in case["ops"]:
            i = w.apply(op)
            if i is not None:
                check(i)
        for i in range(len(w.objs)):
            check(i)

    try:
        guarded(WATCHDOG_S * (2 + sum(1 for op in case["ops"] if op[0] in ("chk", "cp", "sub"))), body)
    except Timeout:
        ctx.violation(case, "a call did not return within the watchdog time on this history")
        ctx.count("watchdog_timeouts")
        return
    except (MemoryError, RecursionError) as ex:
        ctx.violation(case, f"a degree / connectivity call died with {type(ex).__name__} on this history")
        ctx.count("watchdog_timeouts")
        return
    except AssertionError:
        raise                       # the oracle contradicts itself: tool failure, not a finding
    except Exception as ex:  # noqa: BLE001 - an operation of the history or reading the object back failed
        ctx.violation(case, f"a valid operation of this history (or reading the object back) raised {type(ex).__name__}: {ex}")
        return
    if len(w.objs) > 1:
        ctx.count("programs_with_several_objects")
    if w.weighted:
        ctx.count("programs_on_weighted_hypergraphs")
    for t in {op[0] for op in case["ops"]}:
        ctx.count("programs_with_op_" + t)
    if drv is not None and lines:
        compare(ctx, drv, case, lines, expect)


# ------------------------------------------------------------------------------------------
# program generator

def make_op(rng, kind, e, tag="e"):
    if kind == "H":
        return [tag, list(e)]
    if kind == "D":
        k = rng.randint(1, len(e) - 1)
        return [tag, [list(e[:k]), list(e[k:])]]
    if kind == "T":
        return [tag, list(e), rng.randint(0, 3)]
    return [tag, list(e), rng.choice(LAYERS)]


def fresh_record(rng, kind, s, labels, size=None):
    """an add_edge op for a record that is not in s, over nodes of s (20%: one further label)"""
    pool = list(s.nodes) if len(s.nodes) >= 2 else list(labels)
    lo = 2 if kind == "D" else 1
    if len(pool) < lo:
        return None
    for _ in range(6):
        k = size if size is not None else rng.choice([1, 2, 2, 3, 3, 4])
        k = max(lo, min(k, len(pool)))
        e = rng.sample(pool, k)
        if size is None and rng.random() < 0.2:
            extra = [x for x in labels if x not in e]
            if extra:
                e.append(rng.choice(extra))
        op = make_op(rng, kind, e)
        if s.rec(op) not in s.recs:
            return op
    return None


def gen_mut(rng, kind, s, labels, removed):
    """one random mutation of the object with shadow s, chosen so that it touches what the object holds"""
    recs, nodes = list(s.recs), list(s.nodes)
    r = rng.random()
    if r < 0.30 and recs:
        rec = rng.choice(recs)
        removed.append(rec)
        return [op_of_rec(kind, rec, "re")]
    if r < 0.42 and removed:
        return [op_of_rec(kind, removed.pop(rng.randrange(len(removed))), "e")]      # re-insertion
    if r < 0.68:
        op = fresh_record(rng, kind, s, labels)
        return [op] if op else []
    if r < 0.74:
        extra = [x for x in labels if x not in s.nodes]
        return [["n", rng.choice(extra)]] if extra else []
    if r < 0.88 and nodes:
        return [["rn", rng.choice(nodes), rng.random() < 0.5]]
    if kind != "H":
        return []
    if r < 0.915 and len(recs) >= 2:
        two = rng.sample(recs, 2)
        removed.extend(two)
        return [["RE", [list(q) for q in two]]]
    if r < 0.945 and len(nodes) >= 2:
        return [["RN", rng.sample(nodes, 2), rng.random() < 0.5]]
    if r < 0.975:
        ops = [fresh_record(rng, kind, s, labels) for _ in range(2)]
        return [["E", [op[1] for op in ops if op]]] if any(ops) else []
    return [["clr"]]


def gen_swap(rng, kind, s, labels, removed):
    """remove one record and insert another one of the same size over the present nodes: node and hyperedge counts
    (the cheap signatures a cache would look at) stay equal"""
    recs = [q for q in s.recs if len(s.members(q)) >= (2 if kind == "D" else 1)]
    if not recs:
        return []
    rec = rng.choice(recs)
    op = fresh_record(rng, kind, s, labels, size=len(s.members(rec)))
    if op is None or len(op_members(kind, op)) != len(s.members(rec)):
        return []
    removed.append(rec)
    return [op_of_rec(kind, rec, "re"), op]


ROUTES = ["plain"] * 7 + ["detour"] * 3 + ["copy"] * 3 + ["copied"] * 3 + ["requery"] * 3 + ["random"] * 4


def gen_program(rng, kind):
    base = (gen_h(rng) if kind == "H" else gen_other(rng, kind))["ops"]
    route = rng.choice(ROUTES)
    labels = list(dict.fromkeys(labels_of({"kind": kind, "ops": base})))
    weighted = rng.random() < 0.2       # a weighted hypergraph is a hypergraph: its degrees count hyperedges
    if route == "plain" or not labels:
        return {"kind": kind, "ops": base, "route": "plain", "weighted": weighted}
    if kind == "H" and rng.random() < 0.2:
        # the hyperedges arrive through the constructor
        base = [["ctor", [op[1] for op in base if op[0] == "e"]]] + [op for op in base if op[0] != "e"]
    w = World(kind)
    ops, removed = [], []

    def add(op):
        ops.append(op)
        w.apply(op)

    def muts(k, swap=False):
        for _ in range(k):
            s = w.sh[w.focus]
            for op in (gen_swap if swap else gen_mut)(rng, kind, s, labels, removed):
                add(op)

    if route == "detour":
        # temporary records inserted first and removed again (internal ids get gaps), then a part of the records
        # removed and inserted again (they move to the end of the adjacency lists, ids are no longer dense)
        temps = [fresh_record(rng, kind, w.sh[0], labels) for _ in range(rng.randint(1, 3))]
        temps = [t for t in temps if t]
        for t in temps:
            add(t)
        half = len(base) // 2
        for op in base[:half]:
            add(op)
        for t in temps:
            add(["re"] + t[1:])
        for op in base[half:]:
            add(op)
        again = rng.sample(list(w.sh[0].recs), min(len(w.sh[0].recs), rng.randint(1, 3)))
        for q in again:
            add(op_of_rec(kind, q, "re"))
        for q in again:
            add(op_of_rec(kind, q, "e"))
    else:
        for op in base:
            add(op)
    if route == "copy":          # object 0 is the ORIGINAL of a copy that is mutated afterwards (and must not notice)
        add(["cp", 0])
        add(["on", 1])
        muts(rng.randint(1, 4))
        if rng.random() < 0.3:
            add(["chk", 0])
            muts(rng.randint(1, 2))
    elif route == "copied":      # object 1 is a COPY whose original is mutated afterwards
        add(["cp", 0])
        muts(rng.randint(1, 4))
        if rng.random() < 0.3:
            add(["chk", 1])
            muts(rng.randint(1, 2))
    elif route == "requery":     # the same object queried, mutated in place, queried again
        add(["chk"])
        muts(rng.randint(1, 2), swap=rng.random() < 0.6)
        add(["chk"])
        muts(rng.randint(0, 2))
    elif route == "random":
        for _ in range(rng.randint(2, 7)):
            r = rng.random()
            if r < 0.22 and len(w.sh) < MAX_OBJS:
                add(["cp", rng.randrange(len(w.sh))])
            elif r < 0.32 and kind == "H" and len(w.sh) < MAX_OBJS:
                src = rng.randrange(len(w.sh))
                nodes = list(w.sh[src].nodes)
                add(["sub", src, rng.sample(nodes, rng.randint(0, len(nodes)))])
            elif r < 0.50:
                add(["on", rng.randrange(len(w.sh))])
            elif r < 0.62:
                add(["chk", rng.randrange(len(w.sh))])
            else:
                muts(rng.randint(1, 3), swap=rng.random() < 0.2)
    return {"kind": kind, "ops": ops, "route": route, "weighted": weighted}


SMALL_FILTERS = [None, ("size", 0), ("size", 1), ("size", 2), ("size", 3), ("size", 4), ("size", 5),
                 ("order", 0), ("order", 1), ("order", 2), ("order", 3), ("order", 4)]


def stop(ctx, reserve=8):
    return (ctx.too_many() or ctx.extra.get("watchdog_timeouts", 0) >= 2
            or (ctx.time_left() is not None and ctx.time_left() < reserve))


def run(ctx):
    drv = ctx.driver() if ctx.model_available else None
    # fixed seeds of the search: D23's shape (a size-2 path next to a size-3 hyperedge), empty hypergraph, one node
    for case in ({"kind": "H", "ops": [["e", [1, 2]], ["e", [2, 3, 4]], ["e", [4, 5]], ["n", 9], ["e", [7]]]},
                 {"kind": "H", "ops": []}, {"kind": "H", "ops": [["n", "a"]]}):
        check_case(ctx, drv, case)
    n = ctx.scale(900, 5000)
    for i in range(n):
        if stop(ctx):
            break
        r = ctx.rng.random()
        case = gen_program(ctx.rng, "H" if r < 0.7 else "DTM"[i % 3])
        ctx.count("route_" + case["route"])
        check_case(ctx, drv, case)
    if ctx.tier == "thorough":
        subsets = [list(c) for k in range(1, 5) for c in itertools.combinations(range(4), k)]
        for mask in range(1 << len(subsets)):
            if stop(ctx, 20):
                ctx.assumptions.append(f"exhaustive 4-node enumeration stopped at mask {mask} (time budget)")
                break
            es = [subsets[i] for i in range(len(subsets)) if mask >> i & 1]
            case = {"kind": "H", "ops": [["n", x] for x in range(4)] + [["e", e] for e in es]}
            check_case(ctx, drv, case, SMALL_FILTERS)
            ctx.count("exhaustive_4node_hypergraphs")


def replay(ctx, case):
    drv = ctx.driver() if ctx.model_available else None
    case = {"kind": case["kind"], "ops": case["ops"], "weighted": bool(case.get("weighted", False))}
    check_case(ctx, drv, case)
