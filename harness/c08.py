"""C08 - degrees and connected components equal their combinatorial definitions.

Correspondence of lean/Hgxv/Model/C08.lean with hypergraphx.measures.degree.*, hypergraphx.utils.cc.* and the
Hypergraph methods that forward to them, plus independent oracles (counting / union-find straight from the
property's words) on the implementation's answers."""
import itertools
import signal

import hgxv

RULE = ("random Hypergraph instances (0-9 nodes from a sparse int or str universe mapped to rank, 0-10 hyperedges of size "
        "1-5 incl. singletons, explicit isolated nodes, nodes/hyperedges inserted in random order, repeated insertions, 30% of the histories with remove_edge / remove_node(keep_edges) / re-insertion), "
        "EVERY node (the falsy labels 0 and '' are forced into 60% of the cases), every filter value on its own: none, size in 0..7, order in 0..6 (size 0 and values above the largest hyperedge match nothing), "
        "each through the Hypergraph method and the module-level function; DirectedHypergraph / TemporalHypergraph / "
        "MultiplexHypergraph instances of the same shape for the degree functions; thorough adds ALL 32768 hypergraphs on "
        "4 nodes. A case = one hypergraph (all its nodes and filters), distinct by (class, node order, hyperedge list); "
        "non-trivial when for some filter there are >= 2 components, one of them with >= 2 nodes, and >= 1 hyperedge is "
        "excluded by that filter (for the degree-only classes: some filter excludes and some filter keeps a hyperedge)")
ASSUMPTIONS = ["hyperedges are duplicate-free node tuples over nodes of the hypergraph (what get_edges() returns)",
               "labels are mapped to their rank in sorted order before they reach the model",
               "get_nodes()/get_edges() list the nodes / distinct hyperedges of the container (that is C01-C04)",
               "both order= and size= given is outside the property (the code rejects it)"]
TRUSTED = ["Python set/dict/deque/max semantics; the visited *set* of _bfs is compared as a set",
           "largest_component: any component of maximal size is accepted (tie-breaking is not part of the property)"]
BUDGET_S = {"quick": 75, "thorough": 1500}

# every value on its own (each is compared with the definition, not with the equivalent other keyword), including the
# falsy / boundary ones: order=0, size=1, size=0 (matches nothing), values above the maximal hyperedge size
FILTERS = [None] + [("size", k) for k in range(0, 8)] + [("order", k) for k in range(0, 7)]


class Timeout(BaseException):
    pass


def _alarm(signum, frame):
    raise Timeout()


def guarded(seconds, fn):
    old = signal.signal(signal.SIGALRM, _alarm)
    signal.setitimer(signal.ITIMER_REAL, seconds)
    try:
        return fn()
    finally:
        signal.setitimer(signal.ITIMER_REAL, 0)
        signal.signal(signal.SIGALRM, old)


def kw(f):
    return {} if f is None else {f[0]: f[1]}


def tok(f):
    return "n" if f is None else ("s" if f[0] == "size" else "o") + str(f[1])


def want_size(f):
    return None if f is None else (f[1] if f[0] == "size" else f[1] + 1)


# ------------------------------------------------------------------------------------------
# generators

def gen_labels(rng, n):
    if rng.random() < 0.3:
        pool = [chr(97 + i) * rng.randint(1, 2) for i in range(20)] + ["E1", "N0", "Z", "10", "9", "", "0"]
        labels = rng.sample(sorted(set(pool)), n)
        falsy = ""
    elif rng.random() < 0.2:
        labels, falsy = rng.sample(range(-5, 40), n), 0
    else:
        labels, falsy = rng.sample(range(0, 12), n), 0
    if n and falsy not in labels and rng.random() < 0.6:
        labels[rng.randrange(n)] = falsy          # the falsy label (0 / '') is a node like any other
    return labels


def gen_edge_sets(rng, labels):
    n = len(labels)
    out = []
    if n == 0:
        return out
    style = rng.random()
    for _ in range(rng.choice([0, 1, 2, 3, 4, 5, 6, 8, 10])):
        if style < 0.3:
            size = rng.choice([1, 2, 2, 3])
        elif style < 0.5:
            size = rng.choice([2, 3])
        else:
            size = rng.choice([1, 2, 2, 3, 3, 4, 5])
        size = min(size, n)
        out.append(rng.sample(labels, size))
    return out


def gen_h(rng):
    n = rng.choice([0, 1, 2, 3, 4, 5, 6, 6, 7, 7, 8, 8, 9, 9])
    labels = gen_labels(rng, n)
    edges = gen_edge_sets(rng, labels[: max(1, n - rng.randint(0, 2))] if n else [])
    ops = [["n", x] for x in labels if rng.random() < 0.6] + [["e", e] for e in edges]
    if edges and rng.random() < 0.3:
        ops.append(["e", list(reversed(rng.choice(edges)))])      # the same hyperedge again
    rng.shuffle(ops)
    ops += [["n", x] for x in labels if rng.random() < 0.2]
    if rng.random() < 0.3:
        # a history with removals (and re-insertions): the adjacency lists the degrees are read from have been edited
        present_e, present_n, out = [], set(), []
        for op in ops:
            out.append(op)
            if op[0] == "n":
                present_n.add(op[1])
            else:
                present_e.append(sorted(op[1]))
                present_n.update(op[1])
            r = rng.random()
            if r < 0.15 and present_e:
                e = present_e.pop(rng.randrange(len(present_e)))
                present_e = [q for q in present_e if q != e]
                out.append(["re", e])
                if rng.random() < 0.4:
                    out.append(["e", e])
                    present_e.append(e)
            elif r < 0.25 and present_n:
                x = rng.choice(sorted(present_n, key=repr))
                keep = rng.random() < 0.5
                out.append(["rn", x, keep])
                present_n.discard(x)
                present_e = [[y for y in q if y != x] for q in present_e] if keep else [q for q in present_e if x not in q]
        ops = out
    return {"kind": "H", "ops": ops}


def gen_other(rng, kind):
    n = rng.choice([1, 2, 3, 4, 5, 6, 7, 8, 9])
    labels = gen_labels(rng, n)
    ops = [["n", x] for x in labels if rng.random() < 0.5]
    for e in gen_edge_sets(rng, labels):
        if kind == "D":
            if len(e) < 2:
                continue
            k = rng.randint(1, len(e) - 1)
            ops.append(["e", [e[:k], e[k:]]])
            if rng.random() < 0.3:
                ops.append(["e", [e[k:], e[:k]]])
        elif kind == "T":
            ops.append(["e", e, rng.randint(0, 3)])
            if rng.random() < 0.4:
                ops.append(["e", list(reversed(e)), rng.randint(0, 3)])
        else:
            ops.append(["e", e, rng.choice(["a", "b", "c"])])
            if rng.random() < 0.4:
                ops.append(["e", list(reversed(e)), rng.choice(["a", "b", "c"])])
    rng.shuffle(ops)
    return {"kind": kind, "ops": ops}


def build(case):
    from hypergraphx import Hypergraph, DirectedHypergraph, TemporalHypergraph, MultiplexHypergraph
    kind = case["kind"]
    h = {"H": Hypergraph, "D": DirectedHypergraph, "T": TemporalHypergraph, "M": MultiplexHypergraph}[kind]()
    for op in case["ops"]:
        if op[0] == "n":
            h.add_node(op[1])
        elif op[0] == "re":
            if h.check_edge(tuple(op[1])):
                h.remove_edge(tuple(op[1]))
        elif op[0] == "rn":
            if h.check_node(op[1]):
                h.remove_node(op[1], keep_edges=op[2])
        elif kind == "H":
            h.add_edge(tuple(op[1]))
        elif kind == "D":
            h.add_edge((tuple(op[1][0]), tuple(op[1][1])))
        elif kind == "T":
            h.add_edge(tuple(op[1]), op[2])
        else:
            h.add_edge(tuple(op[1]), op[2])
    return h


# ------------------------------------------------------------------------------------------
# observation of the implementation (never raises, except Timeout)

def obs(fn, canon):
    try:
        return canon(fn())
    except Exception as ex:  # noqa: BLE001 - an exception is an observation
        return ("exc", type(ex).__name__)


def is_exc(v):
    return isinstance(v, tuple) and len(v) == 2 and v[0] == "exc"


def c_int(v):
    if isinstance(v, bool) or not isinstance(v, int):
        v2 = int(v)
        if v2 != v or isinstance(v, bool):
            raise TypeError("not an integer: %r" % (v,))
        return v2
    return v


def c_bool(v):
    if v is True or v is False or type(v).__name__ in ("bool_", "bool"):
        return bool(v)
    raise TypeError("not a bool: %r" % (v,))


def observe_h(h, nodes, rank, f, api):
    """all C08 observables of a Hypergraph for one filter, through the methods or the module-level functions"""
    from hypergraphx.measures import degree as D
    from hypergraphx.utils import cc as C
    k = kw(f)
    if api == "method":
        call = lambda name, *a: getattr(h, name)(*a, **k)                      # noqa: E731
    else:
        call = lambda name, *a: getattr(D if name.startswith("degree") else C, name)(h, *a, **k)   # noqa: E731
    c_set = lambda s: tuple(sorted(rank[x] for x in _distinct(s)))              # noqa: E731
    o = {}
    for x in nodes:
        r = rank[x]
        o["deg %d" % r] = obs(lambda: call("degree", x), c_int)
        o["ncomp %d" % r] = obs(lambda: call("node_connected_component", x), c_set)
        o["isiso %d" % r] = obs(lambda: call("is_isolated", x), c_bool)
    o["seq"] = obs(lambda: call("degree_sequence"), lambda d: tuple(sorted((rank[a], c_int(b)) for a, b in d.items())))
    o["dist"] = obs(lambda: call("degree_distribution"), lambda d: tuple(sorted((c_int(a), c_int(b)) for a, b in d.items())))
    o["cc"] = obs(lambda: call("connected_components"), lambda cs: tuple(sorted(c_set(c) for c in cs)))
    o["ncc"] = obs(lambda: call("num_connected_components"), c_int)
    o["conn"] = obs(lambda: call("is_connected"), c_bool)
    o["largest"] = obs(lambda: call("largest_component"), c_set)
    o["lsize"] = obs(lambda: call("largest_component_size"), c_int)
    o["iso"] = obs(lambda: call("isolated_nodes"), lambda l: tuple(sorted(rank[x] for x in _distinct(l))))
    return o


def _distinct(s):
    s = list(s)
    if len(set(s)) != len(s):
        raise ValueError("listing repeats a node: %r" % (s,))
    return s


# ------------------------------------------------------------------------------------------
# the property's own words

def oracle_h(nodes_r, edges_r, f):
    ws = want_size(f)
    ef = [e for e in edges_r if ws is None or len(e) == ws]
    o = {}
    degs = {x: sum(1 for e in set(ef) if x in e) for x in nodes_r}
    parent = {x: x for x in nodes_r}

    def find(x):
        while parent[x] != x:
            x = parent[x]
        return x
    for e in ef:
        for y in e[1:]:
            a, b = find(e[0]), find(y)
            if a != b:
                parent[a] = b
    classes = {}
    for x in nodes_r:
        classes.setdefault(find(x), []).append(x)
    classes = sorted(tuple(sorted(c)) for c in classes.values())
    cls_of = {x: c for c in classes for x in c}
    isolated = {x: not any(x in e and len(e) >= 2 for e in ef) for x in nodes_r}
    for x in nodes_r:
        o["deg %d" % x] = degs[x]
        o["ncomp %d" % x] = cls_of[x]
        o["isiso %d" % x] = isolated[x]
    o["seq"] = tuple(sorted(degs.items()))
    hist = {}
    for d in degs.values():
        hist[d] = hist.get(d, 0) + 1
    o["dist"] = tuple(sorted(hist.items()))
    o["cc"] = tuple(classes)
    o["ncc"] = len(classes)
    o["conn"] = len(classes) == 1
    o["lsize"] = max(len(c) for c in classes) if classes else None
    o["largest"] = None  # any class of size lsize
    o["iso"] = tuple(sorted(x for x in nodes_r if isolated[x]))
    # cross-checks of the oracle itself (handshake; isolated <=> singleton class)
    assert sum(degs.values()) == sum(len(e) for e in set(ef))
    assert all(isolated[x] == (cls_of[x] == (x,)) for x in nodes_r)
    nontrivial = len(classes) >= 2 and any(len(c) >= 2 for c in classes) and len(ef) < len(edges_r)
    return o, classes, nontrivial


def parse_model(name, a):
    """decode a model answer into the canonical form used for the implementation"""
    if a == "rej":
        return ("exc", "model-rej")
    head = name.split()[0]
    if head in ("deg", "ncc", "lsize"):
        return int(a)
    if head in ("conn", "isiso"):
        return a == "1"
    if head in ("seq", "dist"):
        return tuple(sorted(tuple(int(t) for t in it.split(":")) for it in a.split(","))) if a != "-" else ()
    if head == "cc":
        return tuple(sorted(tuple(sorted(c)) for c in hgxv.dec_lists(a)))
    if head in ("ncomp", "largest", "iso"):
        return tuple(sorted(hgxv.dec_list(a)))
    raise ValueError(name)


def check_h(ctx, case, filters=None):
    """phase 1 (runs under the watchdog): the implementation against the definitions; returns the model dialogue"""
    h = build(case)
    nodes = list(h.get_nodes())
    edges = [tuple(e) for e in h.get_edges()]
    universe = sorted(set(nodes) | {x for e in edges for x in e})
    rank = {x: i for i, x in enumerate(universe)}
    nodes_r = [rank[x] for x in nodes]
    edges_r = [tuple(rank[x] for x in e) for e in edges]
    key = repr(("H", nodes_r, sorted(edges_r)))
    lines = ["load " + hgxv.enc_lists(edges_r) + " " + hgxv.enc_list(nodes_r)]
    expect = [None]
    nontrivial = False
    filters = filters or FILTERS
    for f in filters:
        orc, classes, nt = oracle_h(nodes_r, edges_r, f)
        nontrivial = nontrivial or nt
        ctx.count("filter_evaluations")
        if nt:
            ctx.count("filter_evaluations_nontrivial")
        seen = {}
        for api in ("method", "module"):
            o = observe_h(h, nodes, rank, f, api)
            seen[api] = o
            for name, want in orc.items():
                got = o[name]
                where = {**case, "filter": tok(f), "api": api, "query": name}
                if name in ("largest", "lsize") and not classes:
                    continue        # no component exists: nothing to be consistent with (the code raises)
                if is_exc(got):
                    ctx.violation(where, f"{api} {name} {kw(f)} raised {got[1]} on a valid node/filter")
                elif name == "largest":
                    if got not in classes or len(got) != orc["lsize"]:
                        ctx.violation(where, f"{api} largest_component {kw(f)} = {got}: not a reachability class of maximal "
                                             f"size {orc['lsize']} (classes {classes})")
                elif got != want:
                    ctx.violation(where, f"{api} {name} {kw(f)} = {got}, the definition gives {want}")
        for name in orc:
            lines.append(f"{name.split()[0]} {' '.join(name.split()[1:] + [tok(f)])}")
            expect.append((name, f, seen["method"][name], seen["module"][name], classes))
    ctx.case(key, nontrivial, sample=case)
    ctx.count("nodes_total", len(nodes))
    ctx.count("hyperedges_total", len(edges))
    if any(op[0] in ("re", "rn") for op in case["ops"]):
        ctx.count("histories_with_removals")
    if () in edges:
        ctx.count("cases_with_empty_hyperedge")
    if any(len(e) == 1 for e in edges):
        ctx.count("cases_with_singleton_hyperedge")
    if any(not any(x in e for e in edges) for x in nodes):
        ctx.count("cases_with_isolated_node")
    return lines, expect


def compare_h(ctx, drv, case, lines, expect):
    """phase 2: the same questions to the Lean model"""
    ans = drv.batch(lines)
    if ans[0] != "ok":
        ctx.disagree(case, f"model rejects the load line: {ans[0]}")
        return
    for ln, a, ex in zip(lines[1:], ans[1:], expect[1:]):
        name, f, gm, gf, classes = ex
        try:
            m = parse_model(name, a)
        except Exception:  # noqa: BLE001
            ctx.disagree({**case, "line": ln}, f"model answer {a!r} to {ln!r} not understood")
            continue
        for api, got in (("method", gm), ("module", gf)):
            if is_exc(m) or is_exc(got):
                ok = is_exc(m) and is_exc(got)
            elif name == "largest":
                ok = len(got) == len(m) and (got in classes) == (m in classes)
            else:
                ok = got == m
            if not ok:
                ctx.disagree({**case, "filter": tok(f), "api": api, "query": name},
                             f"model answers {m!r} to {ln!r}, implementation ({api}) gives {got!r}")


# ------------------------------------------------------------------------------------------
# degrees of the three other classes

def check_other(ctx, case):
    from hypergraphx.measures import degree as D
    kind = case["kind"]
    h = build(case)
    nodes = list(h.get_nodes())
    raw = list(h.get_edges())
    if kind == "D":
        keys = [(tuple(e[0]), tuple(e[1])) for e in raw]
        members = [k[0] + k[1] for k in keys]
    elif kind == "T":
        keys = [(e[0], tuple(e[1])) for e in raw]
        members = [k[1] for k in keys]
    else:
        keys = [(tuple(e[0]), e[1]) for e in raw]
        members = [k[0] for k in keys]
    universe = sorted(set(nodes) | {x for m in members for x in m})
    rank = {x: i for i, x in enumerate(universe)}
    nodes_r = [rank[x] for x in nodes]
    if kind == "D":
        lines = ["dload " + hgxv.enc_lists([[rank[x] for x in k[0]] for k in keys]) + " "
                 + hgxv.enc_lists([[rank[x] for x in k[1]] for k in keys]) + " " + hgxv.enc_list(nodes_r)]
        pre = "d"
    else:
        lines = ["gload " + hgxv.enc_lists([[rank[x] for x in m] for m in members]) + " " + hgxv.enc_list(nodes_r)]
        pre = "g"
    expect = [None]
    key = repr((kind, nodes_r, sorted(zip([tuple(rank[x] for x in m) for m in members], map(repr, keys)))))
    kept = excl = False
    for f in FILTERS:
        ws = want_size(f)
        k = kw(f)
        idx = [i for i in range(len(keys)) if ws is None or len(members[i]) == ws]
        degs = {x: len({keys[i] for i in idx if x in members[i]}) for x in nodes}     # DISTINCT records containing x
        kept = kept or bool(idx)
        excl = excl or len(idx) < len(keys)
        if kind == "M" and f is not None:
            # D18 (property C04): MultiplexHypergraph.get_incident_edges has no order/size -> TypeError.
            probe = obs(lambda: h.degree(nodes[0], **k) if nodes else 0, c_int)
            if probe == ("exc", "TypeError"):
                ctx.count("multiplex_filtered_degree_skipped_TypeError_D18")
                continue
        ctx.count("filter_evaluations_" + kind)
        o_m, o_f = {}, {}
        for x in nodes:
            o_m["deg %d" % rank[x]] = obs(lambda: h.degree(x, **k), c_int)
            o_f["deg %d" % rank[x]] = obs(lambda: D.degree(h, x, **k), c_int)
        c_seq = lambda d: tuple(sorted((rank[a], c_int(b)) for a, b in d.items()))        # noqa: E731
        c_dist = lambda d: tuple(sorted((c_int(a), c_int(b)) for a, b in d.items()))      # noqa: E731
        o_m["seq"] = obs(lambda: h.degree_sequence(**k), c_seq)
        o_f["seq"] = obs(lambda: D.degree_sequence(h, **k), c_seq)
        if hasattr(h, "degree_distribution"):
            o_m["dist"] = obs(lambda: h.degree_distribution(**k), c_dist)
        o_f["dist"] = obs(lambda: D.degree_distribution(h, **k), c_dist)
        hist = {}
        for d in degs.values():
            hist[d] = hist.get(d, 0) + 1
        orc = {"deg %d" % rank[x]: degs[x] for x in nodes}
        orc["seq"] = tuple(sorted((rank[x], d) for x, d in degs.items()))
        orc["dist"] = tuple(sorted(hist.items()))
        assert sum(degs.values()) == sum(len(members[i]) for i in idx)
        for api, o in (("method", o_m), ("module", o_f)):
            for name, got in o.items():
                where = {**case, "filter": tok(f), "api": api, "query": name}
                if is_exc(got):
                    ctx.violation(where, f"{kind} {api} {name} {k} raised {got[1]} on a valid node/filter")
                elif got != orc[name]:
                    ctx.violation(where, f"{kind} {api} {name} {k} = {got}, the definition gives {orc[name]}")
        for name in orc:
            lines.append(f"{pre}{name.split()[0]} {' '.join(name.split()[1:] + [tok(f)])}")
            expect.append((name, f, o_m.get(name), o_f[name]))
    ctx.case(key, kept and excl, sample=None)
    ctx.count("cases_" + kind)
    return lines, expect


def compare_other(ctx, drv, case, lines, expect):
    ans = drv.batch(lines)
    if ans[0] != "ok":
        ctx.disagree(case, f"model rejects the load line: {ans[0]}")
        return
    for ln, a, ex in zip(lines[1:], ans[1:], expect[1:]):
        name, f, gm, gf = ex
        m = parse_model(name, a)
        for api, got in (("method", gm), ("module", gf)):
            if got is None:
                continue
            ok = (is_exc(m) and is_exc(got)) if (is_exc(m) or is_exc(got)) else got == m
            if not ok:
                ctx.disagree({**case, "filter": tok(f), "api": api, "query": name},
                             f"model answers {m!r} to {ln!r}, implementation ({api}) gives {got!r}")


WATCHDOG_S = 5        # a normal case takes ~10 ms


def check_case(ctx, drv, case, filters=None):
    try:
        if case["kind"] == "H":
            lines, expect = guarded(WATCHDOG_S, lambda: check_h(ctx, case, filters))
        else:
            lines, expect = guarded(WATCHDOG_S, lambda: check_other(ctx, case))
    except Timeout:
        ctx.violation(case, f"a degree / connectivity call did not return within {WATCHDOG_S} s on this input")
        ctx.count("watchdog_timeouts")
        return
    except (MemoryError, RecursionError) as ex:
        ctx.violation(case, f"a degree / connectivity call died with {type(ex).__name__} on this input")
        ctx.count("watchdog_timeouts")
        return
    except AssertionError:
        raise                       # the oracle contradicts itself: tool failure, not a finding
    except Exception as ex:  # noqa: BLE001 - building the container or reading it back failed
        ctx.violation(case, f"building / reading the hypergraph raised {type(ex).__name__}: {ex}")
        return
    if drv is not None:
        (compare_h if case["kind"] == "H" else compare_other)(ctx, drv, case, lines, expect)


SMALL_FILTERS = [None, ("size", 0), ("size", 1), ("size", 2), ("size", 3), ("size", 4), ("size", 5),
                 ("order", 0), ("order", 1), ("order", 2), ("order", 3), ("order", 4)]


def stop(ctx, reserve=8):
    return (ctx.too_many() or ctx.extra.get("watchdog_timeouts", 0) >= 2
            or (ctx.time_left() is not None and ctx.time_left() < reserve))


def run(ctx):
    drv = ctx.driver() if ctx.model_available else None
    # fixed seeds of the search: D23's shape (a size-2 path next to a size-3 hyperedge), empty hypergraph, one node
    for case in ({"kind": "H", "ops": [["e", [1, 2]], ["e", [2, 3, 4]], ["e", [4, 5]], ["n", 9], ["e", [7]]]},
                 {"kind": "H", "ops": []}, {"kind": "H", "ops": [["n", "a"]]}):
        check_case(ctx, drv, case)
    n = ctx.scale(900, 5000)
    for i in range(n):
        if stop(ctx):
            break
        r = ctx.rng.random()
        case = gen_h(ctx.rng) if r < 0.7 else gen_other(ctx.rng, "DTM"[i % 3])
        check_case(ctx, drv, case)
    if ctx.tier == "thorough":
        subsets = [list(c) for k in range(1, 5) for c in itertools.combinations(range(4), k)]
        for mask in range(1 << len(subsets)):
            if stop(ctx, 20):
                ctx.assumptions.append(f"exhaustive 4-node enumeration stopped at mask {mask} (time budget)")
                break
            es = [subsets[i] for i in range(len(subsets)) if mask >> i & 1]
            case = {"kind": "H", "ops": [["n", x] for x in range(4)] + [["e", e] for e in es]}
            check_case(ctx, drv, case, SMALL_FILTERS)
            ctx.count("exhaustive_4node_hypergraphs")


def replay(ctx, case):
    drv = ctx.driver() if ctx.model_available else None
    case = {"kind": case["kind"], "ops": case["ops"]}
    check_case(ctx, drv, case)
