import Hgxv.Model.Wire
import Hgxv.Model.C11
import Hgxv.Model.C11Stats
import Hgxv.Model.C11Enum
/-! Line protocol for C11 (stateless).
  `classes n`                      -> class masks in discovery order
  `orbits n`                       -> `c=l1,l2,..;c'=..` (`mapping` of generate_motifs, labels sorted)
  `labeling n`                     -> sorted keys of `labeling`
  `connected n`                    -> sorted masks accepted by `_is_connected`
  `census n <edges>`               -> `c:count,..` (compute_motifs observed)
  `passes n <edges>`               -> `full|notfull|standard` tallies, each `c:count,..`
  `visited n <edges>`              -> `visited` after the full pass `|` after the not-full pass (sorted)
  `dcensus n <sources> <targets>`  -> `pattern=count|..` with pattern `s.s>t.t;..`
  `dsets n <sources> <targets>`    -> node sets counted by the directed full pass `|` by the not-full pass
  `dcounted n <sources> <targets>` -> `dCounted` (all classified node sets, sorted) `|` sum of the census counts
  `diffsum <obs> <nulls>`          -> `diff_sum` entries `|` their sum of squares, `rej` outside the guard
  `normvec <s> <a>`                -> `norm_vector(a)` with `math.sqrt(M) = s`
  `ddiffsum <keys> <counts> <null keys> <null counts>` -> `directed_diff_sum` entries
  `ucounted n <edges>`             -> `countedPats` per pass: sets `/` patterns, passes separated by `|` (full, not-full,
                                      standard), then `|` all sets sorted `|` their `inducedMask`s `|` the sorted sets of
                                      `countedWith` run with reversed incidence / adjacency lists and reversed key order
                                      `|` their patterns -/
open Wire C11

def tb3 := tbls 3
def tb4 := tbls 4
def cls3 := classes 3
def cls4 := classes 4
def lab3 := labeling 3
def lab4 := labeling 4

def tbOf (n : Nat) := if n == 3 then tb3 else if n == 4 then tb4 else tbls n
def clsOf (n : Nat) := if n == 3 then cls3 else if n == 4 then cls4 else classes n
def labOf (n : Nat) := if n == 3 then lab3 else if n == 4 then lab4 else labeling n

def showTally (t : List (Nat × Nat)) : String :=
  showList "," "-" (fun (p : Nat × Nat) => toString p.1 ++ ":" ++ toString p.2) t

def showSide (l : List Nat) : String := showList "." "_" toString l
def showDPat (p : List DEdge) : String :=
  showList ";" "-" (fun (e : DEdge) => showSide e.1 ++ ">" ++ showSide e.2) p
def showDCensus (t : List (List DEdge × Nat)) : String :=
  showList "|" "-" (fun (p : List DEdge × Nat) => showDPat p.1 ++ "=" ++ toString p.2) t

def okOrder (n : Nat) : Bool := n == 3 || n == 4

/-- (set, pattern) pairs sorted by set (insertion sort with `lexLt`; the lists are short) -/
def insertP (a : List Nat × Nat) : List (List Nat × Nat) → List (List Nat × Nat)
  | [] => [a]
  | b :: bs => if lexLt b.1 a.1 then b :: insertP a bs else a :: b :: bs
def sortLexP (l : List (List Nat × Nat)) : List (List Nat × Nat) := l.foldr insertP []

def step (s : Unit) : List String → Unit × String
  | ["classes", n] => (s, showNats (clsOf n.toNat!))
  | ["orbits", n] =>
    let n := n.toNat!
    (s, showList ";" "-" (fun c => toString c ++ "=" ++ showNats (sortNats (orbitWith (tbOf n) c))) (clsOf n))
  | ["labeling", n] => (s, showNats (sortNats (labOf n.toNat!)))
  | ["connected", n] =>
    let n := n.toNat!
    (s, showNats ((List.range (numMasks n)).filter (connected n (masks n))))
  | ["census", n, es] =>
    let n := n.toNat!
    match natss? es with
    | some E => if okOrder n then (s, showTally (censusWith (tbOf n) (clsOf n) (labOf n) n E)) else (s, "rej")
    | none => (s, "bad-op")
  | ["passes", n, es] =>
    let n := n.toNat!
    match natss? es with
    | some E0 =>
      let E := upTo n E0
      let t := tallyWith (tbOf n) (clsOf n) (labOf n)
      let v1 := fullSets n E
      let nf := if n == 4 then notFullSets n E v1 else []
      (s, showTally (t (fullPats n E)) ++ "|" ++ showTally (t (if n == 4 then notFullPats n E v1 else []))
            ++ "|" ++ showTally (t (stdPats n E (nf ++ v1))))
    | none => (s, "bad-op")
  | ["visited", n, es] =>
    let n := n.toNat!
    match natss? es with
    | some E0 =>
      let E := upTo n E0
      let v1 := fullSets n E
      let nf := if n == 4 then notFullSets n E v1 else []
      (s, showNatss (sortLex v1) ++ "|" ++ showNatss (sortLex (nf ++ v1)))
    | none => (s, "bad-op")
  | ["dcensus", n, src, tgt] =>
    let n := n.toNat!
    match natss? src, natss? tgt with
    | some a, some b => if okOrder n then (s, showDCensus (dirCensus n (a.zip b))) else (s, "rej")
    | _, _ => (s, "bad-op")
  | ["dsets", n, src, tgt] =>
    let n := n.toNat!
    match natss? src, natss? tgt with
    | some a, some b =>
      let E := dUpTo n (a.zip b)
      let s1 := dFullSets n E
      (s, showNatss (sortLex s1) ++ "|" ++ showNatss (sortLex (if n == 4 then dNotFullSets n E s1 else [])))
    | _, _ => (s, "bad-op")
  | ["dcounted", n, src, tgt] =>
    let n := n.toNat!
    match natss? src, natss? tgt with
    | some a, some b =>
      (s, showNatss (sortLex (dCounted n (dUpTo n (a.zip b)))) ++ "|" ++
            toString ((dirCensus n (a.zip b)).map (·.2)).sum)
    | _, _ => (s, "bad-op")
  | ["ucounted", n, es] =>
    let n := n.toNat!
    match natss? es with
    | some E0 =>
      if okOrder n then
        let E := upTo n E0
        let cp := countedPats n E0
        let n1 := (fullSets n E).length
        let n2 := if n == 4 then (notFullSets n E (fullSets n E)).length else 0
        let part (l : List (List Nat × Nat)) : String :=
          let l := sortLexP l
          showNatss (l.map (·.1)) ++ "/" ++ showNats (l.map (·.2))
        let all := sortLexP cp
        let rev := sortLexP (countedWith n E0 (fun x => (incident n E x).reverse) (fun w => (nbrs E w).reverse)
          (roots E).reverse)
        (s, part (cp.take n1) ++ "|" ++ part ((cp.drop n1).take n2) ++ "|" ++ part (cp.drop (n1 + n2)) ++ "|" ++
            showNatss (all.map (·.1)) ++ "|" ++ showNats (all.map fun sp => inducedMask n E0 sp.1) ++ "|" ++
            showNatss (rev.map (·.1)) ++ "|" ++ showNats (rev.map (·.2)))
      else (s, "rej")
    | none => (s, "bad-op")
  | ["diffsum", obs, nulls] =>
    match nats? obs, natss? nulls with
    | some o, some ns =>
      match diffSum o ns with
      | some d => (s, showRats d ++ "|" ++ showRat (sumSq d))
      | none => (s, "rej")
    | _, _ => (s, "bad-op")
  | ["normvec", sq, a] =>
    match rat? sq, rats? a with
    | some r, some v => (s, showRats (normVector r v))
    | _, _ => (s, "bad-op")
  | ["ddiffsum", ks, cs, nks, ncs] =>
    match nats? ks, nats? cs, natss? nks, natss? ncs with
    | some k, some c, some nk, some nc =>
      if k.length == c.length && nk.length == nc.length && (nk.zip nc).all (fun p => p.1.length == p.2.length) then
        (s, showRats (dDiffSum (k.zip c) ((nk.zip nc).map fun p => p.1.zip p.2)))
      else (s, "bad-op")
    | _, _, _, _ => (s, "bad-op")
  | _ => (s, "bad-op")

def main : IO Unit := Wire.run step ()
