import Hgxv.Model.Wire
import Hgxv.Model.C05
import Hgxv.Model.C05GetEdges
import Hgxv.Model.C05Batch
/-! Line protocol for C05.  Two families of slots: `u` (Hypergraph) and `d` (DirectedHypergraph).
Keys: `u` = `1,2,3` (`_` empty), `d` = `1,2>3`; raw keys are canonicalised (sorted) on entry.
Metadata: `a:v,a:v` or `-`.  Optional numbers / lists: `n` = None.

  K new s w | K addnode s n md | K addedge s key w|n md | K rmedge s key | K setw s key w
  K setnm s n md | K setem s key md | K attrn s n a v | K attre s key a v
  K setim s key n md | K attri s key n a v   (key as given: `u` stores under the unsorted tuple)
  K addempty s name md | K sethm s md | K attrh s a v
  K addnodes s nodes tbl|n   (tbl = `node=md;node=md`, `~` empty) | K rmnode s n keep | K clear s      -> ok | rej
  K rmnodex s n keep   (remove_node as the code runs it, also for a node on both sides of a directed hyperedge: the state
                        left by a call that raises half-way stays) | K rmedges s key;key;...|~ | K rmnodes s nodes keep
                                                                                -> ok | rej   (`Model/C05Batch.lean`)
  K copy i j | K induced i j nodes | K lcc i j comp | K byorders i j orders|n sizes|n keep
  K edgessub i j order|n size|n upto keep                                        -> ok | rej
  K getedges i j order|n size|n upto sub keep md   (get_edges with all its flags)
        -> rej | `keys k;k;...` | `keysmd k=md;...` | `sub` (the extracted hypergraph is stored in slot j)
  K q s    -> `w|n:md;n:md|key=w=md;...|key@n=md;...|name=md;...|md`  (nodes | hyperedges | incidence metadata |
              empty edges | hypergraph metadata; md printed `a:v,a:v`, `-` when empty; `~` = empty list) -/
open Wire C05

class WireKey (κ : Type) where
  parse : String → Option κ
  render : κ → String
  /-- the form of a raw key under which incidence metadata is stored (`IncKey`) -/
  store : String → Option (List Nat × List Nat)
  renderStore : List Nat × List Nat → String

def dkey? (s : String) : Option DKey :=
  match s.splitOn ">" with
  | [a, b] => do
    let x ← natsInner? a
    let y ← natsInner? b
    some (canonD (x, y))
  | _ => none

def showD (k : List Nat × List Nat) : String := showList "," "_" toString k.1 ++ ">" ++ showList "," "_" toString k.2

instance : WireKey UKey :=
  ⟨fun s => (natsInner? s).map canonU, showList "," "_" toString,
   fun s => (natsInner? s).map (fun raw => (raw, [])), fun k => showList "," "_" toString k.1⟩
instance : WireKey DKey := ⟨dkey?, showD, dkey?, showD⟩

def meta? (s : String) : Option Meta :=
  listOf? "," "-" (fun t => match t.splitOn ":" with
    | [a, v] => do
        let x ← a.toNat?
        let y ← v.toNat?
        some (x, y)
    | _ => none) s

def showMeta (m : Meta) : String :=
  showList "," "-" (fun (p : Nat × Nat) => toString p.1 ++ ":" ++ toString p.2) m

def optInt? (s : String) : Option (Option Int) := if s = "n" then some none else (s.toInt?).map some
def optInts? (s : String) : Option (Option (List Int)) := if s = "n" then some none else (ints? s).map some
def tbl? (s : String) : Option (Option (List (Node × Meta))) :=
  if s = "n" then some none else
  (listOf? ";" "~" (fun t => match t.splitOn "=" with
    | [a, m] => do
        let x ← a.toNat?
        let y ← meta? m
        some (x, y)
    | _ => none) s).map some
def bool? (s : String) : Option Bool := if s = "1" then some true else if s = "0" then some false else none

section
variable {κ : Type} [DecidableEq κ] [Keyed κ] [WireKey κ] [Batch κ]

def digest (c : Content κ) : String :=
  showBool c.weighted ++ "|" ++
  showList ";" "~" (fun (p : Node × Meta) => toString p.1 ++ ":" ++ showMeta p.2) c.nodes ++ "|" ++
  showList ";" "~" (fun (p : κ × (W × Meta)) =>
    WireKey.render p.1 ++ "=" ++ toString p.2.1 ++ "=" ++ showMeta p.2.2) c.edges ++ "|" ++
  showList ";" "~" (fun (p : IncKey × Meta) =>
    WireKey.renderStore κ p.1.1 ++ "@" ++ toString p.1.2 ++ "=" ++ showMeta p.2) c.inc ++ "|" ++
  showList ";" "~" (fun (p : Nat × Meta) => toString p.1 ++ "=" ++ showMeta p.2) c.emptyEdges ++ "|" ++
  showMeta c.hmeta

/-- a mutation through the model's `mutateSlot`; the answer says whether the call was accepted -/
def mutateOp (sl : Slots κ) (s : String) (op : Op κ) : Slots κ × String :=
  match s.toNat? with
  | none => (sl, "bad-op")
  | some i =>
    match AL.get? sl i with
    | none => (sl, "bad-slot")
    | some c => (mutateSlot sl i op, if (apply? c op).isSome then "ok" else "rej")

/-- a call that may raise half-way (`C05.applyX`): the state it leaves is stored whatever the verdict -/
def mutateX (sl : Slots κ) (s : String) (op : OpX κ) : Slots κ × String :=
  match s.toNat? with
  | none => (sl, "bad-op")
  | some i =>
    match AL.get? sl i with
    | none => (sl, "bad-slot")
    | some c => let r := applyX c op; (AL.set sl i r.1, if r.2 then "ok" else "rej")

/-- store an extraction of slot `i` into slot `j` -/
def extract (sl : Slots κ) (i j : String) (f : Content κ → Option (Content κ)) : Slots κ × String :=
  match i.toNat?, j.toNat? with
  | some i, some j =>
    match AL.get? sl i with
    | none => (sl, "bad-slot")
    | some c => (extractInto sl i j f, if (f c).isSome then "ok" else "rej")
  | _, _ => (sl, "bad-op")

def orBad (sl : Slots κ) (r : Option (Slots κ × String)) : Slots κ × String := r.getD (sl, "bad-op")

def stepK (sl : Slots κ) : List String → Slots κ × String
  | ["new", s, w] => orBad sl do
      let i ← s.toNat?
      let b ← bool? w
      some (AL.set sl i (empty b), "ok")
  | ["addnode", s, n, md] => orBad sl do
      let n ← n.toNat?
      let md ← meta? md
      some (mutateOp sl s (.addNode n md))
  | ["addedge", s, k, w, md] => orBad sl do
      let k ← (WireKey.parse k : Option κ)
      let w ← optInt? w
      let md ← meta? md
      some (mutateOp sl s (.addEdge k w md))
  | ["rmedge", s, k] => orBad sl do
      let k ← (WireKey.parse k : Option κ)
      some (mutateOp sl s (.removeEdge k))
  | ["setw", s, k, w] => orBad sl do
      let k ← (WireKey.parse k : Option κ)
      let w ← w.toInt?
      some (mutateOp sl s (.setWeight k w))
  | ["setnm", s, n, md] => orBad sl do
      let n ← n.toNat?
      let md ← meta? md
      some (mutateOp sl s (.setNodeMeta n md))
  | ["setem", s, k, md] => orBad sl do
      let k ← (WireKey.parse k : Option κ)
      let md ← meta? md
      some (mutateOp sl s (.setEdgeMeta k md))
  | ["attrn", s, n, a, v] => orBad sl do
      let n ← n.toNat?
      let a ← a.toNat?
      let v ← v.toNat?
      some (mutateOp sl s (.setNodeAttr n a v))
  | ["attre", s, k, a, v] => orBad sl do
      let k ← (WireKey.parse k : Option κ)
      let a ← a.toNat?
      let v ← v.toNat?
      some (mutateOp sl s (.setEdgeAttr k a v))
  | ["setim", s, k, n, md] => orBad sl do
      let kk ← (WireKey.parse k : Option κ)
      let st ← WireKey.store κ k
      let n ← n.toNat?
      let md ← meta? md
      some (mutateOp sl s (.setIncMeta kk st n md))
  | ["attri", s, k, n, a, v] => orBad sl do
      let kk ← (WireKey.parse k : Option κ)
      let st ← WireKey.store κ k
      let n ← n.toNat?
      let a ← a.toNat?
      let v ← v.toNat?
      some (mutateOp sl s (.setIncAttr kk st n a v))
  | ["addempty", s, name, md] => orBad sl do
      let name ← name.toNat?
      let md ← meta? md
      some (mutateOp sl s (.addEmptyEdge name md))
  | ["sethm", s, md] => orBad sl do
      let md ← meta? md
      some (mutateOp sl s (.setHyperMeta md))
  | ["attrh", s, a, v] => orBad sl do
      let a ← a.toNat?
      let v ← v.toNat?
      some (mutateOp sl s (.setHyperAttr a v))
  | ["addnodes", s, ns, tbl] => orBad sl do
      let ns ← nats? ns
      let tbl ← tbl? tbl
      some (mutateOp sl s (.addNodes ns tbl))
  | ["rmnode", s, n, keep] => orBad sl do
      let n ← n.toNat?
      let keep ← bool? keep
      some (mutateOp sl s (.removeNode n keep))
  | ["clear", s] => mutateOp sl s .clear
  | ["rmnodex", s, n, keep] => orBad sl do
      let n ← n.toNat?
      let keep ← bool? keep
      some (mutateX sl s (.removeNodeRaw n keep))
  | ["rmedges", s, ks] => orBad sl do
      let ks ← listOf? ";" "~" (fun t => (WireKey.parse t : Option κ)) ks
      some (mutateX sl s (.removeEdges ks))
  | ["rmnodes", s, ns, keep] => orBad sl do
      let ns ← nats? ns
      let keep ← bool? keep
      some (mutateX sl s (.removeNodes ns keep))
  | ["copy", i, j] => extract sl i j (fun c => some (copy c))
  | ["induced", i, j, ns] => orBad sl do
      let ns ← nats? ns
      some (extract sl i j (fun c => induced c ns))
  | ["lcc", i, j, ns] => orBad sl do
      let ns ← nats? ns
      some (extract sl i j (fun c => largestComponentSub c ns))
  | ["byorders", i, j, os, ss, keep] => orBad sl do
      let os ← optInts? os
      let ss ← optInts? ss
      let keep ← bool? keep
      some (extract sl i j (fun c => byOrders c os ss keep))
  | ["edgessub", i, j, o, s, upTo, keep] => orBad sl do
      let o ← optInt? o
      let s ← optInt? s
      let upTo ← bool? upTo
      let keep ← bool? keep
      some (extract sl i j (fun c => edgesSub c o s upTo keep))
  | ["getedges", i, j, o, s, upTo, sub, keep, md] => orBad sl do
      let i ← i.toNat?
      let j ← j.toNat?
      let o ← optInt? o
      let s ← optInt? s
      let upTo ← bool? upTo
      let sub ← bool? sub
      let keep ← bool? keep
      let md ← bool? md
      match AL.get? sl i with
      | none => some (sl, "bad-slot")
      | some c =>
        match getEdges c o s upTo sub keep md with
        | none => some (sl, "rej")
        | some (.keys ks) => some (sl, "keys " ++ showList ";" "~" (fun (k : κ) => WireKey.render k) ks)
        | some (.keysMd ks) =>
            some (sl, "keysmd " ++ showList ";" "~" (fun (p : κ × Meta) => WireKey.render p.1 ++ "=" ++ showMeta p.2) ks)
        | some (.sub r) => some (AL.set sl j r, "sub")
  | ["q", s] => match s.toNat? with
      | none => (sl, "bad-op")
      | some i => match AL.get? sl i with
        | none => (sl, "bad-slot")
        | some c => (sl, digest c)
  | _ => (sl, "bad-op")
end

structure St where
  u : Slots UKey := []
  d : Slots DKey := []

def step (s : St) : List String → St × String
  | "u" :: rest => let r := stepK s.u rest; ({ s with u := r.1 }, r.2)
  | "d" :: rest => let r := stepK s.d rest; ({ s with d := r.1 }, r.2)
  | _ => (s, "bad-op")

def main : IO Unit := Wire.run step {}
