import Hgxv.Model.Wire
import Hgxv.Model.C19
import Hgxv.Model.C19C
/-! Line protocol for C19 (stateless).
  `filter <H|T|M|D> <weighted 0|1> <nodes> <edges> <weights> <ncrit|none> <ecrit|none> <keep|remove> <keepEdges 0|1>`
     nodes  : natss, inner list `node,a1,v1,a2,v2,..` (value 0 = None, t+1 = token t)
     edges  : natsss, record `part1;part2;md` (`md` as `a1,v1,..`), weights: rats, parallel
     crit   : natss, inner list `attr,v1,v2,..`
     answer : `<nodes> <edges> <weights>` in the model's order, `rej` when the model's filter raises
  `svh <bound> <alpha> <edges natss> <weights nats>`
     answer : one token per size `n:N:na:bonf:thr@nodes=ks=w=p=flag@..`, `-` when there is none
  `thr <bonf> <ps rats>`  -> `<threshold> <flags>`
  `svc <min_order> <max_order|none> <alpha> <edges natss> <weights nats>`
     answer : `rej` when get_svc raises, else one token per order (descending) `o:N:na:bonf:thr@nodes=ks=w=p=flag@..` -/
open Wire C19

def decVal (v : Nat) : Option Nat := if v = 0 then none else some (v - 1)
def encVal : Option Nat → Nat
  | none => 0
  | some t => t + 1

def decMd : List Nat → Md
  | a :: v :: rest => (a, decVal v) :: decMd rest
  | _ => []
def encMd (md : Md) : List Nat := md.flatMap (fun p => [p.1, encVal p.2])

def decNode : List Nat → Option (Node × Md)
  | n :: rest => some (n, decMd rest)
  | [] => none

def decCrit (s : String) : Option (Option Crit) :=
  if s = "none" then some none else
  match natss? s with
  | some ll => some (some (ll.filterMap (fun l => match l with
      | a :: vs => some (a, vs.map decVal)
      | [] => none)))
  | none => none

def decEdges (recs : List (List (List Nat))) (ws : List Rat) : Option (List (Key × (Rat × Md))) :=
  if recs.length ≠ ws.length then none else
  (recs.zip ws).mapM (fun rw => match rw.1 with
    | [p1, p2, md] => some ((p1, p2), (rw.2, decMd md))
    | _ => none)

def opsOf (t : String) : Option (KeyOps Key) :=
  match t with
  | "H" => some opsH
  | "T" => some opsT
  | "M" => some opsT
  | "D" => some opsD
  | _ => none

def showContent (c : Content Key Rat) : String :=
  showNatss (c.nodes.map (fun x => x.1 :: encMd x.2)) ++ " " ++
  showList "|" "-" (fun (e : Key × (Rat × Md)) =>
      showList ";" "_" (showList "," "_" toString) [e.1.1, e.1.2, encMd e.2.2]) c.edges ++ " " ++
  showRats (c.edges.map (fun e => e.2.1))

def showRow (r : Row × Bool) : String :=
  showList "," "_" toString r.1.edge ++ "=" ++ showList "," "_" toString r.1.ks ++ "=" ++ toString r.1.w ++ "=" ++
    showRat r.1.p ++ "=" ++ showBool r.2

def showTable (t : SizeTable) : String :=
  toString t.size ++ ":" ++ toString t.N ++ ":" ++ toString t.na ++ ":" ++ showRat t.bonf ++ ":" ++ showRat t.thr ++
    String.join (t.rows.map (fun r => "@" ++ showRow r))

def showCore (t : CoreTable) : String :=
  toString t.order ++ ":" ++ toString t.N ++ ":" ++ toString t.na ++ ":" ++ showRat t.bonf ++ ":" ++ showRat t.thr ++
    String.join (t.rows.map (fun r => "@" ++ showRow r))

def decMax (s : String) : Option (Option Nat) :=
  if s = "none" then some none else (nat? s).map some

def step (s : Unit) : List String → Unit × String
  | ["filter", ty, wt, nodes, edges, weights, nc, ec, mode, keep] =>
    match opsOf ty, natss? nodes, natsss? edges, rats? weights, decCrit nc, decCrit ec with
    | some ops, some ns, some es, some ws, some ncrit, some ecrit =>
      match ns.mapM decNode, decEdges es ws with
      | some nodes', some edges' =>
        let c : Content Key Rat := { weighted := wt = "1", nodes := nodes', edges := edges' }
        let m := if mode = "keep" then Mode.keep else Mode.remove
        match filterHg? ops c ncrit ecrit m (keep = "1") with
        | some r => (s, showContent r)
        | none => (s, "rej")
      | _, _ => (s, "bad-op")
    | _, _, _, _, _, _ => (s, "bad-op")
  | ["svh", bound, alpha, edges, weights] =>
    match nat? bound, rat? alpha, natss? edges, nats? weights with
    | some b, some a, some es, some ws =>
      if es.length ≠ ws.length then (s, "bad-op") else
      (s, showList " " "-" showTable (svh sfExact a (es.zip ws) b))
    | _, _, _, _ => (s, "bad-op")
  | ["svc", lo, hi, alpha, edges, weights] =>
    match nat? lo, decMax hi, rat? alpha, natss? edges, nats? weights with
    | some l, some h, some a, some es, some ws =>
      if es.length ≠ ws.length then (s, "bad-op") else
      match svc sfExact a (es.zip ws) l h with
      | some ts => (s, showList " " "-" showCore ts)
      | none => (s, "rej")
    | _, _, _, _, _ => (s, "bad-op")
  | ["thr", bonf, ps] =>
    match rat? bonf, rats? ps with
    | some b, some l => (s, showRat (threshold l b) ++ " " ++ showNats (l.map (fun p => if validated l b p then 1 else 0)))
    | _, _ => (s, "bad-op")
  | _ => (s, "bad-op")

def main : IO Unit := Wire.run step ()
