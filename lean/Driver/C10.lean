import Hgxv.Model.Wire
import Hgxv.Model.C10
import Hgxv.Model.C10Rel
/-! Line protocol for C10.  State: current undirected input (nodes, hyperedges) and directed input.
  `load <nodes> <edges natss>`           -> `ok`
  `dload <sources natss> <targets natss>` -> `ok`
  `bip`                                  -> `<vertices v:attr> <adjacency u~v:attr> <id table v=obj>`
  `clique <0|1>`                         -> `<vertices> <adjacency>`
  `inc <natsss>`                         -> `<lists ok> <shares ok> <covers ok>` (0/1): loads the table of incident lists the
                                            real object returns (one list of hyperedges per node, in node order) and
                                            evaluates the three parts of `incidentOK`; `line` then runs on that table
                                            (`lineGraphFrom`) instead of the table computed from the hyperedge list
  `line <i|j> <s> <0|1>`                 -> `<vertices> <adjacency> <id table natss> <number of _distance calls>` | `exc`
  `dline <i|j> <s> <0|1>`                -> `<vertices> <adjacency> <id table src|tgt natss>` | `exc`
  `simp`                                 -> natss (lexicographically sorted)
  `sim <a> <b>`                          -> `<intersection> <jaccard|exc> <jaccard distance|exc>`
  `deg`                                  -> `<vertex>:<degree>` for the vertices of the bipartite graph, in vertex order
  `cdeg <0|1>`                           -> `<vertex>:<degree>` for the vertices of the clique projection, in vertex order
  `gram`                                 -> `<B·Bᵀ natss> <Bᵀ·B natss> <B natss>` for the binary incidence matrix `B` of the input
  `lineu`                                -> `<vertices> <adjacency>` | `exc`: `line_graph` with an unknown `distance`
                                            (on the loaded incident table, if any)
  `dlineu`                               -> `<vertices> <adjacency>` | `exc`: `directed_line_graph`, unknown `distance` -/
open Wire C10

structure St where
  nodes : List Nat := []
  es : List Edge := []
  des : List DEdge := []
  inc : Option (List (List Edge)) := none

def showAttrN : Option Nat → String
  | none => "-"
  | some a => toString a
def showAttrR : Option Rat → String
  | none => "-"
  | some a => showRat a

def showGraph {ν} (f : ν → String) (g : Graph ν) : String :=
  showList "," "-" (fun (p : ν × Option Nat) => f p.1 ++ ":" ++ showAttrN p.2) g.nodes ++ " " ++
  showList "," "-" (fun (p : (ν × ν) × Option Rat) => f p.1.1 ++ "~" ++ f p.1.2 ++ ":" ++ showAttrR p.2) g.adj

def showBV : BV → String
  | .N i => "N" ++ toString i
  | .E j => "E" ++ toString j
def showObj : Obj → String
  | .node n => "n" ++ toString n
  | .edge e => "e" ++ showList "." "_" toString e

def distArg : String → Option Dist
  | "i" => some .intersection
  | "j" => some .jaccard
  | _ => none

def showOR : Option Rat → String
  | none => "exc"
  | some r => showRat r

def step (s : St) : List String → St × String
  | ["load", nodes, edges] =>
    match nats? nodes, natss? edges with
    | some n, some e => ({ s with nodes := n, es := e, inc := none }, "ok")
    | _, _ => (s, "bad-op")
  | ["dload", src, tgt] =>
    match natss? src, natss? tgt with
    | some a, some b => ({ s with des := a.zip b }, "ok")
    | _, _ => (s, "bad-op")
  | ["bip"] =>
    let r := bipartite s.nodes s.es
    (s, showGraph showBV r.g ++ " " ++
        showList "," "-" (fun (p : BV × Obj) => showBV p.1 ++ "=" ++ showObj p.2) r.idToObj)
  | ["inc", tab] =>
    match natsss? tab with
    | some adj => ({ s with inc := some adj },
        showBool (incListsOK s.es adj) ++ " " ++ showBool (incSharesOK adj) ++ " " ++ showBool (incCoversOK s.es adj))
    | none => (s, "bad-op")
  | ["clique", k] => (s, showGraph toString (clique (k == "1") s.nodes s.es))
  | ["line", d, thr, w] =>
    match distArg d, rat? thr with
    | some d, some thr =>
      match (match s.inc with
             | some adj => lineGraphFrom s.es d thr (w == "1") adj
             | none => lineGraph s.nodes s.es d thr (w == "1")) with
      | some r => (s, showGraph toString r.g ++ " " ++ showNatss ((idTable s.es).map (·.2)) ++ " " ++ toString r.vis.length)
      | none => (s, "exc")
    | _, _ => (s, "bad-op")
  | ["dline", d, thr, w] =>
    match distArg d, rat? thr with
    | some d, some thr =>
      match directedLineGraph s.des d thr (w == "1") with
      | some g => (s, showGraph toString g ++ " " ++ showNatss ((idTable s.des).map (·.2.1)) ++ "|" ++
                      showNatss ((idTable s.des).map (·.2.2)))
      | none => (s, "exc")
    | _, _ => (s, "bad-op")
  | ["deg"] =>
    let g := (bipartite s.nodes s.es).g
    (s, showList "," "-" (fun (p : BV × Nat) => showBV p.1 ++ ":" ++ toString p.2) ((AL.keys g.nodes).zip g.degrees))
  | ["cdeg", k] =>
    let g := clique (k == "1") s.nodes s.es
    (s, showList "," "-" (fun (p : Nat × Nat) => toString p.1 ++ ":" ++ toString p.2) ((AL.keys g.nodes).zip g.degrees))
  | ["gram"] => (s, showNatss (nodeGram s.nodes s.es) ++ " " ++ showNatss (edgeGram s.nodes s.es) ++ " " ++
                    showNatss (incMatrix s.nodes s.es))
  | ["lineu"] =>
    match (match s.inc with
           | some adj => lineGraphUnknownFrom s.es adj
           | none => lineGraphUnknown s.nodes s.es) with
    | some r => (s, showGraph toString r.g)
    | none => (s, "exc")
  | ["dlineu"] =>
    match directedLineGraphUnknown s.des with
    | some g => (s, showGraph toString g)
    | none => (s, "exc")
  | ["simp"] => (s, showNatss (sortLex (simplicial s.es)))
  | ["sim", a, b] =>
    match nats? a, nats? b with
    | some a, some b => (s, toString (interSize a b) ++ " " ++ showOR (jaccard? a b) ++ " " ++ showOR (jaccardDistance? a b))
    | _, _ => (s, "bad-op")
  | _ => (s, "bad-op")

def main : IO Unit := Wire.run step {}
