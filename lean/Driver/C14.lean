import Hgxv.Model.Wire
import Hgxv.Model.C14
import Hgxv.Model.C14Raw
import Hgxv.Model.C14Trace
import Hgxv.Model.C14Meta
import Hgxv.Model.C14Seed
/-! Line protocol for C14.  State: the loaded hypergraph (argument of the next call).
  `load <weighted> <nodes> <edges natss> <weights> <mds>`                        -> `ok`
  `random <n> <sizes> <counts> <groups natsss>`                                    -> HG | `rej`
  `randomM <n> <sizes> <counts> <seed|-1> <py queue natss>`                        -> HG ` left ` k | `rej`
  `addedge <inplace> <order|-1> <size|-1> <draw>`                                  -> CALL | `rej`
  `addedges <inplace> <k> <order|-1> <size|-1> <draws natss>`                      -> CALL ` ret ` 0/1 | `rej`
  `shuffle <inplace> <order|-1> <size|-1> <pn> <pd> <preserve> <idx> <choices>`    -> CALL ` P ` pool weights k | `rej`
  `shuffleall <inplace> <pn> <pd> <sizes> <idxs natss> <choices natsss>`           -> CALL | `rej`
  `scalefree <n> <sizes> <counts ints> <scale keys> <corr 0/1> <target|none> <shuffles> <groups>` -> HG ` ret ` 0/1 | `rej`
  `obj <all_orders 0/1> <inplace>`   -> `none` | `same` | `fresh` (object that carries the result of a call on the loaded one)
  `hoad <N> <time> <orders> <acts ratss> <coins rats> <flags> <samples natss>`         -> natss (t,nodes..) | `raised` | `stuck`
  commands ending in `R` take their numeric arguments as VALUE-TYPED tokens (`Num`): `i<int>` int / numpy int,
  `b0|b1` bool, `q<num>/<den>` a real of any type with that exact value, `s<int>` / `sx` text that `int()` parses / refuses:
  `randomR <n num> <sizes nums> <counts nums> <groups>`                                -> HG | `rej`
  `scalefreeR <n num> <sizes nums> <counts nums> <scale keys> <corr> <target|none> <shuffles num> <groups>` -> HG ` ret ` 0/1 | `rej`
  `addedgeR <inplace> <order num|-> <size num|-> <draw>`                                -> CALL | `rej`
  `addedgesR <inplace> <k num> <order num|-> <size num|-> <draws>`                      -> CALL ` ret ` 0/1 | `rej`
  `shuffleR <inplace> <order|-1> <size|-1> <p num> <preserve> <idx> <choices>`          -> as `shuffle`
  `hoadR <N num> <time num> <orders nums> <acts> <coins> <flags> <samples>`             -> as `hoad`
  `used <k> <draws natss>`   -> `<draws taken by the loop while len(edges) < k> <hyperedges collected>`
  `sftrace <n> <sizes> <counts ints> <scale keys> <corr 0/1> <target|none> <shuffles> <events natss>`
       events: `0,m` exponential(scale, m) | `1,a,b` swap choice | `2,s,d..` choice(nodes, size=s) = d
       -> HG ` ex ` k ` sw ` k ` ch ` k | `rej` | `stuck`   (complete sequence of np.random calls of a run that returned)
  `sferr <sizes> <counts ints> <scale keys> <corr 0/1> <target|none> <shuffles>` -> number of the ValueError raised by the validation | `none`
  seeded programs over the named sources (second extension round; a seeded run finds its queue behind `seed`):
  `addedgeS <inplace> <order|-1> <size|-1> <seed|-1> <ambient py queue> <seeded py queue>`            -> CALL ` left ` k | `rej left ` k
  `addedgesS <inplace> <k> <order|-1> <size|-1> <seed|-1> <ambient py queue> <seeded py queue>`      -> CALL ` left ` k | `rej left ` k
  `shuffleS <inplace> <order|-1> <size|-1> <pn> <pd> <preserve> <seed|-1> <py queue> <ambient np queue> <seeded np queue>` -> CALL ` left ` k ` ` k
  `objM <all_orders 0/1> <inplace>` -> `none` | `same` | `fresh <0/1>` (1: after writes into the fresh object the loaded one holds all its tables)
  `argerr <order|-1> <size|-1> <pn> <pd>` (`pd = 0`: routine without p)          -> 1 | 2 | 3 | `none`
  `loadm <node metadata natss: node,tok> <hypergraph metadata tok> <incidence metadata natss: tok,node,edge..>`  -> `ok`
       (the metadata tables of the loaded hypergraph; a `load` resets them)
  `addedgeM` / `addedgesM` / `shuffleallM` <arguments of `addedge` / `addedges` / `shuffleall`>, `shuffleM <inplace>
       <order|-1> <size|-1> <pn> <pd> <idx> <choices>`   -> `A ` HGM ` R ` (HGM | `none`) | `rej`
       HGM = HG ` M ` <node metadata sorted> <hypergraph metadata> <incidence metadata sorted>
 HG   = `<weighted> <sorted nodes> <hyperedges sorted> <weights> <metadata tokens>` (5 tokens)
 CALL = `A ` HG ` R ` (HG | `none`) -/
open Wire C14

def insertRec (a : Edge × Rec) : List (Edge × Rec) → List (Edge × Rec)
  | [] => [a]
  | b :: bs => if lexLe a.1 b.1 then a :: b :: bs else b :: insertRec a bs
def sortRecs (l : List (Edge × Rec)) : List (Edge × Rec) := l.foldr insertRec []

def showHG (h : HG) : String :=
  let rs := sortRecs h.edges
  showBool h.weighted ++ " " ++ showNats (sortNats h.nodes) ++ " " ++ showNatss (rs.map (·.1)) ++ " "
    ++ showNats (rs.map (·.2.1)) ++ " " ++ showNats (rs.map (·.2.2))

def showCall : Option CallResult → String
  | none => "rej"
  | some r => "A " ++ showHG r.arg ++ " R " ++ (match r.ret with | none => "none" | some h => showHG h)

def optArg (s : String) : Option Nat := match s.toInt? with
  | some i => if i < 0 then none else some i.toNat
  | none => none

def zip3 (a : List Edge) (b c : List Nat) : List (Edge × Rec) := a.zip (b.zip c)

def mkDraws : List Rat → List Nat → List (List Nat) → List HoadDraw
  | c :: cs, f :: fs, s :: ss => { coin := c, sampled := f != 0, sample := s } :: mkDraws cs fs ss
  | _, _, _ => []

def num? (s : String) : Option Num :=
  match s.toList with
  | 'i' :: r => (String.ofList r).toInt?.map Num.int
  | ['b', '0'] => some (Num.bool false)
  | ['b', '1'] => some (Num.bool true)
  | 'q' :: r =>
    match (String.ofList r).splitOn "/" with
    | [a, b] =>
      match a.toInt?, b.toNat? with
      | some n, some d => if d = 0 then none else some (Num.real n (d - 1))
      | _, _ => none
    | _ => none
  | ['s', 'x'] => some (Num.text none)
  | 's' :: r => (String.ofList r).toInt?.map (fun i => Num.text (some i))
  | _ => none
def nums? (s : String) : Option (List Num) := listOf? "," "-" num? s
/-- `-` = the argument was not passed -/
def optNum? (s : String) : Option (Option Num) := if s == "-" then some none else (num? s).map some

def mkEvents : List (List Nat) → Option (List SfEv)
  | [] => some []
  | [0, m] :: r => (mkEvents r).map (SfEv.exp m :: ·)
  | [1, a, b] :: r => (mkEvents r).map (SfEv.swap a b :: ·)
  | (2 :: s :: d) :: r => (mkEvents r).map (SfEv.choice s d :: ·)
  | _ => none

def step (h : HG) : List String → HG × String
  | ["load", w, nodes, edges, ws, mds] =>
    match nats? nodes, natss? edges, nats? ws, nats? mds with
    | some n, some e, some wl, some ml => ({ weighted := w == "1", nodes := n, edges := zip3 e wl ml }, "ok")
    | _, _, _, _ => (h, "bad-op")
  | ["random", n, sizes, counts, groups] =>
    match nat? n, nats? sizes, nats? counts, natsss? groups with
    | some n, some s, some c, some g =>
      (h, match randomHypergraph? n (s.zip c) g with | some r => showHG r | none => "rej")
    | _, _, _, _ => (h, "bad-op")
  | ["randomM", n, sizes, counts, seed, q] =>
    match nat? n, nats? sizes, nats? counts, natss? q with
    | some n, some s, some c, some q =>
      if admissible n (s.zip c) then
        let sd := optArg seed
        -- a seeded run finds the recorded draws behind `seed`; the ambient queues are empty
        let w : World (List (List Nat)) := match sd with
          | some _ => { py := [], np := [] }
          | none => { py := q, np := [] }
        let r := randomHypergraphM (replayRNG q) n (s.zip c) sd w
        (h, showHG r.1 ++ " left " ++ toString r.2.py.length)
      else (h, "rej")
    | _, _, _, _ => (h, "bad-op")
  | ["addedge", inpl, order, size, draw] =>
    match nats? draw with
    | some d => (h, showCall (addRandomEdge h (optArg order) (optArg size) (inpl == "1") d))
    | none => (h, "bad-op")
  | ["addedges", inpl, k, order, size, draws] =>
    match nat? k, natss? draws with
    | some k, some d =>
      (h, showCall (addRandomEdges h k (optArg order) (optArg size) (inpl == "1") d)
          ++ " ret " ++ showBool (consumedExactly k [] d))
    | _, _ => (h, "bad-op")
  | ["shuffle", inpl, order, size, pn, pd, pres, idx, choices] =>
    match int? pn, nat? pd, nats? idx, natss? choices with
    | some pn, some pd, some idx, some cs =>
      let r := randomShuffle h (optArg order) (optArg size) (inpl == "1") pn pd idx cs
      match r, resolveSize (optArg order) (optArg size) with
      | some _, some s =>
        let cur := edgesOfSize h s
        (h, showCall r ++ " P " ++ showNats (pool cur idx) ++ " " ++ showNats (poolWeights cur idx (pres == "1"))
            ++ " " ++ toString (numToRandomize pn.toNat pd cur.length))
      | _, _ => (h, "rej")
    | _, _, _, _ => (h, "bad-op")
  | ["shuffleall", inpl, pn, pd, sizes, idxs, choices] =>
    match int? pn, nat? pd, nats? sizes, natss? idxs, natsss? choices with
    | some pn, some pd, some sizes, some idxs, some cs =>
      (h, showCall (randomShuffleAll h (inpl == "1") pn pd sizes (idxs.zip cs)))
    | _, _, _, _, _ => (h, "bad-op")
  | ["scalefree", n, sizes, counts, skeys, corr, target, shuf, groups] =>
    match nat? n, nats? sizes, ints? counts, nats? skeys, int? shuf, natsss? groups with
    | some n, some s, some c, some sk, some sh, some g =>
      let tgt : Option (Option Rat) := if target == "none" then some none else (rat? target).map some
      match tgt with
      | none => (h, "bad-op")
      | some tgt =>
        (h, match scaleFree n s c sk (corr == "1") tgt sh g with
            | some r => showHG r ++ " ret " ++ showBool (sfReturned (s.zip (c.map Int.toNat)) g)
            | none => "rej")
    | _, _, _, _, _, _ => (h, "bad-op")
  | ["used", k, draws] =>
    match nat? k, natss? draws with
    | some k, some d => (h, toString (collectUsed k [] d) ++ " " ++ toString (collect k [] d).length)
    | _, _ => (h, "bad-op")
  | ["sftrace", n, sizes, counts, skeys, corr, target, shuf, events] =>
    match nat? n, nats? sizes, ints? counts, nats? skeys, int? shuf, (natss? events).bind mkEvents with
    | some n, some s, some c, some sk, some sh, some evs =>
      let tgt : Option (Option Rat) := if target == "none" then some none else (rat? target).map some
      match tgt with
      | none => (h, "bad-op")
      | some tgt =>
        (h, match scaleFreeTrace n s c sk (corr == "1") tgt sh evs with
            | .done r => showHG r ++ " ex " ++ toString (countExp evs) ++ " sw " ++ toString (countSwap evs)
                ++ " ch " ++ toString (countChoice evs)
            | .rej => "rej"
            | .stuck => "stuck")
    | _, _, _, _, _, _ => (h, "bad-op")
  | ["sferr", sizes, counts, skeys, corr, target, shuf] =>
    match nats? sizes, ints? counts, nats? skeys, int? shuf with
    | some s, some c, some sk, some sh =>
      let tgt : Option (Option Rat) := if target == "none" then some none else (rat? target).map some
      match tgt with
      | none => (h, "bad-op")
      | some tgt => (h, match sfError s c sk (corr == "1") tgt sh with | some i => toString i | none => "none")
    | _, _, _, _ => (h, "bad-op")
  | ["argerr", order, size, pn, pd] =>
    match int? pn, nat? pd with
    | some pn, some pd =>
      (h, match argError (optArg order) (optArg size) (if pd = 0 then none else some (pn, pd)) with
          | some i => toString i | none => "none")
    | _, _ => (h, "bad-op")
  | ["randomR", n, sizes, counts, groups] =>
    match num? n, nums? sizes, nums? counts, natsss? groups with
    | some n, some s, some c, some g =>
      (h, match randomHypergraphRaw? n s c g with | some r => showHG r | none => "rej")
    | _, _, _, _ => (h, "bad-op")
  | ["scalefreeR", n, sizes, counts, skeys, corr, target, shuf, groups] =>
    match num? n, nums? sizes, nums? counts, nats? skeys, num? shuf, natsss? groups with
    | some n, some s, some c, some sk, some sh, some g =>
      let tgt : Option (Option Rat) := if target == "none" then some none else (rat? target).map some
      match tgt with
      | none => (h, "bad-op")
      | some tgt =>
        (h, match scaleFreeRaw n s c sk (corr == "1") tgt sh g, optAll Num.toInt c with
            | some r, some cs => showHG r ++ " ret " ++ showBool (sfReturned ((cs.map Int.toNat).zip (cs.map Int.toNat)) g)
            | _, _ => "rej")
    | _, _, _, _, _, _ => (h, "bad-op")
  | ["addedgeR", inpl, order, size, draw] =>
    match optNum? order, optNum? size, nats? draw with
    | some o, some s, some d => (h, showCall (addRandomEdgeRaw h o s (inpl == "1") d))
    | _, _, _ => (h, "bad-op")
  | ["addedgesR", inpl, k, order, size, draws] =>
    match num? k, optNum? order, optNum? size, natss? draws with
    | some k, some o, some s, some d =>
      (h, match addRandomEdgesRaw h k o s (inpl == "1") d, k.loopCount with
          | some r, some kc => showCall (some r) ++ " ret " ++ showBool (consumedExactly kc [] d)
          | _, _ => "rej")
    | _, _, _, _ => (h, "bad-op")
  | ["shuffleR", inpl, order, size, p, pres, idx, choices] =>
    match num? p, nats? idx, natss? choices with
    | some p, some idx, some cs =>
      let r := randomShuffleRaw h (optArg order) (optArg size) (inpl == "1") p idx cs
      match r, resolveSize (optArg order) (optArg size), p.value with
      | some _, some s, some (pn, pd) =>
        let cur := edgesOfSize h s
        (h, showCall r ++ " P " ++ showNats (pool cur idx) ++ " " ++ showNats (poolWeights cur idx (pres == "1"))
            ++ " " ++ toString (numToRandomize pn.toNat pd cur.length))
      | _, _, _ => (h, "rej")
    | _, _, _ => (h, "bad-op")
  | ["hoadR", bigN, time, orders, acts, coins, flags, samples] =>
    match num? bigN, num? time, nums? orders, ratss? acts, rats? coins, nats? flags, natss? samples with
    | some bigN, some t, some o, some a, some c, some f, some s =>
      (h, match hoadRaw bigN t (o.zip a) (mkDraws c f s) with
          | .done out => showNatss (sortLex (out.map (fun r => r.1 :: r.2)))
          | .raised _ => "raised"
          | .stuck => "stuck")
    | _, _, _, _, _, _, _ => (h, "bad-op")
  | ["obj", allo, inpl] =>
    -- the loaded hypergraph is the live object 1; which object carries the result of a call on it
    let r := if allo == "1" then finishObjAll [(1, h)] 1 (inpl == "1") h else finishObj [(1, h)] 1 (inpl == "1") h
    (h, match r.2 with | none => "none" | some i => if i = 1 then "same" else "fresh")
  | ["hoad", bigN, time, orders, acts, coins, flags, samples] =>
    match nat? bigN, nat? time, nats? orders, ratss? acts, rats? coins, nats? flags, natss? samples with
    | some bigN, some t, some o, some a, some c, some f, some s =>
      (h, match hoad bigN t (o.zip a) (mkDraws c f s) with
          | .done out => showNatss (sortLex (out.map (fun r => r.1 :: r.2)))
          | .raised _ => "raised"
          | .stuck => "stuck")
    | _, _, _, _, _, _, _ => (h, "bad-op")
  | _ => (h, "bad-op")

def mkNmeta : List (List Nat) → Option (List (Nat × Nat))
  | [] => some []
  | [x, t] :: r => (mkNmeta r).map ((x, t) :: ·)
  | _ => none
def mkImeta : List (List Nat) → Option (List ((Edge × Nat) × Nat))
  | [] => some []
  | (t :: x :: e) :: r => (mkImeta r).map (((e, x), t) :: ·)
  | _ => none

def showHGM (m : HGM) : String :=
  showHG m.core ++ " M " ++ showNatss (sortLex (m.nmeta.map (fun p => [p.1, p.2]))) ++ " " ++ toString m.hmeta ++ " "
    ++ showNatss (sortLex (m.imeta.map (fun p => p.2 :: p.1.2 :: p.1.1)))

def showCallM : Option CallResultM → String
  | none => "rej"
  | some r => "A " ++ showHGM r.arg ++ " R " ++ (match r.ret with | none => "none" | some m => showHGM m)

/-- the commands that speak about the metadata tables; everything else is `step` on the content -/
def stepM (m : HGM) : List String → HGM × String
  | ["loadm", nm, hm, im] =>
    match (natss? nm).bind mkNmeta, nat? hm, (natss? im).bind mkImeta with
    | some nm, some hm, some im => ({ m with nmeta := nm, hmeta := hm, imeta := im }, "ok")
    | _, _, _ => (m, "bad-op")
  | ["addedgeM", inpl, order, size, draw] =>
    match nats? draw with
    | some d => (m, showCallM (addRandomEdgeM m (optArg order) (optArg size) (inpl == "1") d))
    | none => (m, "bad-op")
  | ["addedgesM", inpl, k, order, size, draws] =>
    match nat? k, natss? draws with
    | some k, some d => (m, showCallM (addRandomEdgesM m k (optArg order) (optArg size) (inpl == "1") d))
    | _, _ => (m, "bad-op")
  | ["shuffleM", inpl, order, size, pn, pd, idx, choices] =>
    match int? pn, nat? pd, nats? idx, natss? choices with
    | some pn, some pd, some idx, some cs =>
      (m, showCallM (randomShuffleM m (optArg order) (optArg size) (inpl == "1") pn pd idx cs))
    | _, _, _, _ => (m, "bad-op")
  | ["shuffleallM", inpl, pn, pd, sizes, idxs, choices] =>
    match int? pn, nat? pd, nats? sizes, natss? idxs, natsss? choices with
    | some pn, some pd, some sizes, some idxs, some cs =>
      (m, showCallM (randomShuffleAllM m (inpl == "1") pn pd sizes (idxs.zip cs)))
    | _, _, _, _, _ => (m, "bad-op")
  | ["addedgeS", inpl, order, size, seed, amb, q] =>
    match natss? amb, natss? q with
    | some amb, some q =>
      let sd := optArg seed
      -- `amb`: what the ambient `random` state hands out (draws recorded BEFORE a `seed` call / all draws of an unseeded
      -- run), `q`: what the seeded state hands out (draws recorded after the `seed` call)
      let w : World (List (List Nat)) := { py := amb, np := [] }
      let r := addRandomEdgeS (replayRNG q) m.core (optArg order) (optArg size) (inpl == "1") sd w
      (m, showCall r.1 ++ " left " ++ toString r.2.py.length)
    | _, _ => (m, "bad-op")
  | ["addedgesS", inpl, k, order, size, seed, amb, q] =>
    match nat? k, natss? amb, natss? q with
    | some k, some amb, some q =>
      let sd := optArg seed
      let w : World (List (List Nat)) := { py := amb, np := [] }
      let r := addRandomEdgesS (replayRNG q) m.core k (optArg order) (optArg size) (inpl == "1") sd
        (amb.length + q.length + 2) w
      (m, showCall r.1 ++ " left " ++ toString r.2.py.length)
    | _, _, _ => (m, "bad-op")
  | ["shuffleS", inpl, order, size, pn, pd, pres, seed, qpy, amb, qnp] =>
    match int? pn, nat? pd, natss? qpy, natss? amb, natss? qnp with
    | some pn, some pd, some qpy, some amb, some qnp =>
      let sd := optArg seed
      -- `random` is never seeded by the routine: its queue is ambient; `np.random`: `amb` before / without a seed call,
      -- `qnp` behind the seed
      let w : World (List (List Nat)) := { py := qpy, np := amb }
      let c : Choice (List (List Nat)) := fun st _ _ _ => match st with
        | d :: r => (d, r)
        | [] => ([], [])
      let r := randomShuffleS (replayRNG qnp) c m.core (optArg order) (optArg size) (inpl == "1") pn pd (pres == "1") sd w
      (m, showCall r.1 ++ " left " ++ toString r.2.py.length ++ " " ++ toString r.2.np.length)
    | _, _, _, _, _ => (m, "bad-op")
  | ["objM", allo, inpl] =>
    let r := if allo == "1" then finishObjAllM [(1, m)] 1 (inpl == "1") m else finishObjM [(1, m)] 1 (inpl == "1") m
    (m, match r.2 with
        | none => "none"
        | some i => if i = 1 then "same" else
            let H := [({} : HGM), { m with hmeta := m.hmeta + 1, nmeta := [], imeta := [] }].foldl (fun G x => poke G i x) r.1
            "fresh " ++ (if AL.get? H 1 = some m then "1" else "0"))
  | "load" :: rest =>
    let r := step m.core ("load" :: rest)
    ({ core := r.1 }, r.2)
  | cmd =>
    let r := step m.core cmd
    ({ m with core := r.1 }, r.2)

def main : IO Unit := Wire.run stepM {}
