import Hgxv.Model.Wire
import Hgxv.Model.C12
/-! Line protocol for C12.  State: the current directed hypergraph.
  `load <sources as natss> <targets as natss> <nodes>`  -> `ok`
  `indeg <size|-1>` / `outdeg <size|-1>`                -> `n:deg,...` in node-list order
  `exact m` / `strong m` / `weak m`                      -> `k:ratio,...`
  `sig m`                                                -> comma list -/
open Wire C12

structure St where
  nodes : List Nat := []
  es : List DEdge := []

def sizeArg (s : String) : Option Nat := match s.toInt? with
  | some i => if i < 0 then none else some i.toNat
  | none => none

def showTable (t : List (Nat × Rat)) : String :=
  showList "," "-" (fun (p : Nat × Rat) => toString p.1 ++ ":" ++ showRat p.2) t
def showSeq (t : List (Nat × Nat)) : String :=
  showList "," "-" (fun (p : Nat × Nat) => toString p.1 ++ ":" ++ toString p.2) t

def step (s : St) : List String → St × String
  | ["load", src, tgt, nodes] =>
    match natss? src, natss? tgt, nats? nodes with
    | some a, some b, some n => ({ nodes := n, es := a.zip b }, "ok")
    | _, _, _ => (s, "bad-op")
  | ["indeg", k] => (s, showSeq (inDegreeSeq s.nodes s.es (sizeArg k)))
  | ["outdeg", k] => (s, showSeq (outDegreeSeq s.nodes s.es (sizeArg k)))
  | ["exact", m] => (s, showTable (reciprocityTable isExact s.es m.toNat!))
  | ["strong", m] => (s, showTable (reciprocityTable isStrong s.es m.toNat!))
  | ["weak", m] => (s, showTable (reciprocityTable isWeak s.es m.toNat!))
  | ["sig", m] => (s, showNats (signature s.es m.toNat!))
  | _ => (s, "bad-op")

def main : IO Unit := Wire.run step {}
