import Hgxv.Model.Wire
import Hgxv.Model.C12
import Hgxv.Model.C12Hist
import Hgxv.Model.C12Ext
/-! Line protocol for C12.  State: the current directed hypergraph (its two listings) and the objects of a history.
  `load <sources as natss> <targets as natss> <nodes>`  -> `ok`
  `indeg <size|-1>` / `outdeg <size|-1>`                -> `n:deg,...` in node-list order
  `exact m` / `strong m` / `weak m`                      -> `k:ratio,...`
  `sig m`                                                -> comma list

 history (full container model `C02.step`; weights in quanta of 1/4, `N` = not given; answers `ok` | `rej`):
  `hreset`
  `hnew <slot> <0|1> <sources|N> <targets|N> <weights|N>`   constructor (`N N` = no edge list)
  `hcopy <a> <b>`     `hclear <slot>`
  `hnode <slot> <n>`  `hnodes <slot> <ns>`
  `hadd <slot> <S> <T> <w|N>`          `hadds <slot> <sources> <targets> <weights|N>`
  `hrm <slot> <S> <T>`                 `hrms <slot> <sources> <targets>`
  `hrmnode <slot> <n> <0|1>`           `hrmnodes <slot> <ns> <0|1>`
  `hsetw <slot> <S> <T> <w>`
  `hload <slot>`   the listings of the object become the current hypergraph
                   -> `<sources> <targets> <nodes>` in listing order | `bad-slot`

 extension round (`Model/C12Ext.lean`: the routines as the code runs them, aggregates):
  `callin <order|N> <size|N> <n>` / `callout ..`         -> degree | `rej` (the call raises)
  `seqin <order|N> <size|N>` / `seqout ..`               -> `n:deg,...` | `rej`
  `sums <size|-1>`        -> `sum in-degrees,sum out-degrees,sum source sizes,sum target sizes,sum sizes`
  `lexact m` / `lstrong m` / `lweak m`                   -> the tables computed loop by loop (one-pass first loop)
  `ltabs m`               -> `tot;rec exact;rec strong;rec weak` (indices `0..m`) before the division
  `lsig m` / `sigdef`     -> the flattened 2-d accumulation / with the default bound
  `sigagg m`              -> `source-weighted,target-weighted,diag 2,...,diag m` of `signature m`
  `rev`                   -> the current hypergraph becomes its reverse; `<sources> <targets>` -/
open Wire C12

structure St where
  nodes : List Nat := []
  es : List DEdge := []
  hist : C02.State := []

def sizeArg (s : String) : Option Nat := match s.toInt? with
  | some i => if i < 0 then none else some i.toNat
  | none => none

def showTable (t : List (Nat × Rat)) : String :=
  showList "," "-" (fun (p : Nat × Rat) => toString p.1 ++ ":" ++ showRat p.2) t
def showSeq (t : List (Nat × Nat)) : String :=
  showList "," "-" (fun (p : Nat × Nat) => toString p.1 ++ ":" ++ toString p.2) t

def optNat? (s : String) : Option (Option Nat) := if s = "N" then some none else s.toNat?.map some
def showOptNat : Option Nat → String
  | some n => toString n
  | none => "rej"
def optInt? (s : String) : Option (Option Int) := if s = "N" then some none else s.toInt?.map some
def optInts? (s : String) : Option (Option (List Int)) := if s = "N" then some none else (ints? s).map some
def bool? (s : String) : Option Bool := if s = "1" then some true else if s = "0" then some false else none
def raws (a b : List (List Nat)) : List C02.RawEdge := (a.zip b).map (fun p => C02.RawEdge.ofLists p.1 p.2)
def optRaws? (a b : String) : Option (Option (List C02.RawEdge)) :=
  if a = "N" then some none else do
    let x ← natss? a
    let y ← natss? b
    if x.length = y.length then pure (some (raws x y)) else none

def histCmd : List String → Option C02.Cmd
  | ["hnew", sl, w, a, b, ws] => do
      pure (.new (← sl.toNat?) (← bool? w) none none (← optRaws? a b) (← optInts? ws) none)
  | ["hcopy", a, b] => do pure (.copy (← a.toNat?) (← b.toNat?))
  | ["hclear", sl] => do pure (.op (← sl.toNat?) .clear)
  | ["hnode", sl, n] => do pure (.op (← sl.toNat?) (.addNode (← n.toNat?) none))
  | ["hnodes", sl, ns] => do pure (.op (← sl.toNat?) (.addNodes (← nats? ns)))
  | ["hadd", sl, a, b, w] => do
      pure (.op (← sl.toNat?) (.addEdge (C02.RawEdge.ofLists (← nats? a) (← nats? b)) (← optInt? w) none))
  | ["hadds", sl, a, b, ws] => do
      pure (.op (← sl.toNat?) (.addEdges ((← optRaws? a b).getD []) (← optInts? ws) none))
  | ["hrm", sl, a, b] => do pure (.op (← sl.toNat?) (.removeEdge (C02.RawEdge.ofLists (← nats? a) (← nats? b))))
  | ["hrms", sl, a, b] => do pure (.op (← sl.toNat?) (.removeEdges ((← optRaws? a b).getD [])))
  | ["hrmnode", sl, n, k] => do pure (.op (← sl.toNat?) (.removeNode (← n.toNat?) (← bool? k)))
  | ["hrmnodes", sl, ns, k] => do pure (.op (← sl.toNat?) (.removeNodes (← nats? ns) (← bool? k)))
  | ["hsetw", sl, a, b, w] => do
      pure (.op (← sl.toNat?) (.setWeight (C02.RawEdge.ofLists (← nats? a) (← nats? b)) (← w.toInt?)))
  | _ => none

def step (s : St) : List String → St × String
  | ["load", src, tgt, nodes] =>
    match natss? src, natss? tgt, nats? nodes with
    | some a, some b, some n => ({ s with nodes := n, es := a.zip b }, "ok")
    | _, _, _ => (s, "bad-op")
  | ["indeg", k] => (s, showSeq (inDegreeSeq s.nodes s.es (sizeArg k)))
  | ["outdeg", k] => (s, showSeq (outDegreeSeq s.nodes s.es (sizeArg k)))
  | ["exact", m] => (s, showTable (reciprocityTable isExact s.es m.toNat!))
  | ["strong", m] => (s, showTable (reciprocityTable isStrong s.es m.toNat!))
  | ["weak", m] => (s, showTable (reciprocityTable isWeak s.es m.toNat!))
  | ["sig", m] => (s, showNats (signature s.es m.toNat!))
  | ["callin", o, k, n] =>
    match optNat? o, optNat? k, n.toNat? with
    | some o, some k, some n => (s, showOptNat (inDegreeCall s.nodes s.es o k n))
    | _, _, _ => (s, "bad-op")
  | ["callout", o, k, n] =>
    match optNat? o, optNat? k, n.toNat? with
    | some o, some k, some n => (s, showOptNat (outDegreeCall s.nodes s.es o k n))
    | _, _, _ => (s, "bad-op")
  | ["seqin", o, k] =>
    match optNat? o, optNat? k with
    | some o, some k => (s, match inDegreeSeqCall s.nodes s.es o k with | some t => showSeq t | none => "rej")
    | _, _ => (s, "bad-op")
  | ["seqout", o, k] =>
    match optNat? o, optNat? k with
    | some o, some k => (s, match outDegreeSeqCall s.nodes s.es o k with | some t => showSeq t | none => "rej")
    | _, _ => (s, "bad-op")
  | ["sums", k] =>
    let f := sizeArg k
    (s, showNats [sumInDegrees s.nodes s.es f, sumOutDegrees s.nodes s.es f, sumSourceSizes s.es f,
                  sumTargetSizes s.es f, ((selected s.es f).map esize).sum])
  | ["lexact", m] => (s, showTable (exactRun s.es m.toNat!))
  | ["lstrong", m] => (s, showTable (strongRun s.es m.toNat!))
  | ["lweak", m] => (s, showTable (weakRun s.es m.toNat!))
  | ["ltabs", m] =>
    let m := m.toNat!
    let st := firstLoop s.es m
    (s, showNatss [st.tot, recLoop (exactTest st.edgeSet) st.edgeSet m, recLoop (strongTest st.reach) st.edgeSet m,
                   recLoop (weakTest st.bins) st.edgeSet m])
  | ["lsig", m] => (s, showNats (signatureLoop s.es m.toNat!))
  | ["sigdef"] => (s, showNats (signatureDefault s.es))
  | ["sigagg", m] =>
    let m := m.toNat!
    let sig := signature s.es m
    (s, showNats ([sigSourceWeighted sig m, sigTargetWeighted sig m] ++
                  ((List.range (m + 1)).filter (2 ≤ ·)).map (fun k => sigDiagonal sig m k)))
  | ["rev"] =>
    let es := reverse s.es
    ({ s with es := es }, showNatss (es.map (·.1)) ++ " " ++ showNatss (es.map (·.2)))
  | ["hreset"] => ({ s with hist := [] }, "ok")
  | ["hload", sl] =>
    match sl.toNat?.bind (AL.get? s.hist) with
    | some o =>
      let es := histListing o
      let ns := histNodes o
      ({ s with nodes := ns, es := es },
       showNatss (es.map (·.1)) ++ " " ++ showNatss (es.map (·.2)) ++ " " ++ showNats ns)
    | none => (s, "bad-slot")
  | toks =>
    match histCmd toks with
    | some c =>
      -- one step of `C12.histRun`
      let r := C02.step s.hist c
      ({ s with hist := r.1 }, match r.2 with | .ok => "ok" | .rej => "rej")
    | none => (s, "bad-op")

def main : IO Unit := Wire.run step {}
