import Hgxv.Model.Wire
import Hgxv.Model.C06
import Hgxv.Model.C06Hif
import Hgxv.Model.C06Text
import Hgxv.Model.C06Str
import Hgxv.Model.C06Json
import Hgxv.Model.C06HgrText
/-! Line protocol for C06.  State: the current content (any of the four types) and a record list.
  metadata   `-` | `k=v,...`   k: w t l u<n>   v: p<n> (pool token) q<int> (weight quanta) t<n> l<n>
  node list  `1.2.3` | `_`     directed interaction `1.2>3`
  `begin T w` `hmeta m` `rnode n m` `redge inter extra wq m`      raw content (a digest of a real object)
  `api_new T w` `api_node n m|none` `api_edge inter extra w|none m|none` `api_sethmeta m`   constructor / add_node / add_edge
  `wf` -> 1/0    `digest` -> T;w;hmeta|n;meta|..|#|inter;extra;wq;meta|..
  `save` -> H;T;w;meta|N;idx;meta|E;inter;meta..   (also becomes the record list)
  `rec_clear` `rec_h T w m` `rec_n idx m` `rec_e inter m`   build a record list;   `load` -> ok/rej (result becomes current)
  `hgx` -> ok/rej   (populate ∘ expose through the pickled dict)
  `hgr tok..`  tok = skip | n,n,..     -> digest | rej
  `hif incs nodes edges`                 -> nodes keys incidences empties | rej
  `frame L`   L = top-level pieces of a text file, one letter each: o `[`  s `,`  i one value  c `]`  (x = anything else)
              -> `k;e`  k = number of records `readText` returns (the i-th value carries the number i) or `rej`,
                        e = 1 iff L is letter by letter what `writeText` writes for k records (0 when rej); beyond
                        2000 records the comparison uses `framed` (= `writeText` by `C06_text_framing`)
  `str_enc cps`   cps = code points `1,2,3` | `-`   -> `units;back`  units = the string literal `json.dump` writes
              (ensure_ascii), back = what the reader makes of it again (code points) or rej
  `str_raw cps`   -> the literal of the `ensure_ascii=False` variant
  `str_dec units` -> code points the reader makes of the literal `units` | rej
  `num i`         i = a decimal integer -> `units;back`  units = `Num.encInt i`, back = `Num.decInt` of them | rej
  `num_dec units` -> the integer `Num.decInt` reads | rej
  `js_emit code`  code = a JSON value in prefix form (0 null, 1 false, 2 true, `3 s k d..` integer (s = 1 negative, k decimal
              digits), `4 k u..` float with its repr text, `5 k c..` string, `6 n v..` array, `7 n (k c.. v)..` object)
              -> the characters of `J.emit` (`json.dump(v, separators=(",", ":"))`)
  `hgr_text units`  -> as `hgr`, from the characters of the file (`HgrText.parseHgrText`: strip / split / int modelled)
  `txt_read units`  -> the records (`;`-separated unit lists) `Json.readFile` finds line by line | rej
  `txt_write recs`  -> the characters of the file for the record texts `recs` (`render` of `writeText`; beyond 300
              records the equal `fileText`, theorem `C06_json_file_chars`) -/
open Wire C06

def parseKey (s : String) : Option Key :=
  if s = "w" then some .weight else if s = "t" then some .time else if s = "l" then some .layer
  else if s.startsWith "u" then (s.drop 1).toString.toNat?.map Key.user else none

def parseVal (s : String) : Option Val :=
  let r := (s.drop 1).toString
  if s.startsWith "p" then r.toNat?.map Val.tok
  else if s.startsWith "q" then r.toInt?.map Val.wq
  else if s.startsWith "t" then r.toNat?.map Val.tm
  else if s.startsWith "l" then r.toNat?.map Val.lay
  else none

def parseMeta (s : String) : Option Meta :=
  if s = "-" then some []
  else (s.splitOn ",").mapM (fun it =>
    match it.splitOn "=" with
    | [k, v] => do let k' ← parseKey k; let v' ← parseVal v; pure (k', v')
    | _ => none)

def parseNodes (s : String) : Option (List Nat) :=
  if s = "_" then some [] else (s.splitOn ".").mapM (fun (t : String) => t.toNat?)

def parseInter (s : String) : Option Inter :=
  match s.splitOn ">" with
  | [a] => (parseNodes a).map Inter.flat
  | [a, b] => do let x ← parseNodes a; let y ← parseNodes b; pure (Inter.pair x y)
  | _ => none

def parseType (s : String) : Option HType :=
  if s = "H" then some .H else if s = "D" then some .D else if s = "T" then some .T else if s = "M" then some .M else none

def showType : HType → String
  | .H => "H" | .D => "D" | .T => "T" | .M => "M"

def showKeyK : Key → String
  | .weight => "w" | .time => "t" | .layer => "l" | .user n => "u" ++ toString n
def showVal : Val → String
  | .tok n => "p" ++ toString n | .wq q => "q" ++ toString q | .tm t => "t" ++ toString t | .lay l => "l" ++ toString l
def showMeta (m : Meta) : String := showList "," "-" (fun (p : Key × Val) => showKeyK p.1 ++ "=" ++ showVal p.2) m
def showNodes (l : List Nat) : String := showList "." "_" toString l
def showInter : Inter → String
  | .flat l => showNodes l
  | .pair s t => showNodes s ++ ">" ++ showNodes t

class WireKey (κ : Type) where
  extra : κ → String
  mkKey : Inter → String → Option κ

instance : WireKey HKey where
  extra _ := "-"
  mkKey i _ := match i with | .flat l => some ⟨l⟩ | _ => none
instance : WireKey DKey where
  extra _ := "-"
  mkKey i _ := match i with | .pair s t => some ⟨s, t⟩ | _ => none
instance : WireKey TKey where
  extra k := toString k.time
  mkKey i x := match i, x.toNat? with | .flat l, some t => some ⟨t, l⟩ | _, _ => none
instance : WireKey MKey where
  extra k := toString k.layer
  mkKey i x := match i, x.toNat? with | .flat l, some t => some ⟨l, t⟩ | _, _ => none

def showContent {κ} [Kind κ] [WireKey κ] (c : Content κ) : String :=
  "|".intercalate
    ([showType (Kind.ty κ) ++ ";" ++ showBool c.weighted ++ ";" ++ showMeta c.hmeta]
      ++ c.nodes.map (fun p => toString p.1 ++ ";" ++ showMeta p.2)
      ++ ["#"]
      ++ c.edges.map (fun e => showInter (Kind.inter e.1) ++ ";" ++ WireKey.extra e.1 ++ ";" ++ toString e.2.1 ++ ";" ++ showMeta e.2.2))

def showAny : AnyContent → String
  | .H c => showContent c | .D c => showContent c | .T c => showContent c | .M c => showContent c

def showRecord : Record → String
  | .header t w hm => "H;" ++ showType t ++ ";" ++ showBool w ++ ";" ++ showMeta hm
  | .node i m => "N;" ++ toString i ++ ";" ++ showMeta m
  | .edge i m => "E;" ++ showInter i ++ ";" ++ showMeta m

def emptyOf (t : HType) (w : Bool) (api : Bool) : AnyContent :=
  let strip {κ} (c : Content κ) : Content κ := if api then c else { c with hmeta := [] }
  match t with
  | .H => .H (strip (construct HKey w)) | .D => .D (strip (construct DKey w))
  | .T => .T (strip (construct TKey w)) | .M => .M (strip (construct MKey w))

def mapAny (f : {κ : Type} → [DecidableEq κ] → [Kind κ] → [WireKey κ] → Content κ → Content κ) : AnyContent → AnyContent
  | .H c => .H (f c) | .D c => .D (f c) | .T c => .T (f c) | .M c => .M (f c)

def mapAny? (f : {κ : Type} → [DecidableEq κ] → [Kind κ] → [WireKey κ] → Content κ → Option (Content κ)) : AnyContent → Option AnyContent
  | .H c => (f c).map .H | .D c => (f c).map .D | .T c => (f c).map .T | .M c => (f c).map .M

def wfAny : AnyContent → Bool
  | .H c => decide (WF c) | .D c => decide (WF c) | .T c => decide (WF c) | .M c => decide (WF c)

def hgxOf {κ} [Kind κ] (c : Content κ) : Option (Content κ) :=
  (loadPickle (expose { c := c, layers := [], incidences := [], emptyEdges := [] })).map (·.c)

structure St where
  cur : AnyContent := .H (construct HKey false)
  recs : List Record := []

def optMeta (s : String) : Option (Option Meta) := if s = "none" then some none else (parseMeta s).map some
def optInt (s : String) : Option (Option Int) := if s = "none" then some none else s.toInt?.map some

def parseLine (s : String) : Option Line :=
  if s = "skip" then some .skip else ((s.splitOn ",").mapM (fun (t : String) => t.toNat?)).map Line.toks

def metaIdx (m : Meta) : Nat :=
  match m with
  | [(Key.user 0, Val.tok i)] => i
  | _ => 0

def showHif (r : HifResult) : String :=
  let a := showList "," "-" (fun (p : Nat × Meta) => toString p.1 ++ ":" ++ toString (metaIdx p.2)) r.c.nodes
  let b := showList "," "-" (fun (e : HKey × (Int × Meta)) => showNodes e.1.nodes ++ ":" ++ toString (metaIdx e.2.2)) r.c.edges
  let c := showList "," "-" (fun (x : (List Nat × Nat) × Nat) => showNodes x.1.1 ++ "/" ++ toString x.1.2 ++ ":" ++ toString x.2) r.incid
  let e := showList "," "-" (fun (x : Nat × Nat) => toString x.1 ++ ":" ++ toString x.2) r.empties
  a ++ " " ++ b ++ " " ++ c ++ " " ++ e

def parsePairs (s : String) : Option (List (Nat × Nat)) :=
  if s = "-" then some [] else (s.splitOn ";").mapM (fun it =>
    match it.splitOn "," with
    | [a, b] => do let x ← a.toNat?; let y ← b.toNat?; pure (x, y)
    | _ => none)

def parsePieces (cs : List Char) (i : Nat) : Option (List (Piece Nat)) :=
  match cs with
  | [] => some []
  | 'o' :: r => (parsePieces r i).map (.opn :: ·)
  | 's' :: r => (parsePieces r i).map (.sep :: ·)
  | 'c' :: r => (parsePieces r i).map (.cls :: ·)
  | 'i' :: r => (parsePieces r (i + 1)).map (.item i :: ·)
  | _ => none

def frameAnswer (l : String) : String :=
  match parsePieces l.toList 0 with
  | none => "rej;0"
  | some ps =>
    match readText ps with
    | none => "rej;0"
    | some rs =>
      -- `writeText` appends at the end of its output list (quadratic): beyond 2000 records the equal `framed rs`
      -- (theorem `C06_text_framing`: `writeText rs = framed rs` for every `rs`) is compared instead
      let same := if rs.length ≤ 2000 then decide (writeText rs = ps) else decide (framed rs = ps)
      toString rs.length ++ ";" ++ showBool same

def strAnswer (f : List Nat → String) (a : String) : String :=
  match nats? a with
  | some l => f l
  | none => "bad-op"

def showDec : Option (List Nat) → String
  | some t => showNats t
  | none => "rej"

def takeN : Nat → List Nat → Option (List Nat × List Nat)
  | 0, l => some ([], l)
  | _ + 1, [] => none
  | k + 1, x :: l => (takeN k l).map (fun (a, r) => (x :: a, r))

mutual
partial def parseJ : List Nat → Option (Json.J (List Nat) × List Nat)
  | 0 :: r => some (.null, r)
  | 1 :: r => some (.bool false, r)
  | 2 :: r => some (.bool true, r)
  | 3 :: sg :: k :: r => do
    let (ds, r) ← takeN k r
    let n : Nat := ds.foldl (fun (a : Nat) (d : Nat) => 10 * a + d) 0
    pure (.int (if sg = 1 then - Int.ofNat n else Int.ofNat n), r)
  | 4 :: k :: r => do let (us, r) ← takeN k r; pure (.flt us, r)
  | 5 :: k :: r => do let (us, r) ← takeN k r; pure (.str us, r)
  | 6 :: n :: r => do let (xs, r) ← parseJL n r; pure (.arr xs, r)
  | 7 :: n :: r => do let (kv, r) ← parseJO n r; pure (.obj kv, r)
  | _ => none
partial def parseJL : Nat → List Nat → Option (Json.JL (List Nat) × List Nat)
  | 0, r => some (.nil, r)
  | n + 1, r => do
    let (x, r) ← parseJ r
    let (xs, r) ← parseJL n r
    pure (.cons x xs, r)
partial def parseJO : Nat → List Nat → Option (Json.JO (List Nat) × List Nat)
  | 0, r => some (.nil, r)
  | n + 1, k :: r => do
    let (key, r) ← takeN k r
    let (v, r) ← parseJ r
    let (kv, r) ← parseJO n r
    pure (.cons key v kv, r)
  | _, _ => none
end

def jsEmitAnswer (a : String) : String :=
  match nats? a with
  | some l =>
    match parseJ l with
    | some (j, []) => showNats (Json.J.emit id j)
    | _ => "bad-op"
  | none => "bad-op"

def showDecInt : Option Int → String
  | some i => toString i
  | none => "rej"

def numAnswer (a : String) : String :=
  match int? a with
  | some i => showNats (Num.encInt i) ++ ";" ++ showDecInt (Num.decInt (Num.encInt i))
  | none => "bad-op"

def txtReadAnswer (a : String) : String :=
  match nats? a with
  | some l =>
    match Json.readFile some l with
    | some rs => showNatss rs
    | none => "rej"
  | none => "bad-op"

def txtWriteAnswer (a : String) : String :=
  match natss? a with
  | some rs => showNats (if rs.length ≤ 300 then Json.render id (writeText rs) else Json.fileText id rs)
  | none => "bad-op"

def step (s : St) : List String → St × String
  | ["frame", l] => (s, frameAnswer l)
  | ["num", a] => (s, numAnswer a)
  | ["num_dec", a] => (s, strAnswer (fun l => showDecInt (Num.decInt l)) a)
  | ["js_emit", a] => (s, jsEmitAnswer a)
  | ["txt_read", a] => (s, txtReadAnswer a)
  | ["txt_write", a] => (s, txtWriteAnswer a)
  | ["str_enc", a] => (s, strAnswer (fun l => showNats (Str.encode l) ++ ";" ++ showDec (Str.decode (Str.encode l))) a)
  | ["str_raw", a] => (s, strAnswer (fun l => showNats (Str.encodeRaw l)) a)
  | ["str_dec", a] => (s, strAnswer (fun l => showDec (Str.decode l)) a)
  | ["begin", t, w] =>
    match parseType t with
    | some ty => ({ s with cur := emptyOf ty (w = "1") false }, "ok")
    | none => (s, "bad-op")
  | ["api_new", t, w] =>
    match parseType t with
    | some ty => ({ s with cur := emptyOf ty (w = "1") true }, "ok")
    | none => (s, "bad-op")
  | ["hmeta", m] | ["api_sethmeta", m] =>
    match parseMeta m with
    | some hm => ({ s with cur := mapAny (fun c => setHMeta c hm) s.cur }, "ok")
    | none => (s, "bad-op")
  | ["rnode", n, m] =>
    match n.toNat?, parseMeta m with
    | some i, some md => ({ s with cur := mapAny (fun c => { c with nodes := c.nodes ++ [(i, md)] }) s.cur }, "ok")
    | _, _ => (s, "bad-op")
  | ["redge", it, ex, w, m] =>
    match parseInter it, w.toInt?, parseMeta m with
    | some i, some q, some md =>
      match mapAny? (fun {κ} _ _ _ c => (WireKey.mkKey (κ := κ) i ex).map (fun k => { c with edges := c.edges ++ [(k, (q, md))] })) s.cur with
      | some c' => ({ s with cur := c' }, "ok")
      | none => (s, "bad-op")
    | _, _, _ => (s, "bad-op")
  | ["api_node", n, m] =>
    match n.toNat?, optMeta m with
    | some i, some md => ({ s with cur := mapAny (fun c => addNode c i md) s.cur }, "ok")
    | _, _ => (s, "bad-op")
  | ["api_edge", it, ex, w, m] =>
    match parseInter it, optInt w, optMeta m with
    | some i, some q, some md =>
      match mapAny? (fun {κ} _ _ _ c => (WireKey.mkKey (κ := κ) i ex).bind (fun k => addEdge c k q md)) s.cur with
      | some c' => ({ s with cur := c' }, "ok")
      | none => (s, "rej")
    | _, _, _ => (s, "bad-op")
  | ["wf"] => (s, showBool (wfAny s.cur))
  | ["digest"] => (s, showAny s.cur)
  | ["save"] =>
    let rs := saveAny s.cur
    ({ s with recs := rs }, "|".intercalate (rs.map showRecord))
  | ["rec_clear"] => ({ s with recs := [] }, "ok")
  | ["rec_h", t, w, m] =>
    match parseType t, parseMeta m with
    | some ty, some hm => ({ s with recs := s.recs ++ [.header ty (w = "1") hm] }, "ok")
    | _, _ => (s, "bad-op")
  | ["rec_n", n, m] =>
    match n.toNat?, parseMeta m with
    | some i, some md => ({ s with recs := s.recs ++ [.node i md] }, "ok")
    | _, _ => (s, "bad-op")
  | ["rec_e", it, m] =>
    match parseInter it, parseMeta m with
    | some i, some md => ({ s with recs := s.recs ++ [.edge i md] }, "ok")
    | _, _ => (s, "bad-op")
  | ["load"] =>
    match loadAny s.recs with
    | some c => ({ s with cur := c }, "ok")
    | none => (s, "rej")
  | ["hgx"] =>
    match mapAny? (fun c => hgxOf c) s.cur with
    | some c => ({ s with cur := c }, "ok")
    | none => (s, "rej")
  | ["hgr_text", a] =>
    match nats? a with
    | some l =>
      match HgrText.parseHgrText l with
      | some c => ({ s with cur := .H c }, showContent c)
      | none => (s, "rej")
    | none => (s, "bad-op")
  | "hgr" :: toks =>
    match toks.mapM parseLine with
    | some ls =>
      match parseHgr ls with
      | some c => ({ s with cur := .H c }, showContent c)
      | none => (s, "rej")
    | none => (s, "bad-op")
  | ["hif", incs, ns, es] =>
    match parsePairs incs, nats? ns, nats? es with
    | some i, some n, some e =>
      match readHif { incidences := i, nodes := n, edges := e } with
      | some r => (s, showHif r)
      | none => (s, "rej")
    | _, _, _ => (s, "bad-op")
  | _ => (s, "bad-op")

def main : IO Unit := Wire.run step {}
