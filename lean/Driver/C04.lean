import Hgxv.Model.Wire
import Hgxv.Model.C04
import Hgxv.Model.C04Spec
import Hgxv.Model.C04Dump
import Hgxv.Model.C04Ext
import Hgxv.Model.C04Raw
/-! Line protocol for C04.  State: one concrete `Store` and, next to it, the abstract `Spec` driven by the same
operations.  Every answer is computed from BOTH; listings are rendered as `|`-separated items (fields `;`,
numbers `,`, empty field `_`, empty listing `-`) and sorted as strings.  If the two renderings differ the
answer is `SPEC-MISMATCH store=... spec=...` (which the harness can never match).

Operations (answer `ok` / `rej`); `N` stands for Python's `None`; a metadata dict is the flat list `k,v,k,v`:
  new <w> <hmeta>                      addnode <n> <md|N>             addnodes <ns> <dict|N>  (dict: `n,k,v,..;n2`)
  addedge <raw> <L> <w|N> <md|N>       addedges <raws> <Ls> <ws|N> <mds|N>   (mds: `k,v;_;k,v`)
  rmedge <raw> <L>                     rmnode <n> <keep>              setw <raw> <L> <w>
  sethmeta <hmeta>   setattrh <k> <v>  setlayermeta <L> <v>  setdsmeta <v>
  setattrn <n> <k> <v>   delattrn <n> <k>   setattre <raw> <L> <k> <v>   delattre <raw> <L> <k>
Queries:
  nodes | nodesmeta | edges | edgesmeta | weights | weight <raw> <L> | emeta <raw> <L> | incident <n> <f> |
  degree <n> <f> | degseq <f> | layers | inuse | hmeta | layermeta <L> | dsmeta | weighted |
  aggnodes | aggedges | agghmeta | aggweighted | overlap <raw>
  filter f: `a` (none), `s<k>` (size=k), `o<k>` (order=k), `b` (both given).
Round d:  `reload` = the store goes through `expose` / `loadDump` (binary save + load, pickle of the tables); the `Spec` stays
as it is, so anything the loader drops shows as SPEC-MISMATCH in the answers that follow.  Queries `dumpkeys` (names of the
serialisation dict) and `overlapin <raw> <order>` (the overlap summed in the order in which the real set of layers iterates).
Extension round:  `ctor <w> <hmeta> <nodedict|N> <form> <raws> <Ls> <ws|N> <mds|N>` = the constructor (`construct` /
`Spec.construct`; form `abs` = no edge_list, `emb` = (edge, layer) pairs, `embbad<i>` = pairs but element i is something else,
`sep` = edge_list + edge_layer); `rej` leaves the state.  Queries `hashview` (ORDERED rendering of
`expose_attributes_for_hashing`), `edgetable` / `adjtable` (the raw id tables; the map has no ids: store only).
Second extension round:  `rawecho el|adj|lay|pop` = `rawStep` with `set_edge_list` / `set_adj_dict` / `set_existing_layers` /
`populate_from_dict` fed with the matching getter's result (answers `ok` iff `RawOp.echo` holds, as it must); `setlayers <extra>` =
`setExistingLayers` with the layers in use followed by the names of `extra` not among them (the `Spec` registry is set alike);
query `hashviewt <classes>` = `hashViewT (tyOf classes)` (class of the name of layer `i` at position `i`), `rej` = raises. -/
open Wire C04

structure St where
  s : Store := C04.init false
  sp : Spec := Spec.init false

def pairs : List Nat → Option (List (Nat × Nat))
  | [] => some []
  | k :: v :: t => (pairs t).map ((k, v) :: ·)
  | _ => none

def meta? (t : String) : Option Meta := (nats? t).bind pairs
def metaInner? (t : String) : Option Meta := (natsInner? t).bind pairs
def optMeta? (t : String) : Option (Option Meta) := if t = "N" then some none else (meta? t).map some
def optInt? (t : String) : Option (Option Int) := if t = "N" then some none else (int? t).map some
def optInts? (t : String) : Option (Option (List Int)) := if t = "N" then some none else (ints? t).map some
def optMetas? (t : String) : Option (Option (List Meta)) :=
  if t = "N" then some none else (listOf? ";" "-" metaInner? t).map some
def nodeDict? (t : String) : Option (Option (List (Node × Meta))) :=
  if t = "N" then some none else
    ((natss? t).bind (fun ls => ls.mapM (fun l => match l with
      | [] => none
      | n :: r => (pairs r).map (fun m => (n, m))))).map some
def filt? (t : String) : Option Filt :=
  if t = "a" then some .all else if t = "b" then some .both
  else if t.startsWith "s" then ((t.drop 1).toString.toNat?).map Filt.size
  else if t.startsWith "o" then ((t.drop 1).toString.toNat?).map Filt.order
  else none
def bool? (t : String) : Option Bool := if t = "1" then some true else if t = "0" then some false else none

def parseOp : List String → Option Op
  | ["addnode", n, md] => do some (.addNode (← nat? n) (← optMeta? md))
  | ["addnodes", ns, d] => do some (.addNodes (← nats? ns) (← nodeDict? d))
  | ["addedge", raw, l, w, md] => do some (.addEdge (← nats? raw) (← nat? l) (← optInt? w) (← optMeta? md))
  | ["addedges", raws, ls, ws, mds] => do some (.addEdges (← natss? raws) (← nats? ls) (← optInts? ws) (← optMetas? mds))
  | ["rmedge", raw, l] => do some (.removeEdge (← nats? raw) (← nat? l))
  | ["rmnode", n, keep] => do some (.removeNode (← nat? n) (← bool? keep))
  | ["setw", raw, l, w] => do some (.setWeight (← nats? raw) (← nat? l) (← int? w))
  | ["sethmeta", hm] => do some (.setHMeta (← meta? hm))
  | ["setattrh", k, v] => do some (.setAttrH (← nat? k) (← nat? v))
  | ["setlayermeta", l, v] => do some (.setLayerMeta (← nat? l) (← nat? v))
  | ["setdsmeta", v] => do some (.setDatasetMeta (← nat? v))
  | ["setattrn", n, k, v] => do some (.setAttrNode (← nat? n) (← nat? k) (← nat? v))
  | ["delattrn", n, k] => do some (.delAttrNode (← nat? n) (← nat? k))
  | ["setattre", raw, l, k, v] => do some (.setAttrEdge (← nats? raw) (← nat? l) (← nat? k) (← nat? v))
  | ["delattre", raw, l, k] => do some (.delAttrEdge (← nats? raw) (← nat? l) (← nat? k))
  | _ => none

/-! rendering -/
def fNats (l : List Nat) : String := showList "," "_" toString l
/-- a dict is rendered with its entries sorted by key (dict order is not an observable) -/
def fMeta (m : Meta) : String := fNats ((m.mergeSort (fun a b => decide (a.1 ≤ b.1))).flatMap (fun p => [p.1, p.2]))
def fKey (k : Key) : String := toString k.2 ++ ";" ++ fNats k.1
def sortStr (l : List String) : List String := l.mergeSort (fun a b => decide (a ≤ b))
def items (l : List String) : String := showList "|" "-" id (sortStr l)
def optS {α} (f : α → String) : Option α → String
  | none => "rej"
  | some a => f a
def showOut : Out → String
  | .ok => "ok"
  | .rej => "rej"

def hspecEdges (h : HSpec) : String :=
  items (h.edges.map (fun r => fNats r.1 ++ ";" ++ toString r.2.1 ++ ";" ++ fMeta r.2.2))

/-- ordered rendering of the hashing view -/
def fHash (v : HashView) : String :=
  showBool v.weighted ++ "#" ++ items (v.hmeta.map (fun p => toString p.1 ++ ";" ++ toString p.2)) ++ "#" ++
  showList "|" "-" id (v.edges.map (fun r => fKey r.1 ++ ";" ++ toString r.2.1 ++ ";" ++ fMeta r.2.2)) ++ "#" ++
  showList "|" "-" id (v.nodes.map (fun p => toString p.1 ++ ";" ++ fMeta p.2))

def ctorEdges? (form : String) (raws : List (List Nat)) (ls : List Nat) : Option CtorEdges :=
  if form = "abs" then some .absent
  else if form = "sep" then some (.separate raws ls)
  else if form = "emb" then
    if raws.length = ls.length then some (.embedded ((raws.zip ls).map (fun p => CtorItem.pair p.1 p.2))) else none
  else if form.startsWith "embbad" then
    match (form.drop 6).toString.toNat? with
    | some i =>
      if raws.length = ls.length then
        some (.embedded (((raws.zip ls).zipIdx).map (fun p => if p.2 = i then CtorItem.other else CtorItem.pair p.1.1 p.1.2)))
      else none
    | none => none
  else none

def parseCtor : List String → Option CtorArgs
  | [w, hm, nd, form, raws, ls, ws, mds] => do
    let w ← bool? w; let hm ← meta? hm; let nd ← nodeDict? nd
    let raws ← natss? raws; let ls ← nats? ls
    let e ← ctorEdges? form raws ls
    some { weighted := w, hm := hm, nodeMeta := nd.getD [], edges := e, weights := (← optInts? ws), edgeMeta := (← optMetas? mds) }
  | _ => none

/-- answers of the concrete store and of the spec to one query -/
def answer (st : St) : List String → Option (String × String)
  | ["nodes"] => some (items ((nodes st.s).map toString), items (st.sp.nodeList.map toString))
  | ["nodesmeta"] =>
    let f := fun (l : List (Node × Meta)) => items (l.map (fun p => toString p.1 ++ ";" ++ fMeta p.2))
    some (f st.s.nmeta, f st.sp.nodes)
  | ["edges"] => some (items ((records st.s).map fKey), items (st.sp.records.map fKey))
  | ["edgesmeta"] =>
    let f := fun (l : List (Key × Meta)) => items (l.map (fun p => fKey p.1 ++ ";" ++ fMeta p.2))
    some (f (edgesMeta st.s), f st.sp.edgesMeta)
  | ["weights"] =>
    some (items ((records st.s).map (fun k => fKey k ++ ";" ++ optS toString (getWeight st.s k.1 k.2))),
          items (st.sp.records.map (fun k => fKey k ++ ";" ++ optS toString (st.sp.getWeight k.1 k.2))))
  | ["weight", raw, l] => do
    let r ← nats? raw; let l ← nat? l
    some (optS toString (getWeight st.s r l), optS toString (st.sp.getWeight r l))
  | ["emeta", raw, l] => do
    let r ← nats? raw; let l ← nat? l
    some (optS fMeta (getEdgeMeta st.s r l), optS fMeta (st.sp.getEdgeMeta r l))
  | ["incident", n, f] => do
    let n ← nat? n; let f ← filt? f
    let g := optS (fun (l : List Key) => items (l.map fKey))
    some (g (incident st.s n f), g (st.sp.incident n f))
  | ["degree", n, f] => do
    let n ← nat? n; let f ← filt? f
    some (optS toString (degree st.s n f), optS toString (st.sp.degree n f))
  | ["degseq", f] => do
    let f ← filt? f
    let g := optS (fun (l : List (Node × Nat)) => items (l.map (fun p => toString p.1 ++ ";" ++ toString p.2)))
    some (g (degreeSeq st.s f), g (st.sp.degreeSeq f))
  | ["layers"] => some (items (st.s.layers.map toString), items (st.sp.layers.map toString))
  | ["inuse"] =>
    let u := fun (l : List Layer) => items ((l.foldl (fun acc a => if a ∈ acc then acc else acc ++ [a]) []).map toString)
    some (u ((records st.s).map (·.2)), u st.sp.layersInUse)
  | ["hmeta"] =>
    let f := fun (m : HMeta) => items (m.map (fun p => toString p.1 ++ ";" ++ toString p.2))
    some (f st.s.hmeta, f st.sp.hmeta)
  | ["layermeta", l] => do
    let l ← nat? l
    some (optS toString (layerMeta st.s l), optS toString (st.sp.layerMeta l))
  | ["dsmeta"] => some (optS toString (datasetMeta st.s), optS toString st.sp.datasetMeta)
  | ["weighted"] => some (showBool st.s.weighted, showBool st.sp.weighted)
  | ["aggnodes"] =>
    let f := fun (h : HSpec) => items (h.nodes.map (fun p => toString p.1 ++ ";" ++ fMeta p.2))
    some (optS f (aggregated st.s), f st.sp.aggregated)
  | ["aggedges"] => some (optS hspecEdges (aggregated st.s), hspecEdges st.sp.aggregated)
  | ["agghmeta"] =>
    let f := fun (h : HSpec) => items (h.hmeta.map (fun p => toString p.1 ++ ";" ++ toString p.2))
    some (optS f (aggregated st.s), f st.sp.aggregated)
  | ["aggweighted"] =>
    some (optS (fun h => showBool h.weighted) (aggregated st.s), showBool st.sp.aggregated.weighted)
  | ["overlap", raw] => do
    let r ← nats? raw
    some (toString (overlap st.s r), toString (st.sp.overlap r))
  | ["overlapin", raw, order] => do
    let r ← nats? raw; let o ← nats? order
    some (toString (overlapIn st.s o r), toString (st.sp.overlap r))
  | ["dumpkeys"] => some (items (dumpKeys st.s), items (dumpKeys st.s))
  | ["hashview"] => some (optS fHash (hashView st.s), fHash st.sp.hashView)
  | ["hashviewt", cls] => do
    let c ← nats? cls
    some (optS fHash (hashViewT (tyOf c) st.s),
          if layerClash (tyOf c) st.sp.records then "rej" else fHash st.sp.hashView)
  | ["edgetable"] =>
    -- ids are rendered by their rank among the live ids (the harness registers a layer in the model by a throw-away record)
    let live := (edgeTable st.s).map (·.2)
    let rk := fun (i : Nat) => (live.filter (· < i)).length
    let a := items ((edgeTable st.s).map (fun p => fKey p.1 ++ ";" ++ toString (rk p.2)))
    some (a, a)
  | ["adjtable"] =>
    let live := (edgeTable st.s).map (·.2)
    let rk := fun (i : Nat) => (live.filter (· < i)).length
    let a := items ((adjTable st.s).map (fun p => toString p.1 ++ ";" ++ fNats (p.2.map rk)))
    some (a, a)
  | _ => none

def both (a b : String) : String := if a = b then a else "SPEC-MISMATCH store=" ++ a ++ " spec=" ++ b

def step (st : St) (toks : List String) : St × String :=
  match toks with
  | ["new", w, hm] =>
    match bool? w, meta? hm with
    | some w, some hm => ({ s := C04.init w hm, sp := Spec.init w hm }, "ok")
    | _, _ => (st, "bad-op")
  | "ctor" :: args =>
    match parseCtor args with
    | none => (st, "bad-op")
    | some a =>
      match construct a, Spec.construct a with
      | some s', some sp' => ({ s := s', sp := sp' }, "ok")
      | none, none => (st, "rej")
      | some _, none => (st, "SPEC-MISMATCH store=ok spec=rej")
      | none, some _ => (st, "SPEC-MISMATCH store=rej spec=ok")
  | ["reload"] =>
    match loadDump (expose st.s) with
    | some s' => ({ st with s := s' }, "ok")
    | none => (st, "rej")
  | ["rawecho", kind] =>
    let op? : Option RawOp :=
      if kind = "el" then some (.setEdgeList (edgeTable st.s))
      else if kind = "adj" then some (.setAdjDict (adjTable st.s))
      else if kind = "lay" then some (.setExistingLayers (getExistingLayers st.s))
      else if kind = "pop" then some (.populate (expose st.s))
      else none
    match op? with
    | none => (st, "bad-op")
    | some op => ({ st with s := rawStep st.s op }, if op.echo st.s then "ok" else "NOT-ECHO")
  | ["setlayers", extra] =>
    match nats? extra with
    | none => (st, "bad-op")
    | some ex =>
      let ls := (((records st.s).map (·.2)) ++ ex).foldl addLayer []
      ({ s := rawStep st.s (.setExistingLayers ls), sp := { st.sp with layers := ls } }, "ok")
  | "q" :: q =>
    match answer st q with
    | some (a, b) => (st, both a b)
    | none => (st, "bad-op")
  | _ =>
    match parseOp toks with
    | none => (st, "bad-op")
    | some op =>
      let (s', o) := C04.step st.s op
      let (sp', o') := Spec.step st.sp op
      ({ s := s', sp := sp' }, both (showOut o) (showOut o'))

def main : IO Unit := Wire.run step {}
