import Hgxv.Model.Wire
import Hgxv.Model.C17
import Hgxv.Model.C17Ext
/-! Line protocol for C17 (stateless: every line carries what it needs).

The first token selects the number type the generic model is run at:
  `R` exact rationals (`p/q`),   `F` binary64, every number written as the decimal value of its 64 bits.
`<cfg>` = `N K D edges A minv maxv eps rtol normU` (10 tokens; `maxv` = `none` or `t:v`; matrices `a,b;c,d`).

  `X sweep <cfg> u w psi bar rho lams perm` -> `u w psi bar rho lamAll penIncr penDef` after one `_update_em`
  `X sweepfix <cfg> fixW fixU u w psi bar rho lams perm` -> the same after `_update_em` with the flags `fix_w`, `fix_communities`
  `X node  <cfg> u w psi bar rho lams i`    -> the same 8 fields after one pass of the loop body of `_update_u`
  `X init  <cfg> r0 uk u0 w0`                 -> the same 8 fields after the initialisation of a realisation
  `X ll    <cfg> u w psi`                   -> `lamAll penIncr penDef`
  `X rho   <cfg> u w`                       -> `rho`
  `X esymm d xs`                            -> `e_d(xs)`
  `X rawinit <cfg> r0 hysc winit noise uk du dw` -> the 8 fields after the initialisation computed from the RAW draws, then
                                               `u0 w0` (`hysc` = `none` or the matrix the start of `u` is placed around: the 0/1
                                               matrix of the spectral baseline / the input of `initialize_u0`; `winit` = `none`
                                               or the input of `initialize_w0`)
  `F lap <cfg> weighted`                    -> the Laplacian of `HySC._extract_laplacian` (binary64 only: it needs `sqrt`)
  `R conv tol thr every maxIter inf Ls`     -> `loglik it conv rows` (rows oldest first `it:loglik:conv;...`)
  `R best inf Ls`                           -> `maxL idx` (`idx` = index of the realisation kept, `-1` none)
  `R session mode inf calls`                -> per call of `fit` on ONE object `maxL:call.idx` (`;`-separated): what the call
                                               returns and which realisation of which call its `(u_f, w_f)` come from;
                                               `calls` = `finals;finals;...`, `mode` = `fixed` (D52 repaired) or `stale`
  `R asm N K nonIso labels`                 -> 0/1 matrix
  `R noniso N edges`                        -> list -/
open Wire C17

instance : Zero Float := ⟨0.0⟩
instance : One Float := ⟨1.0⟩

structure Codec (α : Type) where
  num? : String → Option α
  shw : α → String
  /-- square root, where the number type has one -/
  sqrt? : Option (α → α)

def ratCodec : Codec Rat := ⟨rat?, showRat, none⟩
def floatCodec : Codec Float :=
  ⟨fun s => s.toNat?.map (fun n => Float.ofBits n.toUInt64), fun x => toString x.toBits.toNat, some Float.sqrt⟩

section
variable {α : Type} [Add α] [Mul α] [Sub α] [Div α] [Zero α] [One α] [LT α] [DecidableLT α] (cd : Codec α)

def Codec.list? (s : String) : Option (List α) := listOf? "," "-" cd.num? s
def Codec.mat? (s : String) : Option (Mat α) := listOf? ";" "-" (listOf? "," "_" cd.num?) s
def Codec.showL (l : List α) : String := showList "," "-" cd.shw l
def Codec.showM (m : Mat α) : String := showList ";" "-" (showList "," "_" cd.shw) m

def Codec.maxv? (s : String) : Option (Option (α × α)) :=
  if s = "none" then some none else
  match s.splitOn ":" with
  | [a, b] => do let x ← cd.num? a; let y ← cd.num? b; pure (some (x, y))
  | _ => none

def Codec.cfg? : List String → Option (Cfg α)
  | [n, k, d, edges, a, minv, maxv, eps, rtol, normU] => do
    let N ← nat? n; let K ← nat? k; let D ← nat? d
    let es ← natss? edges; let A ← cd.list? a
    let mn ← cd.num? minv; let mx ← cd.maxv? maxv; let ep ← cd.num? eps; let rt ← cd.num? rtol
    pure { N := N, K := K, D := D, edges := es, A := A, minv := mn, maxv := mx, eps := ep, rtol := rt, normU := normU = "1" }
  | _ => none

def Codec.showState (c : Cfg α) (s : St α) : String :=
  " ".intercalate [cd.showM s.u, cd.showM s.w, cd.showM s.psi, cd.showM s.bar, cd.showM s.rho,
    cd.showL (lamAll c s.u s.w), cd.shw (penIncr c s.w s.psi), cd.shw (penDef c s.u s.w)]

def stepG : List String → String
  | "sweep" :: rest =>
    match cd.cfg? (rest.take 10), rest.drop 10 with
    | some c, [u, w, psi, bar, rho, lams, perm] =>
      match cd.mat? u, cd.mat? w, cd.mat? psi, cd.mat? bar, cd.mat? rho, cd.list? lams, nats? perm with
      | some u, some w, some psi, some bar, some rho, some lams, some perm =>
        cd.showState c (emSweep c { u := u, w := w, psi := psi, bar := bar, rho := rho, lams := lams } perm)
      | _, _, _, _, _, _, _ => "bad-args"
    | _, _ => "bad-op"
  | "sweepfix" :: rest =>
    match cd.cfg? (rest.take 10), rest.drop 10 with
    | some c, [fw, fu, u, w, psi, bar, rho, lams, perm] =>
      match cd.mat? u, cd.mat? w, cd.mat? psi, cd.mat? bar, cd.mat? rho, cd.list? lams, nats? perm with
      | some u, some w, some psi, some bar, some rho, some lams, some perm =>
        cd.showState c (emSweepFix c (fw = "1") (fu = "1") { u := u, w := w, psi := psi, bar := bar, rho := rho, lams := lams } perm)
      | _, _, _, _, _, _, _ => "bad-args"
    | _, _ => "bad-op"
  | "node" :: rest =>
    match cd.cfg? (rest.take 10), rest.drop 10 with
    | some c, [u, w, psi, bar, rho, lams, i] =>
      match cd.mat? u, cd.mat? w, cd.mat? psi, cd.mat? bar, cd.mat? rho, cd.list? lams, nat? i with
      | some u, some w, some psi, some bar, some rho, some lams, some i =>
        cd.showState c (uNode c { u := u, w := w, psi := psi, bar := bar, rho := rho, lams := lams } i)
      | _, _, _, _, _, _, _ => "bad-args"
    | _, _ => "bad-op"
  | "init" :: rest =>
    match cd.cfg? (rest.take 10), rest.drop 10 with
    | some c, [r0, uk, u0, w0] =>
      match cd.list? uk, cd.mat? u0, cd.mat? w0 with
      | some uk, some u0, some w0 => cd.showState c (initState c (r0 = "1") uk u0 w0 [])
      | _, _, _ => "bad-args"
    | _, _ => "bad-op"
  | "rawinit" :: rest =>
    match cd.cfg? (rest.take 10), rest.drop 10 with
    | some c, [r0, hysc, winit, noise, uk, du, dw] =>
      match (if hysc = "none" then some none else (cd.mat? hysc).map some),
            (if winit = "none" then some none else (cd.mat? winit).map some), cd.num? noise, cd.list? uk, cd.mat? du, cd.mat? dw with
      | some hy, some wi, some noise, some uk, some du, some dw =>
        " ".intercalate [cd.showState c (initFromDraws c (r0 = "1") hy wi noise uk du dw []),
          cd.showM (u0Of c hy noise du), cd.showM (w0Of c wi noise dw)]
      | _, _, _, _, _, _ => "bad-args"
    | _, _ => "bad-op"
  | "lap" :: rest =>
    match cd.cfg? (rest.take 10), rest.drop 10, cd.sqrt? with
    | some c, [weighted], some sq => cd.showM (lap c sq (weighted = "1"))
    | _, _, _ => "bad-op"
  | "ll" :: rest =>
    match cd.cfg? (rest.take 10), rest.drop 10 with
    | some c, [u, w, psi] =>
      match cd.mat? u, cd.mat? w, cd.mat? psi with
      | some u, some w, some psi =>
        " ".intercalate [cd.showL (lamAll c u w), cd.shw (penIncr c w psi), cd.shw (penDef c u w)]
      | _, _, _ => "bad-args"
    | _, _ => "bad-op"
  | "rho" :: rest =>
    match cd.cfg? (rest.take 10), rest.drop 10 with
    | some c, [u, w] =>
      match cd.mat? u, cd.mat? w with
      | some u, some w => cd.showM (rhoUpdate c u w)
      | _, _ => "bad-args"
    | _, _ => "bad-op"
  | ["esymm", d, xs] =>
    match nat? d, cd.list? xs with
    | some d, some xs => cd.shw (esymm d xs)
    | _, _ => "bad-args"
  | _ => "bad-op"
end

def showRow (r : Nat × Rat × Bool) : String := s!"{r.1}:{showRat r.2.1}:{showBool r.2.2}"

def indexOfBest (Ls : List Rat) (inf : Rat) : Rat × Int :=
  match bestOf inf (Ls.zip (List.range Ls.length)) with
  | (m, some i) => (m, i)
  | (m, none) => (m, -1)

def showKept (r : Rat × Option (Nat × Nat)) : String :=
  match r with
  | (m, some (c, i)) => s!"{showRat m}:{c}.{i}"
  | (m, none) => s!"{showRat m}:-1.-1"

/-- the finals of every call tagged with (call index, realisation index) -/
def tagCalls (calls : List (List Rat)) : List (List (Rat × (Nat × Nat))) :=
  (calls.zip (List.range calls.length)).map (fun (ls, c) => ls.zip ((List.range ls.length).map (fun i => (c, i))))

def stepR : List String → String
  | ["session", mode, inf, calls] =>
    match rat? inf, ratss? calls with
    | some inf, some calls =>
      let r := if mode = "stale" then sessionStale (inf, none) (tagCalls calls) else session inf (inf, none) (tagCalls calls)
      showList ";" "-" showKept r
    | _, _ => "bad-args"
  | ["conv", tol, thr, every, maxIter, inf, ls] =>
    match rat? tol, nat? thr, nat? every, nat? maxIter, rat? inf, rats? ls with
    | some tol, some thr, some every, some maxIter, some inf, some ls =>
      let r := runReal tol thr every maxIter inf ls
      " ".intercalate [showRat r.loglik, toString r.it, showBool r.conv, showList ";" "-" showRow r.rows.reverse]
    | _, _, _, _, _, _ => "bad-args"
  | ["best", inf, ls] =>
    match rat? inf, rats? ls with
    | some inf, some ls => let r := indexOfBest ls inf; s!"{showRat r.1} {r.2}"
    | _, _ => "bad-args"
  | ["asm", n, k, nonIso, labels] =>
    match nat? n, nat? k, nats? nonIso, nats? labels with
    | some n, some k, some a, some b => showNatss (assemble n k a b)
    | _, _, _, _ => "bad-args"
  | ["noniso", n, edges] =>
    match nat? n, natss? edges with
    | some n, some es => showNats (nonIsolates n es)
    | _, _ => "bad-args"
  | l => stepG ratCodec l

def step (_ : Unit) : List String → Unit × String
  | "R" :: l => ((), stepR l)
  | "F" :: l => ((), stepG floatCodec l)
  | _ => ((), "bad-op")

def main : IO Unit := Wire.run step ()
