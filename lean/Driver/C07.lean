import Hgxv.Model.Wire
import Hgxv.Model.C07
import Hgxv.Model.C07Heap
import Hgxv.Model.C07Dumps
import Hgxv.Model.C07Side
/-! Line protocol for C07.  Slots hold either a table state (`Tables κ`) or an abstract content (`Content κ`)
of one of the four kinds `H D T M`.

JSON values on the wire (no spaces): `n` null, `t`/`f`, `i<int>`, `q<int>` (float = q/4), `s<chars>` (chars from
`[A-Za-z0-9_]`), `[v,v]`, `{k:v,k:v}` (keys: chars from `[A-Za-z0-9_]`); `~` stands for Python `None` where an
argument is optional.  Keys of hyperedges: `Wire.natss?` (`H: 1,2,3`  `D: 1,2;3`  `T: 5;1,2`  `M: 1,2;7`).

  new <slot> <kind> <0|1> <obj>            constructor (hypergraph_metadata or {})        -> ok
  addnode <slot> <n> <v|~>                                                                -> ok
  addedge <slot> <key> <num|~> <v|~>                                                      -> ok | rej
  rmedge <slot> <key>   rmnode <slot> <n> <0|1>   setnm <slot> <n> <v>   setem <slot> <key> <v>
  sethm <slot> <v>   setw <slot> <key> <num>   clear <slot>                               -> ok | rej
  expose <slot>      raw `expose_attributes_for_hashing()`                                -> tree | none
  pre <slot>         serialized pre-image                                                 -> tree | none
  content <slot>     canon (content tables)                                               -> tree
  addnodes <slot> <n,n|-> <[v,v]|~>            add_nodes (one batched call; `~` = no metadata argument)       -> ok
  addedges <slot> <0|1> <key/key|-> <[num,..]|~> <[v,..]|~>   add_edges (weights list given?, keys, weights, metadata) -> ok
  build <slot> <kind> <0|1> <obj> <n,n|-> <[v,v]> <0|1> <key/key|-> <[num,..]|~> <[v,..]|~>   constructor with lists   -> ok
  setnattr <slot> <n> <field> <v>   delnattr <slot> <n> <field>   seteattr <slot> <key> <field> <v>
  deleattr <slot> <key> <field>   sethattr <slot> <field> <v>                             -> ok | rej
  cnew <slot> <kind> <0|1> <v>   cnode <slot> <n> <v>   cedge <slot> <key> <num> <v>      -> ok
  canon <slot>                                                                            -> tree
  heap <cell|cell|..> <r,r,..>   metadata OBJECTS: cell = `a<v>` (atom / unshared subtree), `l<i,i>` / `l-` (list of
                     addresses), `o<k:i,k:i>` / `o-` (dict of addresses), addresses = positions of older cells;
                     answers the values and the `serialize` results of the objects at the addresses r   -> [v,..] [v,..]
  dumps <v>          `json.dumps(v, sort_keys=True)` (`dumpsJ pyFmt`); in `<v>` strings may also be written
                     `u<hex>.<hex>..` (code points; `u` alone = empty string) and keys `$<hex>.<hex>..` / `$`   -> =<text>
  onew <slot> <kind> <0|1> <obj>           object WITH the side tables `_incidences_metadata` / `_empty_edges` (`Obj κ`)   -> ok
                     on such a slot: every table command above (run through `ostep (.base op)`), and
  setinc <slot> <key> <n> <v>   set_incidence_metadata        addempty <slot> <name> <v>   add_empty_edge        -> ok | rej
  side <slot>        the side tables as stored: `<keyTree>@<n>=<v>|..` (or `-`) and the registry as a dict       -> inc empties
  text <slot>        `hashText pyFmt`: the JSON text whose SHA-256 is the hash                                  -> =<text> | none
-/
open Wire C07

/-! ### printing -/
def showNum : Num → String
  | .int i => "i" ++ toString i
  | .flt q => "q" ++ toString q

mutual
partial def showTree : JTree → String
  | .null => "n"
  | .bool b => if b then "t" else "f"
  | .num n => showNum n
  | .str s => "s" ++ s
  | .arr l => "[" ++ ",".intercalate (l.map showTree) ++ "]"
  | .obj l => "{" ++ ",".intercalate (l.map (fun p => p.1 ++ ":" ++ showTree p.2)) ++ "}"
end

/-! ### parsing -/
def isWordChar (c : Char) : Bool := c.isAlphanum || c == '_'

def takeWord (cs : List Char) : String × List Char :=
  (String.ofList (cs.takeWhile isWordChar), cs.dropWhile isWordChar)

def isHexChar (c : Char) : Bool := c.isDigit || ('a' ≤ c && c ≤ 'f')

def hexVal (c : Char) : Nat := if c.isDigit then c.toNat - 48 else c.toNat - 87

/-- `41.e9.1f600` -> the string of these code points -/
def takeHexString (cs : List Char) : String × List Char :=
  let body := cs.takeWhile (fun c => isHexChar c || c == '.')
  let rest := cs.dropWhile (fun c => isHexChar c || c == '.')
  let parts := (String.ofList body).splitOn "."
  (String.ofList ((parts.filter (· ≠ "")).map (fun p => Char.ofNat (p.toList.foldl (fun a c => 16 * a + hexVal c) 0))), rest)

def takeKey (cs : List Char) : String × List Char :=
  match cs with
  | '$' :: r => takeHexString r
  | _ => (String.ofList (cs.takeWhile (fun c => c.isAlphanum || c == '_')), cs.dropWhile (fun c => c.isAlphanum || c == '_'))

def takeInt (cs : List Char) : Option (Int × List Char) :=
  let isNumChar := fun (c : Char) => c.isDigit || c == '-'
  let w := String.ofList (cs.takeWhile isNumChar)
  (w.toInt?).map (fun i => (i, cs.dropWhile isNumChar))

mutual
partial def parseTree : List Char → Option (JTree × List Char)
  | 'n' :: r => some (.null, r)
  | 't' :: r => some (.bool true, r)
  | 'f' :: r => some (.bool false, r)
  | 'i' :: r => (takeInt r).map (fun (i, r') => (.num (.int i), r'))
  | 'q' :: r => (takeInt r).map (fun (i, r') => (.num (.flt i), r'))
  | 's' :: r => let (w, r') := takeWord r; some (.str w, r')
  | 'u' :: r => let (w, r') := takeHexString r; some (.str w, r')
  | '[' :: ']' :: r => some (.arr [], r)
  | '[' :: r => (parseItems r).map (fun (l, r') => (.arr l, r'))
  | '{' :: '}' :: r => some (.obj [], r)
  | '{' :: r => (parseFields r).map (fun (l, r') => (.obj l, r'))
  | _ => none
partial def parseItems (cs : List Char) : Option (List JTree × List Char) :=
  match parseTree cs with
  | some (v, ',' :: r) => (parseItems r).map (fun (l, r') => (v :: l, r'))
  | some (v, ']' :: r) => some ([v], r)
  | _ => none
partial def parseFields (cs : List Char) : Option (List (String × JTree) × List Char) :=
  let (k, r0) := takeKey cs
  match r0 with
  | ':' :: r1 =>
    match parseTree r1 with
    | some (v, ',' :: r) => (parseFields r).map (fun (l, r') => ((k, v) :: l, r'))
    | some (v, '}' :: r) => some ([(k, v)], r)
    | _ => none
  | _ => none
end

def tree? (s : String) : Option JTree :=
  match parseTree s.toList with
  | some (v, []) => some v
  | _ => none

/-- optional argument: `~` is Python `None` -/
def optTree? (s : String) : Option (Option JTree) :=
  if s = "~" then some none else (tree? s).map some

def num? (s : String) : Option Num :=
  match tree? s with
  | some (.num n) => some n
  | _ => none

def optNum? (s : String) : Option (Option Num) :=
  if s = "~" then some none else (num? s).map some

class WireKey (κ : Type) where
  parse : List (List Nat) → Option κ

instance : WireKey KH where
  parse | [a] => some a | _ => none
instance : WireKey KD where
  parse | [a, b] => some (a, b) | _ => none
instance : WireKey KT where
  parse | [[t], b] => some (t, b) | _ => none
instance : WireKey KM where
  parse | [a, [l]] => some (a, l) | _ => none

def key? {κ} [WireKey κ] (s : String) : Option κ := (natss? s).bind WireKey.parse

def keys? {κ} [WireKey κ] (s : String) : Option (List κ) := listOf? "/" "-" (key? (κ := κ)) s

/-- `~` = the argument is absent (every item gets `none`), else a wire list with one value per item -/
def optArr? (s : String) (n : Nat) : Option (List (Option JTree)) :=
  if s = "~" then some (List.replicate n none) else
  match tree? s with
  | some (.arr l) => if l.length = n then some (l.map some) else none
  | _ => none

def numOf? : JTree → Option (Option Num)
  | .num x => some (some x)
  | _ => none

def optNums? (s : String) (n : Nat) : Option (List (Option Num)) :=
  if s = "~" then some (List.replicate n none) else
  match tree? s with
  | some (.arr l) => if l.length = n then l.mapM numOf? else none
  | _ => none

def arrOf? (s : String) (n : Nat) : Option (List JTree) :=
  match tree? s with
  | some (.arr l) => if l.length = n then some l else none
  | _ => none

/-! ### slots -/
inductive Slot where
  | th (t : Tables KH) | td (t : Tables KD) | tt (t : Tables KT) | tm (t : Tables KM)
  | ch (c : Content KH) | cd (c : Content KD) | ct (c : Content KT) | cm (c : Content KM)
  | oh (o : Obj KH) | od (o : Obj KD) | ot (o : Obj KT) | om (o : Obj KM)

abbrev St := List (Nat × Slot)

class SlotOf (κ : Type) where
  tab : Tables κ → Slot
  con : Content κ → Slot
  obj : Obj κ → Slot
instance : SlotOf KH := ⟨.th, .ch, .oh⟩
instance : SlotOf KD := ⟨.td, .cd, .od⟩
instance : SlotOf KT := ⟨.tt, .ct, .ot⟩
instance : SlotOf KM := ⟨.tm, .cm, .om⟩

def showOpt : Option JTree → String
  | some t => showTree t
  | none => "none"

def acc {κ} [SlotOf κ] (st : St) (slot : Nat) (r : Tables κ × Bool) : St × String :=
  if r.2 then (AL.set st slot (SlotOf.tab r.1), "ok") else (st, "rej")

def tabCmd {κ} [Kind κ] [WireKey κ] [SlotOf κ] (st : St) (slot : Nat) (t : Tables κ) : List String → St × String
  | ["addnode", n, md] =>
    match n.toNat?, optTree? md with
    | some n, some md => acc st slot (step t (.addNode n md))
    | _, _ => (st, "bad-op")
  | ["addedge", k, w, md] =>
    match key? (κ := κ) k, optNum? w, optTree? md with
    | some k, some w, some md => acc st slot (step t (.addEdge k w md))
    | _, _, _ => (st, "bad-op")
  | ["rmedge", k] =>
    match key? (κ := κ) k with
    | some k => acc st slot (step t (.removeEdge k))
    | _ => (st, "bad-op")
  | ["rmnode", n, keep] =>
    match n.toNat? with
    | some n => acc st slot (step t (.removeNode n (keep == "1")))
    | _ => (st, "bad-op")
  | ["setnm", n, md] =>
    match n.toNat?, tree? md with
    | some n, some md => acc st slot (step t (.setNodeMeta n md))
    | _, _ => (st, "bad-op")
  | ["setem", k, md] =>
    match key? (κ := κ) k, tree? md with
    | some k, some md => acc st slot (step t (.setEdgeMeta k md))
    | _, _ => (st, "bad-op")
  | ["sethm", md] =>
    match tree? md with
    | some md => acc st slot (step t (.setHMeta md))
    | _ => (st, "bad-op")
  | ["setw", k, w] =>
    match key? (κ := κ) k, num? w with
    | some k, some w => acc st slot (step t (.setWeight k w))
    | _, _ => (st, "bad-op")
  | ["clear"] => acc st slot (step t .clear)
  | ["addnodes", ns, mds] =>
    match nats? ns with
    | some ns =>
      match optArr? mds ns.length with
      | some mds => acc st slot (step t (.addNodes (ns.zip mds)))
      | none => (st, "bad-op")
    | none => (st, "bad-op")
  | ["addedges", w, ks, ws, mds] =>
    match keys? (κ := κ) ks with
    | some ks =>
      match optNums? ws ks.length, optArr? mds ks.length with
      | some ws, some mds => acc st slot (step t (.addEdges (w == "1") (ks.zip (ws.zip mds))))
      | _, _ => (st, "bad-op")
    | none => (st, "bad-op")
  | ["setnattr", n, f, v] =>
    match n.toNat?, tree? v with
    | some n, some v => acc st slot (step t (.setNodeAttr n f v))
    | _, _ => (st, "bad-op")
  | ["delnattr", n, f] =>
    match n.toNat? with
    | some n => acc st slot (step t (.delNodeAttr n f))
    | _ => (st, "bad-op")
  | ["seteattr", k, f, v] =>
    match key? (κ := κ) k, tree? v with
    | some k, some v => acc st slot (step t (.setEdgeAttr k f v))
    | _, _ => (st, "bad-op")
  | ["deleattr", k, f] =>
    match key? (κ := κ) k with
    | some k => acc st slot (step t (.delEdgeAttr k f))
    | _ => (st, "bad-op")
  | ["sethattr", f, v] =>
    match tree? v with
    | some v => acc st slot (step t (.setHAttr f v))
    | _ => (st, "bad-op")
  | ["text"] => (st, match hashText pyFmt t with | some x => "=" ++ x | none => "none")
  | ["expose"] => (st, showOpt (expose? t))
  | ["pre"] => (st, showOpt (preimage? t))
  | ["content"] => (st, showTree (canon (content t)))
  | _ => (st, "bad-op")

def conCmd {κ} [Kind κ] [WireKey κ] [SlotOf κ] (st : St) (slot : Nat) (c : Content κ) : List String → St × String
  | ["cnode", n, md] =>
    match n.toNat?, tree? md with
    | some n, some md => (AL.set st slot (SlotOf.con { c with nodes := c.nodes ++ [(n, md)] }), "ok")
    | _, _ => (st, "bad-op")
  | ["cedge", k, w, md] =>
    match key? (κ := κ) k, num? w, tree? md with
    | some k, some w, some md => (AL.set st slot (SlotOf.con { c with edges := c.edges ++ [(k, w, md)] }), "ok")
    | _, _, _ => (st, "bad-op")
  | ["canon"] => (st, showTree (canon c))
  | _ => (st, "bad-op")

/-- the table commands as `Op`s (single calls; the batched ones are not used on object slots) -/
def baseOp? {κ} [WireKey κ] : List String → Option (Op κ)
  | ["addnode", n, md] => do let n ← n.toNat?; let md ← optTree? md; pure (.addNode n md)
  | ["addedge", k, w, md] => do let k ← key? (κ := κ) k; let w ← optNum? w; let md ← optTree? md; pure (.addEdge k w md)
  | ["rmedge", k] => do let k ← key? (κ := κ) k; pure (.removeEdge k)
  | ["rmnode", n, keep] => do let n ← n.toNat?; pure (.removeNode n (keep == "1"))
  | ["setnm", n, md] => do let n ← n.toNat?; let md ← tree? md; pure (.setNodeMeta n md)
  | ["setem", k, md] => do let k ← key? (κ := κ) k; let md ← tree? md; pure (.setEdgeMeta k md)
  | ["sethm", md] => do let md ← tree? md; pure (.setHMeta md)
  | ["setw", k, w] => do let k ← key? (κ := κ) k; let w ← num? w; pure (.setWeight k w)
  | ["clear"] => some .clear
  | _ => none

def oacc {κ} [SlotOf κ] (st : St) (slot : Nat) (r : Obj κ × Bool) : St × String :=
  if r.2 then (AL.set st slot (SlotOf.obj r.1), "ok") else (st, "rej")

def showInc {κ} [Kind κ] (l : List ((κ × Nat) × JTree)) : String :=
  if l.isEmpty then "-" else
  "|".intercalate (l.map (fun e => showTree (Kind.keyTree e.1.1) ++ "@" ++ toString e.1.2 ++ "=" ++ showTree e.2))

def objCmd {κ} [Kind κ] [SideKind κ] [WireKey κ] [SlotOf κ] (st : St) (slot : Nat) (o : Obj κ) : List String → St × String
  | ["setinc", k, n, md] =>
    match key? (κ := κ) k, n.toNat?, tree? md with
    | some k, some n, some md => oacc st slot (ostep o (.setInc k n md))
    | _, _, _ => (st, "bad-op")
  | ["addempty", name, md] =>
    match tree? md with
    | some md => oacc st slot (ostep o (.addEmpty name md))
    | none => (st, "bad-op")
  | ["side"] => (st, showInc o.inc ++ " " ++ showTree (.obj o.empties))
  | ["text"] => (st, match hashTextObj pyFmt o with | some x => "=" ++ x | none => "none")
  | ["pre"] => (st, showOpt (preimage? o.base))
  | cmd =>
    match baseOp? (κ := κ) cmd with
    | some op => oacc st slot (ostep o (.base op))
    | none => (st, "bad-op")

def mkObj (st : St) (slot : Nat) (kind : String) (w : Bool) (hm : JTree) : St × String :=
  match hm with
  | .obj l =>
    match kind with
    | "H" => (AL.set st slot (SlotOf.obj (oinit KH w l)), "ok")
    | "D" => (AL.set st slot (SlotOf.obj (oinit KD w l)), "ok")
    | "T" => (AL.set st slot (SlotOf.obj (oinit KT w l)), "ok")
    | "M" => (AL.set st slot (SlotOf.obj (oinit KM w l)), "ok")
    | _ => (st, "bad-op")
  | _ => (st, "bad-op")

def mkNew (st : St) (slot : Nat) (kind : String) (w : Bool) (hm : JTree) : St × String :=
  match hm with
  | .obj l =>
    match kind with
    | "H" => (AL.set st slot (SlotOf.tab (init KH w l)), "ok")
    | "D" => (AL.set st slot (SlotOf.tab (init KD w l)), "ok")
    | "T" => (AL.set st slot (SlotOf.tab (init KT w l)), "ok")
    | "M" => (AL.set st slot (SlotOf.tab (init KM w l)), "ok")
    | _ => (st, "bad-op")
  | _ => (st, "bad-op")

def mkBuild (κ : Type) [Kind κ] [WireKey κ] [SlotOf κ] (st : St) (slot : Nat) (w : Bool) (hm : List (String × JTree))
    (ns nmds ww ks ws mds : String) : St × String :=
  match nats? ns, keys? (κ := κ) ks with
  | some ns, some ks =>
    match arrOf? nmds ns.length, optNums? ws ks.length, optArr? mds ks.length with
    | some nmds, some ws, some mds =>
      (AL.set st slot (SlotOf.tab (build κ w hm (ns.zip nmds) (ww == "1") (ks.zip (ws.zip mds)))), "ok")
    | _, _, _ => (st, "bad-op")
  | _, _ => (st, "bad-op")

def mkCon (st : St) (slot : Nat) (kind : String) (w : Bool) (hm : JTree) : St × String :=
  match kind with
  | "H" => (AL.set st slot (SlotOf.con (κ := KH) { nodes := [], edges := [], hmeta := hm, weighted := w }), "ok")
  | "D" => (AL.set st slot (SlotOf.con (κ := KD) { nodes := [], edges := [], hmeta := hm, weighted := w }), "ok")
  | "T" => (AL.set st slot (SlotOf.con (κ := KT) { nodes := [], edges := [], hmeta := hm, weighted := w }), "ok")
  | "M" => (AL.set st slot (SlotOf.con (κ := KM) { nodes := [], edges := [], hmeta := hm, weighted := w }), "ok")
  | _ => (st, "bad-op")

/-! ### heaps of metadata objects -/
def field? (s : String) : Option (String × Nat) :=
  match s.splitOn ":" with
  | [k, i] => i.toNat?.map (fun i => (k, i))
  | _ => none

def cell? (s : String) : Option Cell :=
  match s.toList with
  | 'a' :: r => (tree? (String.ofList r)).map Cell.atom
  | 'l' :: r => (nats? (String.ofList r)).map Cell.arr
  | 'o' :: r =>
    let body := String.ofList r
    if body = "-" then some (.obj []) else ((body.splitOn ",").mapM field?).map Cell.obj
  | _ => none

def heapCmd (cells refs : String) : String :=
  match (cells.splitOn "|").mapM cell?, nats? refs with
  | some h, some rs =>
    if Heap.closed h then
      showTree (.arr (rs.map (look (values h)))) ++ " " ++ showTree (.arr (rs.map (look (serCells h))))
    else "open-heap"
  | _, _ => "bad-op"

def stepLine (st : St) : List String → St × String
  | ["heap", cells, refs] => (st, heapCmd cells refs)
  | ["dumps", v] =>
    match tree? v with
    | some v => (st, "=" ++ dumpsJ pyFmt v)
    | none => (st, "bad-op")
  | ["new", slot, kind, w, hm] =>
    match slot.toNat?, tree? hm with
    | some s, some hm => mkNew st s kind (w == "1") hm
    | _, _ => (st, "bad-op")
  | ["onew", slot, kind, w, hm] =>
    match slot.toNat?, tree? hm with
    | some s, some hm => mkObj st s kind (w == "1") hm
    | _, _ => (st, "bad-op")
  | ["build", slot, kind, w, hm, ns, nmds, ww, ks, ws, mds] =>
    match slot.toNat?, tree? hm with
    | some s, some (.obj l) =>
      match kind with
      | "H" => mkBuild KH st s (w == "1") l ns nmds ww ks ws mds
      | "D" => mkBuild KD st s (w == "1") l ns nmds ww ks ws mds
      | "T" => mkBuild KT st s (w == "1") l ns nmds ww ks ws mds
      | "M" => mkBuild KM st s (w == "1") l ns nmds ww ks ws mds
      | _ => (st, "bad-op")
    | _, _ => (st, "bad-op")
  | ["cnew", slot, kind, w, hm] =>
    match slot.toNat?, tree? hm with
    | some s, some hm => mkCon st s kind (w == "1") hm
    | _, _ => (st, "bad-op")
  | cmd :: slot :: rest =>
    match slot.toNat? with
    | some s =>
      match AL.get? st s with
      | some (.th t) => tabCmd st s t (cmd :: rest)
      | some (.td t) => tabCmd st s t (cmd :: rest)
      | some (.tt t) => tabCmd st s t (cmd :: rest)
      | some (.tm t) => tabCmd st s t (cmd :: rest)
      | some (.ch c) => conCmd st s c (cmd :: rest)
      | some (.cd c) => conCmd st s c (cmd :: rest)
      | some (.ct c) => conCmd st s c (cmd :: rest)
      | some (.cm c) => conCmd st s c (cmd :: rest)
      | some (.oh o) => objCmd st s o (cmd :: rest)
      | some (.od o) => objCmd st s o (cmd :: rest)
      | some (.ot o) => objCmd st s o (cmd :: rest)
      | some (.om o) => objCmd st s o (cmd :: rest)
      | none => (st, "bad-slot")
    | none => (st, "bad-op")
  | _ => (st, "bad-op")

def main : IO Unit := Wire.run stepLine []
