import Hgxv.Model.Wire
import Hgxv.Model.C15
import Hgxv.Model.C15Init
/-! Line protocol for C15.  State: `u` (N×K), `w` (K×K), hyperedges with weights.
  `setu <ratss>` / `setw <ratss>` / `data <natss> <rats>`          -> `ok`
  `qf` `bf` `qfsum` `bfsum` `esum` `pois`                          -> values of the linear operations / Poisson parameters
  `consts <N> <nats ds>`                                           -> `C;summands;C';C'';kappas` or `nonfinite`
  `cbig <N> <nats ds>`                                             -> `C;C';C''` (the three sums only; any number of sizes) or `nonfinite`
  `kap <N> <nats ds>`                                              -> `kappaProd N d` for every d: the normalisation from the two products of
                                                                      `log_binomial` (exact naturals; thousands of nodes), `rej` unless 2 <= d <= N
  `expdeg <nats ds>` / `expavg <nats ds>` / `dimseq <nats ds>`     -> expected statistics
  `wupd <ratss r>` / `uupd <ratss r>`                              -> updated array or `nonfinite`
  `fit <fixedU> <fixedW> <Dsup|-1> <ratss ru> <ratss rw> <sqrtC> <n> <tol|none> <every>`
                                                                   -> `rej` or `D|u|w|training_iter|tolerance_reached`
  `traj <us> <ws>`                                                 -> `ok`: stores a recorded trajectory of (u, w) states (`|`-separated)
  `ctrl <tol|none> <every> <n>`                                    -> `rej` or `training_iter|tolerance_reached|index of the final state`:
                                                                      the model's loop `loopFrom` (stopping rule, `old`, `break`) run with
                                                                      the loop body replaced by "successor in the stored trajectory"
  sessions on ONE model object (`Obj`, `fitObj`): the object lives in the driver's state
  `onew <ratss u|none> <ratss w|none> <D|-1>`                      -> `ok`: `HyMMSBM(u=, w=, max_hye_size=)`
  `ofit <ratss u0> <ratss w0> <ratss ru> <ratss rw> <sqrtC> <n> <tol|none> <every>`
                                                                   -> `ret|..` / `raise|..` + `D|u|w|trained|training_iter|tolerance_reached`: `obj.fit`
                                                                      on the current `data` (`u0`, `w0` = what the generator would draw)
  `oset <ratss u|none> <ratss w|none>`                             -> `ok`: the caller wrote the parameter arrays / attributes
  `opois` / `oesum`                                                -> Poisson parameters / hyperedge sums of the current `data` under the
                                                                      object's CURRENT arrays, `uninit` when one is `None`
  `osync`                                                          -> `ok` / `uninit`: the stateless commands above now read the object's arrays
  `ostate`                                                         -> `D|u|w|trained|training_iter|tolerance_reached`
  extension round (`Model/C15Init.lean`): constructor, initial draws, guarded whole run, `log_likelihood`
  `ctor <K|-1> <ratss u|none> <ratss w|none> <1|0|none>`           -> `ok|K|assortative` or `err|<which ValueError>`
  `initw <K> <1|0> <prior> <ratss g>` / `initu <N> <K> <prior> <ratss g>`
                                                                   -> the array `_init_w` / `_init_u` builds from the raw draws `g`, or `badprior`;
                                                                      `<prior>` = `s<rat>` (a float) or `a<ratss>` (an array)
  `fitseed <N> <K|-1> <u|none> <w|none> <1|0|none> <Dsup|-1> <uprior> <wprior> <ratss gw> <ratss gu> <sqrtC> <n> <tol|none> <every>`
                                                                   -> `ctorerr|..` / `badprior` / `rej` / `nonfinite` / `ok|D|u|w|training_iter|tolerance_reached`:
                                                                      constructor, initial draws and `fit` on the current `data` (`fitSeed`)
  `llparts`                                                        -> `bf_and_sum(u, w)|Poisson parameters of the data`: the ingredients of `log_likelihood` -/
open Wire C15

structure St where
  N : Nat := 0
  K : Nat := 0
  u : List (List Rat) := []
  w : List (List Rat) := []
  edges : List (List Nat) := []
  A : List Rat := []
  tbl : List Params := []
  obj : Obj := { u := none, w := none, D := none }

def St.data (s : St) : Data := dataOf s.N s.K s.edges s.A

def showMat (n m : Nat) (x : Mat) : String := showRatss (toRows n m x)
def showOptMat (n m : Nat) : Option Mat → String
  | some x => showMat n m x
  | none => "nonfinite"

def stop? (tol every : String) : Option (Option Stop) :=
  match nat? every with
  | none => none
  | some ev => if tol = "none" then some none else (rat? tol).map fun t => some { tol := t, every := ev }

def ratsss? (s : String) : Option (List (List (List Rat))) := listOf? "|" "-" ratss? s

/-- successor of `p` in a recorded trajectory (the loop body is a function of the state) -/
def nextIn : List Params → Params → Params
  | a :: b :: rest, p => if a.u == p.u && a.w == p.w then b else nextIn (b :: rest) p
  | _, p => p

/-- position of the first state equal to `p` (`length` when absent) -/
def idxIn : List Params → Params → Nat
  | [], _ => 0
  | a :: rest, p => if a.u == p.u && a.w == p.w then 0 else idxIn rest p + 1

def optMat? (s : String) : Option (Option (List (List Rat))) :=
  if s = "none" then some none else (ratss? s).map some

def showOptRows : Option (List (List Rat)) → String
  | some x => showRatss x
  | none => "none"

def showObj (o : Obj) : String :=
  (match o.D with | some D => toString D | none => "-1") ++ "|" ++ showOptRows o.u ++ "|" ++ showOptRows o.w ++ "|"
    ++ showBool o.trained ++ "|" ++ (match o.it with | some i => toString i | none => "none") ++ "|" ++ showBool o.reached

def prior? (s : String) : Option Prior :=
  if s.startsWith "s" then (rat? (s.drop 1).toString).map Prior.scalar
  else if s.startsWith "a" then (ratss? (s.drop 1).toString).map Prior.array
  else none

def optBool? (s : String) : Option (Option Bool) :=
  if s = "none" then some none else if s = "1" then some (some true) else if s = "0" then some (some false) else none

def optNat? (s : String) : Option (Option Nat) := (int? s).map fun i => if i < 0 then none else some i.toNat

def showErr : CtorErr → String
  | .noAssortative => "noAssortative" | .noK => "noK" | .wNegative => "wNegative" | .wNotSymmetric => "wNotSymmetric"
  | .wNotDiagonal => "wNotDiagonal" | .uNegative => "uNegative" | .kMismatch => "kMismatch"

def showOutcome : Outcome → String
  | .ctorErr e => "ctorerr|" ++ showErr e
  | .badPrior => "badprior"
  | .rej => "rej"
  | .nonfinite => "nonfinite"
  | .ok D p it reached => "ok|" ++ toString D ++ "|" ++ showRatss p.u ++ "|" ++ showRatss p.w ++ "|" ++ toString it ++ "|" ++ showBool reached

def step (s : St) : List String → St × String
  | ["ctor", k, u, w, ass] => match optNat? k, optMat? u, optMat? w, optBool? ass with
    | some k, some u, some w, some ass =>
      (s, match construct { K := k, u := u, w := w, assortative := ass } with
        | .ok h => "ok|" ++ toString h.K ++ "|" ++ showBool h.assortative
        | .error e => "err|" ++ showErr e)
    | _, _, _, _ => (s, "bad-op")
  | ["initw", k, ass, prior, g] => match nat? k, optBool? ass, prior? prior, ratss? g with
    | some k, some (some ass), some prior, some g =>
      (s, if initWOk k ass prior then showRatss (initW k ass prior g) else "badprior")
    | _, _, _, _ => (s, "bad-op")
  | ["initu", n, k, prior, g] => match nat? n, nat? k, prior? prior, ratss? g with
    | some n, some k, some prior, some g =>
      (s, if initUOk n k prior then showRatss (initU n k prior g) else "badprior")
    | _, _, _, _ => (s, "bad-op")
  | ["fitseed", nn, k, u, w, ass, dsup, up, wp, gw, gu, sq, n, tol, every] =>
    match nat? nn, optNat? k, optMat? u, optMat? w, optBool? ass, optNat? dsup, prior? up, prior? wp with
    | some nn, some k, some u, some w, some ass, some dsup, some up, some wp =>
      match ratss? gw, ratss? gu, rat? sq, nat? n, stop? tol every with
      | some gw, some gu, some sq, some n, some stop =>
        (s, showOutcome (fitSeed { ctor := { K := k, u := u, w := w, assortative := ass }, Dsup := dsup, uPrior := up,
                                   wPrior := wp, gw := gw, gu := gu, sqrtC := sq, stop := stop, n := n } nn s.edges s.A))
      | _, _, _, _, _ => (s, "bad-op")
    | _, _, _, _, _, _, _, _ => (s, "bad-op")
  | ["llparts"] =>
    let r := logLikParts s.data (matOf s.u) (matOf s.w)
    (s, showRat r.1 ++ "|" ++ showRats r.2)
  | ["onew", u, w, dsup] => match optMat? u, optMat? w, int? dsup with
    | some u, some w, some dsup => ({ s with obj := newObj u w (if dsup < 0 then none else some dsup.toNat) }, "ok")
    | _, _, _ => (s, "bad-op")
  | ["oset", u, w] => match optMat? u, optMat? w with
    | some u, some w => ({ s with obj := { s.obj with u := u, w := w } }, "ok")
    | _, _ => (s, "bad-op")
  | ["ofit", u0, w0, ru, rw, sq, n, tol, every] =>
    match ratss? u0, ratss? w0, ratss? ru, ratss? rw, rat? sq, nat? n, stop? tol every with
    | some u0, some w0, some ru, some rw, some sq, some n, some stop =>
      let d := dataOf (s.obj.u.getD u0).length (s.obj.w.getD w0).length s.edges s.A
      let r := fitObj s.obj d u0 w0 (matOf ru) (matOf rw) sq stop n
      ({ s with obj := r.1 }, (if r.2 then "ret|" else "raise|") ++ showObj r.1)
    | _, _, _, _, _, _, _ => (s, "bad-op")
  | ["opois"] => (s, match poisObj s.obj [], s.edges.mapM (poisObj s.obj) with
    | some _, some l => showRats l
    | _, _ => "uninit")
  | ["oesum"] => (s, match edgeSumObj s.obj [], s.edges.mapM (edgeSumObj s.obj) with
    | some _, some l => showRatss l
    | _, _ => "uninit")
  | ["osync"] => match s.obj.u, s.obj.w with
    | some u, some w => ({ s with u := u, w := w, N := u.length, K := w.length }, "ok")
    | _, _ => (s, "uninit")
  | ["ostate"] => (s, showObj s.obj)
  | ["setu", u] => match ratss? u with
    | some u => ({ s with u := u, N := u.length }, "ok")
    | none => (s, "bad-op")
  | ["setw", w] => match ratss? w with
    | some w => ({ s with w := w, K := w.length }, "ok")
    | none => (s, "bad-op")
  | ["data", es, A] => match natss? es, rats? A with
    | some es, some A => ({ s with edges := es, A := A }, "ok")
    | _, _ => (s, "bad-op")
  | ["qf"] => (s, showRats ((List.range s.N).map fun i => qf s.K (matOf s.u i) (matOf s.w)))
  | ["bf"] => (s, showMat s.N s.N fun i j => bf s.K (matOf s.u i) (matOf s.u j) (matOf s.w))
  | ["qfsum"] => (s, showRat (qfSum s.N s.K (matOf s.u) (matOf s.w)))
  | ["bfsum"] => (s, showRat (bfSum s.N s.K (matOf s.u) (matOf s.w)))
  | ["esum"] => (s, showRatss (s.edges.map fun e => (List.range s.K).map (edgeSum s.N (matOf s.u) e)))
  | ["pois"] => (s, showRats (s.edges.map (poisson s.N s.K (matOf s.u) (matOf s.w))))
  | ["consts", n, ds] => match nat? n, nats? ds with
    | some n, some ds =>
      if constsOk n ds then
        (s, showRat (C ds) ++ ";" ++ showRats (ds.map Cterm) ++ ";" ++ showRat (Cprime n ds) ++ ";"
            ++ showRat (Csecond n ds) ++ ";" ++ showRats (ds.map (kappa n)))
      else (s, "nonfinite")
    | _, _ => (s, "bad-op")
  | ["cbig", n, ds] => match nat? n, nats? ds with
    | some n, some ds =>
      if constsOk n ds then
        (s, showRat (C ds) ++ ";" ++ showRat (Cprime n ds) ++ ";" ++ showRat (Csecond n ds))
      else (s, "nonfinite")
    | _, _ => (s, "bad-op")
  | ["kap", n, ds] => match nat? n, nats? ds with
    | some n, some ds =>
      if ds.all (fun d => decide (2 ≤ d) && decide (d ≤ n)) then (s, showRats (ds.map (kappaProd n))) else (s, "rej")
    | _, _ => (s, "bad-op")
  | ["expdeg", ds] => match nats? ds with
    | some ds => if constsOk s.N ds then
        (s, showRats ((List.range s.N).map (expDegNode s.N s.K (matOf s.u) (matOf s.w) ds))) else (s, "nonfinite")
    | none => (s, "bad-op")
  | ["expavg", ds] => match nats? ds with
    | some ds => if sizesOk s.N ds then
        (s, showRat (expDegAvg s.N s.K (matOf s.u) (matOf s.w) ds)) else (s, "nonfinite")
    | none => (s, "bad-op")
  | ["dimseq", ds] => match nats? ds with
    | some ds => if sizesOk s.N ds then
        (s, showList "," "-" (fun (p : Nat × Rat) => toString p.1 ++ ":" ++ showRat p.2)
              (expDimSeq s.N s.K (matOf s.u) (matOf s.w) ds)) else (s, "nonfinite")
    | none => (s, "bad-op")
  | ["wupd", r] => match ratss? r with
    | some r => (s, showOptMat s.K s.K (wUpdate? s.data (matOf s.u) (matOf s.w) (matOf r)))
    | none => (s, "bad-op")
  | ["uupd", r] => match ratss? r with
    | some r => (s, showOptMat s.N s.K (uUpdate? s.data (matOf s.u) (matOf s.w) (matOf r)))
    | none => (s, "bad-op")
  | ["fit", fu, fw, dsup, ru, rw, sq, n, tol, every] =>
    match ratss? ru, ratss? rw, rat? sq, nat? n, int? dsup, stop? tol every with
    | some ru, some rw, some sq, some n, some dsup, some stop =>
      let uSup := if fu = "1" then some s.u else none
      let wSup := if fw = "1" then some s.w else none
      let D := if dsup < 0 then none else some dsup.toNat
      match fit s.data uSup wSup D s.u s.w (matOf ru) (matOf rw) sq stop n with
      | none => (s, "rej")
      | some (D, p) =>
        let r := fitRun s.data uSup wSup s.u s.w (matOf ru) (matOf rw) stop n
        (s, toString D ++ "|" ++ showRatss p.u ++ "|" ++ showRatss p.w ++ "|" ++ toString r.it ++ "|" ++ showBool r.reached)
    | _, _, _, _, _, _ => (s, "bad-op")
  | ["traj", us, ws] => match ratsss? us, ratsss? ws with
    | some us, some ws => ({ s with tbl := (us.zip ws).map fun (u, w) => ({ u := u, w := w } : Params) }, "ok")
    | _, _ => (s, "bad-op")
  | ["ctrl", tol, every, n] => match stop? tol every, nat? n with
    | some stop, some n =>
      match s.tbl with
      | [] => (s, "bad-op")
      | p0 :: _ =>
        if stopOk stop then
          let d := dataOf p0.u.length p0.w.length [] []
          let r := loopFrom d (nextIn s.tbl) stop n 0 p0 p0
          (s, toString r.it ++ "|" ++ showBool r.reached ++ "|" ++ toString (idxIn s.tbl r.p))
        else (s, "rej")
    | _, _ => (s, "bad-op")
  | _ => (s, "bad-op")

def main : IO Unit := Wire.run step {}
