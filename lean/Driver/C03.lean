import Hgxv.Model.Wire
import Hgxv.Model.C03
import Hgxv.Model.C03Spec
import Hgxv.Model.C03Full
import Hgxv.Model.C03Kind
import Hgxv.Model.C03Ext
import Hgxv.Model.C03Raw
/-! Line protocol for C03 (see `harness/c03.py`, functions `op_lines` / `q_line`).  The driver only parses a line into a
`C03.Op`, calls `C03.step`, and prints the outcome in the canonical (sorted) rendering of the harness.

tokens: edge `1,2,3` | `_`; time `5` | `-1` | `x` (not an integer); weight quanta `6` | `n` (None);
metadata `k:v+k:v` | `_` ({}) | `n` (None); lists of edges / metadata `;`-separated, `-` = empty list;
filters: order `-`|int, size `-`|int, up_to `0|1`; window `-` | `a:b` | `bad`.

Round d: the machine is `C03.fstep` on whole objects (`Obj` = `Store` + incidence table, Model/C03Full.lean).  New lines:
`setimeta i e t n md`, `attri i e t n f v`, `derive tables|copy i j`, `q i imeta e t n`, `q i allimeta`; `copy i j` is
`derive copy i j`.  The abstract `Spec` runs beside it on the base calls as before (both routes are its slot copy). -/
open Wire C03

def edge? (s : String) : Option (List Nat) := listOf? "," "_" nat? s
def time? (s : String) : Option TimeArg := if s = "x" then some .bad else (int? s).map .int
def pair? (sep : String) (s : String) : Option (String × String) :=
  match s.splitOn sep with
  | [a, b] => some (a, b)
  | _ => none
def kv? (s : String) : Option (Nat × Nat) := do
  let (a, b) ← pair? ":" s
  pure (← nat? a, ← nat? b)
def md? (s : String) : Option Meta := listOf? "+" "_" kv? s
def optMd? (s : String) : Option (Option Meta) := if s = "n" then some none else (md? s).map some
def optInt? (s : String) : Option (Option Int) := if s = "n" || s = "-" then some none else (int? s).map some
def nodeMd? (s : String) : Option (Nat × Meta) := do
  let (a, b) ← pair? "=" s
  pure (← nat? a, ← md? b)
def win? (s : String) : Option Win :=
  if s = "-" then some .none else if s = "bad" then some .bad else do
    let (a, b) ← pair? ":" s
    pure (.pair (← int? a) (← int? b))
def filt? (o s u : String) : Option Filt := do
  pure { order := ← optInt? o, size := ← optInt? s, upTo := u = "1" }

def parseSOp : List String → Option SOp
  | ["addnode", n, md] => do pure (.addNode (← nat? n) (← optMd? md))
  | ["addnodes", ns, mm] => do
      let l ← nats? ns
      if mm = "n" then pure (.addNodes l none) else pure (.addNodes l (some (← listOf? ";" "-" nodeMd? mm)))
  | ["addedge", e, t, w, md] => do pure (.addEdge (← edge? e) (← time? t) (← (if w = "n" then some none else (int? w).map some)) (← optMd? md))
  | ["addedges", es, ts, ws, mds] => do
      let raws ← listOf? ";" "-" edge? es
      let tl ← listOf? "," "-" time? ts
      let wl ← if ws = "n" then some none else (ints? ws).map some
      let ml ← if mds = "n" then some none else (listOf? ";" "-" md? mds).map some
      pure (.addEdges raws tl wl ml)
  | ["rmedge", e, t] => do pure (.removeEdge (← edge? e) (← time? t))
  | ["rmedges", es, ts] => do
      let raws ← listOf? ";" "-" edge? es
      let tl ← listOf? "," "-" time? ts
      if raws.length = tl.length then pure (.removeEdges (tl.zip raws)) else none
  | ["rmnode", n, k] => do pure (.removeNode (← nat? n) (k = "1"))
  | ["rmnodes", ns, k] => do pure (.removeNodes (← nats? ns) (k = "1"))
  | ["setw", e, t, w] => do pure (.setWeight (← edge? e) (← time? t) (← int? w))
  | ["setnmeta", n, md] => do pure (.setNodeMeta (← nat? n) (← md? md))
  | ["setemeta", e, t, md] => do pure (.setEdgeMeta (← edge? e) (← time? t) (← md? md))
  | ["sethmeta", md] => do pure (.setHMeta (← md? md))
  | ["attrh", k, v] => do pure (.attrH (← nat? k) (← nat? v))
  | ["attrn", n, k, v] => do pure (.attrNode (← nat? n) (← nat? k) (← nat? v))
  | ["attre", e, t, k, v] => do pure (.attrEdge (← edge? e) (← time? t) (← nat? k) (← nat? v))
  | ["delattrn", n, k] => do pure (.delAttrNode (← nat? n) (← nat? k))
  | ["delattre", e, t, k] => do pure (.delAttrEdge (← edge? e) (← time? t) (← nat? k))
  | ["clear"] => some .clear
  | _ => none

def parseQuery : List String → Option Query
  | ["nodes"] => some .nodes
  | ["nodesmeta"] => some .nodesMeta
  | ["checknode", n] => do pure (.checkNode (← nat? n))
  | ["numnodes"] => some .numNodes
  | ["edges", w, o, s, u, m] => do pure (.edges (← win? w) (← filt? o s u) (m = "1"))
  | ["numedges", o, s, u] => do pure (.numEdges (← filt? o s u))
  | ["checkedge", e, t] => do pure (.checkEdge (← edge? e) (← time? t))
  | ["weight", e, t] => do pure (.weight (← edge? e) (← time? t))
  | ["weights", o, s, u, d] => do pure (.weights (← filt? o s u) (d = "1"))
  | ["incident", n, o, s] => do pure (.incident (← nat? n) (← optInt? o) (← optInt? s))
  | ["neighbors", n, o, s] => do pure (.neighbors (← nat? n) (← optInt? o) (← optInt? s))
  | ["degree", n, o, s] => do pure (.degree (← nat? n) (← optInt? o) (← optInt? s))
  | ["degseq", o, s] => do pure (.degSeq (← optInt? o) (← optInt? s))
  | ["degdist", o, s] => do pure (.degDist (← optInt? o) (← optInt? s))
  | ["sizes"] => some .sizes
  | ["orders"] => some .orders
  | ["distsizes"] => some .distSizes
  | ["maxsize"] => some .maxSize
  | ["maxorder"] => some .maxOrder
  | ["uniform"] => some .uniform
  | ["weighted"] => some .weighted
  | ["nmeta", n] => do pure (.nodeMeta (← nat? n))
  | ["emeta", e, t] => do pure (.edgeMeta (← edge? e) (← time? t))
  | ["allemeta"] => some .allEdgeMeta
  | ["hmeta"] => some .hMeta
  | ["isolated", o, s] => do pure (.isolated (← optInt? o) (← optInt? s))
  | ["isisolated", n, o, s] => do pure (.isIsolated (← nat? n) (← optInt? o) (← optInt? s))
  | ["len"] => some .len
  | ["iter"] => some .iter
  | ["timesfor", e] => do pure (.timesFor (← edge? e))
  | ["mintime"] => some .minTime
  | ["maxtime"] => some .maxTime
  | ["snap", w] => do pure (.snap (← win? w))
  | ["agg", w] => do pure (.agg (← time? w))
  | _ => none

def parseOp : List String → Option Op
  | ["new", i, w] => do pure (.new (← nat? i) (w = "1"))
  | ["copy", i, j] => do pure (.copy (← nat? i) (← nat? j))
  | "q" :: i :: rest => do pure (.query (← nat? i) (← parseQuery rest))
  | cmd :: i :: rest => do pure (.on (← nat? i) (← parseSOp (cmd :: rest)))
  | _ => none

/-- a line of the full machine; `none` for the second component = the abstract `Spec` does not see the call -/
def parseFOp : List String → Option (FOp × Option Op)
  | ["setimeta", i, e, t, n, md] => do
      pure (.on (← nat? i) (.setInc (← edge? e) (← time? t) (← nat? n) (← md? md)), none)
  | ["attri", i, e, t, n, f, v] => do
      pure (.on (← nat? i) (.attrInc (← edge? e) (← time? t) (← nat? n) (← nat? f) (← nat? v)), none)
  | ["derive", r, i, j] => do
      let r ← if r = "copy" then some Route.copy else if r = "tables" then some Route.tables else none
      pure (.derive r (← nat? i) (← nat? j), some (.copy (← nat? i) (← nat? j)))
  | ["q", i, "imeta", e, t, n] => do pure (.query (← nat? i) (.inc (← edge? e) (← time? t) (← nat? n)), none)
  | ["q", i, "allimeta"] => do pure (.query (← nat? i) .allInc, none)
  | toks => do
      let op ← parseOp toks
      match op with
      | .new i w => pure (.new i w, some op)
      | .on i o => pure (.on i (.base o), some op)
      | .copy i j => pure (.derive .copy i j, some op)
      | .query i q => pure (.query i (.base q), some op)

/-! rendering -/
def insertBy {α} (le : α → α → Bool) (a : α) : List α → List α
  | [] => [a]
  | b :: bs => if le a b then a :: b :: bs else b :: insertBy le a bs
def sortBy {α} (le : α → α → Bool) (l : List α) : List α := l.foldr (insertBy le) []

def showEdge (e : List Nat) : String := showList "," "_" toString e
def showKey (k : Key) : String := toString k.1 ++ "/" ++ showEdge k.2
def showMd (m : Meta) : String :=
  showList "+" "_" (fun (p : Nat × Nat) => toString p.1 ++ ":" ++ toString p.2) (sortBy (fun a b => a.1 ≤ b.1) m)
def showNodeMeta (l : List (Node × Meta)) : String :=
  showList ";" "-" (fun (p : Node × Meta) => toString p.1 ++ "=" ++ showMd p.2) (sortBy (fun a b => a.1 ≤ b.1) l)
def showH (h : HSpec) : String :=
  showBool h.weighted ++ "~" ++ showNodeMeta h.nodes ++ "~" ++
  showList ";" "-" (fun (p : Edge × (Int × Meta)) => showEdge p.1 ++ "@" ++ toString p.2.1 ++ "=" ++ showMd p.2.2)
    (sortBy (fun a b => C03.lexLe a.1 b.1) h.edges)

def showAns : Ans → String
  | .rej => "rej"
  | .bool b => showBool b
  | .int i => toString i
  | .inf neg => if neg then "-inf" else "inf"
  | .nodes l => showList "," "-" toString (sortBy (fun (a b : Nat) => a ≤ b) l)
  | .ints l => showList "," "-" toString (sortBy (fun (a b : Int) => a ≤ b) l)
  | .recs l => showList ";" "-" showKey (sortBy keyLe l)
  | .recsMeta l => showList ";" "-" (fun (p : Key × Meta) => showKey p.1 ++ "=" ++ showMd p.2) (sortBy (fun a b => keyLe a.1 b.1) l)
  | .recsW l => showList ";" "-" (fun (p : Key × Int) => showKey p.1 ++ "@" ++ toString p.2) (sortBy (fun a b => keyLe a.1 b.1) l)
  | .recsId l => showList ";" "-" (fun (p : Key × Nat) => showKey p.1 ++ "#" ++ toString p.2) (sortBy (fun a b => a.2 ≤ b.2) l)
  | .nodeMeta l => showNodeMeta l
  | .dict m => showMd m
  | .idMeta l => showList ";" "-" (fun (p : Nat × Meta) => toString p.1 ++ "=" ++ showMd p.2) (sortBy (fun a b => a.1 ≤ b.1) l)
  | .counts l => showList "," "-" (fun (p : Int × Nat) => toString p.1 ++ ":" ++ toString p.2) (sortBy (fun a b => a.1 ≤ b.1) l)
  | .hs l => showList "|" "-" (fun (p : Nat × HSpec) => toString p.1 ++ ">" ++ showH p.2) (sortBy (fun a b => a.1 ≤ b.1) l)

def showIncs (l : List (IncKey × Meta)) : String :=
  showList ";" "-" (fun (p : IncKey × Meta) => showKey p.1.1 ++ "^" ++ toString p.1.2 ++ "=" ++ showMd p.2)
    (sortBy (fun a b => if a.1.1 = b.1.1 then a.1.2 ≤ b.1.2 else keyLe a.1.1 b.1.1) l)

def showFRes : FRes → String
  | .out .ok => "ok"
  | .out .rej => "rej"
  | .ans (.base a) => showAns a
  | .ans (.incs l) => showIncs l

/-- The driver runs the concrete model of the whole object AND, redundantly, the abstract specification
(`C03.specStep`) on the base calls of the same lines; a base query that does not expose edge ids must be answered
identically by both (this is theorem `C03_refines` through `C03_full_projection`, re-checked here at run time on every
generated line) - otherwise the line is answered `spec-mismatch ...`. -/
def kindLine (st : FState) (i : String) (rest : List String) : String :=
  match nat? i, parseQuery rest with
  | some i, some q =>
    match AL.get? st i with
    | none => "rej"
    | some o => (answer o.base q).kind.name
  | _, _ => "bad-op"

/-- Round e: `k i <query>` prints the KIND of the model's answer to `q i <query>` (`C03.Ans.kind`: recs / recsMeta /
recsW / ints / counts / hs / int / inf / rej ...); the state is not touched. -/
def stepLine (st : FState × SpecState) (toks : List String) : (FState × SpecState) × String :=
  match toks with
  | "k" :: i :: rest => (st, kindLine st.1 i rest)
  | _ =>
  match parseFOp toks with
  | none => (st, "bad-op")
  | some (op, bop) =>
    let r := fstep st.1 op
    let sst := match bop with
      | some b => specStep st.2 b
      | none => st.2
    let out := showFRes r.2
    match bop with
    | some (.query i q) =>
      if q.exposesIds then ((r.1, sst), out) else
      let a2 := match AL.get? sst i with
        | none => "rej"
        | some sp => showAns (Spec.answer sp q)
      if a2 = out then ((r.1, sst), out) else ((r.1, sst), "spec-mismatch model=" ++ out ++ " spec=" ++ a2)
    | _ => ((r.1, sst), out)

/-! Extension round: the machine is `C03.xstep` (Model/C03Ext.lean).  New lines:
`ctor i w hm nodemeta form es ts ws mds` - `TemporalHypergraph(...)` into slot `i` (`construct`; `rej` keeps the state):
  `hm` = `n` | metadata, `nodemeta` = `-` | `n=md;...`, `form` = `absent` | `timesonly` | `emb` | `sep`,
  `es` = hyperedges (`!` = an element that is not a `(time, edge)` pair, `emb` only), `ts` = times, `ws`, `mds` as in `addedges`;
  the abstract side runs `Spec.construct`.
`x i hashing | mapping | indexof n | edgetable | adjtable | tables` - the new getters; the first three are also
answered by the abstract map (`Spec.xanswer`) and compared at run time (`spec-mismatch`). -/
def ctorItem? (e t : String) : Option CtorItem :=
  if e = "!" then some .other else do pure (.pair (← time? t) (← edge? e))

def zipItems? : List String → List String → Option (List CtorItem)
  | [], [] => some []
  | e :: es, t :: ts => do pure ((← ctorItem? e t) :: (← zipItems? es ts))
  | _, _ => none

def strs (sep emptyTok s : String) : List String := if s = emptyTok then [] else s.splitOn sep

def parseCtor : List String → Option (Nat × CtorArgs)
  | [i, w, hm, nmd, form, es, ts, ws, mds] => do
      let hm ← optMd? hm
      let nm ← listOf? ";" "-" nodeMd? nmd
      let wl ← if ws = "n" then some none else (ints? ws).map some
      let ml ← if mds = "n" then some none else (listOf? ";" "-" md? mds).map some
      let edges ←
        if form = "absent" then some CtorEdges.absent
        else if form = "timesonly" then some CtorEdges.timesOnly
        else if form = "emb" then (zipItems? (strs ";" "-" es) (strs "," "-" ts)).map CtorEdges.embedded
        else if form = "sep" then do pure (CtorEdges.separate (← listOf? ";" "-" edge? es) (← listOf? "," "-" time? ts))
        else none
      pure (← nat? i, { weighted := w = "1", hm := hm, nodeMeta := nm, edges := edges, weights := wl, edgeMeta := ml })
  | _ => none

def parseXQuery : List String → Option XQuery
  | ["hashing"] => some .hashing
  | ["mapping"] => some .mapping
  | ["indexof", n] => do pure (.indexOf (← nat? n))
  | ["edgetable"] => some .edgeTable
  | ["adjtable"] => some .adjTable
  | ["tables"] => some .tables
  | _ => none

def showIds (l : List Nat) : String := showList "," "_" toString l
def showEdgeTable (l : List (Key × Nat)) : String :=
  showList ";" "-" (fun (p : Key × Nat) => showKey p.1 ++ "#" ++ toString p.2) (sortBy (fun a b => a.2 ≤ b.2) l)
def showAdjTable (l : List (Node × List Nat)) : String :=
  showList ";" "-" (fun (p : Node × List Nat) => toString p.1 ++ "=" ++ showIds p.2) (sortBy (fun a b => a.1 ≤ b.1) l)
def showOpt {α} (f : α → String) : Option α → String
  | none => "none"
  | some a => f a

def showXAns : XAns → String
  | .rej => "rej"
  | .hash h =>
    showBool h.weighted ++ "~" ++ showMd h.hmeta ++ "~" ++
    showList ";" "-" (fun (p : Key × (Int × Meta)) => showKey p.1 ++ "@" ++ toString p.2.1 ++ "=" ++ showMd p.2.2) h.edges ++ "~" ++
    showList ";" "-" (fun (p : Node × Meta) => toString p.1 ++ "=" ++ showMd p.2) h.nodes
  | .nodes l => showList "," "-" toString l
  | .nat n => toString n
  | .edgeTable l => showEdgeTable l
  | .adjTable l => showAdjTable l
  | .tables d =>
    showOpt showBool d.weighted ++ "~" ++ showOpt showMd d.hmeta ++ "~" ++
    showOpt (fun l => showList ";" "-" (fun (p : Nat × Int) => toString p.1 ++ "@" ++ toString p.2) (sortBy (fun a b => a.1 ≤ b.1) l)) d.weights ++ "~" ++
    showOpt showAdjTable d.adj ++ "~" ++ showOpt showEdgeTable d.edgeList ++ "~" ++ showOpt showNodeMeta d.nmeta ++ "~" ++
    showOpt (fun l => showAns (.idMeta l)) d.emeta ++ "~" ++
    showOpt (fun l => showList ";" "-" (fun (p : Nat × Key) => toString p.1 ++ "#" ++ showKey p.2) (sortBy (fun a b => a.1 ≤ b.1) l)) d.rev ++ "~" ++
    showOpt toString d.nextId

def xLine (st : FState × SpecState) (toks : List String) : (FState × SpecState) × String :=
  match toks with
  | "ctor" :: rest =>
    match parseCtor rest with
    | none => (st, "bad-op")
    | some (i, a) =>
      let r := xstep st.1 (.ctor i a)
      let sst := specCtor st.2 i a
      let ok := match r.2 with | .out .ok => true | _ => false
      if ok != (Spec.construct a).isSome then ((r.1, sst), "spec-mismatch ctor") else ((r.1, sst), if ok then "ok" else "rej")
  | "x" :: i :: rest =>
    match nat? i, parseXQuery rest with
    | some i, some q =>
      match (xstep st.1 (.ask i q)).2 with
      | .ans a =>
        let out := showXAns a
        match (AL.get? st.2 i).bind (fun sp => Spec.xanswer sp q) with
        | some a2 => if showXAns a2 = out then (st, out) else (st, "spec-mismatch model=" ++ out ++ " spec=" ++ showXAns a2)
        | none => (st, out)
      | _ => (st, "bad-op")
    | _, _ => (st, "bad-op")
  | "raw" :: i :: rest =>
    -- second extension round: `raw i el echo|drop j`, `raw i adj echo|drop j|rev j` - `set_edge_list` / `set_adj_dict`
    -- (`rstep` of Model/C03Raw.lean) with the argument built from the table the object holds
    match nat? i with
    | none => (st, "bad-op")
    | some i =>
      let cur := (AL.get? st.1 i).map (·.base)
      let op : Option ROp := match rest with
        | ["el", "echo"] => cur.map (fun s => ROp.setEdgeList i (edgeTable s))
        | ["adj", "echo"] => cur.map (fun s => ROp.setAdjDict i (adjTable s))
        | ["el", "drop", j] => do pure (ROp.setEdgeList i (dropAt (edgeTable (← cur)) (← nat? j)))
        | ["adj", "drop", j] => do pure (ROp.setAdjDict i (dropAt (adjTable (← cur)) (← nat? j)))
        | ["adj", "rev", j] => do pure (ROp.setAdjDict i (revAt (adjTable (← cur)) (← nat? j)))
        | _ => none
      match op with
      | none => (st, "bad-op")
      | some op =>
        let r := rstep st.1 op
        ((r.1, st.2), match r.2 with | .out .ok => "ok" | _ => "rej")
  | _ => stepLine st toks

def main : IO Unit := Wire.run xLine ([], [])
