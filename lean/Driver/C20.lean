import Hgxv.Model.Wire
import Hgxv.Model.C20
import Hgxv.Model.C20Reads
import Hgxv.Model.C20Cent
/-! Line protocol for C20.  Labels are ranks (`Nat`), `srt = Wire.sortNats`.
  `load <nodes> <edges>`            -> `ok`            static hypergraph (`get_nodes()`, `get_edges()` order)
  `line s`                          -> `<line-graph edges i,j;..> <id table, one key per id>`
  `bip`                             -> `<vertex names> <edges a~b> <id table name=n<label> | name=e<l.l.l>>`
  `se <stub|btw|clo> s`             -> `rej` | `key=value,..`   s_betweenness / s_closeness
  `rline s <len> <incident keys per node of the loaded hypergraph>` -> `rej` | `<vertices> <edges i,j;..>`   line_graph on the READINGS
  `rse <cent> s <len> <incident keys per node>`                     -> `rej` | `key=value,..`   s_betweenness / s_closeness on the readings
  `sn <stub|btw|clo>`               -> `rej` | `n<label>=value,..`
  `sp <s>` / `sp n`                 -> per source vertex (`;`) per vertex (`,`) `<distance>.<number of shortest paths>` or `x`: `distSigma (levels g src) v`
                                       on the s-line graph / the bipartite projection (vertex order of the graph)
  `tload <times> <edges>`           -> `ok`            temporal hypergraph (`get_edges()` order)
  `snaps`                           -> `<times> <nodes per snapshot> <edges per snapshot>`
  `tse <cent> s` / `tsn <cent>`     -> averaged versions
  `eload n <edges>`                 -> `ok`            uniform hypergraph on `0..n-1`
  `apply <x>` / `W` / `cecstep <x> <c>` / `hecnorm <r>`
  `pmcount maxIter tol <res table>`   -> number of passes of the `power_method` loop when pass `j` computes residual `table[j]`
  `heccount maxIter tol <dist table>` -> `<passes> <1|0>` of the HEC loop when pass `j` measures the distance `table[j]` -/
open Wire C20

structure St where
  H : HG Nat := { nodes := [], edges := [] }
  T : THG Nat := { edges := [] }
  n : Nat := 0
  es : List (List Nat) := []

def centN : String → Option (Graph Nat → Nat → Rat)
  | "stub" => some stubCent | "btw" => some betweenness | "clo" => some closeness | _ => none
def centS : String → Option (Graph String → String → Rat)
  | "stub" => some stubCent | "btw" => some betweenness | "clo" => some closeness | _ => none

def showKey (e : List Nat) : String := showList "." "_" toString e
def showObj : Obj Nat → String
  | .inl x => "n" ++ toString x
  | .inr e => "e" ++ showKey e
def showItems {κ} (f : κ → String) : Option (List (κ × Rat)) → String
  | none => "rej"
  | some l => showList "," "-" (fun (p : κ × Rat) => f p.1 ++ "=" ++ showRat p.2) l

def showSP {V : Type} [DecidableEq V] (g : Graph V) : String :=
  showList ";" "-" (fun src =>
    let lv := levels g src
    showList "," "-" (fun v => match distSigma lv v with
      | some (d, c) => toString d ++ "." ++ toString c
      | none => "x") g.verts) g.verts

def step (s : St) : List String → St × String
  | ["load", nodes, edges] =>
    match nats? nodes, natss? edges with
    | some n, some e => ({ s with H := { nodes := n, edges := e } }, "ok")
    | _, _ => (s, "bad-op")
  | ["tload", times, edges] =>
    match nats? times, natss? edges with
    | some t, some e => ({ s with T := { edges := t.zip e } }, "ok")
    | _, _ => (s, "bad-op")
  | ["eload", n, edges] =>
    match nat? n, natss? edges with
    | some n, some e => ({ s with n := n, es := e }, "ok")
    | _, _ => (s, "bad-op")
  | ["line", k] =>
    let g := lineGraph sortNats s.H k.toNat!
    (s, showNatss (g.edges.map fun p => [p.1, p.2]) ++ " " ++ showNatss ((idTable sortNats s.H.edges).map (·.2)))
  | ["bip"] =>
    let g := bipGraph sortNats s.H
    (s, showList "," "-" id g.verts ++ " " ++ showList "," "-" (fun (p : String × String) => p.1 ++ "~" ++ p.2) g.edges
        ++ " " ++ showList "," "-" (fun (p : String × Obj Nat) => p.1 ++ "=" ++ showObj p.2) (bipTable sortNats s.H))
  | ["rline", k, len, incs] =>
    match nat? len, natsss? incs with
    | some len, some incs =>
      match lineGraphR sortNats { edges := s.H.edges, len := len, inc := s.H.nodes.zip incs } k.toNat! with
      | some g => (s, showNats g.verts ++ " " ++ showNatss (g.edges.map fun p => [p.1, p.2]))
      | none => (s, "rej")
    | _, _ => (s, "bad-op")
  | ["rse", c, k, len, incs] =>
    match centN c, nat? len, natsss? incs with
    | some cent, some len, some incs =>
      (s, showItems showKey (sEdgesR cent sortNats { edges := s.H.edges, len := len, inc := s.H.nodes.zip incs } k.toNat!))
    | _, _, _ => (s, "bad-op")
  | ["sp", "n"] => (s, showSP (bipGraph sortNats s.H))
  | ["sp", k] => (s, showSP (lineGraph sortNats s.H k.toNat!))
  | ["se", c, k] =>
    match centN c with
    | some cent => (s, showItems showKey (sEdges cent sortNats s.H k.toNat!))
    | none => (s, "bad-op")
  | ["sn", c] =>
    match centS c with
    | some cent => (s, showItems showObj (sNodes cent sortNats s.H))
    | none => (s, "bad-op")
  | ["snaps"] =>
    let sn := snapshots sortNats s.T
    (s, showNats (times s.T) ++ " " ++ showNatss (sn.map (·.nodes)) ++ " "
        ++ showList "|" "-" (fun (h : HG Nat) => showList ";" "_" (showList "," "_" toString) h.edges) sn)
  | ["tse", c, k] =>
    match centN c with
    | some cent => (s, showItems showKey (sEdgesAveraged cent sortNats s.T k.toNat!))
    | none => (s, "bad-op")
  | ["tsn", c] =>
    match centS c with
    | some cent => (s, showItems showObj (sNodesAveraged cent sortNats s.T))
    | none => (s, "bad-op")
  | ["apply", x] =>
    match rats? x with
    | some x => (s, showRats (C20.apply s.n s.es x))
    | none => (s, "bad-op")
  | ["W"] => (s, showRatss (cecW s.n s.es))
  | ["cecstep", x, c] =>
    match rats? x, rat? c with
    | some x, some c => (s, if c = 0 then "rej" else showRats (cecStep (cecW s.n s.es) c x))
    | _, _ => (s, "bad-op")
  | ["hecnorm", r] =>
    match rats? r with
    | some r => (s, if l1 r = 0 then "rej" else showRats (hecNormalize r))
    | none => (s, "bad-op")
  | ["pmcount", mi, tol, tab] =>
    match nat? mi, rat? tol, rats? tab with
    | some mi, some tol, some tab =>
      -- the state is the pass index; pass `j` yields the recorded residual (beyond the table: 0, i.e. it stops)
      (s, toString (pmLoop (fun (j : Nat) => (j + 1, tab.getD j 0)) tol mi none 0).2)
    | _, _, _ => (s, "bad-op")
  | ["heccount", mi, tol, tab] =>
    match nat? mi, rat? tol, rats? tab with
    | some mi, some tol, some tab =>
      let r := hecLoop (fun (j : Nat) => j + 1) (fun j _ => tab.getD j 0) tol mi 0
      (s, toString r.2.1 ++ " " ++ showBool r.2.2)
    | _, _, _ => (s, "bad-op")
  | _ => (s, "bad-op")

def main : IO Unit := Wire.run step {}
