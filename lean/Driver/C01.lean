import Hgxv.Model.Wire
import Hgxv.Model.C01
/-! Line protocol for C01.  The driver runs the concrete model (`C01.step`) and the abstract spec
(`C01.Spec.step`) in lock step on the same commands.

  `reset k`                       -> `ok`     k fresh unweighted slots
  `new i w <meta>`                -> `ok|rej`
  `copy i j`                      -> `ok|rej`
  `op i <name> <args>`            -> `ok|rej` (`SPECDIFF ...` when the spec answers differently)
  `q i <name> <args>`             -> answer of the concrete model (`SPECDIFF c | s` when the spec differs)
  `chk i`                         -> `1` iff `abs (concrete slot i) = spec slot i`

Encodings: option `~` = None; meta `k:v,k:v` (`-` empty; `_` empty inside a list); nat list `1,2` (`-`);
list of lists `1,2;3` (`-`, inner empty `_`); filter = three tokens `order size upto`. -/
open Wire C01

def optOf {α} (f : String → Option α) (s : String) : Option (Option α) :=
  if s = "~" then some none else (f s).map some

def pair? (s : String) : Option (Nat × Nat) :=
  match s.splitOn ":" with
  | [a, b] => do let x ← a.toNat?; let y ← b.toNat?; pure (x, y)
  | _ => none

def meta? (empty : String) (s : String) : Option Meta := listOf? "," empty pair? s
def metas? (s : String) : Option (List Meta) := listOf? ";" "-" (meta? "_") s
def nodeMeta? (s : String) : Option (Node × Meta) :=
  match s.splitOn "=" with
  | [a, b] => do let n ← a.toNat?; let m ← meta? "_" b; pure (n, m)
  | _ => none
def nodeMetas? (s : String) : Option (List (Node × Meta)) := listOf? ";" "-" nodeMeta? s
def bool? (s : String) : Option Bool := if s = "1" then some true else if s = "0" then some false else none

def filter? (a b c : String) : Option Filter := do
  let o ← optOf int? a
  let k ← optOf int? b
  let u ← bool? c
  pure { order := o, size := k, upTo := u }

def op? : List String → Option Op
  | ["addnode", n, md] => do pure (.addNode (← n.toNat?) (← optOf (meta? "-") md))
  | ["addnodes", ns, mds] => do pure (.addNodes (← nats? ns) (← optOf nodeMetas? mds))
  | ["addedge", e, w, md] => do pure (.addEdge (← nats? e) (← optOf int? w) (← optOf (meta? "-") md))
  | ["addedges", es, ws, mds] => do pure (.addEdges (← natss? es) (← optOf ints? ws) (← optOf metas? mds))
  | ["rmedge", e] => do pure (.removeEdge (← nats? e))
  | ["rmedges", es] => do pure (.removeEdges (← natss? es))
  | ["rmnode", n, k] => do pure (.removeNode (← n.toNat?) (← bool? k))
  | ["rmnodes", ns, k] => do pure (.removeNodes (← nats? ns) (← bool? k))
  | ["setw", e, w] => do pure (.setWeight (← nats? e) (← int? w))
  | ["setnmeta", n, md] => do pure (.setNodeMeta (← n.toNat?) (← meta? "-" md))
  | ["setemeta", e, md] => do pure (.setEdgeMeta (← nats? e) (← meta? "-" md))
  | ["sethmeta", md] => do pure (.setHMeta (← meta? "-" md))
  | ["attrh", k, v] => do pure (.setAttrH (← k.toNat?) (← v.toNat?))
  | ["attrn", n, k, v] => do pure (.setAttrNode (← n.toNat?) (← k.toNat?) (← v.toNat?))
  | ["attre", e, k, v] => do pure (.setAttrEdge (← nats? e) (← k.toNat?) (← v.toNat?))
  | ["delattrn", n, k] => do pure (.delAttrNode (← n.toNat?) (← k.toNat?))
  | ["delattre", e, k] => do pure (.delAttrEdge (← nats? e) (← k.toNat?))
  | ["clear"] => some .clear
  | _ => none

def query? : List String → Option Query
  | ["nodes"] => some .nodes
  | ["nodesmeta"] => some .nodesMeta
  | ["checknode", n] => do pure (.checkNode (← n.toNat?))
  | ["numnodes"] => some .numNodes
  | ["edges", a, b, c] => do pure (.edges (← filter? a b c))
  | ["edgesmeta", a, b, c] => do pure (.edgesMeta (← filter? a b c))
  | ["numedges", a, b, c] => do pure (.numEdges (← filter? a b c))
  | ["len"] => some .len
  | ["iter"] => some .iter
  | ["checkedge", e] => do pure (.checkEdge (← nats? e))
  | ["weight", e] => do pure (.weight (← nats? e))
  | ["weights", a, b, c] => do pure (.weights (← filter? a b c))
  | ["weightsdict", a, b, c] => do pure (.weightsDict (← filter? a b c))
  | ["incident", n, a, b, c] => do pure (.incident (← n.toNat?) (← filter? a b c))
  | ["neighbors", n, a, b, c] => do pure (.neighbors (← n.toNat?) (← filter? a b c))
  | ["degree", n, a, b, c] => do pure (.degree (← n.toNat?) (← filter? a b c))
  | ["degreeseq", a, b, c] => do pure (.degreeSeq (← filter? a b c))
  | ["degreedist", a, b, c] => do pure (.degreeDist (← filter? a b c))
  | ["sizes"] => some .sizes
  | ["orders"] => some .orders
  | ["sizedist"] => some .sizeDist
  | ["maxsize"] => some .maxSize
  | ["maxorder"] => some .maxOrder
  | ["isuniform"] => some .isUniform
  | ["isweighted"] => some .isWeighted
  | ["nodemeta", n] => do pure (.nodeMeta (← n.toNat?))
  | ["edgemeta", e] => do pure (.edgeMeta (← nats? e))
  | ["allnodesmeta"] => some .allNodesMeta
  | ["alledgesmeta"] => some .allEdgesMeta
  | ["hmeta"] => some .hmeta
  | ["isolated", a, b, c] => do pure (.isolated (← filter? a b c))
  | ["isisolated", n, a, b, c] => do pure (.isIsolated (← n.toNat?) (← filter? a b c))
  | _ => none

def showMeta (empty : String) (m : Meta) : String :=
  showList "," empty (fun (p : Nat × Nat) => toString p.1 ++ ":" ++ toString p.2) m
def showEdge (e : Edge) : String := showList "," "_" toString e

def showAns : Ans → String
  | .rej => "rej"
  | .bool b => showBool b
  | .int i => toString i
  | .nats l => showNats l
  | .ints l => showInts l
  | .edges l => showNatss l
  | .dict m => showMeta "-" m
  | .nmetas l => showList ";" "-" (fun (p : Node × Meta) => toString p.1 ++ "=" ++ showMeta "_" p.2) l
  | .emetas l => showList ";" "-" (fun (p : Edge × Meta) => showEdge p.1 ++ "=" ++ showMeta "_" p.2) l
  | .ews l => showList ";" "-" (fun (p : Edge × Int) => showEdge p.1 ++ "=" ++ toString p.2) l
  | .pairs l => showList "," "-" (fun (p : Int × Nat) => toString p.1 ++ ":" ++ toString p.2) l

def showOut : Out → String
  | .ok => "ok"
  | .rej => "rej"

structure St where
  c : State := []
  a : SState := []

def both (s : St) (cmd : Cmd) : St × String :=
  let rc := C01.step s.c cmd
  let ra := Spec.step s.a cmd
  ({ c := rc.1, a := ra.1 },
   if rc.2 = ra.2 then showOut rc.2 else "SPECDIFF " ++ showOut rc.2 ++ " | " ++ showOut ra.2)

def stepLine (s : St) : List String → St × String
  | ["reset", k] => ({ c := C01.init k.toNat!, a := Spec.init k.toNat! }, "ok")
  | ["new", i, w, hm] =>
    match i.toNat?, bool? w, meta? "-" hm with
    | some i, some w, some hm => both s (.new i w hm)
    | _, _, _ => (s, "bad-op")
  | ["copy", i, j] =>
    match i.toNat?, j.toNat? with
    | some i, some j => both s (.copy i j)
    | _, _ => (s, "bad-op")
  | "op" :: i :: rest =>
    match i.toNat?, op? rest with
    | some i, some op => both s (.on i op)
    | _, _ => (s, "bad-op")
  | "q" :: i :: rest =>
    match i.toNat?, query? rest with
    | some i, some q =>
      let c := showAns (C01.query s.c i q)
      let a := showAns (Spec.query s.a i q)
      (s, if c = a then c else "SPECDIFF " ++ c ++ " | " ++ a)
    | _, _ => (s, "bad-op")
  | ["chk", i] =>
    match i.toNat? with
    | some i => (s, match s.c[i]?, s.a[i]? with
      | some c, some a => showBool (decide (C01.abs c = a))
      | _, _ => "0")
    | none => (s, "bad-op")
  | _ => (s, "bad-op")

def main : IO Unit := Wire.run stepLine {}
