import Hgxv.Model.Wire
import Hgxv.Model.C01
import Hgxv.Model.C01X
import Hgxv.Model.C01Ext
import Hgxv.Model.C01Lcc
/-! Line protocol for C01.  The driver runs the concrete whole-object model (`C01.fstep`, which runs `C01.apply` on the
tables for every base operation, `Hgxv/Model/C01X.lean`) and the abstract spec (`C01.FSpec.step`) in lock step on the
same commands.

  `reset k`                       -> `ok`     k fresh unweighted slots
  `new i w <meta>`                -> `ok|rej`
  `copy i j`                      -> `ok|rej`
  `op i <name> <args>`            -> `ok|rej` (`SPECDIFF ...` when the spec answers differently)
  `q i <name> <args>`             -> answer of the concrete model (`SPECDIFF c | s` when the spec differs)
  `chk i`                         -> `1` iff `fabs (concrete slot i) = spec slot i`
  `extract i j sub <nodes>` | `extract i j orders <orders|~> <sizes|~> <keep>` | `extract i j edges <filter> <iso>`
                                  -> `ok|rej`  slot j := the object the extraction routine builds from slot i
  `rebase i j`                    -> `ok`     harness helper, NOT a model command: slot j keeps its incidence / empty-edge
                                              tables and takes the node / hyperedge tables of slot i (adoption of an
                                              object that another part of the library changed in place)
  extra ops `setinc <edge> <node> <meta>`, `addempty <name> <meta>`; extra queries `incmeta <edge> <node>`, `allincmeta`

  `ctor i w <hm> <nodemeta|-> <edges|-> <weights|~> <metas|~>` -> `ok|rej`  ONE constructor call (`C01.construct`; the abstract
                                              `Spec.construct` beside it: `SPECDIFF` when they differ); `rej` keeps slot i
  `x i hashing|mapping|indexof n|adjkeys|roundtrip` -> `expose_attributes_for_hashing()` (`rej` = raises), the classes of
                                              `get_mapping()`, `transform([n])`, `get_adj_dict()` read through
                                              `_reverse_edge_list`, `populate (exposeTables s) == s`; the first four are
                                              also answered from the abstract hypergraph (`SPECDIFF`)

  `lcc i j <order|~> <size|~>`    -> `ok|rej`  slot j := `subhypergraph_largest_component(size, order)` of slot i (`C01.subLcc`,
                                              `Spec.subLcc` beside it; `SPECDIFF` when outcome or abstraction differ)

Encodings: option `~` = None; meta `k:v,k:v` (`-` empty; `_` empty inside a list); nat list `1,2` (`-`);
list of lists `1,2;3` (`-`, inner empty `_`); filter = three tokens `order size upto`. -/
open Wire C01

def optOf {α} (f : String → Option α) (s : String) : Option (Option α) :=
  if s = "~" then some none else (f s).map some

def pair? (s : String) : Option (Nat × Nat) :=
  match s.splitOn ":" with
  | [a, b] => do let x ← a.toNat?; let y ← b.toNat?; pure (x, y)
  | _ => none

def meta? (empty : String) (s : String) : Option Meta := listOf? "," empty pair? s
def metas? (s : String) : Option (List Meta) := listOf? ";" "-" (meta? "_") s
def nodeMeta? (s : String) : Option (Node × Meta) :=
  match s.splitOn "=" with
  | [a, b] => do let n ← a.toNat?; let m ← meta? "_" b; pure (n, m)
  | _ => none
def nodeMetas? (s : String) : Option (List (Node × Meta)) := listOf? ";" "-" nodeMeta? s
def bool? (s : String) : Option Bool := if s = "1" then some true else if s = "0" then some false else none

def filter? (a b c : String) : Option Filter := do
  let o ← optOf int? a
  let k ← optOf int? b
  let u ← bool? c
  pure { order := o, size := k, upTo := u }

def op? : List String → Option Op
  | ["addnode", n, md] => do pure (.addNode (← n.toNat?) (← optOf (meta? "-") md))
  | ["addnodes", ns, mds] => do pure (.addNodes (← nats? ns) (← optOf nodeMetas? mds))
  | ["addedge", e, w, md] => do pure (.addEdge (← nats? e) (← optOf int? w) (← optOf (meta? "-") md))
  | ["addedges", es, ws, mds] => do pure (.addEdges (← natss? es) (← optOf ints? ws) (← optOf metas? mds))
  | ["rmedge", e] => do pure (.removeEdge (← nats? e))
  | ["rmedges", es] => do pure (.removeEdges (← natss? es))
  | ["rmnode", n, k] => do pure (.removeNode (← n.toNat?) (← bool? k))
  | ["rmnodes", ns, k] => do pure (.removeNodes (← nats? ns) (← bool? k))
  | ["setw", e, w] => do pure (.setWeight (← nats? e) (← int? w))
  | ["setnmeta", n, md] => do pure (.setNodeMeta (← n.toNat?) (← meta? "-" md))
  | ["setemeta", e, md] => do pure (.setEdgeMeta (← nats? e) (← meta? "-" md))
  | ["sethmeta", md] => do pure (.setHMeta (← meta? "-" md))
  | ["attrh", k, v] => do pure (.setAttrH (← k.toNat?) (← v.toNat?))
  | ["attrn", n, k, v] => do pure (.setAttrNode (← n.toNat?) (← k.toNat?) (← v.toNat?))
  | ["attre", e, k, v] => do pure (.setAttrEdge (← nats? e) (← k.toNat?) (← v.toNat?))
  | ["delattrn", n, k] => do pure (.delAttrNode (← n.toNat?) (← k.toNat?))
  | ["delattre", e, k] => do pure (.delAttrEdge (← nats? e) (← k.toNat?))
  | ["clear"] => some .clear
  | _ => none

def query? : List String → Option Query
  | ["nodes"] => some .nodes
  | ["nodesmeta"] => some .nodesMeta
  | ["checknode", n] => do pure (.checkNode (← n.toNat?))
  | ["numnodes"] => some .numNodes
  | ["edges", a, b, c] => do pure (.edges (← filter? a b c))
  | ["edgesmeta", a, b, c] => do pure (.edgesMeta (← filter? a b c))
  | ["numedges", a, b, c] => do pure (.numEdges (← filter? a b c))
  | ["len"] => some .len
  | ["iter"] => some .iter
  | ["checkedge", e] => do pure (.checkEdge (← nats? e))
  | ["weight", e] => do pure (.weight (← nats? e))
  | ["weights", a, b, c] => do pure (.weights (← filter? a b c))
  | ["weightsdict", a, b, c] => do pure (.weightsDict (← filter? a b c))
  | ["incident", n, a, b, c] => do pure (.incident (← n.toNat?) (← filter? a b c))
  | ["neighbors", n, a, b, c] => do pure (.neighbors (← n.toNat?) (← filter? a b c))
  | ["degree", n, a, b, c] => do pure (.degree (← n.toNat?) (← filter? a b c))
  | ["degreeseq", a, b, c] => do pure (.degreeSeq (← filter? a b c))
  | ["degreedist", a, b, c] => do pure (.degreeDist (← filter? a b c))
  | ["sizes"] => some .sizes
  | ["orders"] => some .orders
  | ["sizedist"] => some .sizeDist
  | ["maxsize"] => some .maxSize
  | ["maxorder"] => some .maxOrder
  | ["isuniform"] => some .isUniform
  | ["isweighted"] => some .isWeighted
  | ["nodemeta", n] => do pure (.nodeMeta (← n.toNat?))
  | ["edgemeta", e] => do pure (.edgeMeta (← nats? e))
  | ["allnodesmeta"] => some .allNodesMeta
  | ["alledgesmeta"] => some .allEdgesMeta
  | ["hmeta"] => some .hmeta
  | ["isolated", a, b, c] => do pure (.isolated (← filter? a b c))
  | ["isisolated", n, a, b, c] => do pure (.isIsolated (← n.toNat?) (← filter? a b c))
  | _ => none

def fop? : List String → Option FOp
  | ["setinc", e, n, md] => do pure (.setIncMeta (← nats? e) (← n.toNat?) (← meta? "-" md))
  | ["addempty", name, md] => do pure (.addEmptyEdge (← name.toNat?) (← meta? "-" md))
  | rest => (op? rest).map .base

def fquery? : List String → Option FQuery
  | ["incmeta", e, n] => do pure (.incMeta (← nats? e) (← n.toNat?))
  | ["allincmeta"] => some .allIncMeta
  | rest => (query? rest).map .base

def extract? : List String → Option Extract
  | ["sub", ns] => do pure (.sub (← nats? ns))
  | ["orders", os, ks, keep] => do pure (.orders (← optOf ints? os) (← optOf ints? ks) (← bool? keep))
  | ["edges", a, b, c, iso] => do pure (.edges (← filter? a b c) (← bool? iso))
  | _ => none

def showMeta (empty : String) (m : Meta) : String :=
  showList "," empty (fun (p : Nat × Nat) => toString p.1 ++ ":" ++ toString p.2) m
def showEdge (e : Edge) : String := showList "," "_" toString e

def showAns : Ans → String
  | .rej => "rej"
  | .bool b => showBool b
  | .int i => toString i
  | .nats l => showNats l
  | .ints l => showInts l
  | .edges l => showNatss l
  | .dict m => showMeta "-" m
  | .nmetas l => showList ";" "-" (fun (p : Node × Meta) => toString p.1 ++ "=" ++ showMeta "_" p.2) l
  | .emetas l => showList ";" "-" (fun (p : Edge × Meta) => showEdge p.1 ++ "=" ++ showMeta "_" p.2) l
  | .ews l => showList ";" "-" (fun (p : Edge × Int) => showEdge p.1 ++ "=" ++ toString p.2) l
  | .pairs l => showList "," "-" (fun (p : Int × Nat) => toString p.1 ++ ":" ++ toString p.2) l

def showFAns : FAns → String
  | .base a => showAns a
  | .imetas l => showList ";" "-" (fun (p : IncKey × Meta) =>
      showEdge p.1.1 ++ "@" ++ toString p.1.2 ++ "=" ++ showMeta "_" p.2) l

def showOut : Out → String
  | .ok => "ok"
  | .rej => "rej"

def showHash (v : HashView) : String :=
  showBool v.weighted ++ "|" ++ showMeta "-" v.hmeta ++ "|" ++
  showList ";" "-" (fun (p : Edge × (Int × Meta)) => showEdge p.1 ++ "=" ++ toString p.2.1 ++ "=" ++ showMeta "_" p.2.2) v.edges
  ++ "|" ++ showList ";" "-" (fun (p : Node × Meta) => toString p.1 ++ "=" ++ showMeta "_" p.2) v.nodes

def showAdjKeys (l : List (Node × List (Option Edge))) : String :=
  showList ";" "-" (fun (p : Node × List (Option Edge)) =>
    toString p.1 ++ "=" ++ showList "/" "_" (fun (o : Option Edge) => match o with | some e => showEdge e | none => "?") p.2) l

def xanswer (c : Store) (a : Spec) : List String → Option (String × String)
  | ["hashing"] => some (match hashView c with | some v => showHash v | none => "rej", showHash (Spec.hashView a))
  | ["mapping"] => some (showNats (mapping c), showNats (Spec.mapping a))
  | ["indexof", n] => n.toNat?.map fun n =>
      let f := fun (l : List Node) => match C03.indexOf? l n with | some i => toString i | none => "rej"
      (f (mapping c), f (Spec.mapping a))
  | ["adjkeys"] => some (showAdjKeys (adjKeys c), showAdjKeys (Spec.adjKeys a))
  | ["roundtrip"] => some (showBool (decide (populate (exposeTables c) = c)), "1")
  | _ => none

def ctor? : List String → Option CtorArgs
  | [w, hm, nm, es, ws, mds] => do
    pure { weighted := (← bool? w), hm := (← meta? "-" hm), nodeMeta := (← nodeMetas? nm), edges := (← natss? es),
           weights := (← optOf ints? ws), emetas := (← optOf metas? mds) }
  | _ => none

structure St where
  c : FState := []
  a : FSState := []

def both (s : St) (cmd : FCmd) : St × String :=
  let rc := C01.fstep s.c cmd
  let ra := FSpec.step s.a cmd
  ({ c := rc.1, a := ra.1 },
   if rc.2 = ra.2 then showOut rc.2 else "SPECDIFF " ++ showOut rc.2 ++ " | " ++ showOut ra.2)

def stepLine (s : St) : List String → St × String
  | ["reset", k] => ({ c := C01.finit k.toNat!, a := FSpec.init k.toNat! }, "ok")
  | ["new", i, w, hm] =>
    match i.toNat?, bool? w, meta? "-" hm with
    | some i, some w, some hm => both s (.new i w hm)
    | _, _, _ => (s, "bad-op")
  | ["copy", i, j] =>
    match i.toNat?, j.toNat? with
    | some i, some j => both s (.copy i j)
    | _, _ => (s, "bad-op")
  | "op" :: i :: rest =>
    match i.toNat?, fop? rest with
    | some i, some op => both s (.on i op)
    | _, _ => (s, "bad-op")
  | "q" :: i :: rest =>
    match i.toNat?, fquery? rest with
    | some i, some q =>
      let c := showFAns (C01.fquery s.c i q)
      let a := showFAns (FSpec.query s.a i q)
      (s, if c = a then c else "SPECDIFF " ++ c ++ " | " ++ a)
    | _, _ => (s, "bad-op")
  | "extract" :: i :: j :: rest =>
    match i.toNat?, j.toNat?, extract? rest with
    | some i, some j, some x => both s (.extract i j x)
    | _, _, _ => (s, "bad-op")
  | ["rebase", i, j] =>
    match i.toNat?, j.toNat? with
    | some i, some j =>
      match s.c[i]?, s.a[i]?, s.c[j]?, s.a[j]? with
      | some ci, some ai, some cj, some aj =>
        ({ c := s.c.set j { cj with base := ci.base }, a := s.a.set j { aj with base := ai.base } }, "ok")
      | _, _, _, _ => (s, "bad-op")
    | _, _ => (s, "bad-op")
  | "ctor" :: i :: rest =>
    match i.toNat?, ctor? rest with
    | some i, some a =>
      if i < s.c.length ∧ i < s.a.length then
        match construct a, Spec.construct a with
        | some c, some sp =>
          if abs c = sp then ({ c := s.c.set i { base := c }, a := s.a.set i { base := sp } }, "ok")
          else (s, "SPECDIFF abs")
        | none, none => (s, "rej")
        | some _, none => (s, "SPECDIFF ok | rej")
        | none, some _ => (s, "SPECDIFF rej | ok")
      else (s, "bad-op")
    | _, _ => (s, "bad-op")
  | "x" :: i :: rest =>
    match i.toNat? with
    | some i =>
      match s.c[i]?, s.a[i]? with
      | some c, some a =>
        match xanswer c.base a.base rest with
        | some (x, y) => (s, if x = y then x else "SPECDIFF " ++ x ++ " | " ++ y)
        | none => (s, "bad-op")
      | _, _ => (s, "bad-op")
    | none => (s, "bad-op")
  | ["lcc", i, j, o, k] =>
    match i.toNat?, j.toNat?, optOf int? o, optOf int? k with
    | some i, some j, some o, some k =>
      match s.c[i]?, s.a[i]? with
      | some ci, some ai =>
        if j < s.c.length ∧ j < s.a.length then
          let rc := subLcc ci.base o k
          let ra := Spec.subLcc ai.base o k
          if rc.2 ≠ ra.2 then (s, "SPECDIFF " ++ showOut rc.2 ++ " | " ++ showOut ra.2)
          else if rc.2 = .rej then (s, "rej")
          else if abs rc.1 = ra.1 then ({ c := s.c.set j { base := rc.1 }, a := s.a.set j { base := ra.1 } }, "ok")
          else (s, "SPECDIFF abs")
        else (s, "bad-op")
      | _, _ => (s, "bad-op")
    | _, _, _, _ => (s, "bad-op")
  | ["chk", i] =>
    match i.toNat? with
    | some i => (s, match s.c[i]?, s.a[i]? with
      | some c, some a => showBool (decide (C01.fabs c = a))
      | _, _ => "0")
    | none => (s, "bad-op")
  | _ => (s, "bad-op")

def main : IO Unit := Wire.run stepLine {}
