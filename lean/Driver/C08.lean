import Hgxv.Model.Wire
import Hgxv.Model.C08
import Hgxv.Model.C08Hist
import Hgxv.Model.C08Visit
/-! Line protocol for C08.  State: current Hypergraph (nodes, hyperedges), current generic keyed container
(Temporal / Multiplex: one member list per record) and current directed hypergraph.
Filter token `<f>`: `n` (none) | `s<int>` (size=) | `o<int>` (order=).
  `load <edges natss> <nodes>`, `gload <members natss> <nodes>`, `dload <src natss> <tgt natss> <nodes>` -> `ok`
  `deg x f` / `gdeg x f` / `ddeg x f`     -> number | `rej`
  `seq f` / `gseq f` / `dseq f`           -> `node:deg,...` in node order
  `dist f` / `gdist f` / `ddist f`        -> `deg:count,...` in insertion order
  `nbrs x f`                              -> sorted neighbours | `rej`
  `inc x f`                               -> the incident hyperedges that pass the filter (each sorted) | `rej`
  `bfs x f`, `ncomp x f`                  -> sorted visited set | `rej`
  `cc f`                                  -> components (each sorted) in discovery order
  `conn f`, `ncc f`, `largest f`, `lsize f`, `iso f`, `isiso x f`
History model (`C08.Hist`, several Hypergraph objects, object index `i`):
  `hnew` (one empty object), `hn i x`, `he i <e>`, `hre i <e>`, `hrn i x <0|1 keep_edges>`, `hclr i`, `hcp i`, `hsub i <nodes>`
                                          -> `ok` | `rej` (absent hyperedge / node / object: the code raises)
  `hpop i src`                            -> `ok` | `rej`: object i takes the content of object src (`populate_from_dict` of a snapshot)
  `hset i <edges natss> <nodes>`          -> `ok`: object i (a NEW object when i = number of objects) holds the given listing
                                             (product of a loader / generator / filter; listing taken after a raised call)
  `hshow i`                               -> `<hyperedges sorted>|<nodes sorted>` of object i
  `huse i`                                -> `ok`: the queries above now speak about object i
`utils/visits.py` in full (`C08Visit`): kind `b` (`_bfs`) | `d` (`_dfs`), depth token `n` (max_depth=None) | `<int>`:
  `vis <b|d> x <depth> <f>`               -> sorted visited set | `rej` (start is not a node)
  `vist <b|d> x <depth> <keys> <lists natss>` -> sorted visited set of the same loop run on the recorded table
                                             `keys[i] -> lists[i]` of `get_neighbors` answers (in iteration order) -/
open Wire C08

structure St where
  nodes : List Nat := []
  es : List (List Nat) := []
  gnodes : List Nat := []
  gkeys : List (Nat × List Nat) := []
  dnodes : List Nat := []
  dkeys : List (List Nat × List Nat) := []
  hist : List Hist.Content := [{}]

def filt? (s : String) : Option Filt :=
  if s = "n" then some Filt.none
  else if s.startsWith "s" then ((s.drop 1).toString.toInt?).map Filt.size
  else if s.startsWith "o" then ((s.drop 1).toString.toInt?).map Filt.order
  else none

def showPairs (t : List (Nat × Nat)) : String :=
  showList "," "-" (fun (p : Nat × Nat) => toString p.1 ++ ":" ++ toString p.2) t
def showONat : Option Nat → String
  | some n => toString n
  | none => "rej"
def showOSet : Option (List Nat) → String
  | some l => showNats (sortNats l)
  | none => "rej"
def showOBool : Option Bool → String
  | some b => showBool b
  | none => "rej"

def enumFrom {α} : Nat → List α → List (Nat × α)
  | _, [] => []
  | i, a :: t => (i, a) :: enumFrom (i + 1) t

def depth? (s : String) : Option (Option Int) :=
  if s = "n" then some none else s.toInt?.map some

def query (s : St) (f : Filt) : List String → String
  | ["deg", x] => showONat (degree? s.nodes s.es x.toNat! f)
  | ["gdeg", x] => showONat (degreeG? (fun (k : Nat × List Nat) => k.2) s.gnodes s.gkeys x.toNat! f)
  | ["ddeg", x] => if x.toNat! ∈ s.dnodes then toString (dirDeg s.dkeys x.toNat! f) else "rej"
  | ["seq"] => showPairs (degreeSeq s.nodes s.es f)
  | ["gseq"] => showPairs (degreeSeqG (fun (k : Nat × List Nat) => k.2) s.gnodes s.gkeys f)
  | ["dseq"] => showPairs (dirDegreeSeq s.dnodes s.dkeys f)
  | ["dist"] => showPairs (degreeDist s.nodes s.es f)
  | ["gdist"] => showPairs (degreeDistG (fun (k : Nat × List Nat) => k.2) s.gnodes s.gkeys f)
  | ["ddist"] => showPairs (dirDegreeDist s.dnodes s.dkeys f)
  | ["nbrs", x] => if x.toNat! ∈ s.nodes then showNats (sortNats (neighbors s.es f x.toNat!)) else "rej"
  | ["inc", x] => if x.toNat! ∈ s.nodes then showNatss ((incident s.es x.toNat! f).map sortNats) else "rej"
  | ["bfs", x] => showOSet (bfsFrom s.nodes s.es f x.toNat!)
  | ["ncomp", x] => showOSet (nodeComponent s.nodes s.es f x.toNat!)
  | ["cc"] => showNatss ((components s.nodes s.es f).map sortNats)
  | ["conn"] => showBool (isConnected s.nodes s.es f)
  | ["ncc"] => toString (numComponents s.nodes s.es f)
  | ["largest"] => showOSet (largestComponent s.nodes s.es f)
  | ["lsize"] => showONat (largestComponentSize s.nodes s.es f)
  | ["iso"] => showNats (isolatedNodes s.nodes s.es f)
  | ["isiso", x] => showOBool (isIsolated? s.nodes s.es f x.toNat!)
  | _ => "bad-op"

def hop (s : St) (op : Hist.Op) : St × String :=
  match Hist.step s.hist op with
  | some h => ({ s with hist := h }, "ok")
  | none => (s, "rej")

def step (s : St) : List String → St × String
  | ["hnew"] => ({ s with hist := [{}] }, "ok")
  | ["hn", i, x] => match i.toNat?, x.toNat? with
    | some i, some x => hop s (.addNode i x)
    | _, _ => (s, "bad-op")
  | ["he", i, e] => match i.toNat?, natsInner? e with
    | some i, some e => hop s (.addEdge i e)
    | _, _ => (s, "bad-op")
  | ["hre", i, e] => match i.toNat?, natsInner? e with
    | some i, some e => hop s (.removeEdge i e)
    | _, _ => (s, "bad-op")
  | ["hrn", i, x, k] => match i.toNat?, x.toNat? with
    | some i, some x => hop s (.removeNode i x (k == "1"))
    | _, _ => (s, "bad-op")
  | ["hclr", i] => match i.toNat? with
    | some i => hop s (.clear i)
    | _ => (s, "bad-op")
  | ["hcp", i] => match i.toNat? with
    | some i => hop s (.copy i)
    | _ => (s, "bad-op")
  | ["hsub", i, ns] => match i.toNat?, nats? ns with
    | some i, some ns => hop s (.sub i ns)
    | _, _ => (s, "bad-op")
  | ["hpop", i, j] => match i.toNat?, j.toNat? with
    | some i, some j => hop s (.restore i j)
    | _, _ => (s, "bad-op")
  | ["hset", i, es, nodes] => match i.toNat?, natss? es, nats? nodes with
    | some i, some e, some n =>
      if i = s.hist.length then hop s (.load ⟨n, e.map Hist.sortL⟩) else hop s (.put i ⟨n, e.map Hist.sortL⟩)
    | _, _, _ => (s, "bad-op")
  | ["hshow", i] => match i.toNat?.bind (fun i => s.hist[i]?) with
    | some c => (s, showNatss (sortLex (c.es.map sortNats)) ++ "|" ++ showNats (sortNats c.nodes))
    | none => (s, "rej")
  | ["huse", i] => match i.toNat?.bind (fun i => s.hist[i]?) with
    | some c => ({ s with nodes := c.nodes, es := c.es }, "ok")
    | none => (s, "rej")
  | ["vis", k, x, d, f] => match depth? d, x.toNat?, filt? f with
    | some md, some x, some f => (s, showOSet (visitFrom s.nodes s.es f md (k == "d") x))
    | _, _, _ => (s, "bad-op")
  | ["vist", k, x, d, keys, lists] => match depth? d, x.toNat?, nats? keys, natss? lists with
    | some md, some x, some ks, some ls => (s, showNats (sortNats (visitTab (ks.zip ls) md (k == "d") x)))
    | _, _, _, _ => (s, "bad-op")
  | ["load", es, nodes] =>
    match natss? es, nats? nodes with
    | some e, some n => ({ s with nodes := n, es := e }, "ok")
    | _, _ => (s, "bad-op")
  | ["gload", ms, nodes] =>
    match natss? ms, nats? nodes with
    | some m, some n => ({ s with gnodes := n, gkeys := enumFrom 0 m }, "ok")
    | _, _ => (s, "bad-op")
  | ["dload", src, tgt, nodes] =>
    match natss? src, natss? tgt, nats? nodes with
    | some a, some b, some n => ({ s with dnodes := n, dkeys := a.zip b }, "ok")
    | _, _, _ => (s, "bad-op")
  | [c, f] => match filt? f with
    | some f => (s, query s f [c])
    | none => (s, "bad-op")
  | [c, x, f] => match filt? f, x.toNat? with
    | some f, some _ => (s, query s f [c, x])
    | _, _ => (s, "bad-op")
  | _ => (s, "bad-op")

def main : IO Unit := Wire.run step {}
