import Hgxv.Model.Wire
import Hgxv.Model.C02
import Hgxv.Model.C02X
import Hgxv.Model.C02Y
/-! Line protocol for C02 (see `harness/c02.py`, which produces the same renderings from the real object).

Arguments: node lists `1,2` (`-` empty); metadata `a:v,a:v` (`-` = `{}`, `N` = None); a hyperedge `S>T` with a side
`1,2` | `_` (empty) | `s5` (bare node 5); hyperedge lists `;`-separated (`-` empty, `N` None); weight lists
`4,6` (`-`, `N`); metadata lists `|`-separated with `_` for `{}` (`-`, `N`); node-metadata dict `n=a:v|n=_`.

  new <slot> <0|1> <hm> <nm> <es> <ws> <mds>      copy <a> <b>
  addnode <slot> <n> <md>     addnodes <slot> <ns>
  addedge <slot> <e> <w|N> <md>                  addedges <slot> <es> <ws> <mds>
  rmedge <slot> <e>   rmedges <slot> <es>        rmnode <slot> <n> <0|1>   rmnodes <slot> <ns> <0|1>
  setw <slot> <e> <w>   setnm <slot> <n> <md>   setem <slot> <e> <md>   sethm <slot> <md>
  attrh <slot> <a> <v>  attrn <slot> <n> <a> <v>  attre <slot> <e> <a> <v>  deln <slot> <n> <a>  dele <slot> <e> <a>
  clear <slot>
      -> `ok` | `rej`
  reset   forget every object -> `ok`
  dig <slot> <U> <filters>   all queries, nodes 0..U, filters `a`,`s<k>`,`o<k>`,`b` comma-separated
      -> `label=value` items separated by one space; ` !spec:<label>` is appended when the abstract object
         (run in lock-step) answers differently
  qe <slot> <e>   -> `check|weight|metadata` of one hyperedge
  sub <slot> <U> <filter> <up_to 0|1> <sub 0|1> <keep 0|1> <metadata 0|1>
      `get_edges` with all its options -> `rej` | `keys=..` | `emeta=..` | the digest (no filter) of the returned
      hypergraph; ` !spec:sub` when `Spec.sub` of the abstract object is not the abstraction of the model's answer
  setinc <slot> <e> <n> <md> -> `ok` | `rej`     (`set_incidence_metadata`)
  getinc <slot> <e> <n> -> metadata | `rej`      (`get_incidence_metadata`)
  allinc <slot> -> `S>T@n=metadata;...` sorted    (`get_all_incidences_metadata`)
  raw <slot>   -> the raw tables (`expose_data_structures`, `get_edge_list`, `get_adj_dict`, `len`, `iter`, `str`,
      `is_weighted`) IN THEIR ORDER: nothing is sorted here
  rawecho <slot> el|as|at|pop   `set_edge_list(get_edge_list())` / `set_adj_dict(get_adj_dict(x), x)` /
      `populate_from_dict(expose_data_structures())` through `rawStep` -> `ok` (`noecho` if `RawOp.echo` is false)
  mapping <slot> -> `classes_` of `get_mapping()` IN ORDER; ` !spec:mapping` when the abstract object's differ
  indexof <slot> <n> -> code | `rej`; ` !inv` when `inverse_transform` of the code is not `n`
  `new` also runs the constructor as its public calls (`ctorCalls` through `runOk`) and the argument test `ctorRejArgs`:
      ` !calls` / ` !rejargs` when they disagree with `ctor` -/
open Wire C02

/-! ### parsing -/

def pAttr? (it : String) : Option (Nat × Nat) :=
  match it.splitOn ":" with
  | [a, v] => do let x ← a.toNat?; let y ← v.toNat?; pure (x, y)
  | _ => none

def pMeta? (s : String) : Option (Option Meta) :=
  if s = "N" then some none
  else if s = "-" || s = "_" then some (some [])
  else ((s.splitOn ",").mapM pAttr?).map some

def pMetaD? (s : String) : Option Meta := (pMeta? s).bind id

def pSide? (s : String) : Option Side :=
  if s = "_" then some (.nodes [])
  else if s.startsWith "s" then (s.drop 1).toNat?.map Side.scalar
  else ((s.splitOn ",").mapM String.toNat?).map Side.nodes

def pEdge? (s : String) : Option RawEdge :=
  match s.splitOn ">" with
  | [a, b] => do let x ← pSide? a; let y ← pSide? b; pure ⟨x, y⟩
  | _ => none

def pEdges? (s : String) : Option (Option (List RawEdge)) :=
  if s = "N" then some none else if s = "-" then some (some [])
  else ((s.splitOn ";").mapM pEdge?).map some

def pInts? (s : String) : Option (Option (List Int)) :=
  if s = "N" then some none else (ints? s).map some

def pMetas? (s : String) : Option (Option (List Meta)) :=
  if s = "N" then some none else if s = "-" then some (some [])
  else ((s.splitOn "|").mapM pMetaD?).map some

def pNodeMeta? (it : String) : Option (Node × Meta) :=
  match it.splitOn "=" with
  | [n, m] => do let x ← n.toNat?; let y ← pMetaD? m; pure (x, y)
  | _ => none

def pNodeMetas? (s : String) : Option (Option (List (Node × Meta))) :=
  if s = "N" then some none else if s = "-" then some (some [])
  else ((s.splitOn "|").mapM pNodeMeta?).map some

def pBool? (s : String) : Option Bool := if s = "1" then some true else if s = "0" then some false else none
def pOInt? (s : String) : Option (Option Int) := if s = "N" then some none else s.toInt?.map some

def pFilt? (s : String) : Option Filt :=
  if s = "a" then some .all else if s = "b" then some .both
  else if s.startsWith "s" then (s.drop 1).toNat?.map Filt.size
  else if s.startsWith "o" then (s.drop 1).toNat?.map Filt.order
  else none

def showFilt : Filt → String
  | .all => "a" | .both => "b" | .size k => "s" ++ toString k | .order k => "o" ++ toString k

def parseCmd : List String → Option Cmd
  | ["new", sl, w, hm, nm, es, ws, mds] => do
      pure (.new (← sl.toNat?) (← pBool? w) (← pMeta? hm) (← pNodeMetas? nm) (← pEdges? es) (← pInts? ws) (← pMetas? mds))
  | ["copy", a, b] => do pure (.copy (← a.toNat?) (← b.toNat?))
  | ["addnode", sl, n, md] => do pure (.op (← sl.toNat?) (.addNode (← n.toNat?) (← pMeta? md)))
  | ["addnodes", sl, ns] => do pure (.op (← sl.toNat?) (.addNodes (← nats? ns)))
  | ["addedge", sl, e, w, md] => do pure (.op (← sl.toNat?) (.addEdge (← pEdge? e) (← pOInt? w) (← pMeta? md)))
  | ["addedges", sl, es, ws, mds] => do
      pure (.op (← sl.toNat?) (.addEdges ((← pEdges? es).getD []) (← pInts? ws) (← pMetas? mds)))
  | ["rmedge", sl, e] => do pure (.op (← sl.toNat?) (.removeEdge (← pEdge? e)))
  | ["rmedges", sl, es] => do pure (.op (← sl.toNat?) (.removeEdges ((← pEdges? es).getD [])))
  | ["rmnode", sl, n, k] => do pure (.op (← sl.toNat?) (.removeNode (← n.toNat?) (← pBool? k)))
  | ["rmnodes", sl, ns, k] => do pure (.op (← sl.toNat?) (.removeNodes (← nats? ns) (← pBool? k)))
  | ["setw", sl, e, w] => do pure (.op (← sl.toNat?) (.setWeight (← pEdge? e) (← w.toInt?)))
  | ["setnm", sl, n, md] => do pure (.op (← sl.toNat?) (.setNodeMeta (← n.toNat?) (← pMetaD? md)))
  | ["setem", sl, e, md] => do pure (.op (← sl.toNat?) (.setEdgeMeta (← pEdge? e) (← pMetaD? md)))
  | ["sethm", sl, md] => do pure (.op (← sl.toNat?) (.setHMeta (← pMetaD? md)))
  | ["attrh", sl, a, v] => do pure (.op (← sl.toNat?) (.setAttrH (← a.toNat?) (← v.toNat?)))
  | ["attrn", sl, n, a, v] => do pure (.op (← sl.toNat?) (.setAttrNode (← n.toNat?) (← a.toNat?) (← v.toNat?)))
  | ["attre", sl, e, a, v] => do pure (.op (← sl.toNat?) (.setAttrEdge (← pEdge? e) (← a.toNat?) (← v.toNat?)))
  | ["deln", sl, n, a] => do pure (.op (← sl.toNat?) (.delAttrNode (← n.toNat?) (← a.toNat?)))
  | ["dele", sl, e, a] => do pure (.op (← sl.toNat?) (.delAttrEdge (← pEdge? e) (← a.toNat?)))
  | ["clear", sl] => do pure (.op (← sl.toNat?) .clear)
  | _ => none

/-! ### rendering (canonical: everything that is a set / dict / listing is sorted) -/

def insertStr (a : String) : List String → List String
  | [] => [a]
  | b :: bs => if b < a then b :: insertStr a bs else a :: b :: bs
def sortStrs (l : List String) : List String := l.foldr insertStr []

def joinOr (sep empty : String) (l : List String) : String := if l.isEmpty then empty else sep.intercalate l

def rNodes (l : List Nat) : String := joinOr "," "-" ((sortNats l).map toString)
def rSide (l : List Nat) : String := joinOr "," "_" (l.map toString)
def rKey (k : Key) : String := rSide k.1 ++ ">" ++ rSide k.2
def rMeta (m : Meta) : String := joinOr "," "_" (sortStrs (m.map (fun p => toString p.1 ++ ":" ++ toString p.2)))
def rKeys (l : List Key) : String := joinOr ";" "-" (sortStrs (l.map rKey))
def rSides (l : List (List Nat)) : String := joinOr ";" "-" (sortStrs (l.map rSide))
def rKeyMetas (l : List (Key × Meta)) : String := joinOr ";" "-" (sortStrs (l.map (fun p => rKey p.1 ++ "=" ++ rMeta p.2)))
def rKeyInts (l : List (Key × Int)) : String := joinOr ";" "-" (sortStrs (l.map (fun p => rKey p.1 ++ "=" ++ toString p.2)))
def rNodeMetas (l : List (Node × Meta)) : String := joinOr "|" "-" (sortStrs (l.map (fun p => toString p.1 ++ "=" ++ rMeta p.2)))
def rMetas (l : List Meta) : String := joinOr "|" "-" (sortStrs (l.map rMeta))
def rPairs (l : List (Nat × Nat)) : String := joinOr "," "-" (sortStrs (l.map (fun p => toString p.1 ++ ":" ++ toString p.2)))
def rInts (l : List Int) : String := joinOr "," "-" (sortStrs (l.map toString))
def rNats (l : List Nat) : String := joinOr "," "-" ((sortNats l).map toString)
def rOpt {α} (f : α → String) : Option α → String
  | some a => f a
  | none => "rej"
def rBool (b : Bool) : String := if b then "1" else "0"

/-! ### digest -/

def digestStore (s : Store) (U : Nat) (fs : List Filt) : List (String × String) :=
  let glob : List (String × String) := [
    ("nodes", rNodes (nodes s)), ("nodesmeta", rOpt rNodeMetas (nodesMeta s)),
    ("numnodes", toString (numNodes s)), ("numedges", toString (numEdges s)),
    ("sources", rSides (sources s)), ("targets", rSides (targets s)),
    ("sizes", rNats (sizes s)), ("orders", rInts (orders s)), ("distsizes", rPairs (distSizes s)),
    ("maxsize", rOpt toString (maxSize s)), ("maxorder", rOpt toString (maxOrder s)),
    ("uniform", rBool (isUniform s)), ("weighted", rBool s.weighted),
    ("allnm", rMetas (allNodesMeta s)), ("allem", rMetas (allEdgesMeta s)), ("hmeta", rMeta s.hmeta)]
  let perF : List (String × String) := fs.flatMap (fun f =>
    let t := showFilt f
    [("edges." ++ t ++ ".0", rOpt rKeys (edges s f false)), ("edges." ++ t ++ ".1", rOpt rKeys (edges s f true)),
     ("emeta." ++ t ++ ".0", rOpt rKeyMetas (edgesMeta s f false)), ("emeta." ++ t ++ ".1", rOpt rKeyMetas (edgesMeta s f true)),
     ("wdict." ++ t ++ ".0", rOpt rKeyInts (weightsDict s f false)), ("wdict." ++ t ++ ".1", rOpt rKeyInts (weightsDict s f true)),
     ("wlist." ++ t ++ ".0", rOpt rInts ((weightsDict s f false).map (·.map (·.2)))),
     ("wlist." ++ t ++ ".1", rOpt rInts ((weightsDict s f true).map (·.map (·.2)))),
     ("degseq." ++ t, rOpt rPairs (degreeSeq s f)), ("degdist." ++ t, rOpt rPairs (degreeDist s f)),
     ("indegseq." ++ t, rOpt rPairs (inDegreeSeq s f)), ("outdegseq." ++ t, rOpt rPairs (outDegreeSeq s f)),
     ("isolated." ++ t, rOpt rNodes (isolatedNodes s f))])
  let perN : List (String × String) := (List.range (U + 1)).flatMap (fun n =>
    let ns := toString n
    [("has." ++ ns, rBool (checkNode s n)), ("nm." ++ ns, rOpt rMeta (nodeMeta s n))] ++
    fs.flatMap (fun f =>
      let t := ns ++ "." ++ showFilt f
      [("src." ++ t, rOpt rKeys (sourceEdges s n f)), ("tgt." ++ t, rOpt rKeys (targetEdges s n f)),
       ("inc." ++ t, rOpt rKeys (incident s n f)), ("nb." ++ t, rOpt rNodes (neighbors s n f)),
       ("deg." ++ t, rOpt toString (degree s n f)), ("indeg." ++ t, rOpt toString (inDegree s n f)),
       ("outdeg." ++ t, rOpt toString (outDegree s n f)), ("isiso." ++ t, rOpt rBool (isIsolated s n f))]))
  glob ++ perF ++ perN

def digestSpec (s : Spec) (U : Nat) (fs : List Filt) : List (String × String) :=
  let glob : List (String × String) := [
    ("nodes", rNodes s.nodeList), ("nodesmeta", rNodeMetas s.nodes),
    ("numnodes", toString s.nodes.length), ("numedges", toString s.edges.length),
    ("sources", rSides (s.keyList.map (·.1))), ("targets", rSides (s.keyList.map (·.2))),
    ("sizes", rNats s.sizes), ("distsizes", rPairs (histogram s.sizes)),
    ("weighted", rBool s.weighted),
    ("allnm", rMetas (s.nodes.map (·.2))), ("allem", rMetas (s.edges.map (·.2.2))), ("hmeta", rMeta s.hmeta)]
  let perF : List (String × String) := fs.flatMap (fun f =>
    let t := showFilt f
    [("edges." ++ t ++ ".0", rOpt rKeys (s.edgesF f false)), ("edges." ++ t ++ ".1", rOpt rKeys (s.edgesF f true)),
     ("emeta." ++ t ++ ".0", rOpt rKeyMetas (s.edgesMetaF f false)), ("emeta." ++ t ++ ".1", rOpt rKeyMetas (s.edgesMetaF f true)),
     ("wdict." ++ t ++ ".0", rOpt rKeyInts (s.weightsDictF f false)), ("wdict." ++ t ++ ".1", rOpt rKeyInts (s.weightsDictF f true)),
     ("wlist." ++ t ++ ".0", rOpt rInts ((s.weightsDictF f false).map (·.map (·.2)))),
     ("wlist." ++ t ++ ".1", rOpt rInts ((s.weightsDictF f true).map (·.map (·.2)))),
     ("degseq." ++ t, rOpt rPairs (s.degreeSeq f)), ("degdist." ++ t, rOpt rPairs (s.degreeDist f)),
     ("indegseq." ++ t, rOpt rPairs (s.inDegreeSeq f)), ("outdegseq." ++ t, rOpt rPairs (s.outDegreeSeq f)),
     ("isolated." ++ t, rOpt rNodes (s.isolatedNodes f))])
  let perN : List (String × String) := (List.range (U + 1)).flatMap (fun n =>
    let ns := toString n
    [("has." ++ ns, rBool (AL.has s.nodes n)), ("nm." ++ ns, rOpt rMeta (s.nodeMeta n))] ++
    fs.flatMap (fun f =>
      let t := ns ++ "." ++ showFilt f
      [("src." ++ t, rOpt rKeys (s.sourceEdges n f)), ("tgt." ++ t, rOpt rKeys (s.targetEdges n f)),
       ("inc." ++ t, rOpt rKeys (s.incident n f)), ("nb." ++ t, rOpt rNodes (s.neighbors n f)),
       ("deg." ++ t, rOpt toString (s.degree n f)), ("indeg." ++ t, rOpt toString (s.inDegree n f)),
       ("outdeg." ++ t, rOpt toString (s.outDegree n f)), ("isiso." ++ t, rOpt rBool (s.isIsolated n f))]))
  glob ++ perF ++ perN

def lookupStr (l : List (String × String)) (k : String) : Option String :=
  match l with
  | [] => none
  | (a, b) :: t => if a = k then some b else lookupStr t k

/-! ### state: concrete objects and abstract objects side by side -/

structure St where
  conc : State := []
  spec : List (Nat × Spec) := []
  inc : List (Nat × IncTable) := []      -- `_incidences_metadata` of every slot (`Full` = slot of `conc` + this)

def incOf (st : St) (slot : Nat) : IncTable := (AL.get? st.inc slot).getD []

/-- the incidence tables after a base command (`Full.apply` for a call on a slot; constructor: empty; copy: copied) -/
def incAfter (st : St) (c : Cmd) (accepted : Bool) : List (Nat × IncTable) :=
  match c with
  | .new slot _ _ _ _ _ _ => if accepted then AL.set st.inc slot [] else st.inc
  | .copy a b => if accepted then AL.set st.inc b (incOf st a) else st.inc
  | .op slot o =>
    match AL.get? st.conc slot with
    | some s => AL.set st.inc slot (Full.apply { base := s, inc := incOf st slot } (.base o)).1.inc
    | none => st.inc

def rInc (t : IncTable) : String :=
  joinOr ";" "-" (sortStrs (t.map (fun p => rKey p.1.1 ++ "@" ++ toString p.1.2 ++ "=" ++ rMeta p.2)))

def showOut : Out → String | .ok => "ok" | .rej => "rej"

def doStep (st : St) (toks : List String) : St × String :=
  match toks with
  | ["dig", sl, u, fs] =>
    match sl.toNat?, u.toNat?, (fs.splitOn ",").mapM pFilt? with
    | some slot, some U, some fl =>
      match AL.get? st.conc slot, AL.get? st.spec slot with
      | some s, some sp =>
        let dc := digestStore s U fl
        let ds := digestSpec sp U fl
        let bad := ds.filter (fun p => lookupStr dc p.1 != some p.2)
        let absOk := (abs s == sp)
        (st, " ".intercalate (dc.map (fun p => p.1 ++ "=" ++ p.2)) ++
             String.join (bad.map (fun p => " !spec:" ++ p.1)) ++ (if absOk then "" else " !spec:abs"))
      | _, _ => (st, "bad-slot")
    | _, _, _ => (st, "bad-op")
  | ["reset"] => ({}, "ok")
  | ["qe", sl, e] =>
    match sl.toNat?, pEdge? e with
    | some slot, some re =>
      match AL.get? st.conc slot, AL.get? st.spec slot with
      | some s, some sp =>
        let a := rOpt rBool (checkEdge s re) ++ "|" ++ rOpt toString (getWeight s re) ++ "|" ++ rOpt rMeta (edgeMeta s re)
        let b := rOpt rBool (sp.checkEdge re) ++ "|" ++ rOpt toString (sp.getWeight re) ++ "|" ++ rOpt rMeta (sp.edgeMeta re)
        (st, a ++ (if a == b then "" else " !spec:qe"))
      | _, _ => (st, "bad-slot")
    | _, _ => (st, "bad-op")
  | ["sub", sl, u, f, up, sb, kp, md] =>
    match sl.toNat?, u.toNat?, pFilt? f, pBool? up, pBool? sb, pBool? kp, pBool? md with
    | some slot, some U, some fl, some upTo, some sub, some keep, some wm =>
      match AL.get? st.conc slot, AL.get? st.spec slot with
      | some s, some sp =>
        match getEdgesCall s fl upTo sub keep wm with
        | none => (st, "rej" ++ (if sub && ((sp.sub fl upTo keep).isSome || (sp.subHG fl upTo keep).isSome) then " !spec:sub" else ""))
        | some (.keys l) => (st, "keys=" ++ rKeys l)
        | some (.withMeta l) => (st, "emeta=" ++ rKeyMetas l)
        | some (.hg h) =>
          let dc := digestStore h U [.all]
          (st, " ".intercalate (dc.map (fun p => p.1 ++ "=" ++ p.2)) ++
               (if sp.sub fl upTo keep == some (abs h) then "" else " !spec:sub") ++
               (if sp.subHG fl upTo keep == some (abs h) then "" else " !spec:subprog"))
      | _, _ => (st, "bad-slot")
    | _, _, _, _, _, _, _ => (st, "bad-op")
  | ["setinc", sl, e, n, md] =>
    match sl.toNat?, pEdge? e, n.toNat?, pMetaD? md with
    | some slot, some re, some nd, some m =>
      match AL.get? st.conc slot, AL.get? st.spec slot with
      | some s, some sp =>
        let r := Full.apply { base := s, inc := incOf st slot } (.setInc re nd m)
        let q := FSpec.apply { base := sp, inc := incOf st slot } (.setInc re nd m)
        ({ st with inc := AL.set st.inc slot r.1.inc },
          showOut r.2 ++ (if r.2 == q.2 && fabs r.1 == { q.1 with base := abs s } then "" else " !spec:inc"))
      | _, _ => (st, "bad-slot")
    | _, _, _, _ => (st, "bad-op")
  | ["getinc", sl, e, n] =>
    match sl.toNat?, pEdge? e, n.toNat? with
    | some slot, some re, some nd =>
      match AL.get? st.conc slot, AL.get? st.spec slot with
      | some s, some sp =>
        let a := Full.getInc { base := s, inc := incOf st slot } re nd
        let b := FSpec.getInc { base := sp, inc := incOf st slot } re nd
        (st, rOpt rMeta a ++ (if a == b then "" else " !spec:inc"))
      | _, _ => (st, "bad-slot")
    | _, _, _ => (st, "bad-op")
  | ["allinc", sl] =>
    match sl.toNat? with
    | some slot => (st, rInc (Full.allInc { base := (AL.get? st.conc slot).getD {}, inc := incOf st slot }))
    | none => (st, "bad-op")
  | ["rawecho", sl, what] =>
    match sl.toNat? with
    | some slot =>
      match AL.get? st.conc slot with
      | some s =>
        let x : Full := { base := s, inc := incOf st slot }
        let op? : Option RawOp :=
          if what = "el" then some (.setEL (getEdgeList s))
          else if what = "as" then some (.setAdj true (getAdjDict s true))
          else if what = "at" then some (.setAdj false (getAdjDict s false))
          else if what = "pop" then some (.pop (expose s))
          else none
        match op? with
        | some o =>
          let y := rawStep x o
          ({ st with conc := AL.set st.conc slot y.base, inc := AL.set st.inc slot y.inc },
            (if o.echo x then "ok" else "noecho") ++ (if y == pubRun x (pubOps [o]) then "" else " !pub"))
        | none => (st, "bad-op")
      | none => (st, "bad-slot")
    | none => (st, "bad-op")
  | ["mapping", sl] =>
    match sl.toNat? with
    | some slot =>
      match AL.get? st.conc slot, AL.get? st.spec slot with
      | some s, some sp =>
        (st, joinOr "," "-" ((mapping s).map toString) ++ (if mapping s == sp.mapping then "" else " !spec:mapping"))
      | _, _ => (st, "bad-slot")
    | none => (st, "bad-op")
  | ["indexof", sl, n] =>
    match sl.toNat?, n.toNat? with
    | some slot, some nd =>
      match AL.get? st.conc slot with
      | some s =>
        match indexOf? s nd with
        | some i => (st, toString i ++ (if labelOf? s i == some nd then "" else " !inv"))
        | none => (st, "rej")
      | none => (st, "bad-slot")
    | _, _ => (st, "bad-op")
  | ["raw", sl] =>
    match sl.toNat? with
    | some slot =>
      match AL.get? st.conc slot with
      | some s =>
        let t := expose s
        let rIds (l : List Nat) : String := joinOr "," "-" (l.map toString)
        let rAdj (a : Adj) : String := joinOr "|" "-" (a.map (fun p => toString p.1 ++ "=" ++ rIds p.2))
        let sp := strParts s
        (st, " ".intercalate [
          "w=" ++ rBool t.weighted, "next=" ++ toString t.nextId,
          "el=" ++ joinOr ";" "-" (t.edgeList.map (fun p => rKey p.1 ++ "=" ++ toString p.2)),
          "rev=" ++ joinOr ";" "-" (t.reverse.map (fun p => toString p.1 ++ "=" ++ rKey p.2)),
          "wt=" ++ joinOr ";" "-" (t.weights.map (fun p => toString p.1 ++ "=" ++ toString p.2)),
          "em=" ++ joinOr ";" "-" (t.edgeMeta.map (fun p => toString p.1 ++ "=" ++ rMeta p.2)),
          "as=" ++ rAdj t.adjSource, "at=" ++ rAdj t.adjTarget,
          "nm=" ++ joinOr "|" "-" (t.nodeMeta.map (fun p => toString p.1 ++ "=" ++ rMeta p.2)),
          "hm=" ++ rMeta t.hmeta,
          "gel=" ++ joinOr ";" "-" ((getEdgeList s).map (fun p => rKey p.1 ++ "=" ++ toString p.2)),
          "gas=" ++ rAdj (getAdjDict s true), "gat=" ++ rAdj (getAdjDict s false),
          "len=" ++ toString (len s), "isw=" ++ rBool (isWeighted s),
          "iter=" ++ joinOr ";" "-" ((iterItems s).map (fun p => rKey p.1 ++ "=" ++ toString p.2)),
          "str=" ++ toString sp.1 ++ "/" ++ toString sp.2.1 ++ "/" ++ rPairs sp.2.2])
      | none => (st, "bad-slot")
    | none => (st, "bad-op")
  | _ =>
    match parseCmd toks with
    | none => (st, "bad-op")
    | some c =>
      let r := step st.conc c
      let q := Spec.step st.spec c
      let extra : String :=
        match c with
        | .new slot w hm nm es ws mds =>
          let viaCalls := runOk (ctorInit w hm) (ctorCalls nm es ws mds)
          let obj := ctor w hm nm es ws mds
          (if (obj.2 == .ok) == viaCalls.isSome && (obj.2 == .rej || viaCalls == some obj.1) &&
              (obj.2 == .rej || AL.get? r.1 slot == viaCalls) then "" else " !calls") ++
          (if (obj.2 == .rej) == ctorRejArgs es ws mds then "" else " !rejargs")
        | _ => ""
      ({ conc := r.1, spec := q.1, inc := incAfter st c (r.2 == .ok) },
        showOut r.2 ++ (if r.2 == q.2 then "" else " !spec:out") ++ extra)

def main : IO Unit := Wire.run doStep {}
