import Hgxv.Model.Wire
import Hgxv.Model.C13
import Hgxv.Model.C13Ext
/-! Line protocol for C13 (stateless).
  `cm <e|s> <detailed 0|1> <size|-1> <nSteps> <edges natss> <draws natss>`
        draws: a 2-element inner list `i,j` is `Draw.idx i j`, a 1-element list `0`/`1` is `Draw.coin`
        -> `ok <edges natss>` (model order) | `raise` | `diverge` | `baddraw`
  `dcm <sources natss> <targets natss> <draws nats>`
        -> `ok <sources natss> <targets natss>` | `raise` | `diverge` | `baddraw`
  `cmx <e|s> <detailed 0|1> <order|-1> <size|-1> <nSteps> <edges natss> <draws natss>`   (entry point + report)
        -> `ok <edges natss> <nodes nats> <randint calls> <rand calls> <draws left>` | `raise` | `diverge` | `baddraw`
  `dcmx <sources natss> <targets natss> <draws nats>`
        -> `ok <sources natss> <targets natss> <nodes nats> <draws of the source loop> <of the target loop> <left>` | ...
  `degk <edges natss> <n> <k>` -> number;  `deg <edges natss> <n>` -> number -/
open Wire C13

def draw? : List Nat → Option Draw
  | [i, j] => some (.idx i j)
  | [0] => some (.coin false)
  | [1] => some (.coin true)
  | _ => none

def showErr : Err → String
  | .raise => "raise" | .diverge => "diverge" | .badDraw => "baddraw"

def sizeArg (s : String) : Option Nat := match s.toInt? with
  | some i => if i < 0 then none else some i.toNat
  | none => none

def label? : String → Option Label
  | "e" => some .edge | "s" => some .stub | _ => none

def step (_ : Unit) : List String → Unit × String
  | ["cm", lab, det, size, n, edges, draws] =>
    match label? lab, nat? det, nat? n, natss? edges, (natss? draws).bind (·.mapM draw?) with
    | some l, some d, some n, some es, some ds =>
      match configurationModel l (d != 0) (sizeArg size) n es ds with
      | .ok out => ((), "ok " ++ showNatss out)
      | .error e => ((), showErr e)
    | _, _, _, _, _ => ((), "bad-op")
  | ["dcm", src, tgt, draws] =>
    match natss? src, natss? tgt, nats? draws with
    | some a, some b, some ds =>
      if a.length != b.length then ((), "bad-op") else
      match directedCM (a.zip b) ds with
      | .ok out => ((), "ok " ++ showNatss (out.map (·.1)) ++ " " ++ showNatss (out.map (·.2)))
      | .error e => ((), showErr e)
    | _, _, _ => ((), "bad-op")
  | ["cmx", lab, det, order, size, n, edges, draws] =>
    match label? lab, nat? det, nat? n, natss? edges, (natss? draws).bind (·.mapM draw?) with
    | some l, some d, some n, some es, some ds =>
      match cmReport l (d != 0) (sizeArg order) (sizeArg size) n es ds with
      | .ok r => ((), "ok " ++ showNatss r.edges ++ " " ++ showNats r.nodes ++ " " ++ toString r.idx ++ " "
                        ++ toString r.coins ++ " " ++ toString r.left)
      | .error e => ((), showErr e)
    | _, _, _, _, _ => ((), "bad-op")
  | ["dcmx", src, tgt, draws] =>
    match natss? src, natss? tgt, nats? draws with
    | some a, some b, some ds =>
      if a.length != b.length then ((), "bad-op") else
      match dcmReport (a.zip b) ds with
      | .ok r => ((), "ok " ++ showNatss (r.edges.map (·.1)) ++ " " ++ showNatss (r.edges.map (·.2)) ++ " "
                        ++ showNats r.nodes ++ " " ++ toString r.usedSrc ++ " " ++ toString r.usedTgt ++ " "
                        ++ toString r.left)
      | .error e => ((), showErr e)
    | _, _, _ => ((), "bad-op")
  | ["degk", edges, n, k] =>
    match natss? edges, nat? n, nat? k with
    | some es, some n, some k => ((), toString (degK es n k))
    | _, _, _ => ((), "bad-op")
  | ["deg", edges, n] =>
    match natss? edges, nat? n with
    | some es, some n => ((), toString (deg es n))
    | _, _ => ((), "bad-op")
  | _ => ((), "bad-op")

def main : IO Unit := Wire.run step ()
