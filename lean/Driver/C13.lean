import Hgxv.Model.Wire
import Hgxv.Model.C13
import Hgxv.Model.C13Ext
import Hgxv.Model.C13Obj
/-! Line protocol for C13 (stateless).
  `cm <e|s> <detailed 0|1> <size|-1> <nSteps> <edges natss> <draws natss>`
        draws: a 2-element inner list `i,j` is `Draw.idx i j`, a 1-element list `0`/`1` is `Draw.coin`
        -> `ok <edges natss>` (model order) | `raise` | `diverge` | `baddraw`
  `dcm <sources natss> <targets natss> <draws nats>`
        -> `ok <sources natss> <targets natss>` | `raise` | `diverge` | `baddraw`
  `cmx <e|s> <detailed 0|1> <order|-1> <size|-1> <nSteps> <edges natss> <draws natss>`   (entry point + report)
        -> `ok <edges natss> <nodes nats> <randint calls> <rand calls> <draws left>` | `raise` | `diverge` | `baddraw`
  `dcmx <sources natss> <targets natss> <draws nats>`
        -> `ok <sources natss> <targets natss> <nodes nats> <draws of the source loop> <of the target loop> <left>` | ...
  `cmo <e|s|o> <detailed 0|1> <order int|n> <size int|n> <nSteps int> <weighted 0|1> <edges natss> <weights nats>
       <edge metadata codes nats> <nodes nats> <node metadata codes nats> <hypergraph metadata code> <draws natss>`
        (Model/C13Obj.lean: integer arguments, unknown label `o`, the object with weights and metadata)
        -> `ok none <draws left>` | `ok obj <weighted> <edges natss> <weights nats> <edge metadata nats> <nodes nats>
           <node metadata nats> <hypergraph metadata> <draws left>` | `raise` | `diverge` | `baddraw`
  `degk <edges natss> <n> <k>` -> number;  `deg <edges natss> <n>` -> number -/
open Wire C13

def draw? : List Nat → Option Draw
  | [i, j] => some (.idx i j)
  | [0] => some (.coin false)
  | [1] => some (.coin true)
  | _ => none

def showErr : Err → String
  | .raise => "raise" | .diverge => "diverge" | .badDraw => "baddraw"

def sizeArg (s : String) : Option Nat := match s.toInt? with
  | some i => if i < 0 then none else some i.toNat
  | none => none

def label? : String → Option Label
  | "e" => some .edge | "s" => some .stub | _ => none

def optInt? (s : String) : Option (Option Int) :=
  if s == "n" then some none else (s.toInt?).map some

def labelX? : String → Option LabelX
  | "e" => some (.known .edge) | "s" => some (.known .stub) | "o" => some .other | _ => none

def showObj (o : Obj) : String :=
  showBool o.weighted ++ " " ++ showNatss (o.items.map (·.1)) ++ " " ++ showNats (o.items.map (·.2.1)) ++ " "
    ++ showNats (o.items.map (·.2.2)) ++ " " ++ showNats (o.nodeMeta.map (·.1)) ++ " "
    ++ showNats (o.nodeMeta.map (·.2)) ++ " " ++ toString o.hmeta

def stepObj : List String → Option String
  | [lab, det, order, size, n, wtd, edges, ws, ems, nodes, nms, hm, draws] =>
    match labelX? lab, nat? det, optInt? order, optInt? size, int? n, nat? wtd, natss? edges, nats? ws, nats? ems,
          nats? nodes, nats? nms, nat? hm, (natss? draws).bind (·.mapM draw?) with
    | some l, some d, some o, some sz, some n, some wtd, some es, some ws, some ems, some nodes, some nms, some hm, some ds =>
      if es.length != ws.length || es.length != ems.length || nodes.length != nms.length then none else
      let h : Obj := { weighted := wtd != 0, items := es.zip (ws.zip ems), nodeMeta := nodes.zip nms, hmeta := hm }
      match cmObj l (d != 0) o sz n h ds with
      | .ok (none, left) => some ("ok none " ++ toString left.length)
      | .ok (some r, left) => some ("ok obj " ++ showObj r ++ " " ++ toString left.length)
      | .error e => some (showErr e)
    | _, _, _, _, _, _, _, _, _, _, _, _, _ => none
  | _ => none

def step (_ : Unit) : List String → Unit × String
  | ["cm", lab, det, size, n, edges, draws] =>
    match label? lab, nat? det, nat? n, natss? edges, (natss? draws).bind (·.mapM draw?) with
    | some l, some d, some n, some es, some ds =>
      match configurationModel l (d != 0) (sizeArg size) n es ds with
      | .ok out => ((), "ok " ++ showNatss out)
      | .error e => ((), showErr e)
    | _, _, _, _, _ => ((), "bad-op")
  | ["dcm", src, tgt, draws] =>
    match natss? src, natss? tgt, nats? draws with
    | some a, some b, some ds =>
      if a.length != b.length then ((), "bad-op") else
      match directedCM (a.zip b) ds with
      | .ok out => ((), "ok " ++ showNatss (out.map (·.1)) ++ " " ++ showNatss (out.map (·.2)))
      | .error e => ((), showErr e)
    | _, _, _ => ((), "bad-op")
  | ["cmx", lab, det, order, size, n, edges, draws] =>
    match label? lab, nat? det, nat? n, natss? edges, (natss? draws).bind (·.mapM draw?) with
    | some l, some d, some n, some es, some ds =>
      match cmReport l (d != 0) (sizeArg order) (sizeArg size) n es ds with
      | .ok r => ((), "ok " ++ showNatss r.edges ++ " " ++ showNats r.nodes ++ " " ++ toString r.idx ++ " "
                        ++ toString r.coins ++ " " ++ toString r.left)
      | .error e => ((), showErr e)
    | _, _, _, _, _ => ((), "bad-op")
  | ["dcmx", src, tgt, draws] =>
    match natss? src, natss? tgt, nats? draws with
    | some a, some b, some ds =>
      if a.length != b.length then ((), "bad-op") else
      match dcmReport (a.zip b) ds with
      | .ok r => ((), "ok " ++ showNatss (r.edges.map (·.1)) ++ " " ++ showNatss (r.edges.map (·.2)) ++ " "
                        ++ showNats r.nodes ++ " " ++ toString r.usedSrc ++ " " ++ toString r.usedTgt ++ " "
                        ++ toString r.left)
      | .error e => ((), showErr e)
    | _, _, _ => ((), "bad-op")
  | "cmo" :: rest => ((), (stepObj rest).getD "bad-op")
  | ["degk", edges, n, k] =>
    match natss? edges, nat? n, nat? k with
    | some es, some n, some k => ((), toString (degK es n k))
    | _, _, _ => ((), "bad-op")
  | ["deg", edges, n] =>
    match natss? edges, nat? n with
    | some es, some n => ((), toString (deg es n))
    | _, _ => ((), "bad-op")
  | _ => ((), "bad-op")

def main : IO Unit := Wire.run step ()
