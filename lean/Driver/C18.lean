import Hgxv.Model.Wire
import Hgxv.Model.C18
/-! Line protocol for C18.  State: the current hypergraph (`N`, hyperedges).
  `load N <edges natss>`                               -> `ok`
  `tm`                                                 -> `rej` (not connected) | `nan` (a zero row sum) | K as ratss
  `stat`                                               -> `rej` | `nan` | π as rats
  `dens <s rats> <time>`                               -> `rej` | `nan` | the time+1 densities as ratss
  `walk <start> <choices nats>`                        -> `rej` | `nan` | `bad` (choice of probability 0) | nodes
  `cont <nodes> <keys> <infected> <T> <β> <β_D> <μ> <draws rats>`
        -> `<counts nats> <fractions rats> <draws consumed>`   (`rej` when T = 0 or no keys)
  `spread <nodes> <keys> <infected> <T> <β> <β_D> <μ>` -> counts of the iterated closed-form spreading
  extension round:
  `kpow <t>`                      -> `rej` | `nan` | K ** t as ratss
  `denst <s rats> <t>`            -> `rej` | `nan` | s @ (K ** t) as rats
  `rwd <s rats> <time>`           -> `rej` (np.isclose(sum(s), 1) fails or not connected) | `nan` | the densities
  `walku <start> <uniforms rats>` -> `rej` | `nan` | the walk driven by the inverse-cdf sampler
  `cstates <args of cont>`        -> the infected keys after each of the T-1 sweeps as natss -/
open Wire C18

structure St where
  N : Nat := 0
  es : List Edge := []

def guarded (s : St) (k : Unit → String) : String :=
  if !connectedB s.es s.N then "rej" else if !rowsPositive s.es s.N then "nan" else k ()

def ofList (l : List Rat) : Nat → Rat := fun n => l.getD n 0
def memB (l : List Nat) : Nat → Bool := fun n => l.contains n

def step (s : St) : List String → St × String
  | ["load", n, es] =>
    match nat? n, natss? es with
    | some n, some es => ({ N := n, es := es }, "ok")
    | _, _ => (s, "bad-op")
  | ["tm"] =>
    (s, guarded s fun _ => match transitionMatrix s.es s.N with
      | some K => showRatss K
      | none => "rej")
  | ["stat"] =>
    (s, guarded s fun _ => match stationary s.es s.N with
      | some v => showRats v
      | none => "rej")
  | ["dens", v, t] =>
    match rats? v, nat? t with
    | some v, some t => (s, guarded s fun _ => (if v.length = s.N then showRatss (densityList s.es s.N t v) else "rej"))
    | _, _ => (s, "bad-op")
  | ["walk", a, cs] =>
    match nat? a, nats? cs with
    | some a, some cs => (s, guarded s fun _ => match walk s.es s.N a cs with
        | some ns => showNats ns
        | none => "bad")
    | _, _ => (s, "bad-op")
  | ["kpow", t] =>
    match nat? t with
    | some t => (s, guarded s fun _ => showRatss (kPowMat s.es s.N t))
    | _ => (s, "bad-op")
  | ["denst", v, t] =>
    match rats? v, nat? t with
    | some v, some t => (s, guarded s fun _ => (if v.length = s.N then showRats (densityAt s.es s.N t v) else "rej"))
    | _, _ => (s, "bad-op")
  | ["rwd", v, t] =>
    match rats? v, nat? t with
    | some v, some t =>
      (s, if v.length ≠ s.N then "rej" else
        match randomWalkDensity s.es s.N v t with
        | none => "rej"
        | some L => if !rowsPositive s.es s.N then "nan" else showRatss L)
    | _, _ => (s, "bad-op")
  | ["walku", a, us] =>
    match nat? a, rats? us with
    | some a, some us => (s, guarded s fun _ => showNats (walkU s.es s.N a us))
    | _, _ => (s, "bad-op")
  | ["cstates", nodes, keys, inf, t, b, bd, mu, draws] =>
    match nats? nodes, nats? keys, nats? inf, nat? t, rat? b, rat? bd, rat? mu, rats? draws with
    | some nodes, some keys, some inf, some t, some b, some bd, some mu, some draws =>
      if t = 0 || keys.isEmpty then (s, "rej") else
      let r : Rates := { beta := b, betaD := bd, mu := mu }
      (s, showNatss (infectedSets s.es nodes keys r (ofList draws) (memB inf) t))
    | _, _, _, _, _, _, _, _ => (s, "bad-op")
  | ["cont", nodes, keys, inf, t, b, bd, mu, draws] =>
    match nats? nodes, nats? keys, nats? inf, nat? t, rat? b, rat? bd, rat? mu, rats? draws with
    | some nodes, some keys, some inf, some t, some b, some bd, some mu, some draws =>
      if t = 0 || keys.isEmpty then (s, "rej") else
      let r : Rates := { beta := b, betaD := bd, mu := mu }
      let f := ofList draws
      let I0 := memB inf
      (s, showNats (counts s.es nodes keys r f I0 t) ++ " " ++ showRats (fractions s.es nodes keys r f I0 t)
          ++ " " ++ toString (consumed s.es nodes keys r f I0 t))
    | _, _, _, _, _, _, _, _ => (s, "bad-op")
  | ["spread", nodes, keys, inf, t, b, bd, mu] =>
    match nats? nodes, nats? keys, nats? inf, nat? t, rat? b, rat? bd, rat? mu with
    | some nodes, some keys, some inf, some t, some b, some bd, some mu =>
      if t = 0 then (s, "rej") else
      let r : Rates := { beta := b, betaD := bd, mu := mu }
      (s, showNats (infected keys (memB inf) :: spreadCounts s.es nodes keys r (t - 1) (memB inf)))
    | _, _, _, _, _, _, _ => (s, "bad-op")
  | _ => (s, "bad-op")

def main : IO Unit := Wire.run step {}
