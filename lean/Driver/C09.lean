import Hgxv.Model.Wire
import Hgxv.Model.C09
import Hgxv.Model.C09Ext
/-! Line protocol for C09 (the model runs over `Rat`).
  `load <nodes> <edges as natss> <weights as rats>`   -> `ok`        (static hypergraph)
  `mapping`                                            -> `i:label,...`
  `bininc` | `inc` | `adj` | `dual`                    -> matrix (`;` rows, `,` entries)
  `incord d k` | `mapord d k` | `adjord d` | `deg d` | `lap d` | `laps d`
  `hye <N,E|-> <hyperedges as natss>`                -> matrix of `hye_list_to_binary_incidence`, or `rej`
  `tensor N`                                           -> values in row-major order, or `rej`
  `tload <times> <edges as natss> <weights as rats>`  -> `ok`        (temporal records)
  `ttimes` | `tadj t` | `tmap t` | `tadjord d t`
  extension round (loops over the orders):
  `maxord`                      -> `max_order()` or `rej`
  `incall k` | `lapall f`       -> `d=matrix|d=matrix...` for `d = 1..max_order` (`empty` for none), or `rej`
  `mlap <sigmas as rats> ow dw` -> matrix | `zero` (the integer 0) | `undef` (1/0 average degree) | `rej`
  `tadjall <max_order|->`       -> `d@t=matrix|...`, or `rej`
  second extension round:
  `annall`                      -> keys of `annealed_adjacency_matrices_all_orders` (`-` for none), or `rej`
  `annord d`                    -> its matrix of order `d`, or `rej`
  `afac t`                      -> `adjacency_factor(h, t)` as `label:value,...`
  `dualhyes` | `dualinc`        -> index hyperedges of the dual hypergraph | its binary incidence matrix (shape E x N) or `rej`  -/
open Wire C09

structure St where
  nodes : List Nat := []
  es : List (Edge × Rat) := []
  recs : List (Rec Rat) := []

def showMap (m : List (Nat × Nat)) : String :=
  showList "," "-" (fun (p : Nat × Nat) => toString p.1 ++ ":" ++ toString p.2) m

def showDict (l : List (Nat × List (List Rat))) : String :=
  showList "|" "empty" (fun (p : Nat × List (List Rat)) => toString p.1 ++ "=" ++ showRatss p.2) l

def showDict2 (l : List (Nat × List (Nat × List (List Rat)))) : String :=
  showList "|" "empty" (fun (q : Nat × Nat × List (List Rat)) => toString q.1 ++ "@" ++ toString q.2.1 ++ "=" ++ showRatss q.2.2)
    (l.flatMap fun p => p.2.map fun tm => (p.1, tm.1, tm.2))

def edges (s : St) : List Edge := s.es.map (·.1)

def step (s : St) : List String → St × String
  | ["load", nodes, es, ws] =>
    match nats? nodes, natss? es, rats? ws with
    | some n, some e, some w =>
      if e.length = w.length then ({ s with nodes := n, es := e.zip w }, "ok") else (s, "bad-op")
    | _, _, _ => (s, "bad-op")
  | ["tload", ts, es, ws] =>
    match nats? ts, natss? es, rats? ws with
    | some t, some e, some w =>
      if e.length = w.length ∧ t.length = e.length then ({ s with recs := t.zip (e.zip w) }, "ok") else (s, "bad-op")
    | _, _, _ => (s, "bad-op")
  | ["hye", shp, hy] =>
    match natss? hy with
    | some h =>
      let shape : Option (Nat × Nat) := match nats? shp with
        | some [n, e] => some (n, e)
        | _ => none
      match (hyeBinInc h shape : Option (List (List Rat))) with
      | none => (s, "rej")
      | some m => (s, showRatss m)
    | none => (s, "bad-op")
  | ["mapping"] => (s, showMap (mapping s.nodes))
  | ["bininc"] => (s, showRatss (binInc s.nodes (edges s)))
  | ["inc"] => (s, showRatss (inc s.nodes s.es))
  | ["adj"] => (s, showRatss (adj s.nodes (edges s)))
  | ["dual"] => (s, showRatss (dual s.nodes (edges s)))
  | ["incord", d, k] => (s, showRatss (incByOrder d.toNat! (k == "1") s.nodes s.es))
  | ["mapord", d, k] => (s, showMap (mappingByOrder d.toNat! (k == "1") s.nodes s.es))
  | ["adjord", d] => (s, showRatss (adjByOrder d.toNat! s.nodes s.es))
  | ["deg", d] => (s, showRatss (degMatrix d.toNat! s.nodes s.es))
  | ["lap", d] => (s, showRatss (laplacian d.toNat! s.nodes s.es))
  | ["laps", d] => (s, showRatss (laplacianScaled d.toNat! s.nodes s.es))
  | ["tensor", n] =>
    match (tensor n.toNat! (edges s) : Option (List (List Nat × Rat))) with
    | none => (s, "rej")
    | some t => (s, showRats (t.map (·.2)))
  | ["maxord"] => (s, match maxOrder s.es with | none => "rej" | some m => toString m)
  | ["incall", k] => (s, match incAllOrders (k == "1") s.nodes s.es with | none => "rej" | some l => showDict l)
  | ["lapall", f] => (s, match lapAllOrders (f == "1") s.nodes s.es with | none => "rej" | some l => showDict l)
  | ["mlap", sg, ow, dw] =>
    match rats? sg with
    | some sig =>
      match multiorderLaplacian sig (ow == "1") (dw == "1") s.nodes s.es with
      | none => (s, "rej")
      | some MultiLap.noMatrix => (s, "zero")
      | some MultiLap.undefScale => (s, "undef")
      | some (MultiLap.mat m) => (s, showRatss m)
    | none => (s, "bad-op")
  | ["tadjall", mo] =>
    (s, match temporalAdjAllOrders (if mo == "-" then none else some mo.toNat!) s.recs with
        | none => "rej" | some l => showDict2 l)
  | ["annall"] => (s, match annealedAllOrders s.recs with | none => "rej" | some l => showNats (l.map (·.1)))
  | ["annord", d] => (s, match annealedOne d.toNat! s.recs with | none => "rej" | some m => showRatss m)
  | ["afac", t] => (s, showList "," "-" (fun (p : Nat × Rat) => toString p.1 ++ ":" ++ showRat p.2)
      (adjFactor t.toNat! s.nodes (edges s)))
  | ["dualhyes"] => (s, showNatss (dualHyes s.nodes (edges s)))
  | ["dualinc"] => (s, match (dualInc s.nodes (edges s) : Option (List (List Rat))) with | none => "rej" | some m => showRatss m)
  | ["ttimes"] => (s, showNats (times s.recs))
  | ["tadj", t] => (s, showRatss (temporalAdj s.recs t.toNat!))
  | ["tmap", t] => (s, showMap (mapping (snapshotNodes s.recs t.toNat!)))
  | ["tadjord", d, t] => (s, showRatss (temporalAdjByOrder d.toNat! s.recs t.toNat!))
  | _ => (s, "bad-op")

def main : IO Unit := Wire.run step {}
