import Hgxv.Model.Wire
import Hgxv.Model.C16
import Hgxv.Model.C16Ext
import Hgxv.Model.C16Deg
import Hgxv.Model.C16Run
import Hgxv.Model.C16Guard
import Hgxv.Model.C16Trunc
/-! Line protocol for C16 (every line carries its whole input; the only state is the sampler-state record
`C16.Sampler` used by `new` / `call...`: the other commands leave it alone).

  `reshuffle h1 h2 pick`                                   -> `new1;new2` (each sorted) | `none`
  `chain cfg fixed burn thins`                             -> yields `cfg|cfg|...` | `none`
        a step is `i,j,accept,pick...`; `burn` a `;`-list of steps; `thins` a `|`-list of such lists
  `dict degSeq`                                            -> `deg,node,node;...` in insertion order
  `extract keys resid size fd fm picks`                    -> `hye keys resid exhausted unused` | `none`
  `match degSeq dimSeq fd fm picks`                        -> `cfg flag keys resid unused` | `none`
        `dimSeq` is a `;`-list of `size,count`
  `output cfg weights labels|-`                            -> `w,node,...;...` | `none`
  `outd cfg quantiles labels|-`                            -> `w,node,...;...` | `none`   output stage on a chain state that may hold
        hyperedges with fewer than two nodes (nan mean -> non-positive weight): `outputStageD`
  `fromhygD labels edges burn thins quantiles`             -> `out|out|...` | `none`   whole run `sample(initial_hyg=h)` for a
        hypergraph that may hold hyperedges with fewer than two nodes: `sampleFromHygD` (one model run, no hypothesis on sizes)
  `guard N degSeq dimSeq`                                  -> `ok` | `badShape` | `badDim`   the two `assert`s of
        `_sampling_from_sequences` before `_match_sequences` (`argGuard`)
  `setstate -|0|1`                                         -> `ok`; the sampler state becomes that value of `matching_sequences`
  `callseqsN N degSeq dimSeq picks burn thins quantiles`   -> like `callseqs`, argument checks included (`callStepG`): a refused
        call answers `none state` with the state untouched
  `tpois u e pmax cdf0,cdf1,...`                           -> draw | `none`   one draw of `sample_truncated_poisson` by the
        inverse-cdf scheme on exact rationals (`truncDrawTab`): `e` = exp(-rate), the table = Poisson cdf at 0, 1, ...
  `trunc quantiles`                                        -> weights (`np.maximum(quantile, 1)`)
  `fromhyg labels edges burn thins quantiles`              -> `out|out|...` | `none`
  `fromhygQ labels edges burn thins quantiles`             -> `out|out|...` | `none`   labels are rationals `p/q` (any number:
        negative and huge integers, floats and fractions by their exact value): `sampleFromHygG` at `α = Rat`
  `fromhygS labels edges burn thins quantiles`             -> likewise, labels are opaque tokens (strings, hex-coded):
        `sampleFromHygG` at `α = String`
  `fromseqs degSeq dimSeq fd fm fixed picks burn thins quantiles` -> `flag out|out|...` | `none`
        `quantiles`: per sample the Poisson quantiles of `sample_truncated_poisson` (the weights are clamped to >= 1)
  `new`                                                    -> `ok`; the state becomes a sampler that has just been built
  `callhyg labels edges burn thins quantiles`              -> `report state out|out|...` | `none state`
  `callseqs degSeq dimSeq picks burn thins quantiles`      -> likewise     (`sample(deg_seq, dim_seq)`)
  `callmodel degSeq dimSeq dyads picks burn thins quantiles` -> likewise   (`sample()`; sequences / dyads of the inner model)
  `calldeg degSeq dimSeq picks burn thins quantiles`       -> likewise     (`sample(deg_seq=d)`; `dimSeq` drawn by the inner model)
  `calldim degSeq dimSeq picks burn thins quantiles`       -> likewise     (`sample(dim_seq=m)`; `degSeq` drawn by the inner model)
        one `sample(...)` call on the sampler in the current state (`callStepX`, all five kinds of arguments); `report` =
        the report `matching_sequences` made by this call (`-` none, `0`, `1`), `state` = the attribute after the call -
        also after a call that raised inside `_match_sequences` (`none state`)
  `matchr degSeq dimSeq fd fm picks`                       -> `done cfg flag keys resid unused` | `raised state`
        `_match_sequences` for all four flag pairs with its error path (`matchFull`); `state` = `matching_sequences`
        after the exception (`-` None, `0` False) -/
open Wire C16

def stepOf? : List Nat → Option StepDraw
  | i :: j :: a :: pick => some ⟨i, j, pick, a != 0⟩
  | _ => none

def steps? (s : String) : Option (List StepDraw) := (natss? s).bind (·.mapM stepOf?)
def blocks? (s : String) : Option (List (List StepDraw)) := (natsss? s).bind (·.mapM (·.mapM stepOf?))

def pairs? (s : String) : Option (List (Nat × Nat)) :=
  (natss? s).bind (·.mapM (fun l => match l with | [a, b] => some (a, b) | _ => none))

def showCfg (c : Config) : String := showNatss (c.map canon)
def showCfgs (l : List Config) : String := showList "|" "-" (fun c => showList ";" "_" (showList "," "_" toString) (c.map canon)) l
def showOut (o : List (Hye × Nat)) : String :=
  showList ";" "_" (fun (p : Hye × Nat) => showList "," "_" toString (p.2 :: p.1)) o
def showOuts (l : List (List (Hye × Nat))) : String := showList "|" "-" showOut l
def showOutG {α} (sh : α → String) (o : List (List α × Nat)) : String :=
  showList ";" "_" (fun (p : List α × Nat) => showList "," "_" id (toString p.2 :: p.1.map sh)) o
def showOutsG {α} (sh : α → String) (l : List (List (List α × Nat))) : String := showList "|" "-" (showOutG sh) l
def strs? (s : String) : Option (List String) := listOf? "," "-" some s
def strss? (s : String) : Option (List (List String)) := listOf? ";" "-" (listOf? "," "_" some) s
def flag? (s : String) : Option Bool := match s with | "1" => some true | "0" => some false | _ => none
def labels? (s : String) : Option (Option (List Nat)) := if s = "-" then some none else (nats? s).map some

def showFlag : Option Bool → String
  | none => "-"
  | some b => showBool b

def doCall (s : Sampler) (c : CallX) : Sampler × String :=
  match callStepX s c with
  | (s', some r) => (s', s!"{showFlag r.report} {showFlag s'.flag} {showOuts r.outs}")
  | (s', none) => (s', s!"none {showFlag s'.flag}")

def callOf? : List String → Option CallX
  | ["callhyg", l, e, b, t, w] =>
    match nats? l, natss? e, steps? b, blocks? t, natss? w with
    | some labels, some edges, some burn, some thins, some ws =>
      some ⟨.hyg labels edges, ⟨[], burn, thins, ws⟩, ⟨[], [], []⟩⟩
    | _, _, _, _, _ => none
  | ["callseqs", d, m, p, b, t, w] =>
    match nats? d, pairs? m, natss? p, steps? b, blocks? t, natss? w with
    | some degSeq, some dimSeq, some picks, some burn, some thins, some ws =>
      some ⟨.seqs degSeq dimSeq, ⟨picks, burn, thins, ws⟩, ⟨[], [], []⟩⟩
    | _, _, _, _, _, _ => none
  | ["callmodel", d, m, f, p, b, t, w] =>
    match nats? d, pairs? m, natss? f, natss? p, steps? b, blocks? t, natss? w with
    | some degSeq, some dimSeq, some dyads, some picks, some burn, some thins, some ws =>
      some ⟨.model, ⟨picks, burn, thins, ws⟩, ⟨degSeq, dimSeq, dyads⟩⟩
    | _, _, _, _, _, _, _ => none
  | ["calldeg", d, m, p, b, t, w] =>
    match nats? d, pairs? m, natss? p, steps? b, blocks? t, natss? w with
    | some degSeq, some dimSeq, some picks, some burn, some thins, some ws =>
      some ⟨.degOnly degSeq, ⟨picks, burn, thins, ws⟩, ⟨[], dimSeq, []⟩⟩
    | _, _, _, _, _, _ => none
  | ["calldim", d, m, p, b, t, w] =>
    match nats? d, pairs? m, natss? p, steps? b, blocks? t, natss? w with
    | some degSeq, some dimSeq, some picks, some burn, some thins, some ws =>
      some ⟨.dimOnly dimSeq, ⟨picks, burn, thins, ws⟩, ⟨degSeq, [], []⟩⟩
    | _, _, _, _, _, _ => none
  | _ => none

def stateless (_ : Unit) : List String → Unit × String
  | ["reshuffle", a, b, p] =>
    match nats? a, nats? b, nats? p with
    | some h1, some h2, some pick =>
      match pairReshuffle h1 h2 pick with
      | some (x, y) => ((), showNatss [canon x, canon y])
      | none => ((), "none")
    | _, _, _ => ((), "bad-op")
  | ["chain", c, f, b, t] =>
    match natss? c, natss? f, steps? b, blocks? t with
    | some cfg, some fixed, some burn, some thins =>
      match mcmcRoutine cfg fixed burn thins with
      | some ys => ((), showCfgs ys)
      | none => ((), "none")
    | _, _, _, _ => ((), "bad-op")
  | ["dict", d] =>
    match nats? d with
    | some ds => ((), showNatss ((degToDict ds).map (fun p => p.1 :: p.2)))
    | none => ((), "bad-op")
  | ["extract", k, r, sz, fd, fm, p] =>
    match nats? k, nats? r, nat? sz, flag? fd, flag? fm, natss? p with
    | some keys, some resid, some size, some fd, some fm, some picks =>
      match extractHye keys resid size fd fm picks with
      | some o => ((), s!"{showNats (canon o.hye)} {showNats o.keys} {showNats o.resid} {showBool o.exhausted} {o.picks.length}")
      | none => ((), "none")
    | _, _, _, _, _, _ => ((), "bad-op")
  | ["match", d, m, fd, fm, p] =>
    match nats? d, pairs? m, flag? fd, flag? fm, natss? p with
    | some degSeq, some dimSeq, some fd, some fm, some picks =>
      match matchSequences degSeq dimSeq fd fm picks with
      | some st => ((), s!"{showCfg st.cfg} {showBool st.flag} {showNats st.keys} {showNats st.resid} {st.picks.length}")
      | none => ((), "none")
    | _, _, _, _, _ => ((), "bad-op")
  | ["matchr", d, m, fd, fm, p] =>
    match nats? d, pairs? m, flag? fd, flag? fm, natss? p with
    | some degSeq, some dimSeq, some fd, some fm, some picks =>
      match matchFull degSeq dimSeq fd fm picks with
      | .done st => ((), s!"done {showCfg st.cfg} {showBool st.flag} {showNats st.keys} {showNats st.resid} {st.picks.length}")
      | .raised ok => ((), s!"raised {showFlag (flagOfRes (.raised ok))}")
    | _, _, _, _, _ => ((), "bad-op")
  | ["output", c, w, l] =>
    match natss? c, nats? w, labels? l with
    | some cfg, some ws, some labels =>
      match outputStage cfg ws labels with
      | some o => ((), showOut o)
      | none => ((), "none")
    | _, _, _ => ((), "bad-op")
  | ["outd", c, w, l] =>
    match natss? c, nats? w, labels? l with
    | some cfg, some qs, some labels =>
      match outputStageD cfg qs labels with
      | some o => ((), showOut o)
      | none => ((), "none")
    | _, _, _ => ((), "bad-op")
  | ["trunc", q] =>
    match nats? q with
    | some qs => ((), showNats (truncWeights qs))
    | none => ((), "bad-op")
  | ["fromhyg", l, e, b, t, w] =>
    match nats? l, natss? e, steps? b, blocks? t, natss? w with
    | some labels, some edges, some burn, some thins, some ws =>
      match sampleFromHyg labels edges ⟨[], burn, thins, ws⟩ with
      | some os => ((), showOuts os)
      | none => ((), "none")
    | _, _, _, _, _ => ((), "bad-op")
  | ["tpois", u, e, pm, tab] =>
    match rat? u, rat? e, rat? pm, rats? tab with
    | some u, some e, some pmax, some tab =>
      match truncDrawTab tab u e pmax with
      | some k => ((), toString k)
      | none => ((), "none")
    | _, _, _, _ => ((), "bad-op")
  | ["guard", n, d, m] =>
    match nat? n, nats? d, pairs? m with
    | some N, some degSeq, some dimSeq =>
      ((), match argGuard N degSeq dimSeq with | .ok => "ok" | .badShape => "badShape" | .badDim => "badDim")
    | _, _, _ => ((), "bad-op")
  | ["fromhygD", l, e, b, t, w] =>
    match nats? l, natss? e, steps? b, blocks? t, natss? w with
    | some labels, some edges, some burn, some thins, some ws =>
      match sampleFromHygD labels edges ⟨[], burn, thins, ws⟩ with
      | some os => ((), showOuts os)
      | none => ((), "none")
    | _, _, _, _, _ => ((), "bad-op")
  | ["fromhygQ", l, e, b, t, w] =>
    match rats? l, ratss? e, steps? b, blocks? t, natss? w with
    | some labels, some edges, some burn, some thins, some ws =>
      match sampleFromHygG labels edges ⟨[], burn, thins, ws⟩ with
      | some os => ((), showOutsG showRat os)
      | none => ((), "none")
    | _, _, _, _, _ => ((), "bad-op")
  | ["fromhygS", l, e, b, t, w] =>
    match strs? l, strss? e, steps? b, blocks? t, natss? w with
    | some labels, some edges, some burn, some thins, some ws =>
      match sampleFromHygG labels edges ⟨[], burn, thins, ws⟩ with
      | some os => ((), showOutsG id os)
      | none => ((), "none")
    | _, _, _, _, _ => ((), "bad-op")
  | ["fromseqs", d, m, fd, fm, f, p, b, t, w] =>
    match nats? d, pairs? m, flag? fd, flag? fm, natss? f, natss? p, steps? b, blocks? t, natss? w with
    | some degSeq, some dimSeq, some fd, some fm, some fixed, some picks, some burn, some thins, some ws =>
      match sampleFromSeqs degSeq dimSeq fd fm fixed ⟨picks, burn, thins, ws⟩ with
      | some (flag, os) => ((), s!"{showBool flag} {showOuts os}")
      | none => ((), "none")
    | _, _, _, _, _, _, _, _, _ => ((), "bad-op")
  | _ => ((), "bad-op")

def step (s : Sampler) (toks : List String) : Sampler × String :=
  match toks with
  | ["new"] => (⟨none⟩, "ok")
  | ["setstate", v] =>
    if v = "-" then (⟨none⟩, "ok") else
      match flag? v with
      | some b => (⟨some b⟩, "ok")
      | none => (s, "bad-op")
  | "callseqsN" :: n :: rest =>
    match nat? n, callOf? ("callseqs" :: rest) with
    | some N, some c =>
      match callStepG N s c with
      | (s', some r) => (s', s!"{showFlag r.report} {showFlag s'.flag} {showOuts r.outs}")
      | (s', none) => (s', s!"none {showFlag s'.flag}")
    | _, _ => (s, "bad-op")
  | cmd :: _ =>
    if cmd = "callhyg" || cmd = "callseqs" || cmd = "callmodel" || cmd = "calldeg" || cmd = "calldim" then
      match callOf? toks with
      | some c => doCall s c
      | none => (s, "bad-op")
    else (s, (stateless () toks).2)
  | [] => (s, "bad-op")

def main : IO Unit := Wire.run step (⟨none⟩ : Sampler)
