import Hgxv.Model.Wire
import Hgxv.Model.C16
/-! Line protocol for C16 (stateless; every line carries its whole input).

  `reshuffle h1 h2 pick`                                   -> `new1;new2` (each sorted) | `none`
  `chain cfg fixed burn thins`                             -> yields `cfg|cfg|...` | `none`
        a step is `i,j,accept,pick...`; `burn` a `;`-list of steps; `thins` a `|`-list of such lists
  `dict degSeq`                                            -> `deg,node,node;...` in insertion order
  `extract keys resid size fd fm picks`                    -> `hye keys resid exhausted unused` | `none`
  `match degSeq dimSeq fd fm picks`                        -> `cfg flag keys resid unused` | `none`
        `dimSeq` is a `;`-list of `size,count`
  `output cfg weights labels|-`                            -> `w,node,...;...` | `none`
  `trunc quantiles`                                        -> weights (`np.maximum(quantile, 1)`)
  `fromhyg labels edges burn thins quantiles`              -> `out|out|...` | `none`
  `fromseqs degSeq dimSeq fd fm fixed picks burn thins quantiles` -> `flag out|out|...` | `none`
        `quantiles`: per sample the Poisson quantiles of `sample_truncated_poisson` (the weights are clamped to >= 1) -/
open Wire C16

def stepOf? : List Nat → Option StepDraw
  | i :: j :: a :: pick => some ⟨i, j, pick, a != 0⟩
  | _ => none

def steps? (s : String) : Option (List StepDraw) := (natss? s).bind (·.mapM stepOf?)
def blocks? (s : String) : Option (List (List StepDraw)) := (natsss? s).bind (·.mapM (·.mapM stepOf?))

def pairs? (s : String) : Option (List (Nat × Nat)) :=
  (natss? s).bind (·.mapM (fun l => match l with | [a, b] => some (a, b) | _ => none))

def showCfg (c : Config) : String := showNatss (c.map canon)
def showCfgs (l : List Config) : String := showList "|" "-" (fun c => showList ";" "_" (showList "," "_" toString) (c.map canon)) l
def showOut (o : List (Hye × Nat)) : String :=
  showList ";" "_" (fun (p : Hye × Nat) => showList "," "_" toString (p.2 :: p.1)) o
def showOuts (l : List (List (Hye × Nat))) : String := showList "|" "-" showOut l
def flag? (s : String) : Option Bool := match s with | "1" => some true | "0" => some false | _ => none
def labels? (s : String) : Option (Option (List Nat)) := if s = "-" then some none else (nats? s).map some

def step (_ : Unit) : List String → Unit × String
  | ["reshuffle", a, b, p] =>
    match nats? a, nats? b, nats? p with
    | some h1, some h2, some pick =>
      match pairReshuffle h1 h2 pick with
      | some (x, y) => ((), showNatss [canon x, canon y])
      | none => ((), "none")
    | _, _, _ => ((), "bad-op")
  | ["chain", c, f, b, t] =>
    match natss? c, natss? f, steps? b, blocks? t with
    | some cfg, some fixed, some burn, some thins =>
      match mcmcRoutine cfg fixed burn thins with
      | some ys => ((), showCfgs ys)
      | none => ((), "none")
    | _, _, _, _ => ((), "bad-op")
  | ["dict", d] =>
    match nats? d with
    | some ds => ((), showNatss ((degToDict ds).map (fun p => p.1 :: p.2)))
    | none => ((), "bad-op")
  | ["extract", k, r, sz, fd, fm, p] =>
    match nats? k, nats? r, nat? sz, flag? fd, flag? fm, natss? p with
    | some keys, some resid, some size, some fd, some fm, some picks =>
      match extractHye keys resid size fd fm picks with
      | some o => ((), s!"{showNats (canon o.hye)} {showNats o.keys} {showNats o.resid} {showBool o.exhausted} {o.picks.length}")
      | none => ((), "none")
    | _, _, _, _, _, _ => ((), "bad-op")
  | ["match", d, m, fd, fm, p] =>
    match nats? d, pairs? m, flag? fd, flag? fm, natss? p with
    | some degSeq, some dimSeq, some fd, some fm, some picks =>
      match matchSequences degSeq dimSeq fd fm picks with
      | some st => ((), s!"{showCfg st.cfg} {showBool st.flag} {showNats st.keys} {showNats st.resid} {st.picks.length}")
      | none => ((), "none")
    | _, _, _, _, _ => ((), "bad-op")
  | ["output", c, w, l] =>
    match natss? c, nats? w, labels? l with
    | some cfg, some ws, some labels =>
      match outputStage cfg ws labels with
      | some o => ((), showOut o)
      | none => ((), "none")
    | _, _, _ => ((), "bad-op")
  | ["trunc", q] =>
    match nats? q with
    | some qs => ((), showNats (truncWeights qs))
    | none => ((), "bad-op")
  | ["fromhyg", l, e, b, t, w] =>
    match nats? l, natss? e, steps? b, blocks? t, natss? w with
    | some labels, some edges, some burn, some thins, some ws =>
      match sampleFromHyg labels edges ⟨[], burn, thins, ws⟩ with
      | some os => ((), showOuts os)
      | none => ((), "none")
    | _, _, _, _, _ => ((), "bad-op")
  | ["fromseqs", d, m, fd, fm, f, p, b, t, w] =>
    match nats? d, pairs? m, flag? fd, flag? fm, natss? f, natss? p, steps? b, blocks? t, natss? w with
    | some degSeq, some dimSeq, some fd, some fm, some fixed, some picks, some burn, some thins, some ws =>
      match sampleFromSeqs degSeq dimSeq fd fm fixed ⟨picks, burn, thins, ws⟩ with
      | some (flag, os) => ((), s!"{showBool flag} {showOuts os}")
      | none => ((), "none")
    | _, _, _, _, _, _, _, _, _ => ((), "bad-op")
  | _ => ((), "bad-op")

def main : IO Unit := Wire.run step ()
