import Hgxv.Model.C18
import Hgxv.Proofs.C18RW
import Hgxv.Proofs.C18Cont
import Hgxv.Proofs.C18Conn
import Hgxv.Proofs.C18Hist
import Hgxv.Proofs.C18Ext
import Hgxv.Proofs.C18Cont2
import Hgxv.Proofs.C18Cont3
import Mathlib.Tactic.NormNum
/-! # C18 — random walks are stochastic and stationary; contagion exact when deterministic

Property theorems about the model `Hgxv/Model/C18.lean`.

Hypotheses used throughout (exactly what the routines / the property's quantifier guarantee):
* `Valid es N`: every hyperedge has distinct members, all `< N` (`Hypergraph.get_edges()` on nodes `0..N-1`);
* `connectedB es N = true`: the assertion `HG.is_connected()` of `transition_matrix` passed;
* `2 ≤ N`: the one-node hypergraph is connected but has the all-`nan` matrix `[[0/0]]`; excluded;
* `UnitDraws f`: every `np.random.random()` result lies in `[0, 1)`; `nodes.Nodup`: `get_nodes()` lists dict keys. -/
open C18

/-! ## connectivity -/

/-- the executable test behind the hypothesis `connectedB es N = true` (the model of the assertion
`HG.is_connected()`) holds exactly when every node is joined to node `0` by a chain of nodes sharing hyperedges -/
theorem C18_connected_iff (es : List Edge) (N : Nat) (hN : 0 < N) : connectedB es N = true ↔ Connected es N :=
  connectedB_iff es N hN

/-! ## the transition matrix -/

/-- `T.sum(axis=1)[i] = Σ_{e ∋ i} (|e| − 1)²` -/
theorem C18_rowsum (es : List Edge) (N : Nat) (hv : Valid es N) (i : Nat) :
    rowSum es N i = deg2 es i :=
  rowSum_eq_deg2 es N hv i

/-- connected with at least two nodes: no row of `T` is zero, so `T / T.sum(axis=1)` has no `nan` -/
theorem C18_rows_positive (es : List Edge) (N : Nat) (hv : Valid es N) (hc : connectedB es N = true) (hN : 2 ≤ N)
    (i : Nat) (hi : i < N) : 0 < rowSum es N i :=
  rowSum_pos es N hv hc hN i hi

/-- entry `(i, j)` is the sum over the hyperedges containing both `i` and `j` of `(size − 1)`, divided by the
row total `Σ_{e ∋ i} (size − 1)²`; the diagonal is `0` -/
theorem C18_entry (es : List Edge) (N : Nat) (hv : Valid es N) (i j : Nat) :
    kEntry es N i j = (if i = j then 0 else (shared es i j : Rat)) / (deg2 es i : Rat) := by
  unfold kEntry
  rw [rowSum_eq_deg2 es N hv i]
  by_cases h : i = j
  · subst h; simp [tEntry_diag es N hv i]
  · simp [h, tEntry_eq_shared es N hv i j h]

/-- what `transition_matrix` returns is the table of `kEntry` -/
theorem C18_matrix_entries (es : List Edge) (N : Nat) (K : List (List Rat)) (h : transitionMatrix es N = some K)
    (i j : Nat) (hi : i < N) (hj : j < N) : (K[i]?.bind (·[j]?)) = some (kEntry es N i j) := by
  unfold transitionMatrix at h
  split at h
  · cases h; simp [hi, hj]
  · cases h

theorem C18_row_stochastic (es : List Edge) (N : Nat) (hv : Valid es N) (hc : connectedB es N = true) (hN : 2 ≤ N)
    (i : Nat) (hi : i < N) :
    sumTo N (kEntry es N i) = 1 ∧ ∀ j, 0 ≤ kEntry es N i j := by
  refine ⟨?_, fun j => kEntry_nonneg es N i j⟩
  rw [sumTo_eq]
  exact kRow_sum es N i (rowSum_pos es N hv hc hN i hi)

/-- `K[i][j] > 0` exactly when `i ≠ j` lie in a common hyperedge -/
theorem C18_walk_support (es : List Edge) (N : Nat) (hv : Valid es N) (hc : connectedB es N = true) (hN : 2 ≤ N)
    (i j : Nat) (hi : i < N) :
    0 < kEntry es N i j ↔ i ≠ j ∧ ∃ e ∈ es, i ∈ e ∧ j ∈ e := by
  have hr := rowSum_pos es N hv hc hN i hi
  have hrq : (0 : Rat) < (rowSum es N i : Rat) := by exact_mod_cast hr
  unfold kEntry
  rw [div_pos_iff_of_pos_right hrq, Nat.cast_pos]
  by_cases h : i = j
  · subst h; simp [tEntry_diag es N hv i]
  · rw [tEntry_pos_iff es N hv i j h, share_iff]; simp [h]

/-! ## the stationary state -/

/-- `π = d / Σ d` (with `d_i = Σ_{e ∋ i} (size − 1)²`) is a probability vector fixed by `K` -/
theorem C18_stationary (es : List Edge) (N : Nat) (hv : Valid es N) (hc : connectedB es N = true) (hN : 2 ≤ N) :
    (∀ j, sumTo N (fun i => piEntry es N i * kEntry es N i j) = piEntry es N j)
    ∧ sumTo N (piEntry es N) = 1
    ∧ (∀ i, 0 ≤ piEntry es N i)
    ∧ (∀ i, piEntry es N i = (deg2 es i : Rat) / sumTo N (fun k => (deg2 es k : Rat))) := by
  have hr : ∀ i, i < N → 0 < rowSum es N i := fun i hi => rowSum_pos es N hv hc hN i hi
  refine ⟨fun j => ?_, ?_, fun i => pi_nonneg es N i, fun i => ?_⟩
  · rw [sumTo_eq]; exact pi_fixed es N hr j
  · rw [sumTo_eq]; exact pi_sum es N (by omega) hr
  · unfold piEntry; simp only [rowSum_eq_deg2 es N hv]

/-- D31, proof side: the system `(I − Kᵀ) x = 𝟙` solved by the unrepaired `RW_stationary_state` has no solution,
for any row-stochastic `K` whatsoever (add up the equations: `0 = N`) -/
theorem C18_solve_is_inconsistent (K : Nat → Nat → Rat) (N : Nat) (hN : 0 < N)
    (hK : ∀ i, i < N → sumTo N (K i) = 1) : ¬ ∃ x, SolvesOriginal K N x := by
  rintro ⟨x, hx⟩
  apply original_inconsistent K N hN (fun i hi => by rw [← sumTo_eq]; exact hK i hi) x
  intro i hi
  have := hx i hi
  rwa [sumTo_eq] at this

/-- in particular for the transition matrix of every connected hypergraph -/
theorem C18_solve_is_inconsistent_for_K (es : List Edge) (N : Nat) (hv : Valid es N) (hc : connectedB es N = true)
    (hN : 2 ≤ N) : ¬ ∃ x, SolvesOriginal (kEntry es N) N x :=
  C18_solve_is_inconsistent _ N (by omega) (fun i hi => (C18_row_stochastic es N hv hc hN i hi).1)

/-- the repaired system (last equation of `(I − Kᵀ) x = 0` replaced by `Σ x = 1`) is solved by `π` -/
theorem C18_pi_solves_repaired (es : List Edge) (N : Nat) (hv : Valid es N) (hc : connectedB es N = true) (hN : 2 ≤ N) :
    SolvesRepaired (kEntry es N) N (piEntry es N) := by
  obtain ⟨h1, h2, _, _⟩ := C18_stationary es N hv hc hN
  refine ⟨fun i _ => ?_, h2⟩
  have := h1 i
  rw [sub_eq_zero, ← this]
  unfold sumTo; congr 1; apply List.map_congr_left; intro j _; ring

/-- ... and by nothing else: under connectivity every solution of the repaired system equals `π = d / Σ d`
(maximum principle for `x_i / d_i` along shared hyperedges), so the system is non-singular and the routine's
result is determined -/
theorem C18_repaired_solution_is_pi (es : List Edge) (N : Nat) (hv : Valid es N) (hc : connectedB es N = true)
    (hN : 2 ≤ N) (x : Nat → Rat) (hx : SolvesRepaired (kEntry es N) N x) :
    ∀ i, i < N → x i = piEntry es N i := by
  obtain ⟨h1, h2⟩ := hx
  apply solution_unique es N hv hc hN x
  · intro i hi; have := h1 i hi; rwa [sumTo_eq] at this
  · rwa [sumTo_eq] at h2

/-! ## densities -/

/-- `random_walk_density`: the list starts with `s`, every later vector is the previous one times `K`
(entry `j` is `Σ_i s_i K[i][j]`), and every vector has length `N` and sums to one -/
theorem C18_density (es : List Edge) (N : Nat) (hv : Valid es N) (hc : connectedB es N = true) (hN : 2 ≤ N)
    (time : Nat) (s : List Rat) (hlen : s.length = N) (hsum : s.sum = 1) :
    (densityList es N time s).head? = some s
    ∧ (densityList es N time s).length = time + 1
    ∧ Adj (fun a b => b = densityNext es N a) (densityList es N time s)
    ∧ (∀ w ∈ densityList es N time s, w.length = N ∧ w.sum = 1)
    ∧ (∀ (w : List Rat) (j : Nat), j < N →
        (densityNext es N w)[j]? = some (sumTo N (fun i => vecOf w i * kEntry es N i j))) := by
  have hr : ∀ i, i < N → 0 < rowSum es N i := fun i hi => rowSum_pos es N hv hc hN i hi
  have hnext : ∀ w : List Rat, w.length = N → w.sum = 1 →
      (densityNext es N w).length = N ∧ (densityNext es N w).sum = 1 := by
    intro w hl hs
    refine ⟨by simp [densityNext], ?_⟩
    have e1 : (densityNext es N w).sum = sumTo N (densityStep es N (vecOf w)) := rfl
    rw [e1, sumTo_eq, density_mass es N hr, ← sumTo_eq, ← hl, ← list_sum_eq_sumTo, hs]
  refine ⟨?_, ?_, ?_, ?_, ?_⟩
  · cases time <;> simp [densityList]
  · induction time generalizing s with
    | zero => simp [densityList]
    | succ t ih => simp [densityList, ih (densityNext es N s) (hnext s hlen hsum).1 (hnext s hlen hsum).2]
  · induction time generalizing s with
    | zero => exact adj_single _ _
    | succ t ih =>
      have := ih (densityNext es N s) (hnext s hlen hsum).1 (hnext s hlen hsum).2
      unfold densityList
      cases t with
      | zero => exact adj_cons _ _ _ _ rfl (by simpa [densityList] using this)
      | succ t => unfold densityList at this ⊢; exact adj_cons _ _ _ _ rfl this
  · induction time generalizing s with
    | zero => intro w hw; simp [densityList] at hw; subst hw; exact ⟨hlen, hsum⟩
    | succ t ih =>
      intro w hw
      simp only [densityList, List.mem_cons] at hw
      rcases hw with rfl | hw
      · exact ⟨hlen, hsum⟩
      · exact ih (densityNext es N s) (hnext s hlen hsum).1 (hnext s hlen hsum).2 w hw
  · intro w j hj
    simp [densityNext, densityStep, hj]

/-! ## sampled walks -/

/-- a walk replayed from recorded `np.random.choice` results that honour the sampler's contract (positive
probability) starts at `s`, has `time + 1` nodes, and only steps between distinct nodes sharing a hyperedge -/
theorem C18_walk (es : List Edge) (N : Nat) (hv : Valid es N) (s : Nat) (cs ns : List Nat)
    (h : walk es N s cs = some ns) :
    ns.head? = some s ∧ ns.length = cs.length + 1
    ∧ Adj (fun a b => a ≠ b ∧ ∃ e ∈ es, a ∈ e ∧ b ∈ e) ns := by
  induction cs generalizing s ns with
  | nil => simp [walk] at h; subst h; exact ⟨rfl, rfl, adj_single _ _⟩
  | cons c cs ih =>
    unfold walk at h
    split at h
    · next hvc =>
      cases hw : walk es N c cs with
      | none => rw [hw] at h; cases h
      | some ms =>
        rw [hw] at h; simp at h; subst h
        obtain ⟨h1, h2, h3⟩ := ih c ms hw
        refine ⟨rfl, by simp [h2], ?_⟩
        cases ms with
        | nil => simp at h2
        | cons m ms =>
          simp at h1; subst h1
          apply adj_cons _ _ _ _ _ h3
          simp only [validChoice, Bool.and_eq_true, decide_eq_true_eq] at hvc
          have hk := hvc.2
          unfold kEntry at hk
          have hT : 0 < tEntry es s m := by
            apply Nat.pos_of_ne_zero
            intro hz; rw [hz] at hk; simp at hk
          have hne : s ≠ m := by
            intro e; subst e; rw [tEntry_diag es N hv s] at hT; exact Nat.lt_irrefl _ hT
          exact ⟨hne, (share_iff es s m).mp ((tEntry_pos_iff es N hv s m hne).mp hT)⟩
    · cases h

/-! ## simplicial contagion -/

/-- the returned array has `T` entries, all in `[0, 1]`, the first one being the initial infected fraction -/
theorem C18_range (es : List Edge) (nodes keys : List Nat) (r : Rates) (f : Nat → Rat) (I0 : Nat → Bool) (T : Nat)
    (hT : 1 ≤ T) (hk : keys ≠ []) :
    (fractions es nodes keys r f I0 T).length = T
    ∧ (fractions es nodes keys r f I0 T).head? = some ((infected keys I0 : Rat) / (keys.length : Rat))
    ∧ ∀ x ∈ fractions es nodes keys r f I0 T, 0 ≤ x ∧ x ≤ 1 := by
  have hpos : (0 : Rat) < (keys.length : Rat) := by
    have : 0 < keys.length := List.length_pos_iff.mpr hk
    exact_mod_cast this
  refine ⟨?_, ?_, ?_⟩
  · simp [fractions, counts, runStates_length]; omega
  · simp [fractions, counts]
  · intro x hx
    simp only [fractions, List.mem_map] at hx
    obtain ⟨c, hc, rfl⟩ := hx
    have hle : c ≤ keys.length := by
      simp only [counts, List.mem_cons, List.mem_map] at hc
      rcases hc with rfl | ⟨s, _, rfl⟩ <;> exact infected_le _ _
    constructor
    · positivity
    · rw [div_le_one hpos]; exact_mod_cast hle

/-- recovery rate `0`: the infected fraction never decreases, whatever the draws and the infection rates -/
theorem C18_mu0_monotone (es : List Edge) (nodes keys : List Nat) (hnd : nodes.Nodup) (r : Rates) (f : Nat → Rat)
    (hf : UnitDraws f) (hmu : r.mu = 0) (I0 : Nat → Bool) (T : Nat) :
    Adj (fun a b => a ≤ b) (fractions es nodes keys r f I0 T) := by
  unfold fractions
  apply adj_map
  unfold counts
  apply run_adj es nodes keys r f (fun a b => (a : Rat) / (keys.length : Rat) ≤ (b : Rat) / (keys.length : Rat))
  · exact le_refl _
  · intro I p
    apply div_le_div_of_nonneg_right _ (by positivity)
    exact_mod_cast infected_mono keys I _ (fun v hI => step_mu0 es nodes hnd r f (fun n => (hf n).1) hmu I p v hI)

/-- both infection rates `0`: the infected fraction never increases, whatever the draws and the recovery rate -/
theorem C18_beta0_monotone (es : List Edge) (nodes keys : List Nat) (hnd : nodes.Nodup) (r : Rates) (f : Nat → Rat)
    (hf : UnitDraws f) (hb : r.beta = 0) (hbd : r.betaD = 0) (I0 : Nat → Bool) (T : Nat) :
    Adj (fun a b => b ≤ a) (fractions es nodes keys r f I0 T) := by
  unfold fractions
  apply adj_map
  unfold counts
  apply run_adj es nodes keys r f (fun a b => (b : Rat) / (keys.length : Rat) ≤ (a : Rat) / (keys.length : Rat))
  · exact le_refl _
  · intro I p
    apply div_le_div_of_nonneg_right _ (by positivity)
    exact_mod_cast infected_mono keys _ I
      (fun v hI => step_beta0 es nodes hnd r f (fun n => (hf n).1) hb hbd I p v hI)

/-- rates in `{0, 1}`, EVERY draw stream: one sweep is the closed-form spreading, read entirely from the old
state (`spread`: a susceptible node becomes infected iff `β = 1` and a pairwise neighbour is infected, or
`β_D = 1` and both other members of a 3-node hyperedge are infected; an infected node recovers iff `μ = 1`),
and the whole trajectory is the iterated closed form -/
theorem C18_deterministic (es : List Edge) (nodes keys : List Nat) (hnd : nodes.Nodup) (r : Rates) (f : Nat → Rat)
    (hf : UnitDraws f) (hb : r.beta = 0 ∨ r.beta = 1) (hbd : r.betaD = 0 ∨ r.betaD = 1) (hmu : r.mu = 0 ∨ r.mu = 1) :
    (∀ I p, (step es nodes r f I p).1 = spread es nodes r I)
    ∧ ∀ I0 T, counts es nodes keys r f I0 T = infected keys I0 :: spreadCounts es nodes keys r (T - 1) I0 := by
  refine ⟨fun I p => step_det es nodes hnd r f hf hb hbd hmu I p, fun I0 T => ?_⟩
  unfold counts
  rw [run_det es nodes keys hnd r f hf hb hbd hmu]

/-- the closed form in words -/
theorem C18_spread_meaning (es : List Edge) (nodes : List Nat) (hcov : ∀ e ∈ es, ∀ u ∈ e, u ∈ nodes) (r : Rates)
    (I : Nat → Bool) (v : Nat) (hv : v ∈ nodes) :
    spread es nodes r I v = true ↔
      (I v = false ∧
        ((r.beta = 1 ∧ ∃ u, u ≠ v ∧ I u = true ∧ ∃ e ∈ es, e.length = 2 ∧ v ∈ e ∧ u ∈ e)
         ∨ (r.betaD = 1 ∧ ∃ e ∈ es, e.length = 3 ∧ v ∈ e ∧ ∀ u ∈ e, u ≠ v → I u = true)))
      ∨ (I v = true ∧ r.mu ≠ 1) := by
  unfold spread
  simp only [List.contains_iff_mem, hv, if_true]
  cases hI : I v with
  | true => simp
  | false =>
    simp only [if_true, Bool.or_eq_true, Bool.and_eq_true, decide_eq_true_eq, List.any_eq_true, true_and,
      Bool.false_eq_true, false_and, or_false, pairNbrs, triplets, triHit, List.mem_filter, List.all_eq_true,
      bne_iff_ne, ne_eq, beq_iff_eq, List.contains_iff_mem]
    constructor
    · rintro (⟨hb, u, ⟨_, hne, e, he, ⟨hl, hve⟩, hue⟩, hu⟩ | ⟨hbd, e, ⟨he, hl, hve⟩, hall⟩)
      · exact Or.inl ⟨hb, u, hne, hu, e, he, hl, hve, hue⟩
      · exact Or.inr ⟨hbd, e, he, hl, hve, fun u hu hne => hall u ⟨hu, hne⟩⟩
    · rintro (⟨hb, u, hne, hu, e, he, hl, hve, hue⟩ | ⟨hbd, e, he, hl, hve, hall⟩)
      · exact Or.inl ⟨hb, u, ⟨hcov e he u hue, hne, e, he, ⟨hl, hve⟩, hue⟩, hu⟩
      · exact Or.inr ⟨hbd, e, ⟨he, hl, hve⟩, fun u hu => hall u hu.1 hu.2⟩

/-- the order in which Python iterates over the neighbour *set* (or over the triplets) is irrelevant: the
attempt loop only depends on how many candidates satisfy the condition -/
theorem C18_order_irrelevant (f : Nat → Rat) (rate : Rat) (I : Nat → Bool) (l l' : List Nat) (h : l.Perm l') (p : Nat) :
    loopHits f rate (l.map I) p = loopHits f rate (l'.map I) p := by
  rw [loopHits_eq_tries, loopHits_eq_tries, (h.map I).count_eq]

/-! ## histories: only the content of the hypergraph matters -/

/-- `Hypergraph.get_edges()` lists the stored hyperedges in the order of an internal dictionary, which depends on the
history of the object (removal + re-insertion moves a hyperedge to the end; copied, saved + loaded, rebuilt objects may
list the same hyperedges differently).  Every routine of the model is invariant under a permutation of that list:
the connectivity assertion, the transition matrix, the stationary state, the densities, the replayed walks, the whole
contagion run (counts, fractions, number of draws consumed, for every draw stream) and the closed-form spreading are
functions of the content only.  (The correspondence loads the canonical listing whatever history built the object.) -/
theorem C18_listing_irrelevant (es es' : List Edge) (h : es.Perm es') :
    connectedB es = connectedB es' ∧ kEntry es = kEntry es' ∧ transitionMatrix es = transitionMatrix es'
    ∧ stationary es = stationary es'
    ∧ (∀ N t v, densityList es N t v = densityList es' N t v)
    ∧ (∀ N s cs, walk es N s cs = walk es' N s cs)
    ∧ (∀ nodes keys r f I0 T, counts es nodes keys r f I0 T = counts es' nodes keys r f I0 T
        ∧ fractions es nodes keys r f I0 T = fractions es' nodes keys r f I0 T
        ∧ consumed es nodes keys r f I0 T = consumed es' nodes keys r f I0 T)
    ∧ (∀ nodes keys r n I, spreadCounts es nodes keys r n I = spreadCounts es' nodes keys r n I) := by
  refine ⟨connectedB_perm h, kEntry_perm h, transitionMatrix_perm h, stationary_perm h, densityList_perm h,
    walk_perm h, fun nodes keys r f I0 T => ?_, spreadCounts_perm h⟩
  unfold fractions counts consumed
  simp only [runStates_perm h]
  exact ⟨trivial, trivial, trivial⟩

/-! ## non-vacuity: the hypotheses hold on concrete non-trivial inputs and the theorems apply -/

/-- triangle + edge, non-regular: `d = (4, 4, 5, 1)` -/
private def exE : List Edge := [[0, 1, 2], [2, 3]]
private theorem exValid : Valid exE 4 := by unfold Valid exE; decide
private theorem exConn : connectedB exE 4 = true := by decide
example : Connected exE 4 := (C18_connected_iff exE 4 (by decide)).mp exConn
example : ¬ Connected [[0, 1], [2, 3]] 4 := by rw [← C18_connected_iff _ 4 (by decide)]; decide

example : rowSum exE 4 2 = 5 := by rw [C18_rowsum exE 4 exValid]; decide
example : 0 < rowSum exE 4 3 := C18_rows_positive exE 4 exValid exConn (by decide) 3 (by decide)
example : kEntry exE 4 2 3 = 1 / 5 := by
  have h1 : shared exE 2 3 = 1 := by decide
  have h2 : deg2 exE 2 = 5 := by decide
  rw [C18_entry exE 4 exValid, h1, h2]; norm_num
example : ∃ K, transitionMatrix exE 4 = some K := by simp [transitionMatrix, exConn]
example : sumTo 4 (kEntry exE 4 2) = 1 := (C18_row_stochastic exE 4 exValid exConn (by decide) 2 (by decide)).1
example : 0 < kEntry exE 4 2 3 :=
  (C18_walk_support exE 4 exValid exConn (by decide) 2 3 (by decide)).mpr ⟨by decide, [2, 3], by decide, by decide, by decide⟩
example : ¬ 0 < kEntry exE 4 0 3 := by
  rw [C18_walk_support exE 4 exValid exConn (by decide) 0 3 (by decide)]; decide
example : sumTo 4 (piEntry exE 4) = 1 := (C18_stationary exE 4 exValid exConn (by decide)).2.1
example : ¬ ∃ x, SolvesOriginal (fun _ _ => (1 / 2 : Rat)) 2 x :=
  C18_solve_is_inconsistent _ 2 (by decide) (by intro i _; simp [sumTo, List.range_succ]; norm_num)
example : ¬ ∃ x, SolvesOriginal (kEntry exE 4) 4 x := C18_solve_is_inconsistent_for_K exE 4 exValid exConn (by decide)
example : SolvesRepaired (kEntry exE 4) 4 (piEntry exE 4) := C18_pi_solves_repaired exE 4 exValid exConn (by decide)
example (x : Nat → Rat) (hx : SolvesRepaired (kEntry exE 4) 4 x) : x 3 = piEntry exE 4 3 :=
  C18_repaired_solution_is_pi exE 4 exValid exConn (by decide) x hx 3 (by decide)
example : ∀ w ∈ densityList exE 4 3 [1 / 2, 1 / 2, 0, 0], w.length = 4 ∧ w.sum = 1 :=
  (C18_density exE 4 exValid exConn (by decide) 3 [1 / 2, 1 / 2, 0, 0] rfl (by norm_num)).2.2.2.1
/-- the theorem does not ask for non-negative entries: a signed start (what `np.isclose(np.sum(s), 1)` admits) -/
example : ∀ w ∈ densityList exE 4 2 [3 / 2, -1, 0, 1 / 2], w.length = 4 ∧ w.sum = 1 :=
  (C18_density exE 4 exValid exConn (by decide) 2 [3 / 2, -1, 0, 1 / 2] rfl (by norm_num)).2.2.2.1

private theorem exChoice (i j : Nat) (hi : i < 4) :
    validChoice exE 4 i j = (decide (j < 4) && decide (i ≠ j ∧ ∃ e ∈ exE, i ∈ e ∧ j ∈ e)) := by
  unfold validChoice
  congr 1
  rw [decide_eq_decide]
  exact C18_walk_support exE 4 exValid exConn (by decide) i j hi

example : walk exE 4 0 [1, 2, 3, 2] = some [0, 1, 2, 3, 2] := by
  simp only [walk, exChoice 0 1 (by decide), exChoice 1 2 (by decide), exChoice 2 3 (by decide), exChoice 3 2 (by decide)]
  decide

/-- a pair, a second pair and a triangle: `0 – 1`, `1 – 2`, `{0, 2, 3}` -/
private def exC : List Edge := [[0, 1], [1, 2], [0, 2, 3]]
private def exNodes : List Nat := [2, 0, 3, 1]
private def exI0 : Nat → Bool := fun v => v == 0
private def exF : Nat → Rat := fun n => if n % 2 = 0 then 1 / 2 else 7 / 8
private theorem exUnit : UnitDraws exF := by
  intro n; unfold exF; split <;> norm_num

example : (fractions exC exNodes exNodes ⟨1 / 3, 1 / 4, 1 / 5⟩ exF exI0 6).length = 6 :=
  (C18_range exC exNodes exNodes _ exF exI0 6 (by decide) (by decide)).1
example : Adj (fun a b => a ≤ b) (fractions exC exNodes exNodes ⟨1 / 3, 1 / 4, 0⟩ exF exI0 6) :=
  C18_mu0_monotone exC exNodes exNodes (by decide) _ exF exUnit rfl exI0 6
example : Adj (fun a b => b ≤ a) (fractions exC exNodes exNodes ⟨0, 0, 3 / 4⟩ exF exI0 6) :=
  C18_beta0_monotone exC exNodes exNodes (by decide) _ exF exUnit rfl rfl exI0 6
/-- `β = β_D = 1`, `μ = 0`: `{0} → {0,1} → {0,1,2} → {0,1,2,3}` (node 3 only through the triangle) -/
example : counts exC exNodes exNodes ⟨1, 1, 0⟩ exF exI0 5 = [1, 2, 3, 4, 4] := by
  rw [(C18_deterministic exC exNodes exNodes (by decide) ⟨1, 1, 0⟩ exF exUnit (Or.inr rfl) (Or.inr rfl) (Or.inl rfl)).2]
  decide
example : spread exC exNodes ⟨1, 1, 0⟩ exI0 1 = true :=
  (C18_spread_meaning exC exNodes (by decide) ⟨1, 1, 0⟩ exI0 1 (by decide)).mpr
    (Or.inl ⟨rfl, Or.inl ⟨rfl, 0, by decide, rfl, [0, 1], by decide, rfl, by decide, by decide⟩⟩)
example : loopHits exF (1 / 2) ([3, 0, 1].map exI0) 0 = loopHits exF (1 / 2) ([0, 1, 3].map exI0) 0 :=
  C18_order_irrelevant exF (1 / 2) exI0 [3, 0, 1] [0, 1, 3] (by decide) 0
example : [[0, 1, 2], [2, 3]].Perm [[2, 3], [0, 1, 2]] := by decide
example : kEntry [[2, 3], [0, 1, 2]] 4 2 3 = 1 / 5 := by
  rw [← (C18_listing_irrelevant exE [[2, 3], [0, 1, 2]] (by decide)).2.1]
  rw [C18_entry exE 4 exValid]; simp [shared, deg2, exE]

/-! # Extension round

More of the two anchored files inside the model (`K ** t`, the `np.isclose` assertion of `random_walk_density`, the
inverse-cdf sampler behind `np.random.choice`, so that a sampled walk is a function of its uniform draws) and the
statements that were only compared before. `NoIsolated`-style hypotheses are written out: `∃ e ∈ es, i ∈ e ∧ 2 ≤ e.length`. -/

/-! ## rows of the transition matrix without the connectivity assertion -/

/-- a row of `T` is zero (so `T / T.sum(axis=1)` is `0/0 = nan` in that row) exactly for a node that lies in no
hyperedge with at least two members -/
theorem C18_zero_row_iff (es : List Edge) (N : Nat) (hv : Valid es N) (i : Nat) :
    rowSum es N i = 0 ↔ ¬ ∃ e ∈ es, i ∈ e ∧ 2 ≤ e.length := by
  rw [rowSum_eq_deg2 es N hv i]
  constructor
  · intro h hex; have := (deg2_pos_iff es i).mpr hex; omega
  · intro h; exact Nat.eq_zero_of_not_pos (fun hp => h ((deg2_pos_iff es i).mp hp))

/-- row-stochasticity is a fact about every non-isolated node of EVERY hypergraph (connected or not): the row sums
to one and its entries lie in `[0, 1]` -/
theorem C18_row_stochastic_general (es : List Edge) (N : Nat) (hv : Valid es N) (i : Nat)
    (h : ∃ e ∈ es, i ∈ e ∧ 2 ≤ e.length) :
    sumTo N (kEntry es N i) = 1 ∧ ∀ j, j < N → 0 ≤ kEntry es N i j ∧ kEntry es N i j ≤ 1 := by
  have hr : 0 < rowSum es N i := by
    rw [rowSum_eq_deg2 es N hv i]; exact (deg2_pos_iff es i).mpr h
  refine ⟨?_, fun j hj => ⟨kEntry_nonneg es N i j, kEntry_le_one es N i j hj⟩⟩
  rw [sumTo_eq]; exact kRow_sum es N i hr

/-- WITH an isolated node (`N ≥ 2`): the connectivity assertion fails, so every routine of `randwalk.py` raises
instead of dividing `0/0` -/
theorem C18_isolated_node (es : List Edge) (N : Nat) (hv : Valid es N) (hN : 2 ≤ N) (i : Nat) (hi : i < N)
    (hiso : ¬ ∃ e ∈ es, i ∈ e ∧ 2 ≤ e.length) :
    connectedB es N = false ∧ transitionMatrix es N = none ∧ stationary es N = none
    ∧ ∀ s t, randomWalkDensity es N s t = none := by
  have hc : connectedB es N = false := by
    cases hcb : connectedB es N with
    | false => rfl
    | true =>
      have := rowSum_pos es N hv hcb hN i hi
      have hz := (C18_zero_row_iff es N hv i).mpr hiso
      omega
  refine ⟨hc, by simp [transitionMatrix, hc], by simp [stationary, hc], fun s t => ?_⟩
  unfold randomWalkDensity; simp [hc]

/-- the one case where a zero row passes the assertion: a single node is "connected" and its `1 × 1` matrix is `0/0` -/
theorem C18_single_node (es : List Edge) (hv : Valid es 1) :
    connectedB es 1 = true ∧ rowSum es 1 0 = 0 ∧ rowsPositive es 1 = false := by
  have hz : rowSum es 1 0 = 0 := by
    simp [rowSum, List.range_succ, tEntry_diag es 1 hv 0]
  refine ⟨by simp [connectedB, growN, grow, List.range_succ], hz, ?_⟩
  simp [rowsPositive, List.range_succ, hz]

/-! ## the stationary vector: reversibility and uniqueness among fixed probability vectors -/

/-- detailed balance `π_i K[i][j] = π_j K[j][i]` (the walk is reversible; `T` is symmetric) -/
theorem C18_detailed_balance (es : List Edge) (N : Nat) (hv : Valid es N) (hc : connectedB es N = true) (hN : 2 ≤ N)
    (i j : Nat) (hi : i < N) (hj : j < N) :
    piEntry es N i * kEntry es N i j = piEntry es N j * kEntry es N j i ∧ tEntry es i j = tEntry es j i :=
  ⟨detailed_balance es N i j (rowSum_pos es N hv hc hN i hi) (rowSum_pos es N hv hc hN j hj), tEntry_symm es i j⟩

/-- every vector with `x K = x` and `Σ x = 1` is `π = d / Σ d`: the stationary state is unique -/
theorem C18_stationary_unique (es : List Edge) (N : Nat) (hv : Valid es N) (hc : connectedB es N = true) (hN : 2 ≤ N)
    (x : Nat → Rat) (hfix : ∀ j, j < N → sumTo N (fun i => x i * kEntry es N i j) = x j) (hsum : sumTo N x = 1) :
    ∀ i, i < N → x i = piEntry es N i := by
  apply C18_repaired_solution_is_pi es N hv hc hN x
  refine ⟨fun i hi => ?_, hsum⟩
  rw [sub_eq_zero, ← hfix i (by omega)]
  unfold sumTo; congr 1; apply List.map_congr_left; intro j _; ring

/-! ## one density step: mass, linearity, sign -/

/-- `s @ K` has the total of `s` for EVERY vector `s` (signed, any total), on every hypergraph without isolated nodes -/
theorem C18_density_mass_signed (es : List Edge) (N : Nat) (hv : Valid es N)
    (hni : ∀ i, i < N → ∃ e ∈ es, i ∈ e ∧ 2 ≤ e.length) (v : List Rat) (hl : v.length = N) :
    (densityNext es N v).length = N ∧ (densityNext es N v).sum = v.sum := by
  refine ⟨densityNext_length es N v, densityNext_sum es N (fun i hi => ?_) v hl⟩
  rw [rowSum_eq_deg2 es N hv i]; exact (deg2_pos_iff es i).mpr (hni i hi)

/-- `s ↦ s @ K` is linear: `(a v + b w) @ K = a (v @ K) + b (w @ K)` -/
theorem C18_density_linear (es : List Edge) (N : Nat) (a b : Rat) (v w : List Rat) (hl : v.length = w.length) :
    densityNext es N (List.zipWith (fun x y => a * x + b * y) v w)
      = List.zipWith (fun x y => a * x + b * y) (densityNext es N v) (densityNext es N w) :=
  densityNext_linear es N a b v w hl

/-- a non-negative vector stays non-negative -/
theorem C18_density_nonneg (es : List Edge) (N : Nat) (v : List Rat) (hv : ∀ x ∈ v, 0 ≤ x) :
    ∀ y ∈ densityNext es N v, 0 ≤ y :=
  densityNext_nonneg es N v hv

/-! ## `t` steps at once -/

/-- `K ** t`: `K⁰ = I`, `K^(t+1) = K @ K^t` entrywise; every power is row-stochastic with non-negative entries -/
theorem C18_power_stochastic (es : List Edge) (N : Nat) (hv : Valid es N)
    (hni : ∀ i, i < N → ∃ e ∈ es, i ∈ e ∧ 2 ≤ e.length) (t i : Nat) (hi : i < N) :
    sumTo N (kPow es N t i) = 1
    ∧ (∀ j, j < N → 0 ≤ kPow es N t i j)
    ∧ (∀ j, j < N → kPow es N 0 i j = if i = j then 1 else 0)
    ∧ (∀ j, j < N → kPow es N (t + 1) i j = sumTo N (fun k => kEntry es N i k * kPow es N t k j)) := by
  have hr : ∀ i, i < N → 0 < rowSum es N i := fun i hi => by
    rw [rowSum_eq_deg2 es N hv i]; exact (deg2_pos_iff es i).mpr (hni i hi)
  refine ⟨?_, fun j hj => kPow_nonneg es N t i j hi hj, fun j hj => kPow_zero es N i j hi hj, fun j hj => ?_⟩
  · rw [sumTo_eq]; exact kPow_row_sum es N hr t i hi
  · rw [sumTo_eq]; exact kPow_succ es N t i j hi hj

/-- the `k`-th vector returned by `random_walk_density` is the start times `K ** k` (no hypothesis on the hypergraph
or on the signs / total of `s`: an algebraic identity of the loop) -/
theorem C18_density_power (es : List Edge) (N t : Nat) (s : List Rat) (hl : s.length = N) (k : Nat) (hk : k ≤ t) :
    (densityList es N t s)[k]? = some (densityAt es N k s)
    ∧ ∀ j, j < N → (densityAt es N k s)[j]? = some (sumTo N (fun i => vecOf s i * kPow es N k i j)) := by
  refine ⟨densityList_getElem es N t s hl k hk, fun j hj => ?_⟩
  simp [densityAt_eq, hj]

/-- started in the stationary state the density never moves -/
theorem C18_stationary_density_constant (es : List Edge) (N : Nat) (hv : Valid es N) (hc : connectedB es N = true)
    (hN : 2 ≤ N) (p : List Rat) (hp : stationary es N = some p) (t : Nat) :
    ∀ w ∈ densityList es N t p, w = p := by
  have : p = (List.range N).map (piEntry es N) := by
    unfold stationary at hp; rw [if_pos hc] at hp; exact (Option.some.inj hp).symm
  subst this
  exact densityList_const es N _ (piList_fixed es N (fun i hi => rowSum_pos es N hv hc hN i hi)) t

/-! ## `random_walk_density` with its two assertions -/

/-- the executable test is `np.isclose(x, 1)`: `|x − 1| ≤ 1e-8 + 1e-5` -/
theorem C18_isclose (x : Rat) : closeToOne x = true ↔ |x - 1| ≤ 1001 / 100000000 := by
  unfold closeToOne
  rw [abs_le]
  simp only [Bool.and_eq_true, decide_eq_true_eq]
  constructor
  · rintro ⟨a, b⟩; exact ⟨by linarith, a⟩
  · rintro ⟨a, b⟩; exact ⟨b, by linarith⟩

/-- the routine answers exactly when the total of `s` is `isclose` to one and the hypergraph is connected; then
EVERY returned vector has the total of `s` (so it passes the same test), whatever the signs of `s` -/
theorem C18_density_accepts (es : List Edge) (N : Nat) (hv : Valid es N) (hN : 2 ≤ N) (s : List Rat)
    (hl : s.length = N) (t : Nat) :
    (randomWalkDensity es N s t = none ↔ (¬ |s.sum - 1| ≤ 1001 / 100000000) ∨ connectedB es N = false)
    ∧ ∀ L, randomWalkDensity es N s t = some L →
        L = densityList es N t s ∧ ∀ w ∈ L, w.length = N ∧ w.sum = s.sum ∧ closeToOne w.sum = true := by
  unfold randomWalkDensity
  cases hcl : closeToOne s.sum with
  | false =>
    have : ¬ |s.sum - 1| ≤ 1001 / 100000000 := by rw [← C18_isclose, hcl]; simp
    simp [this]
  | true =>
    have hcl' := (C18_isclose s.sum).mp hcl
    cases hc : connectedB es N with
    | false => simp
    | true =>
      simp only [if_true, hcl', not_true_eq_false, Bool.true_eq_false, or_self, iff_false, Option.some.injEq,
        reduceCtorEq, not_false_eq_true, true_and]
      intro L hL
      subst hL
      refine ⟨rfl, fun w hw => ?_⟩
      obtain ⟨h1, h2⟩ := densityList_mass es N (fun i hi => rowSum_pos es N hv hc hN i hi) t s hl w hw
      exact ⟨h1, h2, by rw [h2]; exact hcl⟩

/-! ## sampled walks as a function of the uniform draws -/

/-- `np.random.choice(N, p=p)` (inverse cdf of ONE uniform draw `u ∈ [0, 1)`) on a vector with total one returns an
index below `N` whose probability is positive: the index with `cdf[idx-1] ≤ u < cdf[idx]` -/
theorem C18_choice_support (p : Nat → Rat) (N : Nat) (hp : sumTo N p = 1) (u : Rat) (h0 : 0 ≤ u) (h1 : u < 1) :
    chooseIdx p N u < N ∧ 0 < p (chooseIdx p N u)
    ∧ sumTo (chooseIdx p N u) p ≤ u ∧ u < sumTo (chooseIdx p N u + 1) p :=
  chooseIdx_spec p N u h0 (by rw [hp]; exact h1)

/-- for EVERY list of uniform draws in `[0, 1)` and every start below `N` the sampled walk has `time + 1` nodes
below `N`, starts at `s`, only steps between distinct nodes sharing a hyperedge, and is accepted by the
recorded-choice model `walk` (whose hypothesis "the choice has positive probability" is therefore always met) -/
theorem C18_walk_every_draw (es : List Edge) (N : Nat) (hv : Valid es N) (hc : connectedB es N = true) (hN : 2 ≤ N)
    (us : List Rat) (hu : ∀ u ∈ us, 0 ≤ u ∧ u < 1) (s : Nat) (hs : s < N) :
    (walkU es N s us).head? = some s ∧ (walkU es N s us).length = us.length + 1
    ∧ (∀ v ∈ walkU es N s us, v < N)
    ∧ Adj (fun a b => a ≠ b ∧ ∃ e ∈ es, a ∈ e ∧ b ∈ e) (walkU es N s us)
    ∧ walk es N s (walkU es N s us).tail = some (walkU es N s us) := by
  induction us generalizing s with
  | nil => exact ⟨rfl, rfl, by simp [walkU, hs], adj_single _ _, by simp [walkU, walk]⟩
  | cons u us ih =>
    have hu0 := hu u List.mem_cons_self
    obtain ⟨c1, c2, _, _⟩ := C18_choice_support (kEntry es N s) N (C18_row_stochastic es N hv hc hN s hs).1 u hu0.1 hu0.2
    obtain ⟨i1, i2, i3, i4, i5⟩ := ih (fun x hx => hu x (List.mem_cons_of_mem _ hx)) _ c1
    obtain ⟨rest, hrest⟩ : ∃ rest, walkU es N (chooseIdx (kEntry es N s) N u) us = chooseIdx (kEntry es N s) N u :: rest := by
      cases us <;> simp [walkU]
    have hsup := (C18_walk_support es N hv hc hN s _ hs).mp c2
    refine ⟨rfl, by simp [walkU, i2], ?_, ?_, ?_⟩
    · intro v hv'
      simp only [walkU, List.mem_cons] at hv'
      rcases hv' with rfl | hv'
      · exact hs
      · exact i3 v hv'
    · show Adj _ (s :: walkU es N (chooseIdx (kEntry es N s) N u) us)
      rw [hrest] at i4 ⊢
      exact adj_cons _ _ _ _ hsup i4
    · show walk es N s (walkU es N (chooseIdx (kEntry es N s) N u) us) = some (s :: walkU es N (chooseIdx (kEntry es N s) N u) us)
      rw [hrest] at i5 ⊢
      simp only [List.tail_cons] at i5
      unfold walk
      have hvc : validChoice es N s (chooseIdx (kEntry es N s) N u) = true := by
        simp [validChoice, c1, c2]
      rw [if_pos hvc, i5]; rfl

/-! ## contagion: the infected SET, the draw list, the horizon -/

/-- `numberInf[t]` is the size of the infected set after sweep `t` -/
theorem C18_counts_are_set_sizes (es : List Edge) (nodes keys : List Nat) (r : Rates) (f : Nat → Rat) (I0 : Nat → Bool)
    (T : Nat) :
    counts es nodes keys r f I0 T = (keys.filter I0 :: infectedSets es nodes keys r f I0 T).map List.length := by
  simp [counts, infectedSets, infected, List.map_map, Function.comp_def]

/-- recovery rate `0`: the infected SET only grows from sweep to sweep (not only its size), for every draw stream
and all infection rates -/
theorem C18_mu0_set_grows (es : List Edge) (nodes keys : List Nat) (hnd : nodes.Nodup) (r : Rates) (f : Nat → Rat)
    (hf : UnitDraws f) (hmu : r.mu = 0) (I0 : Nat → Bool) (T : Nat) :
    Adj (fun a b => ∀ v, v ∈ a → v ∈ b) (keys.filter I0 :: infectedSets es nodes keys r f I0 T) := by
  have h := run_set_grows es nodes keys hnd r f hf hmu (T - 1) I0 0
  exact adj_map (fun a b : List Nat => ∀ v, v ∈ a → v ∈ b) (fun s : (Nat → Bool) × Nat => keys.filter s.1) _
    (fun t a b ha hb v hv => by
      rw [List.mem_filter] at hv ⊢
      exact ⟨hv.1, h t a b ha hb v hv.2⟩)

/-- both infection rates `0`: the infected set only shrinks -/
theorem C18_beta0_set_shrinks (es : List Edge) (nodes keys : List Nat) (hnd : nodes.Nodup) (r : Rates) (f : Nat → Rat)
    (hf : UnitDraws f) (hb : r.beta = 0) (hbd : r.betaD = 0) (I0 : Nat → Bool) (T : Nat) :
    Adj (fun a b => ∀ v, v ∈ b → v ∈ a) (keys.filter I0 :: infectedSets es nodes keys r f I0 T) := by
  have h := run_set_shrinks es nodes keys hnd r f hf hb hbd (T - 1) I0 0
  exact adj_map (fun a b : List Nat => ∀ v, v ∈ b → v ∈ a) (fun s : (Nat → Bool) × Nat => keys.filter s.1) _
    (fun t a b ha hb v hv => by
      rw [List.mem_filter] at hv ⊢
      exact ⟨hv.1, h t a b ha hb v hv.2⟩)

/-- keys of `I_0` that are not nodes of the hypergraph are never touched: they keep their initial value in every
state of the run -/
theorem C18_outside_nodes_unchanged (es : List Edge) (nodes keys : List Nat) (hnd : nodes.Nodup) (r : Rates)
    (f : Nat → Rat) (I0 : Nat → Bool) (T : Nat) :
    ∀ s ∈ runStates es nodes keys r f (T - 1) I0 0, ∀ u, u ∉ nodes → s.1 u = I0 u :=
  run_outside_unchanged es nodes keys hnd r f (T - 1) I0 0

/-- the run is a function of the draws it consumes: two streams that agree on the first `consumed` positions give the
same counts, fractions and number of draws (so replaying the finite recorded list, continued arbitrarily, is exact) -/
theorem C18_draws_local (es : List Edge) (nodes keys : List Nat) (r : Rates) (f g : Nat → Rat) (I0 : Nat → Bool) (T : Nat)
    (h : ∀ q, q < consumed es nodes keys r f I0 T → f q = g q) :
    counts es nodes keys r g I0 T = counts es nodes keys r f I0 T
    ∧ fractions es nodes keys r g I0 T = fractions es nodes keys r f I0 T
    ∧ consumed es nodes keys r g I0 T = consumed es nodes keys r f I0 T :=
  counts_congr es nodes keys r f g I0 T h

/-- a longer horizon only appends: the result for `T` is the first `T` entries of the result for `T + 1` (same draws) -/
theorem C18_horizon_prefix (es : List Edge) (nodes keys : List Nat) (r : Rates) (f : Nat → Rat) (I0 : Nat → Bool)
    (T : Nat) (hT : 1 ≤ T) :
    counts es nodes keys r f I0 T = (counts es nodes keys r f I0 (T + 1)).take T
    ∧ fractions es nodes keys r f I0 T = (fractions es nodes keys r f I0 (T + 1)).take T := by
  have h := counts_prefix es nodes keys r f I0 T hT
  refine ⟨h, ?_⟩
  unfold fractions; rw [h, List.map_take]

/-- extinction is absorbing (`while Infected > 0`): after a `0` every later entry is `0` -/
theorem C18_absorbing (es : List Edge) (nodes keys : List Nat) (r : Rates) (f : Nat → Rat) (I0 : Nat → Bool) (T t : Nat)
    (h : (counts es nodes keys r f I0 T)[t]? = some 0) :
    ∀ t', t ≤ t' → t' < T → (counts es nodes keys r f I0 T)[t']? = some 0 :=
  counts_absorbing es nodes keys r f I0 T t h

/-- all three rates `0`: nothing ever changes -/
theorem C18_all_rates_zero (es : List Edge) (nodes keys : List Nat) (hnd : nodes.Nodup) (r : Rates) (f : Nat → Rat)
    (hf : UnitDraws f) (hb : r.beta = 0) (hbd : r.betaD = 0) (hmu : r.mu = 0) (I0 : Nat → Bool) (T : Nat) :
    Adj (fun a b => a = b) (fractions es nodes keys r f I0 T) := fun t a b ha hb' =>
  le_antisymm (C18_mu0_monotone es nodes keys hnd r f hf hmu I0 T t a b ha hb')
    (C18_beta0_monotone es nodes keys hnd r f hf hb hbd I0 T t a b ha hb')

/-- `β = β_D = 0`, `μ = 1`, every key of `I_0` a node: everybody recovers in the first sweep -/
theorem C18_extinction (es : List Edge) (nodes keys : List Nat) (hnd : nodes.Nodup) (hk : ∀ k ∈ keys, k ∈ nodes)
    (r : Rates) (f : Nat → Rat) (hf : UnitDraws f) (hb : r.beta = 0) (hbd : r.betaD = 0) (hmu : r.mu = 1)
    (I0 : Nat → Bool) (T : Nat) :
    counts es nodes keys r f I0 T = infected keys I0 :: List.replicate (T - 1) 0 := by
  rw [(C18_deterministic es nodes keys hnd r f hf (Or.inl hb) (Or.inl hbd) (Or.inr hmu)).2]
  congr 1
  have hs : ∀ J, infected keys (spread es nodes r J) = 0 := by
    intro J
    unfold infected
    rw [List.length_eq_zero_iff, List.filter_eq_nil_iff]
    intro k hk'
    have hkn : k ∈ nodes := hk k hk'
    unfold spread
    cases hJ : J k <;> simp [hkn, hb, hbd, hmu, hJ]
  generalize T - 1 = n
  induction n generalizing I0 with
  | zero => rfl
  | succ n ih =>
    unfold spreadCounts
    split
    · rfl
    · rw [hs, ih]; rfl

/-! ## one sweep: what a single rate forces, and no infection without a source -/

/-- no infection without a source: a susceptible node with no infected pairwise neighbour and no 3-hyperedge whose two
other members are infected is still susceptible after the sweep - for all rates and all draws (no hypothesis on `f`) -/
theorem C18_no_spontaneous_infection (es : List Edge) (nodes : List Nat) (hnd : nodes.Nodup) (r : Rates) (f : Nat → Rat)
    (I : Nat → Bool) (p v : Nat) (hI : I v = false) (hp : (pairNbrs es nodes v).any I = false)
    (ht : (triplets es v).any (triHit I v) = false) : (step es nodes r f I p).1 v = false := by
  by_cases hv : v ∈ nodes
  · exact step_value es nodes hnd r f I p v false hv (fun q => newVal_no_source es nodes r f I v q hI hp ht)
  · rw [(step_spec es nodes hnd r f I p).1 v hv]; exact hI

/-- `β = 1` alone (any `β_D`, `μ`, any draws in `[0,1)`): a susceptible node with an infected pairwise neighbour is infected
after the sweep -/
theorem C18_beta1_certain (es : List Edge) (nodes : List Nat) (hnd : nodes.Nodup) (r : Rates) (f : Nat → Rat)
    (hf : UnitDraws f) (hb : r.beta = 1) (I : Nat → Bool) (p v : Nat) (hv : v ∈ nodes) (hI : I v = false)
    (hp : (pairNbrs es nodes v).any I = true) : (step es nodes r f I p).1 v = true :=
  step_value es nodes hnd r f I p v true hv (fun q => newVal_beta1 es nodes r f hf hb I v q hI hp)

/-- `β_D = 1` alone: a susceptible node in a 3-hyperedge whose two other members are infected is infected after the sweep -/
theorem C18_betaD1_certain (es : List Edge) (nodes : List Nat) (hnd : nodes.Nodup) (r : Rates) (f : Nat → Rat)
    (hf : UnitDraws f) (hbd : r.betaD = 1) (I : Nat → Bool) (p v : Nat) (hv : v ∈ nodes) (hI : I v = false)
    (ht : (triplets es v).any (triHit I v) = true) : (step es nodes r f I p).1 v = true :=
  step_value es nodes hnd r f I p v true hv (fun q => newVal_betaD1 es nodes r f hf hbd I v q hI ht)

/-- `μ = 1` alone: every infected node is susceptible after the sweep (it may be re-infected only in a later sweep) -/
theorem C18_mu1_certain (es : List Edge) (nodes : List Nat) (hnd : nodes.Nodup) (r : Rates) (f : Nat → Rat)
    (hf : UnitDraws f) (hmu : r.mu = 1) (I : Nat → Bool) (p v : Nat) (hv : v ∈ nodes) (hI : I v = true) :
    (step es nodes r f I p).1 v = false :=
  step_value es nodes hnd r f I p v false hv (fun q => newVal_mu1 es nodes r f hf hmu I v q hI)

/-! ## the new model parts depend on the content only, too -/

/-- `C18_listing_irrelevant` for the definitions of the extension round: matrix powers, `t`-step densities,
`random_walk_density` with its assertions, walks driven by uniform draws, the infected sets -/
theorem C18_listing_irrelevant_ext (es es' : List Edge) (h : es.Perm es') :
    (∀ N t, kPowMat es N t = kPowMat es' N t) ∧ (∀ N t v, densityAt es N t v = densityAt es' N t v)
    ∧ (∀ N s t, randomWalkDensity es N s t = randomWalkDensity es' N s t)
    ∧ (∀ N s us, walkU es N s us = walkU es' N s us)
    ∧ (∀ nodes keys r f I0 T, infectedSets es nodes keys r f I0 T = infectedSets es' nodes keys r f I0 T) := by
  have hk := kEntry_perm h
  have hp : ∀ N t, kPowMat es N t = kPowMat es' N t := by
    intro N t
    induction t with
    | zero => rfl
    | succ t ih => simp only [kPowMat, kMat, hk, ih]
  refine ⟨hp, fun N t v => by simp only [densityAt, hp],
    fun N s t => by simp only [randomWalkDensity, connectedB_perm h, densityList_perm h], ?_,
    fun nodes keys r f I0 T => by simp only [infectedSets, runStates_perm h]⟩
  intro N s us
  induction us generalizing s with
  | nil => rfl
  | cons u us ih => simp only [walkU, hk, ih]

/-! ## non-vacuity of the extension round -/

/-- a pair and an isolated node `2`; `[1]` is a hyperedge with one member -/
private def exI : List Edge := [[0, 1], [1]]
private theorem exIValid : Valid exI 3 := by unfold Valid exI; decide
example : rowSum exI 3 2 = 0 := (C18_zero_row_iff exI 3 exIValid 2).mpr (by decide)
example : sumTo 3 (kEntry exI 3 1) = 1 :=
  (C18_row_stochastic_general exI 3 exIValid 1 ⟨[0, 1], by decide, by decide, by decide⟩).1
example : transitionMatrix exI 3 = none := (C18_isolated_node exI 3 exIValid (by decide) 2 (by decide) (by decide)).2.1
example : rowsPositive [] 1 = false := (C18_single_node [] (by intro e he; cases he)).2.2
example : piEntry exE 4 2 * kEntry exE 4 2 3 = piEntry exE 4 3 * kEntry exE 4 3 2 :=
  (C18_detailed_balance exE 4 exValid exConn (by decide) 2 3 (by decide) (by decide)).1
example (x : Nat → Rat) (h1 : ∀ j, j < 4 → sumTo 4 (fun i => x i * kEntry exE 4 i j) = x j) (h2 : sumTo 4 x = 1) :
    x 2 = piEntry exE 4 2 := C18_stationary_unique exE 4 exValid exConn (by decide) x h1 h2 2 (by decide)
/-- disconnected (two pairs), signed, total 3: the mass identity needs neither connectivity nor a probability vector -/
example : (densityNext [[0, 1], [2, 3]] 4 [5, -2, 0, 0]).sum = 3 := by
  rw [(C18_density_mass_signed [[0, 1], [2, 3]] 4 (by unfold Valid; decide) (by decide) [5, -2, 0, 0] rfl).2]; norm_num
example : densityNext exE 4 (List.zipWith (fun x y => 2 * x + -3 * y) [1, 0, 0, 0] [0, 0, 1, 0])
    = List.zipWith (fun x y => 2 * x + -3 * y) (densityNext exE 4 [1, 0, 0, 0]) (densityNext exE 4 [0, 0, 1, 0]) :=
  C18_density_linear exE 4 2 (-3) _ _ rfl
example : ∀ y ∈ densityNext exE 4 [1 / 2, 0, 1 / 2, 0], 0 ≤ y :=
  C18_density_nonneg exE 4 _ (by intro x hx; simp at hx; rcases hx with rfl | rfl | rfl | rfl <;> norm_num)
private theorem exNI : ∀ i, i < 4 → ∃ e ∈ exE, i ∈ e ∧ 2 ≤ e.length := by decide
example : sumTo 4 (kPow exE 4 3 2) = 1 := (C18_power_stochastic exE 4 exValid exNI 3 2 (by decide)).1
example : (densityList exE 4 3 [3 / 2, -1, 0, 1 / 2])[2]? = some (densityAt exE 4 2 [3 / 2, -1, 0, 1 / 2]) :=
  (C18_density_power exE 4 3 _ rfl 2 (by decide)).1
example : ∃ p, stationary exE 4 = some p ∧ ∀ w ∈ densityList exE 4 5 p, w = p :=
  ⟨(List.range 4).map (piEntry exE 4), by simp [stationary, exConn],
    C18_stationary_density_constant exE 4 exValid exConn (by decide) _ (by simp [stationary, exConn]) 5⟩
example : closeToOne (1 + 1 / 200000) = true := by rw [C18_isclose]; norm_num [abs_le]
example : closeToOne (1 + 1 / 50000) = false := by
  rw [Bool.eq_false_iff, Ne, C18_isclose]; norm_num [abs_le]
example : ∃ L, randomWalkDensity exE 4 [3 / 2, -1, 0, 1 / 2] 2 = some L := by
  have h : closeToOne ([3 / 2, -1, 0, 1 / 2] : List Rat).sum = true := by rw [C18_isclose]; norm_num [abs_le]
  unfold randomWalkDensity
  rw [if_pos h, if_pos exConn]; exact ⟨_, rfl⟩
example : randomWalkDensity exE 4 [1, 1, 0, 0] 2 = none := by
  rw [(C18_density_accepts exE 4 exValid (by decide) [1, 1, 0, 0] rfl 2).1]; left; norm_num [abs_le]
example : chooseIdx (fun i => if i = 1 then 1 / 4 else if i = 3 then 3 / 4 else 0) 4 (1 / 2) = 3 := by
  simp [chooseIdx, chooseFrom]; norm_num
example : (walkU exE 4 0 [1 / 4, 3 / 4, 9 / 10, 0]).length = 5 :=
  (C18_walk_every_draw exE 4 exValid exConn (by decide) _ (by
    intro u hu; simp at hu; rcases hu with rfl | rfl | rfl | rfl <;> norm_num) 0 (by decide)).2.1

example : counts exC exNodes exNodes ⟨1 / 3, 1 / 4, 1 / 5⟩ exF exI0 4
    = (exNodes.filter exI0 :: infectedSets exC exNodes exNodes ⟨1 / 3, 1 / 4, 1 / 5⟩ exF exI0 4).map List.length :=
  C18_counts_are_set_sizes _ _ _ _ _ _ _
example : Adj (fun a b => ∀ v, v ∈ a → v ∈ b)
    (exNodes.filter exI0 :: infectedSets exC exNodes exNodes ⟨1 / 3, 1 / 4, 0⟩ exF exI0 6) :=
  C18_mu0_set_grows exC exNodes exNodes (by decide) _ exF exUnit rfl exI0 6
example : Adj (fun a b => ∀ v, v ∈ b → v ∈ a)
    (exNodes.filter exI0 :: infectedSets exC exNodes exNodes ⟨0, 0, 3 / 4⟩ exF exI0 6) :=
  C18_beta0_set_shrinks exC exNodes exNodes (by decide) _ exF exUnit rfl rfl exI0 6
/-- key `7` is not a node: it stays infected whatever happens -/
example : ∀ s ∈ runStates exC exNodes [0, 1, 7] ⟨1 / 3, 1 / 4, 1⟩ exF (5 - 1) (fun v => v == 7 || v == 0) 0, s.1 7 = true :=
  fun s hs => C18_outside_nodes_unchanged exC exNodes [0, 1, 7] (by decide) _ exF _ 5 s hs 7 (by decide)
/-- a stream that differs from `exF` only beyond the consumed prefix gives the same run -/
example (g : Nat → Rat) (h : ∀ q, q < consumed exC exNodes exNodes ⟨1, 1 / 4, 1 / 5⟩ exF exI0 4 → exF q = g q) :
    counts exC exNodes exNodes ⟨1, 1 / 4, 1 / 5⟩ g exI0 4 = counts exC exNodes exNodes ⟨1, 1 / 4, 1 / 5⟩ exF exI0 4 :=
  (C18_draws_local exC exNodes exNodes _ exF g exI0 4 h).1
example : counts exC exNodes exNodes ⟨1, 1, 0⟩ exF exI0 4 = [1, 2, 3, 4] := by
  rw [(C18_horizon_prefix exC exNodes exNodes ⟨1, 1, 0⟩ exF exI0 4 (by decide)).1,
    (C18_deterministic exC exNodes exNodes (by decide) ⟨1, 1, 0⟩ exF exUnit (Or.inr rfl) (Or.inr rfl) (Or.inl rfl)).2]
  decide
example : counts exC exNodes exNodes ⟨0, 0, 1⟩ exF exI0 4 = [1, 0, 0, 0] :=
  C18_extinction exC exNodes exNodes (by decide) (fun _ h => h) _ exF exUnit rfl rfl rfl exI0 4
example : (counts exC exNodes exNodes ⟨0, 0, 1⟩ exF exI0 4)[3]? = some 0 :=
  C18_absorbing exC exNodes exNodes _ exF exI0 4 1
    (by rw [C18_extinction exC exNodes exNodes (by decide) (fun _ h => h) _ exF exUnit rfl rfl rfl exI0 4]; rfl)
    3 (by decide) (by decide)
example : Adj (fun a b => a = b) (fractions exC exNodes exNodes ⟨0, 0, 0⟩ exF exI0 6) :=
  C18_all_rates_zero exC exNodes exNodes (by decide) _ exF exUnit rfl rfl rfl exI0 6
example : walkU [[2, 3], [0, 1, 2]] 4 0 [1 / 4, 3 / 4] = walkU exE 4 0 [1 / 4, 3 / 4] :=
  ((C18_listing_irrelevant_ext exE [[2, 3], [0, 1, 2]] (by decide)).2.2.2.1 4 0 _).symm
/-- node `3` has no pairwise neighbour and its triangle `{0, 2, 3}` has only one infected member -/
example : (step exC exNodes ⟨1 / 3, 1 / 4, 1 / 5⟩ exF exI0 0).1 3 = false :=
  C18_no_spontaneous_infection exC exNodes (by decide) _ exF exI0 0 3 (by decide) (by decide) (by decide)
example : (step exC exNodes ⟨1, 1 / 4, 1 / 5⟩ exF exI0 0).1 1 = true :=
  C18_beta1_certain exC exNodes (by decide) _ exF exUnit rfl exI0 0 1 (by decide) (by decide) (by decide)
example : (step exC exNodes ⟨1 / 3, 1, 1 / 5⟩ exF (fun v => v == 0 || v == 2) 0).1 3 = true :=
  C18_betaD1_certain exC exNodes (by decide) _ exF exUnit rfl _ 0 3 (by decide) (by decide) (by decide)
example : (step exC exNodes ⟨1 / 3, 1 / 4, 1⟩ exF exI0 0).1 0 = false :=
  C18_mu1_certain exC exNodes (by decide) _ exF exUnit rfl exI0 0 0 (by decide) (by decide)
