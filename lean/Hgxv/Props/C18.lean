import Hgxv.Model.C18
import Hgxv.Proofs.C18RW
import Hgxv.Proofs.C18Cont
import Hgxv.Proofs.C18Conn
import Hgxv.Proofs.C18Hist
import Mathlib.Tactic.NormNum
/-! # C18 — random walks are stochastic and stationary; contagion exact when deterministic

Property theorems about the model `Hgxv/Model/C18.lean`.

Hypotheses used throughout (exactly what the routines / the property's quantifier guarantee):
* `Valid es N`: every hyperedge has distinct members, all `< N` (`Hypergraph.get_edges()` on nodes `0..N-1`);
* `connectedB es N = true`: the assertion `HG.is_connected()` of `transition_matrix` passed;
* `2 ≤ N`: the one-node hypergraph is connected but has the all-`nan` matrix `[[0/0]]`; excluded;
* `UnitDraws f`: every `np.random.random()` result lies in `[0, 1)`; `nodes.Nodup`: `get_nodes()` lists dict keys. -/
open C18

/-! ## connectivity -/

/-- the executable test behind the hypothesis `connectedB es N = true` (the model of the assertion
`HG.is_connected()`) holds exactly when every node is joined to node `0` by a chain of nodes sharing hyperedges -/
theorem C18_connected_iff (es : List Edge) (N : Nat) (hN : 0 < N) : connectedB es N = true ↔ Connected es N :=
  connectedB_iff es N hN

/-! ## the transition matrix -/

/-- `T.sum(axis=1)[i] = Σ_{e ∋ i} (|e| − 1)²` -/
theorem C18_rowsum (es : List Edge) (N : Nat) (hv : Valid es N) (i : Nat) :
    rowSum es N i = deg2 es i :=
  rowSum_eq_deg2 es N hv i

/-- connected with at least two nodes: no row of `T` is zero, so `T / T.sum(axis=1)` has no `nan` -/
theorem C18_rows_positive (es : List Edge) (N : Nat) (hv : Valid es N) (hc : connectedB es N = true) (hN : 2 ≤ N)
    (i : Nat) (hi : i < N) : 0 < rowSum es N i :=
  rowSum_pos es N hv hc hN i hi

/-- entry `(i, j)` is the sum over the hyperedges containing both `i` and `j` of `(size − 1)`, divided by the
row total `Σ_{e ∋ i} (size − 1)²`; the diagonal is `0` -/
theorem C18_entry (es : List Edge) (N : Nat) (hv : Valid es N) (i j : Nat) :
    kEntry es N i j = (if i = j then 0 else (shared es i j : Rat)) / (deg2 es i : Rat) := by
  unfold kEntry
  rw [rowSum_eq_deg2 es N hv i]
  by_cases h : i = j
  · subst h; simp [tEntry_diag es N hv i]
  · simp [h, tEntry_eq_shared es N hv i j h]

/-- what `transition_matrix` returns is the table of `kEntry` -/
theorem C18_matrix_entries (es : List Edge) (N : Nat) (K : List (List Rat)) (h : transitionMatrix es N = some K)
    (i j : Nat) (hi : i < N) (hj : j < N) : (K[i]?.bind (·[j]?)) = some (kEntry es N i j) := by
  unfold transitionMatrix at h
  split at h
  · cases h; simp [hi, hj]
  · cases h

theorem C18_row_stochastic (es : List Edge) (N : Nat) (hv : Valid es N) (hc : connectedB es N = true) (hN : 2 ≤ N)
    (i : Nat) (hi : i < N) :
    sumTo N (kEntry es N i) = 1 ∧ ∀ j, 0 ≤ kEntry es N i j := by
  refine ⟨?_, fun j => kEntry_nonneg es N i j⟩
  rw [sumTo_eq]
  exact kRow_sum es N i (rowSum_pos es N hv hc hN i hi)

/-- `K[i][j] > 0` exactly when `i ≠ j` lie in a common hyperedge -/
theorem C18_walk_support (es : List Edge) (N : Nat) (hv : Valid es N) (hc : connectedB es N = true) (hN : 2 ≤ N)
    (i j : Nat) (hi : i < N) :
    0 < kEntry es N i j ↔ i ≠ j ∧ ∃ e ∈ es, i ∈ e ∧ j ∈ e := by
  have hr := rowSum_pos es N hv hc hN i hi
  have hrq : (0 : Rat) < (rowSum es N i : Rat) := by exact_mod_cast hr
  unfold kEntry
  rw [div_pos_iff_of_pos_right hrq, Nat.cast_pos]
  by_cases h : i = j
  · subst h; simp [tEntry_diag es N hv i]
  · rw [tEntry_pos_iff es N hv i j h, share_iff]; simp [h]

/-! ## the stationary state -/

/-- `π = d / Σ d` (with `d_i = Σ_{e ∋ i} (size − 1)²`) is a probability vector fixed by `K` -/
theorem C18_stationary (es : List Edge) (N : Nat) (hv : Valid es N) (hc : connectedB es N = true) (hN : 2 ≤ N) :
    (∀ j, sumTo N (fun i => piEntry es N i * kEntry es N i j) = piEntry es N j)
    ∧ sumTo N (piEntry es N) = 1
    ∧ (∀ i, 0 ≤ piEntry es N i)
    ∧ (∀ i, piEntry es N i = (deg2 es i : Rat) / sumTo N (fun k => (deg2 es k : Rat))) := by
  have hr : ∀ i, i < N → 0 < rowSum es N i := fun i hi => rowSum_pos es N hv hc hN i hi
  refine ⟨fun j => ?_, ?_, fun i => pi_nonneg es N i, fun i => ?_⟩
  · rw [sumTo_eq]; exact pi_fixed es N hr j
  · rw [sumTo_eq]; exact pi_sum es N (by omega) hr
  · unfold piEntry; simp only [rowSum_eq_deg2 es N hv]

/-- D31, proof side: the system `(I − Kᵀ) x = 𝟙` solved by the unrepaired `RW_stationary_state` has no solution,
for any row-stochastic `K` whatsoever (add up the equations: `0 = N`) -/
theorem C18_solve_is_inconsistent (K : Nat → Nat → Rat) (N : Nat) (hN : 0 < N)
    (hK : ∀ i, i < N → sumTo N (K i) = 1) : ¬ ∃ x, SolvesOriginal K N x := by
  rintro ⟨x, hx⟩
  apply original_inconsistent K N hN (fun i hi => by rw [← sumTo_eq]; exact hK i hi) x
  intro i hi
  have := hx i hi
  rwa [sumTo_eq] at this

/-- in particular for the transition matrix of every connected hypergraph -/
theorem C18_solve_is_inconsistent_for_K (es : List Edge) (N : Nat) (hv : Valid es N) (hc : connectedB es N = true)
    (hN : 2 ≤ N) : ¬ ∃ x, SolvesOriginal (kEntry es N) N x :=
  C18_solve_is_inconsistent _ N (by omega) (fun i hi => (C18_row_stochastic es N hv hc hN i hi).1)

/-- the repaired system (last equation of `(I − Kᵀ) x = 0` replaced by `Σ x = 1`) is solved by `π` -/
theorem C18_pi_solves_repaired (es : List Edge) (N : Nat) (hv : Valid es N) (hc : connectedB es N = true) (hN : 2 ≤ N) :
    SolvesRepaired (kEntry es N) N (piEntry es N) := by
  obtain ⟨h1, h2, _, _⟩ := C18_stationary es N hv hc hN
  refine ⟨fun i _ => ?_, h2⟩
  have := h1 i
  rw [sub_eq_zero, ← this]
  unfold sumTo; congr 1; apply List.map_congr_left; intro j _; ring

/-- ... and by nothing else: under connectivity every solution of the repaired system equals `π = d / Σ d`
(maximum principle for `x_i / d_i` along shared hyperedges), so the system is non-singular and the routine's
result is determined -/
theorem C18_repaired_solution_is_pi (es : List Edge) (N : Nat) (hv : Valid es N) (hc : connectedB es N = true)
    (hN : 2 ≤ N) (x : Nat → Rat) (hx : SolvesRepaired (kEntry es N) N x) :
    ∀ i, i < N → x i = piEntry es N i := by
  obtain ⟨h1, h2⟩ := hx
  apply solution_unique es N hv hc hN x
  · intro i hi; have := h1 i hi; rwa [sumTo_eq] at this
  · rwa [sumTo_eq] at h2

/-! ## densities -/

/-- `random_walk_density`: the list starts with `s`, every later vector is the previous one times `K`
(entry `j` is `Σ_i s_i K[i][j]`), and every vector has length `N` and sums to one -/
theorem C18_density (es : List Edge) (N : Nat) (hv : Valid es N) (hc : connectedB es N = true) (hN : 2 ≤ N)
    (time : Nat) (s : List Rat) (hlen : s.length = N) (hsum : s.sum = 1) :
    (densityList es N time s).head? = some s
    ∧ (densityList es N time s).length = time + 1
    ∧ Adj (fun a b => b = densityNext es N a) (densityList es N time s)
    ∧ (∀ w ∈ densityList es N time s, w.length = N ∧ w.sum = 1)
    ∧ (∀ (w : List Rat) (j : Nat), j < N →
        (densityNext es N w)[j]? = some (sumTo N (fun i => vecOf w i * kEntry es N i j))) := by
  have hr : ∀ i, i < N → 0 < rowSum es N i := fun i hi => rowSum_pos es N hv hc hN i hi
  have hnext : ∀ w : List Rat, w.length = N → w.sum = 1 →
      (densityNext es N w).length = N ∧ (densityNext es N w).sum = 1 := by
    intro w hl hs
    refine ⟨by simp [densityNext], ?_⟩
    have e1 : (densityNext es N w).sum = sumTo N (densityStep es N (vecOf w)) := rfl
    rw [e1, sumTo_eq, density_mass es N hr, ← sumTo_eq, ← hl, ← list_sum_eq_sumTo, hs]
  refine ⟨?_, ?_, ?_, ?_, ?_⟩
  · cases time <;> simp [densityList]
  · induction time generalizing s with
    | zero => simp [densityList]
    | succ t ih => simp [densityList, ih (densityNext es N s) (hnext s hlen hsum).1 (hnext s hlen hsum).2]
  · induction time generalizing s with
    | zero => exact adj_single _ _
    | succ t ih =>
      have := ih (densityNext es N s) (hnext s hlen hsum).1 (hnext s hlen hsum).2
      unfold densityList
      cases t with
      | zero => exact adj_cons _ _ _ _ rfl (by simpa [densityList] using this)
      | succ t => unfold densityList at this ⊢; exact adj_cons _ _ _ _ rfl this
  · induction time generalizing s with
    | zero => intro w hw; simp [densityList] at hw; subst hw; exact ⟨hlen, hsum⟩
    | succ t ih =>
      intro w hw
      simp only [densityList, List.mem_cons] at hw
      rcases hw with rfl | hw
      · exact ⟨hlen, hsum⟩
      · exact ih (densityNext es N s) (hnext s hlen hsum).1 (hnext s hlen hsum).2 w hw
  · intro w j hj
    simp [densityNext, densityStep, hj]

/-! ## sampled walks -/

/-- a walk replayed from recorded `np.random.choice` results that honour the sampler's contract (positive
probability) starts at `s`, has `time + 1` nodes, and only steps between distinct nodes sharing a hyperedge -/
theorem C18_walk (es : List Edge) (N : Nat) (hv : Valid es N) (s : Nat) (cs ns : List Nat)
    (h : walk es N s cs = some ns) :
    ns.head? = some s ∧ ns.length = cs.length + 1
    ∧ Adj (fun a b => a ≠ b ∧ ∃ e ∈ es, a ∈ e ∧ b ∈ e) ns := by
  induction cs generalizing s ns with
  | nil => simp [walk] at h; subst h; exact ⟨rfl, rfl, adj_single _ _⟩
  | cons c cs ih =>
    unfold walk at h
    split at h
    · next hvc =>
      cases hw : walk es N c cs with
      | none => rw [hw] at h; cases h
      | some ms =>
        rw [hw] at h; simp at h; subst h
        obtain ⟨h1, h2, h3⟩ := ih c ms hw
        refine ⟨rfl, by simp [h2], ?_⟩
        cases ms with
        | nil => simp at h2
        | cons m ms =>
          simp at h1; subst h1
          apply adj_cons _ _ _ _ _ h3
          simp only [validChoice, Bool.and_eq_true, decide_eq_true_eq] at hvc
          have hk := hvc.2
          unfold kEntry at hk
          have hT : 0 < tEntry es s m := by
            apply Nat.pos_of_ne_zero
            intro hz; rw [hz] at hk; simp at hk
          have hne : s ≠ m := by
            intro e; subst e; rw [tEntry_diag es N hv s] at hT; exact Nat.lt_irrefl _ hT
          exact ⟨hne, (share_iff es s m).mp ((tEntry_pos_iff es N hv s m hne).mp hT)⟩
    · cases h

/-! ## simplicial contagion -/

/-- the returned array has `T` entries, all in `[0, 1]`, the first one being the initial infected fraction -/
theorem C18_range (es : List Edge) (nodes keys : List Nat) (r : Rates) (f : Nat → Rat) (I0 : Nat → Bool) (T : Nat)
    (hT : 1 ≤ T) (hk : keys ≠ []) :
    (fractions es nodes keys r f I0 T).length = T
    ∧ (fractions es nodes keys r f I0 T).head? = some ((infected keys I0 : Rat) / (keys.length : Rat))
    ∧ ∀ x ∈ fractions es nodes keys r f I0 T, 0 ≤ x ∧ x ≤ 1 := by
  have hpos : (0 : Rat) < (keys.length : Rat) := by
    have : 0 < keys.length := List.length_pos_iff.mpr hk
    exact_mod_cast this
  refine ⟨?_, ?_, ?_⟩
  · simp [fractions, counts, runStates_length]; omega
  · simp [fractions, counts]
  · intro x hx
    simp only [fractions, List.mem_map] at hx
    obtain ⟨c, hc, rfl⟩ := hx
    have hle : c ≤ keys.length := by
      simp only [counts, List.mem_cons, List.mem_map] at hc
      rcases hc with rfl | ⟨s, _, rfl⟩ <;> exact infected_le _ _
    constructor
    · positivity
    · rw [div_le_one hpos]; exact_mod_cast hle

/-- recovery rate `0`: the infected fraction never decreases, whatever the draws and the infection rates -/
theorem C18_mu0_monotone (es : List Edge) (nodes keys : List Nat) (hnd : nodes.Nodup) (r : Rates) (f : Nat → Rat)
    (hf : UnitDraws f) (hmu : r.mu = 0) (I0 : Nat → Bool) (T : Nat) :
    Adj (fun a b => a ≤ b) (fractions es nodes keys r f I0 T) := by
  unfold fractions
  apply adj_map
  unfold counts
  apply run_adj es nodes keys r f (fun a b => (a : Rat) / (keys.length : Rat) ≤ (b : Rat) / (keys.length : Rat))
  · exact le_refl _
  · intro I p
    apply div_le_div_of_nonneg_right _ (by positivity)
    exact_mod_cast infected_mono keys I _ (fun v hI => step_mu0 es nodes hnd r f (fun n => (hf n).1) hmu I p v hI)

/-- both infection rates `0`: the infected fraction never increases, whatever the draws and the recovery rate -/
theorem C18_beta0_monotone (es : List Edge) (nodes keys : List Nat) (hnd : nodes.Nodup) (r : Rates) (f : Nat → Rat)
    (hf : UnitDraws f) (hb : r.beta = 0) (hbd : r.betaD = 0) (I0 : Nat → Bool) (T : Nat) :
    Adj (fun a b => b ≤ a) (fractions es nodes keys r f I0 T) := by
  unfold fractions
  apply adj_map
  unfold counts
  apply run_adj es nodes keys r f (fun a b => (b : Rat) / (keys.length : Rat) ≤ (a : Rat) / (keys.length : Rat))
  · exact le_refl _
  · intro I p
    apply div_le_div_of_nonneg_right _ (by positivity)
    exact_mod_cast infected_mono keys _ I
      (fun v hI => step_beta0 es nodes hnd r f (fun n => (hf n).1) hb hbd I p v hI)

/-- rates in `{0, 1}`, EVERY draw stream: one sweep is the closed-form spreading, read entirely from the old
state (`spread`: a susceptible node becomes infected iff `β = 1` and a pairwise neighbour is infected, or
`β_D = 1` and both other members of a 3-node hyperedge are infected; an infected node recovers iff `μ = 1`),
and the whole trajectory is the iterated closed form -/
theorem C18_deterministic (es : List Edge) (nodes keys : List Nat) (hnd : nodes.Nodup) (r : Rates) (f : Nat → Rat)
    (hf : UnitDraws f) (hb : r.beta = 0 ∨ r.beta = 1) (hbd : r.betaD = 0 ∨ r.betaD = 1) (hmu : r.mu = 0 ∨ r.mu = 1) :
    (∀ I p, (step es nodes r f I p).1 = spread es nodes r I)
    ∧ ∀ I0 T, counts es nodes keys r f I0 T = infected keys I0 :: spreadCounts es nodes keys r (T - 1) I0 := by
  refine ⟨fun I p => step_det es nodes hnd r f hf hb hbd hmu I p, fun I0 T => ?_⟩
  unfold counts
  rw [run_det es nodes keys hnd r f hf hb hbd hmu]

/-- the closed form in words -/
theorem C18_spread_meaning (es : List Edge) (nodes : List Nat) (hcov : ∀ e ∈ es, ∀ u ∈ e, u ∈ nodes) (r : Rates)
    (I : Nat → Bool) (v : Nat) (hv : v ∈ nodes) :
    spread es nodes r I v = true ↔
      (I v = false ∧
        ((r.beta = 1 ∧ ∃ u, u ≠ v ∧ I u = true ∧ ∃ e ∈ es, e.length = 2 ∧ v ∈ e ∧ u ∈ e)
         ∨ (r.betaD = 1 ∧ ∃ e ∈ es, e.length = 3 ∧ v ∈ e ∧ ∀ u ∈ e, u ≠ v → I u = true)))
      ∨ (I v = true ∧ r.mu ≠ 1) := by
  unfold spread
  simp only [List.contains_iff_mem, hv, if_true]
  cases hI : I v with
  | true => simp
  | false =>
    simp only [if_true, Bool.or_eq_true, Bool.and_eq_true, decide_eq_true_eq, List.any_eq_true, true_and,
      Bool.false_eq_true, false_and, or_false, pairNbrs, triplets, triHit, List.mem_filter, List.all_eq_true,
      bne_iff_ne, ne_eq, beq_iff_eq, List.contains_iff_mem]
    constructor
    · rintro (⟨hb, u, ⟨_, hne, e, he, ⟨hl, hve⟩, hue⟩, hu⟩ | ⟨hbd, e, ⟨he, hl, hve⟩, hall⟩)
      · exact Or.inl ⟨hb, u, hne, hu, e, he, hl, hve, hue⟩
      · exact Or.inr ⟨hbd, e, he, hl, hve, fun u hu hne => hall u ⟨hu, hne⟩⟩
    · rintro (⟨hb, u, hne, hu, e, he, hl, hve, hue⟩ | ⟨hbd, e, he, hl, hve, hall⟩)
      · exact Or.inl ⟨hb, u, ⟨hcov e he u hue, hne, e, he, ⟨hl, hve⟩, hue⟩, hu⟩
      · exact Or.inr ⟨hbd, e, ⟨he, hl, hve⟩, fun u hu => hall u hu.1 hu.2⟩

/-- the order in which Python iterates over the neighbour *set* (or over the triplets) is irrelevant: the
attempt loop only depends on how many candidates satisfy the condition -/
theorem C18_order_irrelevant (f : Nat → Rat) (rate : Rat) (I : Nat → Bool) (l l' : List Nat) (h : l.Perm l') (p : Nat) :
    loopHits f rate (l.map I) p = loopHits f rate (l'.map I) p := by
  rw [loopHits_eq_tries, loopHits_eq_tries, (h.map I).count_eq]

/-! ## histories: only the content of the hypergraph matters -/

/-- `Hypergraph.get_edges()` lists the stored hyperedges in the order of an internal dictionary, which depends on the
history of the object (removal + re-insertion moves a hyperedge to the end; copied, saved + loaded, rebuilt objects may
list the same hyperedges differently).  Every routine of the model is invariant under a permutation of that list:
the connectivity assertion, the transition matrix, the stationary state, the densities, the replayed walks, the whole
contagion run (counts, fractions, number of draws consumed, for every draw stream) and the closed-form spreading are
functions of the content only.  (The correspondence loads the canonical listing whatever history built the object.) -/
theorem C18_listing_irrelevant (es es' : List Edge) (h : es.Perm es') :
    connectedB es = connectedB es' ∧ kEntry es = kEntry es' ∧ transitionMatrix es = transitionMatrix es'
    ∧ stationary es = stationary es'
    ∧ (∀ N t v, densityList es N t v = densityList es' N t v)
    ∧ (∀ N s cs, walk es N s cs = walk es' N s cs)
    ∧ (∀ nodes keys r f I0 T, counts es nodes keys r f I0 T = counts es' nodes keys r f I0 T
        ∧ fractions es nodes keys r f I0 T = fractions es' nodes keys r f I0 T
        ∧ consumed es nodes keys r f I0 T = consumed es' nodes keys r f I0 T)
    ∧ (∀ nodes keys r n I, spreadCounts es nodes keys r n I = spreadCounts es' nodes keys r n I) := by
  refine ⟨connectedB_perm h, kEntry_perm h, transitionMatrix_perm h, stationary_perm h, densityList_perm h,
    walk_perm h, fun nodes keys r f I0 T => ?_, spreadCounts_perm h⟩
  unfold fractions counts consumed
  simp only [runStates_perm h]
  exact ⟨trivial, trivial, trivial⟩

/-! ## non-vacuity: the hypotheses hold on concrete non-trivial inputs and the theorems apply -/

/-- triangle + edge, non-regular: `d = (4, 4, 5, 1)` -/
private def exE : List Edge := [[0, 1, 2], [2, 3]]
private theorem exValid : Valid exE 4 := by unfold Valid exE; decide
private theorem exConn : connectedB exE 4 = true := by decide
example : Connected exE 4 := (C18_connected_iff exE 4 (by decide)).mp exConn
example : ¬ Connected [[0, 1], [2, 3]] 4 := by rw [← C18_connected_iff _ 4 (by decide)]; decide

example : rowSum exE 4 2 = 5 := by rw [C18_rowsum exE 4 exValid]; decide
example : 0 < rowSum exE 4 3 := C18_rows_positive exE 4 exValid exConn (by decide) 3 (by decide)
example : kEntry exE 4 2 3 = 1 / 5 := by
  have h1 : shared exE 2 3 = 1 := by decide
  have h2 : deg2 exE 2 = 5 := by decide
  rw [C18_entry exE 4 exValid, h1, h2]; norm_num
example : ∃ K, transitionMatrix exE 4 = some K := by simp [transitionMatrix, exConn]
example : sumTo 4 (kEntry exE 4 2) = 1 := (C18_row_stochastic exE 4 exValid exConn (by decide) 2 (by decide)).1
example : 0 < kEntry exE 4 2 3 :=
  (C18_walk_support exE 4 exValid exConn (by decide) 2 3 (by decide)).mpr ⟨by decide, [2, 3], by decide, by decide, by decide⟩
example : ¬ 0 < kEntry exE 4 0 3 := by
  rw [C18_walk_support exE 4 exValid exConn (by decide) 0 3 (by decide)]; decide
example : sumTo 4 (piEntry exE 4) = 1 := (C18_stationary exE 4 exValid exConn (by decide)).2.1
example : ¬ ∃ x, SolvesOriginal (fun _ _ => (1 / 2 : Rat)) 2 x :=
  C18_solve_is_inconsistent _ 2 (by decide) (by intro i _; simp [sumTo, List.range_succ]; norm_num)
example : ¬ ∃ x, SolvesOriginal (kEntry exE 4) 4 x := C18_solve_is_inconsistent_for_K exE 4 exValid exConn (by decide)
example : SolvesRepaired (kEntry exE 4) 4 (piEntry exE 4) := C18_pi_solves_repaired exE 4 exValid exConn (by decide)
example (x : Nat → Rat) (hx : SolvesRepaired (kEntry exE 4) 4 x) : x 3 = piEntry exE 4 3 :=
  C18_repaired_solution_is_pi exE 4 exValid exConn (by decide) x hx 3 (by decide)
example : ∀ w ∈ densityList exE 4 3 [1 / 2, 1 / 2, 0, 0], w.length = 4 ∧ w.sum = 1 :=
  (C18_density exE 4 exValid exConn (by decide) 3 [1 / 2, 1 / 2, 0, 0] rfl (by norm_num)).2.2.2.1
/-- the theorem does not ask for non-negative entries: a signed start (what `np.isclose(np.sum(s), 1)` admits) -/
example : ∀ w ∈ densityList exE 4 2 [3 / 2, -1, 0, 1 / 2], w.length = 4 ∧ w.sum = 1 :=
  (C18_density exE 4 exValid exConn (by decide) 2 [3 / 2, -1, 0, 1 / 2] rfl (by norm_num)).2.2.2.1

private theorem exChoice (i j : Nat) (hi : i < 4) :
    validChoice exE 4 i j = (decide (j < 4) && decide (i ≠ j ∧ ∃ e ∈ exE, i ∈ e ∧ j ∈ e)) := by
  unfold validChoice
  congr 1
  rw [decide_eq_decide]
  exact C18_walk_support exE 4 exValid exConn (by decide) i j hi

example : walk exE 4 0 [1, 2, 3, 2] = some [0, 1, 2, 3, 2] := by
  simp only [walk, exChoice 0 1 (by decide), exChoice 1 2 (by decide), exChoice 2 3 (by decide), exChoice 3 2 (by decide)]
  decide

/-- a pair, a second pair and a triangle: `0 – 1`, `1 – 2`, `{0, 2, 3}` -/
private def exC : List Edge := [[0, 1], [1, 2], [0, 2, 3]]
private def exNodes : List Nat := [2, 0, 3, 1]
private def exI0 : Nat → Bool := fun v => v == 0
private def exF : Nat → Rat := fun n => if n % 2 = 0 then 1 / 2 else 7 / 8
private theorem exUnit : UnitDraws exF := by
  intro n; unfold exF; split <;> norm_num

example : (fractions exC exNodes exNodes ⟨1 / 3, 1 / 4, 1 / 5⟩ exF exI0 6).length = 6 :=
  (C18_range exC exNodes exNodes _ exF exI0 6 (by decide) (by decide)).1
example : Adj (fun a b => a ≤ b) (fractions exC exNodes exNodes ⟨1 / 3, 1 / 4, 0⟩ exF exI0 6) :=
  C18_mu0_monotone exC exNodes exNodes (by decide) _ exF exUnit rfl exI0 6
example : Adj (fun a b => b ≤ a) (fractions exC exNodes exNodes ⟨0, 0, 3 / 4⟩ exF exI0 6) :=
  C18_beta0_monotone exC exNodes exNodes (by decide) _ exF exUnit rfl rfl exI0 6
/-- `β = β_D = 1`, `μ = 0`: `{0} → {0,1} → {0,1,2} → {0,1,2,3}` (node 3 only through the triangle) -/
example : counts exC exNodes exNodes ⟨1, 1, 0⟩ exF exI0 5 = [1, 2, 3, 4, 4] := by
  rw [(C18_deterministic exC exNodes exNodes (by decide) ⟨1, 1, 0⟩ exF exUnit (Or.inr rfl) (Or.inr rfl) (Or.inl rfl)).2]
  decide
example : spread exC exNodes ⟨1, 1, 0⟩ exI0 1 = true :=
  (C18_spread_meaning exC exNodes (by decide) ⟨1, 1, 0⟩ exI0 1 (by decide)).mpr
    (Or.inl ⟨rfl, Or.inl ⟨rfl, 0, by decide, rfl, [0, 1], by decide, rfl, by decide, by decide⟩⟩)
example : loopHits exF (1 / 2) ([3, 0, 1].map exI0) 0 = loopHits exF (1 / 2) ([0, 1, 3].map exI0) 0 :=
  C18_order_irrelevant exF (1 / 2) exI0 [3, 0, 1] [0, 1, 3] (by decide) 0
example : [[0, 1, 2], [2, 3]].Perm [[2, 3], [0, 1, 2]] := by decide
example : kEntry [[2, 3], [0, 1, 2]] 4 2 3 = 1 / 5 := by
  rw [← (C18_listing_irrelevant exE [[2, 3], [0, 1, 2]] (by decide)).2.1]
  rw [C18_entry exE 4 exValid]; simp [shared, deg2, exE]
