import Hgxv.Proofs.C09Order
import Hgxv.Proofs.C09Tensor
import Hgxv.Proofs.C09Witness
import Hgxv.Proofs.C09Relabel
import Mathlib.Data.ZMod.Basic
/-! # C09 — matrix / tensor representations equal their definitions under the node mapping

Property theorems about the model `Hgxv/Model/C09.lean`, for every node list, every list of hyperedges and
every size.  Hypotheses are the ones the `Hypergraph` container guarantees for what it hands to
`hypergraphx.linalg`: `nodes.Nodup` (`get_nodes()` lists dictionary keys) and every hyperedge consists of
nodes of the hypergraph (`add_edge` registers them); where a size matters, hyperedges are duplicate-free
tuples.  The number type is any commutative ring `R` (`Int` / `Rat` for the repaired code). Row `i` of every
matrix belongs to the label `(classes nodes)[i]` = the `i`-th smallest node (`C09_mapping_bij`). -/
open C09

/-- The returned mapping `{index : label}` has the keys `0..N-1` (in order), its labels are a
permutation of the nodes - so it is a bijection between row indices and nodes - and they increase
with the index (rank in sorted order, the `LabelEncoder` contract); `encode` is its inverse. -/
theorem C09_mapping_bij (nodes : List Nat) (hN : nodes.Nodup) :
    (mapping nodes).map (·.1) = List.range nodes.length
    ∧ ((mapping nodes).map (·.2)).Perm nodes
    ∧ ((mapping nodes).map (·.2)).Pairwise (· < ·)
    ∧ (∀ x ∈ nodes, (encode (classes nodes) x, x) ∈ mapping nodes)
    ∧ (∀ p ∈ mapping nodes, encode (classes nodes) p.2 = p.1) := by
  have hl := classes_length nodes hN
  have h2 : (mapping nodes).map (·.2) = classes nodes := by
    rw [mapping_eq]; exact List.map_snd_zip (by simp)
  have h1 : (mapping nodes).map (·.1) = List.range nodes.length := by
    rw [mapping_eq, ← hl]; exact List.map_fst_zip (by simp)
  refine ⟨h1, h2 ▸ classes_perm nodes hN, h2 ▸ classes_sorted nodes, ?_, ?_⟩
  · intro x hx
    have hx' := (mem_classes x nodes).2 hx
    unfold mapping
    simp only
    rw [List.mem_iff_getElem]
    refine ⟨encode (classes nodes) x, by simpa using encode_lt _ x hx', ?_⟩
    simp [getElem_encode _ x hx']
  · intro p hp
    unfold mapping at hp
    simp only at hp
    obtain ⟨i, hi, rfl⟩ := List.mem_iff_getElem.1 hp
    simp

/-- Binary incidence: entry `(i, e)` is 1 exactly when the node of row `i` belongs to hyperedge `e`, else 0. -/
theorem C09_incidence {R : Type} [CommRing R] (nodes : List Nat) (edges : List Edge)
    (hN : nodes.Nodup) (hE : ∀ e ∈ edges, ∀ x ∈ e, x ∈ nodes)
    (i j : Nat) (hi : i < (classes nodes).length) (hj : j < edges.length) :
    entry (binInc nodes edges : List (List R)) i j
      = some (if (classes nodes)[i] ∈ edges[j] then 1 else 0) := by
  rw [binInc_eq nodes edges hN hE, entry_map_map _ _ _ i j hi hj]
  simp [ind]

/-- Over the integers (the repaired code): the binary incidence entry is 1 exactly when the node belongs to the hyperedge. -/
theorem C09_incidence_iff (nodes : List Nat) (edges : List Edge)
    (hN : nodes.Nodup) (hE : ∀ e ∈ edges, ∀ x ∈ e, x ∈ nodes)
    (i j : Nat) (hi : i < (classes nodes).length) (hj : j < edges.length) :
    entry (binInc nodes edges : List (List Int)) i j = some 1 ↔ (classes nodes)[i] ∈ edges[j] := by
  rw [C09_incidence nodes edges hN hE i j hi hj]
  by_cases h : (classes nodes)[i] ∈ edges[j] <;> simp [h]

/-- ... and the matrix has exactly `N` rows and `E` columns. -/
theorem C09_incidence_shape {R : Type} [CommRing R] (nodes : List Nat) (edges : List Edge)
    (hN : nodes.Nodup) (hE : ∀ e ∈ edges, ∀ x ∈ e, x ∈ nodes)
    (i j : Nat) (h : nodes.length ≤ i ∨ edges.length ≤ j) :
    entry (binInc nodes edges : List (List R)) i j = none := by
  rw [binInc_eq nodes edges hN hE]
  exact entry_map_map_none _ _ _ i j (by rwa [classes_length nodes hN])

/-- Weighted incidence: entry `(i, e)` is the weight of `e` when the node of row `i` belongs to `e`, else 0. -/
theorem C09_incidence_weighted {R : Type} [CommRing R] (nodes : List Nat) (es : List (Edge × R))
    (hN : nodes.Nodup) (hE : ∀ e ∈ es, ∀ x ∈ e.1, x ∈ nodes)
    (i j : Nat) (hi : i < (classes nodes).length) (hj : j < es.length) :
    entry (inc nodes es) i j = some (if (classes nodes)[i] ∈ es[j].1 then es[j].2 else 0) := by
  rw [inc_eq nodes es hN hE, entry_map_map _ _ _ i j hi hj]
  by_cases h : (classes nodes)[i] ∈ es[j].1 <;> simp [ind, h]

/-- Adjacency: entry `(i, j)`, `i ≠ j`, is the number of hyperedges containing both nodes; the diagonal is 0.
(The number is cast into `R`: over `Int`/`Rat` it is the count itself, see `C09_adjacency_wraps` for `ZMod 256`.) -/
theorem C09_adjacency {R : Type} [CommRing R] (nodes : List Nat) (edges : List Edge)
    (hN : nodes.Nodup) (hE : ∀ e ∈ edges, ∀ x ∈ e, x ∈ nodes)
    (i j : Nat) (hi : i < (classes nodes).length) (hj : j < (classes nodes).length) :
    entry (adj nodes edges : List (List R)) i j
      = some (if i = j then 0
              else ((edges.countP fun e => decide ((classes nodes)[i] ∈ e) && decide ((classes nodes)[j] ∈ e) : Nat) : R)) := by
  unfold adj
  simp only
  rw [binInc_eq nodes edges hN hE, mulT_rows, entry_setDiag0, entry_map_map _ _ _ i j hi hj]
  simp only [ind_mul_ind, sum_map_ind, Option.map_some]

/-- Dual adjacency: entry `(e, f)` is 1 exactly when the hyperedges `e` and `f` share a node, else 0
(in a ring of characteristic 0 - `int64` after the repair of D25; false modulo 256). -/
theorem C09_dual {R : Type} [CommRing R] [CharZero R] [DecidableEq R] (nodes : List Nat) (edges : List Edge)
    (hN : nodes.Nodup) (hE : ∀ e ∈ edges, ∀ x ∈ e, x ∈ nodes)
    (a b : Nat) (ha : a < edges.length) (hb : b < edges.length) :
    entry (dual nodes edges : List (List R)) a b
      = some (if ∃ x, x ∈ edges[a] ∧ x ∈ edges[b] then 1 else 0) := by
  unfold dual
  simp only
  rw [binInc_eq nodes edges hN hE, transpose_rows, mulT_rows, entry_map_rows, entry_map_map _ _ _ a b ha hb]
  simp only [ind_mul_ind, sum_map_ind, Option.map_some, Nat.cast_eq_zero, Nat.cast_one]
  congr 1
  have hiff : (List.countP (fun x => decide (x ∈ edges[a]) && decide (x ∈ edges[b])) (classes nodes) = 0)
      ↔ ¬ ∃ x, x ∈ edges[a] ∧ x ∈ edges[b] := by
    rw [List.countP_eq_zero]
    constructor
    · rintro h ⟨x, hxa, hxb⟩
      exact h x ((mem_classes x nodes).2 (hE _ (List.getElem_mem ha) x hxa)) (by simp [hxa, hxb])
    · intro h x _ hx
      simp only [Bool.and_eq_true, decide_eq_true_eq] at hx
      exact h ⟨x, hx⟩
  by_cases hex : ∃ x, x ∈ edges[a] ∧ x ∈ edges[b]
  · rw [if_neg (fun h0 => (hiff.1 h0) hex), if_pos hex]
  · rw [if_pos (hiff.2 hex), if_neg hex]

/-- Over the integers: the dual adjacency entry is 1 exactly when the two hyperedges share a node. -/
theorem C09_dual_iff (nodes : List Nat) (edges : List Edge)
    (hN : nodes.Nodup) (hE : ∀ e ∈ edges, ∀ x ∈ e, x ∈ nodes)
    (a b : Nat) (ha : a < edges.length) (hb : b < edges.length) :
    entry (dual nodes edges : List (List Int)) a b = some 1 ↔ ∃ x, x ∈ edges[a] ∧ x ∈ edges[b] := by
  rw [C09_dual nodes edges hN hE a b ha hb]
  by_cases h : ∃ x, x ∈ edges[a] ∧ x ∈ edges[b]
  · rw [if_pos h]; exact ⟨fun _ => h, fun _ => rfl⟩
  · simp [h]

/-- `hye_list_to_binary_incidence` called directly on index hyperedges: a given shape is refused exactly when it is
smaller than the inferred one `(max index + 1, number of hyperedges)`; otherwise entry `(i, j)` is 1 exactly when
`i` occurs in the `j`-th hyperedge (repeated nodes count once, columns beyond the list are empty). -/
theorem C09_hye_list {R : Type} [CommRing R] (hyes : List (List Nat)) (shape : Option (Nat × Nat)) :
    (∀ e ∈ hyes, ∀ x ∈ e, x < inferredN hyes)
    ∧ (∀ N, (∀ e ∈ hyes, ∀ x ∈ e, x < N) → inferredN hyes ≤ N)
    ∧ ((hyeBinInc hyes shape : Option (List (List R))) = none
        ↔ ∃ n e, shape = some (n, e) ∧ (n < inferredN hyes ∨ e < hyes.length))
    ∧ ∀ M : List (List R), hyeBinInc hyes shape = some M →
        ∀ i j, i < (shape.map (·.1)).getD (inferredN hyes) → j < (shape.map (·.2)).getD hyes.length →
          entry M i j = some (if ∃ e, hyes[j]? = some e ∧ i ∈ e then 1 else 0) := by
  refine ⟨lt_inferredN hyes, inferredN_le hyes, ?_, ?_⟩
  · cases shape with
    | none => simp [hyeBinInc]
    | some p =>
      obtain ⟨n, e⟩ := p
      simp only [hyeBinInc]
      by_cases h : n < inferredN hyes ∨ e < hyes.length
      · simp [h]
      · simp only [if_neg h, reduceCtorEq, false_iff]
        rintro ⟨n', e', heq, h'⟩
        cases heq
        exact h h'
  · have key : ∀ (N E i j : Nat), i < N → j < E →
        entry (binIncPad N E hyes : List (List R)) i j = some (if ∃ e, hyes[j]? = some e ∧ i ∈ e then 1 else 0) := by
      intro N E i j hi hj
      unfold binIncPad
      rw [entry_map_map _ _ _ i j (by simpa using hi) (by simpa using hj)]
      simp only [List.getElem_range]
      congr 1
      by_cases hj' : j < hyes.length
      · by_cases hm : i ∈ hyes[j] <;> simp [ind, hj', hm]
      · simp [ind, hj']
    intro M hM i j hi hj
    cases shape with
    | none =>
      simp only [hyeBinInc, Option.some.injEq] at hM
      subst hM
      exact key _ _ i j (by simpa using hi) (by simpa using hj)
    | some p =>
      obtain ⟨n, e⟩ := p
      simp only [hyeBinInc] at hM
      split at hM
      · cases hM
      · simp only [Option.some.injEq] at hM
        subst hM
        exact key _ _ i j (by simpa using hi) (by simpa using hj)

/-- `binary_incidence_matrix` is this routine applied to the relabelled hyperedges with the shape
`(num_nodes, num_edges)`, which is always accepted. -/
theorem C09_incidence_call {R : Type} [CommRing R] (nodes : List Nat) (edges : List Edge)
    (hN : nodes.Nodup) (hE : ∀ e ∈ edges, ∀ x ∈ e, x ∈ nodes) :
    hyeBinInc (edges.map fun e => e.map (encode (classes nodes))) (some (nodes.length, edges.length))
      = some (binInc nodes edges : List (List R)) := by
  have hle : inferredN (edges.map fun e => e.map (encode (classes nodes))) ≤ nodes.length := by
    apply inferredN_le
    intro e' he' y hy
    obtain ⟨e, he, rfl⟩ := List.mem_map.1 he'
    obtain ⟨x, hx, rfl⟩ := List.mem_map.1 hy
    rw [← classes_length nodes hN]
    exact encode_lt _ x ((mem_classes x nodes).2 (hE e he x hx))
  simp only [hyeBinInc, List.length_map]
  rw [if_neg (by omega)]
  congr 1
  have := binIncPad_eq (R := R) nodes.length (edges.map fun e => e.map (encode (classes nodes)))
  simpa [binInc] using this

/-! ## per-order variants -/

/-- Incidence of order `d`: the columns are the hyperedges of order `d` (size `d+1`) in listing order, the rows are
all nodes (`keep_isolated_nodes=True`) or exactly the nodes lying in a hyperedge of order `d` (`False`), sorted;
entry `(i, e)` is the weight of `e` (1 if unweighted) when the node of row `i` belongs to `e`, else 0;
the returned mapping is the mapping of that node list (so `C09_mapping_bij` applies to it). -/
theorem C09_by_order_incidence {R : Type} [CommRing R] (d : Nat) (k : Bool) (nodes : List Nat) (es : List (Edge × R))
    (hN : nodes.Nodup) (hE : ∀ e ∈ es, ∀ x ∈ e.1, x ∈ nodes) :
    (subNodes d k nodes es).Nodup
    ∧ (∀ x, x ∈ subNodes d k nodes es ↔ if k then x ∈ nodes else ∃ e ∈ es, e.1.length = d + 1 ∧ x ∈ e.1)
    ∧ (∀ e, e ∈ ofOrder d es ↔ e ∈ es ∧ e.1.length = d + 1)
    ∧ mappingByOrder d k nodes es = mapping (subNodes d k nodes es)
    ∧ ∀ i j (hi : i < (classes (subNodes d k nodes es)).length) (hj : j < (ofOrder d es).length),
        entry (incByOrder d k nodes es) i j
          = some (if (classes (subNodes d k nodes es))[i] ∈ ((ofOrder d es)[j]).1 then ((ofOrder d es)[j]).2 else 0) := by
  refine ⟨subNodes_nodup d k nodes es hN, ?_, mem_ofOrder d es, rfl, ?_⟩
  · intro x
    cases k
    · simpa using mem_subNodes_false d nodes es x
    · simp [subNodes_true]
  · intro i j hi hj
    exact C09_incidence_weighted _ _ (subNodes_nodup d k nodes es hN) (subNodes_covers d k nodes es hE) i j hi hj

/-- Adjacency of order `d`, unweighted hypergraph: entry `(i, j)`, `i ≠ j`, is the number of hyperedges of order `d`
containing both nodes; zero diagonal. -/
theorem C09_by_order {R : Type} [CommRing R] (d : Nat) (nodes : List Nat) (es : List (Edge × R))
    (hN : nodes.Nodup) (hE : ∀ e ∈ es, ∀ x ∈ e.1, x ∈ nodes) (hW : ∀ e ∈ es, e.2 = 1)
    (i j : Nat) (hi : i < (classes nodes).length) (hj : j < (classes nodes).length) :
    entry (adjByOrder d nodes es) i j
      = some (if i = j then 0
              else ((es.countP fun e => e.1.length == d + 1 &&
                      (decide ((classes nodes)[i] ∈ e.1) && decide ((classes nodes)[j] ∈ e.1)) : Nat) : R)) := by
  unfold adjByOrder
  simp only
  rw [gramMatrix_eq d nodes es hN hE, entry_subDiag, entry_map_map _ _ _ i j hi hj, gram_unweighted d es hW]
  rfl

/-- The same for arbitrary weights (what the code computes: the weights enter squared). -/
theorem C09_by_order_weighted {R : Type} [CommRing R] (d : Nat) (nodes : List Nat) (es : List (Edge × R))
    (hN : nodes.Nodup) (hE : ∀ e ∈ es, ∀ x ∈ e.1, x ∈ nodes)
    (i j : Nat) (hi : i < (classes nodes).length) (hj : j < (classes nodes).length) :
    entry (adjByOrder d nodes es) i j
      = some (if i = j then 0
              else ((ofOrder d es).map fun e =>
                if (classes nodes)[i] ∈ e.1 ∧ (classes nodes)[j] ∈ e.1 then e.2 * e.2 else 0).sum) := by
  unfold adjByOrder
  simp only
  rw [gramMatrix_eq d nodes es hN hE, entry_subDiag, entry_map_map _ _ _ i j hi hj]
  simp only [Option.map_some, gram]
  congr 3
  apply List.map_congr_left
  intro e _
  by_cases h1 : (classes nodes)[i] ∈ e.1 <;> by_cases h2 : (classes nodes)[j] ∈ e.1 <;> simp [ind, h1, h2]

/-- Degree matrix of order `d` (the repaired `degree_matrix`, D24): diagonal entry `i` is the number of hyperedges
of order `d` containing the node of row `i` (the label, not the index), off-diagonal entries are 0. -/
theorem C09_degree_matrix {R : Type} [CommRing R] (d : Nat) (nodes : List Nat) (es : List (Edge × R))
    (i j : Nat) (hi : i < (classes nodes).length) (hj : j < (classes nodes).length) :
    entry (degMatrix d nodes es) i j
      = some (if i = j then ((es.countP fun e => e.1.length == d + 1 && decide ((classes nodes)[i] ∈ e.1) : Nat) : R)
              else 0) := by
  rw [degMatrix_eq, entry_diag _ i j (by simpa using hi) (by simpa using hj)]
  simp only [List.getElem_map, degree_eq_countP, Bool.and_self]

/-! ## Laplacian of order `d` -/

/-- For an unweighted hypergraph `L_d = d·D_d − A_d` entry by entry, with `D_d` the order-`d` degree matrix and
`A_d` the order-`d` adjacency matrix of the model (characterised by `C09_degree_matrix` and `C09_by_order`). -/
theorem C09_laplacian {R : Type} [CommRing R] (d : Nat) (nodes : List Nat) (es : List (Edge × R))
    (hN : nodes.Nodup) (hE : ∀ e ∈ es, ∀ x ∈ e.1, x ∈ nodes) (hW : ∀ e ∈ es, e.2 = 1)
    (i j : Nat) (hi : i < (classes nodes).length) (hj : j < (classes nodes).length) :
    entry (laplacian d nodes es) i j
      = (entry (degMatrix d nodes es) i j).bind fun a =>
          (entry (adjByOrder d nodes es) i j).map fun b => (d : R) * a - b := by
  rw [lap_entry d nodes es hN hE i j hi hj, C09_degree_matrix d nodes es i j hi hj,
    C09_by_order d nodes es hN hE hW i j hi hj, gram_unweighted d es hW]
  simp only [Option.bind_some, Option.map_some, Option.some.injEq]
  by_cases h : i = j
  · subst h
    simp only [if_true, degree_eq_countP, Bool.and_self]
    push_cast
    ring
  · simp [h]

/-- The Laplacian is symmetric (any weights). -/
theorem C09_laplacian_symm {R : Type} [CommRing R] (d : Nat) (nodes : List Nat) (es : List (Edge × R))
    (hN : nodes.Nodup) (hE : ∀ e ∈ es, ∀ x ∈ e.1, x ∈ nodes)
    (i j : Nat) (hi : i < (classes nodes).length) (hj : j < (classes nodes).length) :
    entry (laplacian d nodes es) i j = entry (laplacian d nodes es) j i := by
  rw [lap_entry d nodes es hN hE i j hi hj, lap_entry d nodes es hN hE j i hj hi, gram_comm]
  by_cases h : i = j
  · subst h; rfl
  · have h' : ¬ j = i := fun e => h e.symm
    simp [h, h']

/-- Every row of the Laplacian of an unweighted hypergraph sums to zero (hyperedges are duplicate-free tuples of
nodes of the hypergraph: a hyperedge of order `d` has exactly `d + 1` members among the rows). -/
theorem C09_laplacian_row_sums {R : Type} [CommRing R] (d : Nat) (nodes : List Nat) (es : List (Edge × R))
    (hN : nodes.Nodup) (hE : ∀ e ∈ es, ∀ x ∈ e.1, x ∈ nodes) (hD : ∀ e ∈ es, e.1.Nodup) (hW : ∀ e ∈ es, e.2 = 1)
    (i : Nat) (hi : i < (classes nodes).length) :
    ((laplacian d nodes es)[i]?).map List.sum = some 0 := by
  rw [lap_row d nodes es hN hE i hi, Option.map_some, sum_zipWith_sub _ _ (by simp),
    sum_gram_unweighted d nodes es hE hD hW, sum_map_mul_left', sum_range_ite _ i hi]
  simp

/-! ## adjacency tensor of a uniform hypergraph on nodes `0..N-1` -/

/-- The routine returns a tensor exactly for a non-empty uniform hypergraph (it raises otherwise). -/
theorem C09_tensor_defined {R : Type} [CommRing R] (N : Nat) (edges : List Edge) :
    ((tensor N edges : Option (List (List Nat × R))).isSome ↔ edges ≠ [] ∧ ∃ k, ∀ e ∈ edges, e.length = k) := by
  unfold tensor
  cases h : uniformSize edges with
  | none =>
    simp only [Option.isSome_none, Bool.false_eq_true, false_iff, not_and, not_exists]
    intro hne k hk
    have := (uniformSize_eq_some edges k).2 ⟨hne, hk⟩
    rw [h] at this; cases this
  | some k =>
    simp only [Option.isSome_some, true_iff]
    exact ⟨((uniformSize_eq_some edges k).1 h).1, k, ((uniformSize_eq_some edges k).1 h).2⟩

/-- For hyperedges of common size `k`, the tensor is the map defined on exactly the index tuples of length `k` over
`0..N-1` (each with one value), and `T[p] = 1` when `p` is a permutation of a hyperedge, `0` otherwise:
the symmetric indicator of the hyperedges. -/
theorem C09_tensor {R : Type} [CommRing R] (N k : Nat) (edges : List Edge)
    (hne : edges ≠ []) (hU : ∀ e ∈ edges, e.length = k) :
    ∃ t : List (List Nat × R), tensor N edges = some t ∧ t.map (·.1) = tuples N k ∧
      ∀ p v, (p, v) ∈ t ↔ (p.length = k ∧ ∀ x ∈ p, x < N) ∧ v = if ∃ e ∈ edges, p.Perm e then 1 else 0 := by
  have hk := (uniformSize_eq_some edges k).2 ⟨hne, hU⟩
  refine ⟨(tuples N k).map fun p => (p, ind ((edges.flatMap perms).contains p)), by unfold tensor; rw [hk],
    by rw [List.map_map]; exact (List.map_congr_left (fun _ _ => rfl)).trans (List.map_id _), ?_⟩
  intro p v
  simp only [List.mem_map, Prod.mk.injEq]
  have hind : (ind ((edges.flatMap perms).contains p) : R) = if ∃ e ∈ edges, p.Perm e then 1 else 0 := by
    have : (edges.flatMap perms).contains p = decide (∃ e ∈ edges, p.Perm e) := by
      rw [Bool.eq_iff_iff]
      simp [List.mem_flatMap, mem_perms]
    rw [this]
    by_cases h : ∃ e ∈ edges, p.Perm e <;> simp [ind, h]
  constructor
  · rintro ⟨q, hq, rfl, rfl⟩
    exact ⟨(mem_tuples N k q).1 hq, hind⟩
  · rintro ⟨hp, rfl⟩
    exact ⟨p, (mem_tuples N k p).2 hp, rfl, hind⟩

/-- Symmetry: the tensor takes the same value at an index tuple and at each of its permutations. -/
theorem C09_tensor_symm {R : Type} [CommRing R] (N : Nat) (edges : List Edge) (t : List (List Nat × R))
    (ht : tensor N edges = some t) (p q : List Nat) (hpq : p.Perm q) (v w : R)
    (hv : (p, v) ∈ t) (hw : (q, w) ∈ t) : v = w := by
  have hsome : (tensor N edges : Option (List (List Nat × R))).isSome := by rw [ht]; rfl
  obtain ⟨hne, k, hU⟩ := (C09_tensor_defined N edges).1 hsome
  obtain ⟨t', ht', _, hchar⟩ := C09_tensor (R := R) N k edges hne hU
  rw [ht] at ht'
  cases ht'
  rw [((hchar p v).1 hv).2, ((hchar q w).1 hw).2]
  have : (∃ e ∈ edges, p.Perm e) ↔ (∃ e ∈ edges, q.Perm e) :=
    ⟨fun ⟨e, he, h⟩ => ⟨e, he, hpq.symm.trans h⟩, fun ⟨e, he, h⟩ => ⟨e, he, hpq.trans h⟩⟩
  simp [this]

/-! ## temporal hypergraph -/

/-- The matrix at time `t` is the adjacency matrix of the snapshot at `t`: the listed times are those of the records,
the snapshot's nodes are the nodes of the hyperedges recorded at `t`, and entry `(i, j)`, `i ≠ j`, is the number of
records `(t, e)` whose hyperedge contains both nodes (zero diagonal). -/
theorem C09_temporal {R : Type} [CommRing R] (recs : List (Rec R)) (t : Nat) :
    (t ∈ times recs ↔ ∃ r ∈ recs, r.1 = t)
    ∧ (∀ x, x ∈ snapshotNodes recs t ↔ ∃ r ∈ recs, r.1 = t ∧ x ∈ r.2.1)
    ∧ temporalAdj recs t = adj (snapshotNodes recs t) ((snapshot recs t).map (·.1))
    ∧ ∀ i j (hi : i < (classes (snapshotNodes recs t)).length) (hj : j < (classes (snapshotNodes recs t)).length),
        entry (temporalAdj recs t) i j
          = some (if i = j then 0
                  else ((recs.countP fun r => r.1 == t &&
                          (decide ((classes (snapshotNodes recs t))[i] ∈ r.2.1)
                            && decide ((classes (snapshotNodes recs t))[j] ∈ r.2.1)) : Nat) : R)) := by
  have hmem : ∀ x, x ∈ snapshotNodes recs t ↔ ∃ r ∈ recs, r.1 = t ∧ x ∈ r.2.1 := by
    intro x
    simp only [snapshotNodes, snapshot, mem_classes, List.mem_flatten, List.mem_map, List.mem_filter, beq_iff_eq]
    constructor
    · rintro ⟨l, ⟨e, ⟨r, ⟨hr, ht⟩, rfl⟩, rfl⟩, hx⟩
      exact ⟨r, hr, ht, hx⟩
    · rintro ⟨r, hr, ht, hx⟩
      exact ⟨r.2.1, ⟨r.2, ⟨r, ⟨hr, ht⟩, rfl⟩, rfl⟩, hx⟩
  refine ⟨?_, hmem, rfl, ?_⟩
  · simp [times, mem_classes]
  · intro i j hi hj
    unfold temporalAdj
    have hnd : (snapshotNodes recs t).Nodup := by unfold snapshotNodes; exact classes_nodup _
    rw [C09_adjacency (snapshotNodes recs t) _ hnd ?_ i j hi hj]
    · congr 3
      simp only [snapshot, List.map_map, List.countP_map, List.countP_filter]
      congr 1
      funext r
      simp [Function.comp, Bool.and_comm]
    · intro e he x hx
      simp only [snapshot, List.map_map, List.mem_map, List.mem_filter, beq_iff_eq] at he
      obtain ⟨r, ⟨hr, ht⟩, rfl⟩ := he
      exact (hmem x).2 ⟨r, hr, ht, hx⟩

/-- Per-order temporal matrices: the matrix at time `t` is the order-`d` adjacency matrix of the snapshot at `t`;
for unweighted records entry `(i, j)`, `i ≠ j`, counts the records `(t, e)` with `e` of order `d` containing both nodes. -/
theorem C09_temporal_by_order {R : Type} [CommRing R] (d : Nat) (recs : List (Rec R)) (t : Nat)
    (hW : ∀ r ∈ recs, r.2.2 = 1) :
    temporalAdjByOrder d recs t = adjByOrder d (snapshotNodes recs t) (snapshot recs t)
    ∧ ∀ i j (hi : i < (classes (snapshotNodes recs t)).length) (hj : j < (classes (snapshotNodes recs t)).length),
        entry (temporalAdjByOrder d recs t) i j
          = some (if i = j then 0
                  else ((recs.countP fun r => r.1 == t && (r.2.1.length == d + 1 &&
                          (decide ((classes (snapshotNodes recs t))[i] ∈ r.2.1)
                            && decide ((classes (snapshotNodes recs t))[j] ∈ r.2.1))) : Nat) : R)) := by
  refine ⟨rfl, ?_⟩
  intro i j hi hj
  have hmem := (C09_temporal recs t).2.1
  have hnd : (snapshotNodes recs t).Nodup := by unfold snapshotNodes; exact classes_nodup _
  unfold temporalAdjByOrder
  rw [C09_by_order d (snapshotNodes recs t) (snapshot recs t) hnd ?_ ?_ i j hi hj]
  · congr 3
    simp only [snapshot, List.countP_map, List.countP_filter]
    congr 1
    funext r
    simp [Function.comp, Bool.and_comm]
  · intro e he x hx
    simp only [snapshot, List.mem_map, List.mem_filter, beq_iff_eq] at he
    obtain ⟨r, ⟨hr, ht⟩, rfl⟩ := he
    exact (hmem x).2 ⟨r, hr, ht, hx⟩
  · intro e he
    simp only [snapshot, List.mem_map, List.mem_filter, beq_iff_eq] at he
    obtain ⟨r, ⟨hr, _⟩, rfl⟩ := he
    exact hW r hr

/-- Shapes: adjacency, per-order adjacency, degree matrix and Laplacian are `N × N`, the dual is `E × E`
(entries outside are undefined). -/
theorem C09_shapes {R : Type} [CommRing R] [DecidableEq R] (d : Nat) (nodes : List Nat) (es : List (Edge × R))
    (hN : nodes.Nodup) (hE : ∀ e ∈ es, ∀ x ∈ e.1, x ∈ nodes) (i j : Nat) :
    (nodes.length ≤ i ∨ nodes.length ≤ j →
      entry (adj nodes (es.map (·.1)) : List (List R)) i j = none ∧ entry (adjByOrder d nodes es) i j = none
      ∧ entry (laplacian d nodes es) i j = none)
    ∧ (es.length ≤ i ∨ es.length ≤ j → entry (dual nodes (es.map (·.1)) : List (List R)) i j = none) := by
  have hE' : ∀ e ∈ es.map (·.1), ∀ x ∈ e, x ∈ nodes := by
    intro e he x hx
    obtain ⟨e', he', rfl⟩ := List.mem_map.1 he
    exact hE e' he' x hx
  have hl := classes_length nodes hN
  constructor
  · intro h
    rw [← hl] at h
    refine ⟨?_, ?_, ?_⟩
    · unfold adj
      simp only
      rw [binInc_eq nodes _ hN hE', mulT_rows, entry_setDiag0, entry_map_map_none _ _ _ i j h]; rfl
    · unfold adjByOrder
      simp only
      rw [gramMatrix_eq d nodes es hN hE, entry_subDiag, entry_map_map_none _ _ _ i j h]; rfl
    · unfold laplacian
      simp only
      rw [gramMatrix_eq d nodes es hN hE, entry_matSub, entry_map_map_none _ _ _ i j h]
      cases entry (smul ((d + 1 : Nat) : R) (degMatrix d nodes es)) i j <;> rfl
  · intro h
    unfold dual
    simp only
    rw [binInc_eq nodes _ hN hE', transpose_rows, mulT_rows, entry_map_rows,
      entry_map_map_none _ _ _ i j (by simpa using h)]
    rfl

/-! ## why D25 had to be repaired: the same model in arithmetic modulo 256 -/

/-- In `uint8` arithmetic (`R = ZMod 256`, the unrepaired code) the adjacency claim fails: whenever two nodes share
exactly 256 hyperedges their adjacency entry is 0. -/
theorem C09_adjacency_wraps (nodes : List Nat) (edges : List Edge)
    (hN : nodes.Nodup) (hE : ∀ e ∈ edges, ∀ x ∈ e, x ∈ nodes)
    (i j : Nat) (hi : i < (classes nodes).length) (hj : j < (classes nodes).length) (hij : i ≠ j)
    (h256 : (edges.countP fun e => decide ((classes nodes)[i] ∈ e) && decide ((classes nodes)[j] ∈ e)) = 256) :
    entry (adj nodes edges : List (List (ZMod 256))) i j = some 0
    ∧ entry (adj nodes edges : List (List Int)) i j = some 256 := by
  rw [C09_adjacency nodes edges hN hE i j hi hj, C09_adjacency nodes edges hN hE i j hi hj, if_neg hij, if_neg hij, h256]
  exact ⟨by congr 1, by simp⟩

/-- A concrete witness: a legitimate hypergraph (distinct nodes, 256 distinct duplicate-free hyperedges) in which
nodes `3` and `5` (rows 0 and 1) share 256 hyperedges: adjacency entry 0 modulo 256, 256 over the integers. -/
theorem C09_adjacency_wraps_witness :
    wrapNodes.Nodup ∧ wrapEdges.Nodup ∧ (∀ e ∈ wrapEdges, e.Nodup ∧ ∀ x ∈ e, x ∈ wrapNodes)
    ∧ entry (adj wrapNodes wrapEdges : List (List (ZMod 256))) 0 1 = some 0
    ∧ entry (adj wrapNodes wrapEdges : List (List Int)) 0 1 = some 256 := by
  have h1 : wrapNodes.Nodup := by decide +kernel
  have h2 : wrapEdges.Nodup := by
    have hk : wrapEdges.map wrapKey = (List.range 256).map (fun m : Nat => m + 512) := by decide +kernel
    apply List.Nodup.of_map wrapKey
    rw [hk]
    exact List.Nodup.map (fun a b h => by simpa using h) List.nodup_range
  have h3 : ∀ e ∈ wrapEdges, e.Nodup ∧ ∀ x ∈ e, x ∈ wrapNodes := by decide +kernel
  exact ⟨h1, h2, h3, C09_adjacency_wraps wrapNodes wrapEdges h1 (fun e he => (h3 e he).2) 0 1
    (by decide +kernel) (by decide +kernel) (by decide) (by decide +kernel)⟩

/-- **Only the current content matters (histories).**  A history of edits (removals, re-insertions) changes the
ORDER in which `get_nodes()` lists the nodes; every matrix and every mapping is the same for two listings of the
same node set (and the same hyperedge listing).  No hypothesis beyond `Perm`. -/
theorem C09_node_listing_irrelevant {R : Type} [CommRing R] [DecidableEq R] (nodes nodes' : List Nat)
    (es : List (Edge × R)) (h : nodes.Perm nodes') :
    mapping nodes = mapping nodes'
    ∧ (binInc nodes (es.map (·.1)) : List (List R)) = binInc nodes' (es.map (·.1))
    ∧ inc nodes es = inc nodes' es
    ∧ (adj nodes (es.map (·.1)) : List (List R)) = adj nodes' (es.map (·.1))
    ∧ (dual nodes (es.map (·.1)) : List (List R)) = dual nodes' (es.map (·.1))
    ∧ (∀ d k, incByOrder d k nodes es = incByOrder d k nodes' es
          ∧ mappingByOrder d k nodes es = mappingByOrder d k nodes' es)
    ∧ (∀ d, adjByOrder d nodes es = adjByOrder d nodes' es
          ∧ degMatrix d nodes es = degMatrix d nodes' es
          ∧ laplacian d nodes es = laplacian d nodes' es) := by
  have hc := classes_perm_congr nodes nodes' h
  have hl : nodes.length = nodes'.length := h.length_eq
  have hB : ∀ edges : List Edge, (binInc nodes edges : List (List R)) = binInc nodes' edges := by
    intro edges; simp only [binInc, hc, hl]
  have hI : ∀ es' : List (Edge × R), inc nodes es' = inc nodes' es' := by
    intro es'; simp only [inc, hB]
  have hM : mapping nodes = mapping nodes' := by simp only [mapping, hc]
  have hO : ∀ d k, incByOrder d k nodes es = incByOrder d k nodes' es
      ∧ mappingByOrder d k nodes es = mappingByOrder d k nodes' es := by
    intro d k
    cases k
    · exact ⟨rfl, rfl⟩
    · simp only [incByOrder, mappingByOrder, subNodes, if_true, hI, hM, and_self]
  refine ⟨hM, hB _, hI es, by simp only [adj, hB], by simp only [dual, hB], hO, ?_⟩
  intro d
  have hd : degMatrix d nodes es = degMatrix d nodes' es := by simp only [degMatrix, hM]
  refine ⟨by simp only [adjByOrder, (hO d true).1], hd, by simp only [laplacian, (hO d true).1, hd]⟩

/-- **The mapping follows the node SET, not the node COUNT.**  For duplicate-free node listings two mappings are
equal exactly when the listings hold the same nodes: a mapping computed for an earlier node set of the same size
(a stale cache after "remove one node, add another") is never the mapping of the current hypergraph. -/
theorem C09_mapping_tracks_nodes (nodes nodes' : List Nat) (hN : nodes.Nodup) (hN' : nodes'.Nodup) :
    mapping nodes = mapping nodes' ↔ nodes.Perm nodes' := by
  constructor
  · intro h
    have h1 := (C09_mapping_bij nodes hN).2.1
    have h2 := (C09_mapping_bij nodes' hN').2.1
    rw [h] at h1
    exact h1.symm.trans h2
  · intro h
    simp only [mapping, classes_perm_congr nodes nodes' h]

/-- **Only the ORDER of the labels matters, never their values or their type.**  For every strictly increasing
relabelling `f` of the nodes (in particular the rank map by which comparable labels of any type - non-integer or
negative floats, strings, integers beyond 2^63 - are sent to the model's `Nat` labels, and maps such as
`0, 0.5, 2 ↦ 0, 1, 2`): the mapping lists the relabelled nodes at the same indices and every matrix is unchanged.
Hence no routine may read a label as a number (use it as a row index, truncate it, compare it with `N`): that is
not invariant under `f`.  No hypothesis on the hypergraph. -/
theorem C09_relabel_invariant {R : Type} [CommRing R] [DecidableEq R] (f : Nat → Nat) (hf : ∀ a b, a < b → f a < f b)
    (nodes : List Nat) (es : List (Edge × R)) :
    mapping (nodes.map f) = (mapping nodes).map (fun p => (p.1, f p.2))
    ∧ (binInc (nodes.map f) ((relabelEs f es).map (·.1)) : List (List R)) = binInc nodes (es.map (·.1))
    ∧ inc (nodes.map f) (relabelEs f es) = inc nodes es
    ∧ (adj (nodes.map f) ((relabelEs f es).map (·.1)) : List (List R)) = adj nodes (es.map (·.1))
    ∧ (dual (nodes.map f) ((relabelEs f es).map (·.1)) : List (List R)) = dual nodes (es.map (·.1))
    ∧ (∀ d k, incByOrder d k (nodes.map f) (relabelEs f es) = incByOrder d k nodes es
          ∧ mappingByOrder d k (nodes.map f) (relabelEs f es)
              = (mappingByOrder d k nodes es).map (fun p => (p.1, f p.2)))
    ∧ (∀ d, adjByOrder d (nodes.map f) (relabelEs f es) = adjByOrder d nodes es
          ∧ degMatrix d (nodes.map f) (relabelEs f es) = degMatrix d nodes es
          ∧ laplacian d (nodes.map f) (relabelEs f es) = laplacian d nodes es
          ∧ laplacianScaled d (nodes.map f) (relabelEs f es) = laplacianScaled d nodes es) := by
  have hf' : Increasing f := hf
  refine ⟨mapping_map f hf' nodes, ?_, inc_map f hf' nodes es, ?_, ?_, ?_, ?_⟩
  · rw [relabelEs_fst]; exact binInc_map f hf' nodes _
  · rw [relabelEs_fst]; exact adj_map f hf' nodes _
  · rw [relabelEs_fst]; exact dual_map f hf' nodes _
  · intro d k
    exact ⟨incByOrder_map f hf' d k nodes es, mappingByOrder_map f hf' d k nodes es⟩
  · intro d
    exact ⟨adjByOrder_map f hf' d nodes es, degMatrix_map f hf' d nodes es, laplacian_map f hf' d nodes es,
      laplacianScaled_map f hf' d nodes es⟩

/-- ... and the same for the temporal matrices: times, snapshot matrices per time (all orders and per order) are
unchanged, the snapshot's node list (hence its mapping) is relabelled. -/
theorem C09_relabel_invariant_temporal {R : Type} [CommRing R] [DecidableEq R] (f : Nat → Nat)
    (hf : ∀ a b, a < b → f a < f b) (recs : List (Rec R)) :
    times (relabelRecs f recs) = times recs
    ∧ ∀ t, snapshotNodes (relabelRecs f recs) t = (snapshotNodes recs t).map f
        ∧ mapping (snapshotNodes (relabelRecs f recs) t) = (mapping (snapshotNodes recs t)).map (fun p => (p.1, f p.2))
        ∧ temporalAdj (relabelRecs f recs) t = temporalAdj recs t
        ∧ ∀ d, temporalAdjByOrder d (relabelRecs f recs) t = temporalAdjByOrder d recs t := by
  have hf' : Increasing f := hf
  refine ⟨times_map f recs, fun t => ⟨snapshotNodes_map f hf' recs t, ?_, temporalAdj_map f hf' recs t,
    fun d => temporalAdjByOrder_map f hf' d recs t⟩⟩
  rw [snapshotNodes_map f hf', mapping_map f hf']; rfl

/-- **When may the encoder be skipped?**  The row index of every node equals its label exactly when the sorted
labels are `0, 1, .., N-1`.  (Over `Nat` labels `min = 0 ∧ max = N-1` happens to imply that; over labels that are
merely comparable - `0, 0.5, 2` - it does not, and `C09_relabel_invariant` shows that such labels behave like
`0, 1, 4`, for which the encoder is not the identity: see the example below.) -/
theorem C09_encoder_identity_iff (nodes : List Nat) (hN : nodes.Nodup) :
    (∀ x ∈ nodes, encode (classes nodes) x = x) ↔ classes nodes = List.range nodes.length := by
  constructor
  · exact classes_eq_range_of_encode_id nodes hN
  · intro h x hx
    have hx' : x ∈ classes nodes := (mem_classes x nodes).2 hx
    rw [h] at hx' ⊢
    exact encode_range _ x (List.mem_range.1 hx')

/-! ## non-vacuity: every theorem instantiated on a concrete hypergraph with labels that are not `0..N-1`,
an isolated node (50), overlapping hyperedges of orders 1 and 2 -/

local notation "exN" => ([30, 10, 20, 7, 50] : List Nat)
local notation "exE" => ([[10, 20, 30], [20, 10], [7, 30], [30, 20, 7]] : List Edge)
local notation "exW" => ([([10, 20, 30], 1), ([20, 10], 1), ([7, 30], 1), ([30, 20, 7], 1)] : List (Edge × Int))
local notation "exQ" => ([([10, 20, 30], 2), ([20, 10], 3), ([7, 30], 1), ([30, 20, 7], 5)] : List (Edge × Int))

example : mapping exN = [(0, 7), (1, 10), (2, 20), (3, 30), (4, 50)] := by decide
example : (mapping exN).map (·.1) = List.range 5 := (C09_mapping_bij exN (by decide)).1
example : entry (binInc (α := Int) exN exE) 3 2 = some 1 :=
  (C09_incidence exN exE (by decide) (by decide) 3 2 (by decide) (by decide)).trans (by decide)
example : entry (binInc (α := Int) exN exE) 5 0 = none :=
  C09_incidence_shape exN exE (by decide) (by decide) 5 0 (by decide)
example : entry (inc exN exQ) 2 3 = some 5 :=
  (C09_incidence_weighted exN exQ (by decide) (by decide) 2 3 (by decide) (by decide)).trans (by decide)
example : entry (adj (α := Int) exN exE) 2 3 = some 2 :=
  (C09_adjacency exN exE (by decide) (by decide) 2 3 (by decide) (by decide)).trans (by decide)
example : entry (dual (α := Int) exN exE) 1 2 = some 0 ∧ entry (dual (α := Int) exN exE) 1 3 = some 1 := by decide
example : entry (dual (α := Int) exN exE) 1 3 = some 1 :=
  (C09_dual exN exE (by decide) (by decide) 1 3 (by decide) (by decide)).trans (by decide)
example : classes (subNodes 1 false exN exW) = [7, 10, 20, 30] ∧ incByOrder 1 false exN exW = [[0, 1], [1, 0], [1, 0], [0, 1]] := by
  decide
example : (subNodes 1 false exN exW).Nodup := (C09_by_order_incidence 1 false exN exW (by decide) (by decide)).1
example : entry (adjByOrder 2 exN exW) 2 3 = some 2 :=
  (C09_by_order 2 exN exW (by decide) (by decide) (by decide) 2 3 (by decide) (by decide)).trans (by decide)
example : entry (adjByOrder 2 exN exQ) 2 3 = some 29 :=
  (C09_by_order_weighted 2 exN exQ (by decide) (by decide) 2 3 (by decide) (by decide)).trans (by decide)
example : entry (degMatrix 2 exN exW) 3 3 = some 2 :=
  (C09_degree_matrix 2 exN exW 3 3 (by decide) (by decide)).trans (by decide)
example : laplacian 2 exN exW =
    [[2, 0, -1, -1, 0], [0, 2, -1, -1, 0], [-1, -1, 4, -2, 0], [-1, -1, -2, 4, 0], [0, 0, 0, 0, 0]] := by decide
example : entry (laplacian 2 exN exW) 2 3 = some (2 * 0 - 2) :=
  (C09_laplacian 2 exN exW (by decide) (by decide) (by decide) 2 3 (by decide) (by decide)).trans (by decide)
example : entry (laplacian 2 exN exQ) 2 3 = entry (laplacian 2 exN exQ) 3 2 :=
  C09_laplacian_symm 2 exN exQ (by decide) (by decide) 2 3 (by decide) (by decide)
example : ((laplacian 2 exN exW)[2]?).map List.sum = some 0 :=
  C09_laplacian_row_sums 2 exN exW (by decide) (by decide) (by decide) (by decide) 2 (by decide)
example : (tensor (α := Int) 3 [[0, 1], [2, 1]]).map (fun t => t.map (·.2)) = some [0, 1, 0, 1, 0, 1, 0, 1, 0] := by decide
example : (tensor (α := Int) 3 [[0, 1], [2, 1]]).isSome :=
  (C09_tensor_defined (R := Int) 3 [[0, 1], [2, 1]]).2 ⟨by decide, 2, by decide⟩
example : ∃ t : List (List Nat × Int), tensor 3 [[0, 1], [2, 1]] = some t ∧ t.map (·.1) = tuples 3 2 := by
  obtain ⟨t, h1, h2, _⟩ := C09_tensor (R := Int) 3 2 [[0, 1], [2, 1]] (by decide) (by decide)
  exact ⟨t, h1, h2⟩
example : (tensor (α := Int) 3 [[0, 1], [2, 1, 0]]) = none := by decide
local notation "exR" => ([(3, [10, 20, 30], 1), (3, [20, 30], 1), (7, [5, 10], 1), (3, [30, 40], 1)] : List (Rec Int))
example : times exR = [3, 7] ∧ snapshotNodes exR 3 = [10, 20, 30, 40]
    ∧ temporalAdj exR 3 = [[0, 1, 1, 0], [1, 0, 2, 0], [1, 2, 0, 1], [0, 0, 1, 0]] := by decide
example : entry (temporalAdj exR 3) 1 2 = some 2 :=
  ((C09_temporal exR 3).2.2.2 1 2 (by decide) (by decide)).trans (by decide)
example : temporalAdjByOrder 1 exR 3 = [[0, 0, 0, 0], [0, 0, 1, 0], [0, 1, 0, 1], [0, 0, 1, 0]] := by decide
example : entry (temporalAdjByOrder 1 exR 3) 2 3 = some 1 :=
  ((C09_temporal_by_order 1 exR 3 (by decide)).2 2 3 (by decide) (by decide)).trans (by decide)
example : entry (adj (α := Int) exN (List.map (·.1) exW)) 5 0 = none :=
  ((C09_shapes 2 exN exW (by decide) (by decide) 5 0).1 (by decide)).1
example : (hyeBinInc (α := Int) [[0, 2, 2], [], [1]] none) = some [[1, 0, 0], [0, 0, 1], [1, 0, 0]]
    ∧ (hyeBinInc (α := Int) [[0, 2, 2], [], [1]] (some (2, 3))) = none
    ∧ (hyeBinInc (α := Int) [[0, 2, 2], [], [1]] (some (3, 4))) = some [[1, 0, 0, 0], [0, 0, 1, 0], [1, 0, 0, 0]] := by decide
example : entry (binInc (α := Int) exN exE) 3 2 = some 1 := by
  have h := C09_incidence_call (R := Int) exN exE (by decide) (by decide)
  exact ((C09_hye_list _ _).2.2.2 _ h 3 2 (by decide) (by decide)).trans (by decide)
example : entry (binInc (α := Int) exN exE) 3 2 = some 1 :=
  (C09_incidence_iff exN exE (by decide) (by decide) 3 2 (by decide) (by decide)).2 (by decide)
example : entry (dual (α := Int) exN exE) 1 3 = some 1 :=
  (C09_dual_iff exN exE (by decide) (by decide) 1 3 (by decide) (by decide)).2 ⟨20, by decide, by decide⟩

example : mapping [10, 30, 20] = mapping [20, 10, 30] :=
  (C09_node_listing_irrelevant (R := Int) [10, 30, 20] [20, 10, 30] [] (by decide)).1
example : adj (α := Int) [50, 7, 30, 10, 20] exE = adj exN exE :=
  (C09_node_listing_irrelevant (R := Int) [50, 7, 30, 10, 20] exN exW (by decide)).2.2.2.1
example : [10, 20, 30].length = [10, 20, 40].length ∧ mapping [10, 20, 30] ≠ mapping [10, 20, 40] := by decide
example : ¬ ([10, 20, 30] : List Nat).Perm [10, 20, 40] :=
  fun h => absurd ((C09_mapping_tracks_nodes _ _ (by decide) (by decide)).2 h) (by decide)

/-! the order type of the labels `0, 0.5, 2` (seeded C09-c1) is that of `0, 1, 4`: `f` below maps `0, 1, 2` to it -/
local notation "exF" => (fun x : Nat => x * x)
example : ∀ a b : Nat, a < b → exF a < exF b := fun _ _ h => Nat.mul_lt_mul'' h h
example : mapping ([2, 0, 1].map exF) = [(0, 0), (1, 1), (2, 4)]
    ∧ binInc (α := Int) ([2, 0, 1].map exF) [[0, 1], [1, 4]] = binInc [2, 0, 1] [[0, 1], [1, 2]] := by decide
example : binInc (α := Int) ([2, 0, 1].map exF) ((relabelEs exF [([0, 1], (1 : Int)), ([1, 2], 1)]).map (·.1))
    = binInc [2, 0, 1] [[0, 1], [1, 2]] :=
  (C09_relabel_invariant (R := Int) exF (fun _ _ h => Nat.mul_lt_mul'' h h) [2, 0, 1] [([0, 1], 1), ([1, 2], 1)]).2.1
example : adjByOrder 2 (List.map (3 * · + 2) exN) (relabelEs (3 * · + 2) exQ) = adjByOrder 2 exN exQ :=
  ((C09_relabel_invariant (R := Int) (3 * · + 2) (fun _ _ h => by omega) exN exQ).2.2.2.2.2.2 2).1
example : laplacian 2 (List.map (3 * · + 2) exN) (relabelEs (3 * · + 2) exQ) = laplacian 2 exN exQ
    ∧ mapping (List.map (3 * · + 2) exN) = [(0, 23), (1, 32), (2, 62), (3, 92), (4, 152)] := by decide
example : temporalAdj (relabelRecs (3 * · + 2) exR) 3 = temporalAdj exR 3 :=
  ((C09_relabel_invariant_temporal (R := Int) (3 * · + 2) (fun _ _ h => by omega) exR).2 3).2.2.1
example : snapshotNodes (relabelRecs (3 * · + 2) exR) 3 = [32, 62, 92, 122] := by decide
example : ∀ x ∈ [2, 0, 1], encode (classes [2, 0, 1]) x = x :=
  (C09_encoder_identity_iff [2, 0, 1] (by decide)).2 (by decide)
example : classes [4, 0, 1] ≠ List.range 3 ∧ encode (classes [4, 0, 1]) 4 = 2 := by decide
example : ¬ ∀ x ∈ [4, 0, 1], encode (classes [4, 0, 1]) x = x :=
  fun h => absurd ((C09_encoder_identity_iff [4, 0, 1] (by decide)).1 h) (by decide)
