import Hgxv.Proofs.C09Forms
/-! # C09 — matrix / tensor representations equal their definitions under the node mapping

Property theorems about the model `Hgxv/Model/C09.lean`, for every node list, every list of hyperedges and
every size.  Hypotheses are the ones the `Hypergraph` container guarantees for what it hands to
`hypergraphx.linalg`: `nodes.Nodup` (`get_nodes()` lists dictionary keys) and every hyperedge consists of
nodes of the hypergraph (`add_edge` registers them); where a size matters, hyperedges are duplicate-free
tuples.  The number type is any commutative ring `R` (`Int` / `Rat` for the repaired code). Row `i` of every
matrix belongs to the label `(classes nodes)[i]` = the `i`-th smallest node (`C09_mapping_bij`). -/
open C09

/-- The returned mapping `{index : label}` has the keys `0..N-1` (in order), its labels are a
permutation of the nodes - so it is a bijection between row indices and nodes - and they increase
with the index (rank in sorted order, the `LabelEncoder` contract); `encode` is its inverse. -/
theorem C09_mapping_bij (nodes : List Nat) (hN : nodes.Nodup) :
    (mapping nodes).map (·.1) = List.range nodes.length
    ∧ ((mapping nodes).map (·.2)).Perm nodes
    ∧ ((mapping nodes).map (·.2)).Pairwise (· < ·)
    ∧ (∀ x ∈ nodes, (encode (classes nodes) x, x) ∈ mapping nodes)
    ∧ (∀ p ∈ mapping nodes, encode (classes nodes) p.2 = p.1) := by
  have hl := classes_length nodes hN
  have h2 : (mapping nodes).map (·.2) = classes nodes := by
    rw [mapping_eq]; exact List.map_snd_zip (by simp)
  have h1 : (mapping nodes).map (·.1) = List.range nodes.length := by
    rw [mapping_eq, ← hl]; exact List.map_fst_zip (by simp)
  refine ⟨h1, h2 ▸ classes_perm nodes hN, h2 ▸ classes_sorted nodes, ?_, ?_⟩
  · intro x hx
    have hx' := (mem_classes x nodes).2 hx
    unfold mapping
    simp only
    rw [List.mem_iff_getElem]
    refine ⟨encode (classes nodes) x, by simpa using encode_lt _ x hx', ?_⟩
    simp [getElem_encode _ x hx']
  · intro p hp
    unfold mapping at hp
    simp only at hp
    obtain ⟨i, hi, rfl⟩ := List.mem_iff_getElem.1 hp
    simp

/-- Binary incidence: entry `(i, e)` is 1 exactly when the node of row `i` belongs to hyperedge `e`, else 0. -/
theorem C09_incidence {R : Type} [CommRing R] (nodes : List Nat) (edges : List Edge)
    (hN : nodes.Nodup) (hE : ∀ e ∈ edges, ∀ x ∈ e, x ∈ nodes)
    (i j : Nat) (hi : i < (classes nodes).length) (hj : j < edges.length) :
    entry (binInc nodes edges : List (List R)) i j
      = some (if (classes nodes)[i] ∈ edges[j] then 1 else 0) := by
  rw [binInc_eq nodes edges hN hE, entry_map_map _ _ _ i j hi hj]
  simp [ind]

/-- ... and the matrix has exactly `N` rows and `E` columns. -/
theorem C09_incidence_shape {R : Type} [CommRing R] (nodes : List Nat) (edges : List Edge)
    (hN : nodes.Nodup) (hE : ∀ e ∈ edges, ∀ x ∈ e, x ∈ nodes)
    (i j : Nat) (h : nodes.length ≤ i ∨ edges.length ≤ j) :
    entry (binInc nodes edges : List (List R)) i j = none := by
  rw [binInc_eq nodes edges hN hE]
  exact entry_map_map_none _ _ _ i j (by rwa [classes_length nodes hN])

/-- Weighted incidence: entry `(i, e)` is the weight of `e` when the node of row `i` belongs to `e`, else 0. -/
theorem C09_incidence_weighted {R : Type} [CommRing R] (nodes : List Nat) (es : List (Edge × R))
    (hN : nodes.Nodup) (hE : ∀ e ∈ es, ∀ x ∈ e.1, x ∈ nodes)
    (i j : Nat) (hi : i < (classes nodes).length) (hj : j < es.length) :
    entry (inc nodes es) i j = some (if (classes nodes)[i] ∈ es[j].1 then es[j].2 else 0) := by
  rw [inc_eq nodes es hN hE, entry_map_map _ _ _ i j hi hj]
  by_cases h : (classes nodes)[i] ∈ es[j].1 <;> simp [ind, h]

/-- Adjacency: entry `(i, j)`, `i ≠ j`, is the number of hyperedges containing both nodes; the diagonal is 0.
(The number is cast into `R`: over `Int`/`Rat` it is the count itself, see `C09_adjacency_wraps` for `ZMod 256`.) -/
theorem C09_adjacency {R : Type} [CommRing R] (nodes : List Nat) (edges : List Edge)
    (hN : nodes.Nodup) (hE : ∀ e ∈ edges, ∀ x ∈ e, x ∈ nodes)
    (i j : Nat) (hi : i < (classes nodes).length) (hj : j < (classes nodes).length) :
    entry (adj nodes edges : List (List R)) i j
      = some (if i = j then 0
              else ((edges.countP fun e => decide ((classes nodes)[i] ∈ e) && decide ((classes nodes)[j] ∈ e) : Nat) : R)) := by
  unfold adj
  simp only
  rw [binInc_eq nodes edges hN hE, mulT_rows, entry_setDiag0, entry_map_map _ _ _ i j hi hj]
  simp only [ind_mul_ind, sum_map_ind, Option.map_some]

/-- Dual adjacency: entry `(e, f)` is 1 exactly when the hyperedges `e` and `f` share a node, else 0
(in a ring of characteristic 0 - `int64` after the repair of D25; false modulo 256). -/
theorem C09_dual {R : Type} [CommRing R] [CharZero R] [DecidableEq R] (nodes : List Nat) (edges : List Edge)
    (hN : nodes.Nodup) (hE : ∀ e ∈ edges, ∀ x ∈ e, x ∈ nodes)
    (a b : Nat) (ha : a < edges.length) (hb : b < edges.length) :
    entry (dual nodes edges : List (List R)) a b
      = some (if ∃ x, x ∈ edges[a] ∧ x ∈ edges[b] then 1 else 0) := by
  unfold dual
  simp only
  rw [binInc_eq nodes edges hN hE, transpose_rows, mulT_rows, entry_map_rows, entry_map_map _ _ _ a b ha hb]
  simp only [ind_mul_ind, sum_map_ind, Option.map_some, Nat.cast_eq_zero, Nat.cast_one]
  congr 1
  have hiff : (List.countP (fun x => decide (x ∈ edges[a]) && decide (x ∈ edges[b])) (classes nodes) = 0)
      ↔ ¬ ∃ x, x ∈ edges[a] ∧ x ∈ edges[b] := by
    rw [List.countP_eq_zero]
    constructor
    · rintro h ⟨x, hxa, hxb⟩
      exact h x ((mem_classes x nodes).2 (hE _ (List.getElem_mem ha) x hxa)) (by simp [hxa, hxb])
    · intro h x _ hx
      simp only [Bool.and_eq_true, decide_eq_true_eq] at hx
      exact h ⟨x, hx⟩
  by_cases hex : ∃ x, x ∈ edges[a] ∧ x ∈ edges[b]
  · rw [if_neg (fun h0 => (hiff.1 h0) hex), if_pos hex]
  · rw [if_pos (hiff.2 hex), if_neg hex]
