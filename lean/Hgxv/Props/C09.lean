import Hgxv.Proofs.C09Order
import Hgxv.Proofs.C09Tensor
import Hgxv.Proofs.C09Witness
import Hgxv.Proofs.C09Relabel
import Hgxv.Proofs.C09Multi
import Hgxv.Proofs.C09Psd
import Hgxv.Proofs.C09Ext
import Mathlib.Algebra.Field.Defs
import Mathlib.Data.ZMod.Basic
/-! # C09 — matrix / tensor representations equal their definitions under the node mapping

Property theorems about the model `Hgxv/Model/C09.lean`, for every node list, every list of hyperedges and
every size.  Hypotheses are the ones the `Hypergraph` container guarantees for what it hands to
`hypergraphx.linalg`: `nodes.Nodup` (`get_nodes()` lists dictionary keys) and every hyperedge consists of
nodes of the hypergraph (`add_edge` registers them); where a size matters, hyperedges are duplicate-free
tuples.  The number type is any commutative ring `R` (`Int` / `Rat` for the repaired code). Row `i` of every
matrix belongs to the label `(classes nodes)[i]` = the `i`-th smallest node (`C09_mapping_bij`). -/
open C09

/-- The returned mapping `{index : label}` has the keys `0..N-1` (in order), its labels are a
permutation of the nodes - so it is a bijection between row indices and nodes - and they increase
with the index (rank in sorted order, the `LabelEncoder` contract); `encode` is its inverse. -/
theorem C09_mapping_bij (nodes : List Nat) (hN : nodes.Nodup) :
    (mapping nodes).map (·.1) = List.range nodes.length
    ∧ ((mapping nodes).map (·.2)).Perm nodes
    ∧ ((mapping nodes).map (·.2)).Pairwise (· < ·)
    ∧ (∀ x ∈ nodes, (encode (classes nodes) x, x) ∈ mapping nodes)
    ∧ (∀ p ∈ mapping nodes, encode (classes nodes) p.2 = p.1) := by
  have hl := classes_length nodes hN
  have h2 : (mapping nodes).map (·.2) = classes nodes := by
    rw [mapping_eq]; exact List.map_snd_zip (by simp)
  have h1 : (mapping nodes).map (·.1) = List.range nodes.length := by
    rw [mapping_eq, ← hl]; exact List.map_fst_zip (by simp)
  refine ⟨h1, h2 ▸ classes_perm nodes hN, h2 ▸ classes_sorted nodes, ?_, ?_⟩
  · intro x hx
    have hx' := (mem_classes x nodes).2 hx
    unfold mapping
    simp only
    rw [List.mem_iff_getElem]
    refine ⟨encode (classes nodes) x, by simpa using encode_lt _ x hx', ?_⟩
    simp [getElem_encode _ x hx']
  · intro p hp
    unfold mapping at hp
    simp only at hp
    obtain ⟨i, hi, rfl⟩ := List.mem_iff_getElem.1 hp
    simp

/-- Binary incidence: entry `(i, e)` is 1 exactly when the node of row `i` belongs to hyperedge `e`, else 0. -/
theorem C09_incidence {R : Type} [CommRing R] (nodes : List Nat) (edges : List Edge)
    (hN : nodes.Nodup) (hE : ∀ e ∈ edges, ∀ x ∈ e, x ∈ nodes)
    (i j : Nat) (hi : i < (classes nodes).length) (hj : j < edges.length) :
    entry (binInc nodes edges : List (List R)) i j
      = some (if (classes nodes)[i] ∈ edges[j] then 1 else 0) := by
  rw [binInc_eq nodes edges hN hE, entry_map_map _ _ _ i j hi hj]
  simp [ind]

/-- Over the integers (the repaired code): the binary incidence entry is 1 exactly when the node belongs to the hyperedge. -/
theorem C09_incidence_iff (nodes : List Nat) (edges : List Edge)
    (hN : nodes.Nodup) (hE : ∀ e ∈ edges, ∀ x ∈ e, x ∈ nodes)
    (i j : Nat) (hi : i < (classes nodes).length) (hj : j < edges.length) :
    entry (binInc nodes edges : List (List Int)) i j = some 1 ↔ (classes nodes)[i] ∈ edges[j] := by
  rw [C09_incidence nodes edges hN hE i j hi hj]
  by_cases h : (classes nodes)[i] ∈ edges[j] <;> simp [h]

/-- ... and the matrix has exactly `N` rows and `E` columns. -/
theorem C09_incidence_shape {R : Type} [CommRing R] (nodes : List Nat) (edges : List Edge)
    (hN : nodes.Nodup) (hE : ∀ e ∈ edges, ∀ x ∈ e, x ∈ nodes)
    (i j : Nat) (h : nodes.length ≤ i ∨ edges.length ≤ j) :
    entry (binInc nodes edges : List (List R)) i j = none := by
  rw [binInc_eq nodes edges hN hE]
  exact entry_map_map_none _ _ _ i j (by rwa [classes_length nodes hN])

/-- Weighted incidence: entry `(i, e)` is the weight of `e` when the node of row `i` belongs to `e`, else 0. -/
theorem C09_incidence_weighted {R : Type} [CommRing R] (nodes : List Nat) (es : List (Edge × R))
    (hN : nodes.Nodup) (hE : ∀ e ∈ es, ∀ x ∈ e.1, x ∈ nodes)
    (i j : Nat) (hi : i < (classes nodes).length) (hj : j < es.length) :
    entry (inc nodes es) i j = some (if (classes nodes)[i] ∈ es[j].1 then es[j].2 else 0) := by
  rw [inc_eq nodes es hN hE, entry_map_map _ _ _ i j hi hj]
  by_cases h : (classes nodes)[i] ∈ es[j].1 <;> simp [ind, h]

/-- Adjacency: entry `(i, j)`, `i ≠ j`, is the number of hyperedges containing both nodes; the diagonal is 0.
(The number is cast into `R`: over `Int`/`Rat` it is the count itself, see `C09_adjacency_wraps` for `ZMod 256`.) -/
theorem C09_adjacency {R : Type} [CommRing R] (nodes : List Nat) (edges : List Edge)
    (hN : nodes.Nodup) (hE : ∀ e ∈ edges, ∀ x ∈ e, x ∈ nodes)
    (i j : Nat) (hi : i < (classes nodes).length) (hj : j < (classes nodes).length) :
    entry (adj nodes edges : List (List R)) i j
      = some (if i = j then 0
              else ((edges.countP fun e => decide ((classes nodes)[i] ∈ e) && decide ((classes nodes)[j] ∈ e) : Nat) : R)) := by
  unfold adj
  simp only
  rw [binInc_eq nodes edges hN hE, mulT_rows, entry_setDiag0, entry_map_map _ _ _ i j hi hj]
  simp only [ind_mul_ind, sum_map_ind, Option.map_some]

/-- Dual adjacency: entry `(e, f)` is 1 exactly when the hyperedges `e` and `f` share a node, else 0
(in a ring of characteristic 0 - `int64` after the repair of D25; false modulo 256). -/
theorem C09_dual {R : Type} [CommRing R] [CharZero R] [DecidableEq R] (nodes : List Nat) (edges : List Edge)
    (hN : nodes.Nodup) (hE : ∀ e ∈ edges, ∀ x ∈ e, x ∈ nodes)
    (a b : Nat) (ha : a < edges.length) (hb : b < edges.length) :
    entry (dual nodes edges : List (List R)) a b
      = some (if ∃ x, x ∈ edges[a] ∧ x ∈ edges[b] then 1 else 0) := by
  unfold dual
  simp only
  rw [binInc_eq nodes edges hN hE, transpose_rows, mulT_rows, entry_map_rows, entry_map_map _ _ _ a b ha hb]
  simp only [ind_mul_ind, sum_map_ind, Option.map_some, Nat.cast_eq_zero, Nat.cast_one]
  congr 1
  have hiff : (List.countP (fun x => decide (x ∈ edges[a]) && decide (x ∈ edges[b])) (classes nodes) = 0)
      ↔ ¬ ∃ x, x ∈ edges[a] ∧ x ∈ edges[b] := by
    rw [List.countP_eq_zero]
    constructor
    · rintro h ⟨x, hxa, hxb⟩
      exact h x ((mem_classes x nodes).2 (hE _ (List.getElem_mem ha) x hxa)) (by simp [hxa, hxb])
    · intro h x _ hx
      simp only [Bool.and_eq_true, decide_eq_true_eq] at hx
      exact h ⟨x, hx⟩
  by_cases hex : ∃ x, x ∈ edges[a] ∧ x ∈ edges[b]
  · rw [if_neg (fun h0 => (hiff.1 h0) hex), if_pos hex]
  · rw [if_pos (hiff.2 hex), if_neg hex]

/-- Over the integers: the dual adjacency entry is 1 exactly when the two hyperedges share a node. -/
theorem C09_dual_iff (nodes : List Nat) (edges : List Edge)
    (hN : nodes.Nodup) (hE : ∀ e ∈ edges, ∀ x ∈ e, x ∈ nodes)
    (a b : Nat) (ha : a < edges.length) (hb : b < edges.length) :
    entry (dual nodes edges : List (List Int)) a b = some 1 ↔ ∃ x, x ∈ edges[a] ∧ x ∈ edges[b] := by
  rw [C09_dual nodes edges hN hE a b ha hb]
  by_cases h : ∃ x, x ∈ edges[a] ∧ x ∈ edges[b]
  · rw [if_pos h]; exact ⟨fun _ => h, fun _ => rfl⟩
  · simp [h]

/-- `hye_list_to_binary_incidence` called directly on index hyperedges: a given shape is refused exactly when it is
smaller than the inferred one `(max index + 1, number of hyperedges)`; otherwise entry `(i, j)` is 1 exactly when
`i` occurs in the `j`-th hyperedge (repeated nodes count once, columns beyond the list are empty). -/
theorem C09_hye_list {R : Type} [CommRing R] (hyes : List (List Nat)) (shape : Option (Nat × Nat)) :
    (∀ e ∈ hyes, ∀ x ∈ e, x < inferredN hyes)
    ∧ (∀ N, (∀ e ∈ hyes, ∀ x ∈ e, x < N) → inferredN hyes ≤ N)
    ∧ ((hyeBinInc hyes shape : Option (List (List R))) = none
        ↔ ∃ n e, shape = some (n, e) ∧ (n < inferredN hyes ∨ e < hyes.length))
    ∧ ∀ M : List (List R), hyeBinInc hyes shape = some M →
        ∀ i j, i < (shape.map (·.1)).getD (inferredN hyes) → j < (shape.map (·.2)).getD hyes.length →
          entry M i j = some (if ∃ e, hyes[j]? = some e ∧ i ∈ e then 1 else 0) := by
  refine ⟨lt_inferredN hyes, inferredN_le hyes, ?_, ?_⟩
  · cases shape with
    | none => simp [hyeBinInc]
    | some p =>
      obtain ⟨n, e⟩ := p
      simp only [hyeBinInc]
      by_cases h : n < inferredN hyes ∨ e < hyes.length
      · simp [h]
      · simp only [if_neg h, reduceCtorEq, false_iff]
        rintro ⟨n', e', heq, h'⟩
        cases heq
        exact h h'
  · have key : ∀ (N E i j : Nat), i < N → j < E →
        entry (binIncPad N E hyes : List (List R)) i j = some (if ∃ e, hyes[j]? = some e ∧ i ∈ e then 1 else 0) := by
      intro N E i j hi hj
      unfold binIncPad
      rw [entry_map_map _ _ _ i j (by simpa using hi) (by simpa using hj)]
      simp only [List.getElem_range]
      congr 1
      by_cases hj' : j < hyes.length
      · by_cases hm : i ∈ hyes[j] <;> simp [ind, hj', hm]
      · simp [ind, hj']
    intro M hM i j hi hj
    cases shape with
    | none =>
      simp only [hyeBinInc, Option.some.injEq] at hM
      subst hM
      exact key _ _ i j (by simpa using hi) (by simpa using hj)
    | some p =>
      obtain ⟨n, e⟩ := p
      simp only [hyeBinInc] at hM
      split at hM
      · cases hM
      · simp only [Option.some.injEq] at hM
        subst hM
        exact key _ _ i j (by simpa using hi) (by simpa using hj)

/-- `binary_incidence_matrix` is this routine applied to the relabelled hyperedges with the shape
`(num_nodes, num_edges)`, which is always accepted. -/
theorem C09_incidence_call {R : Type} [CommRing R] (nodes : List Nat) (edges : List Edge)
    (hN : nodes.Nodup) (hE : ∀ e ∈ edges, ∀ x ∈ e, x ∈ nodes) :
    hyeBinInc (edges.map fun e => e.map (encode (classes nodes))) (some (nodes.length, edges.length))
      = some (binInc nodes edges : List (List R)) := by
  have hle : inferredN (edges.map fun e => e.map (encode (classes nodes))) ≤ nodes.length := by
    apply inferredN_le
    intro e' he' y hy
    obtain ⟨e, he, rfl⟩ := List.mem_map.1 he'
    obtain ⟨x, hx, rfl⟩ := List.mem_map.1 hy
    rw [← classes_length nodes hN]
    exact encode_lt _ x ((mem_classes x nodes).2 (hE e he x hx))
  simp only [hyeBinInc, List.length_map]
  rw [if_neg (by omega)]
  congr 1
  have := binIncPad_eq (R := R) nodes.length (edges.map fun e => e.map (encode (classes nodes)))
  simpa [binInc] using this

/-! ## per-order variants -/

/-- Incidence of order `d`: the columns are the hyperedges of order `d` (size `d+1`) in listing order, the rows are
all nodes (`keep_isolated_nodes=True`) or exactly the nodes lying in a hyperedge of order `d` (`False`), sorted;
entry `(i, e)` is the weight of `e` (1 if unweighted) when the node of row `i` belongs to `e`, else 0;
the returned mapping is the mapping of that node list (so `C09_mapping_bij` applies to it). -/
theorem C09_by_order_incidence {R : Type} [CommRing R] (d : Nat) (k : Bool) (nodes : List Nat) (es : List (Edge × R))
    (hN : nodes.Nodup) (hE : ∀ e ∈ es, ∀ x ∈ e.1, x ∈ nodes) :
    (subNodes d k nodes es).Nodup
    ∧ (∀ x, x ∈ subNodes d k nodes es ↔ if k then x ∈ nodes else ∃ e ∈ es, e.1.length = d + 1 ∧ x ∈ e.1)
    ∧ (∀ e, e ∈ ofOrder d es ↔ e ∈ es ∧ e.1.length = d + 1)
    ∧ mappingByOrder d k nodes es = mapping (subNodes d k nodes es)
    ∧ ∀ i j (hi : i < (classes (subNodes d k nodes es)).length) (hj : j < (ofOrder d es).length),
        entry (incByOrder d k nodes es) i j
          = some (if (classes (subNodes d k nodes es))[i] ∈ ((ofOrder d es)[j]).1 then ((ofOrder d es)[j]).2 else 0) := by
  refine ⟨subNodes_nodup d k nodes es hN, ?_, mem_ofOrder d es, rfl, ?_⟩
  · intro x
    cases k
    · simpa using mem_subNodes_false d nodes es x
    · simp [subNodes_true]
  · intro i j hi hj
    exact C09_incidence_weighted _ _ (subNodes_nodup d k nodes es hN) (subNodes_covers d k nodes es hE) i j hi hj

/-- Adjacency of order `d`, unweighted hypergraph: entry `(i, j)`, `i ≠ j`, is the number of hyperedges of order `d`
containing both nodes; zero diagonal. -/
theorem C09_by_order {R : Type} [CommRing R] (d : Nat) (nodes : List Nat) (es : List (Edge × R))
    (hN : nodes.Nodup) (hE : ∀ e ∈ es, ∀ x ∈ e.1, x ∈ nodes) (hW : ∀ e ∈ es, e.2 = 1)
    (i j : Nat) (hi : i < (classes nodes).length) (hj : j < (classes nodes).length) :
    entry (adjByOrder d nodes es) i j
      = some (if i = j then 0
              else ((es.countP fun e => e.1.length == d + 1 &&
                      (decide ((classes nodes)[i] ∈ e.1) && decide ((classes nodes)[j] ∈ e.1)) : Nat) : R)) := by
  unfold adjByOrder
  simp only
  rw [gramMatrix_eq d nodes es hN hE, entry_subDiag, entry_map_map _ _ _ i j hi hj, gram_unweighted d es hW]
  rfl

/-- The same for arbitrary weights (what the code computes: the weights enter squared). -/
theorem C09_by_order_weighted {R : Type} [CommRing R] (d : Nat) (nodes : List Nat) (es : List (Edge × R))
    (hN : nodes.Nodup) (hE : ∀ e ∈ es, ∀ x ∈ e.1, x ∈ nodes)
    (i j : Nat) (hi : i < (classes nodes).length) (hj : j < (classes nodes).length) :
    entry (adjByOrder d nodes es) i j
      = some (if i = j then 0
              else ((ofOrder d es).map fun e =>
                if (classes nodes)[i] ∈ e.1 ∧ (classes nodes)[j] ∈ e.1 then e.2 * e.2 else 0).sum) := by
  unfold adjByOrder
  simp only
  rw [gramMatrix_eq d nodes es hN hE, entry_subDiag, entry_map_map _ _ _ i j hi hj]
  simp only [Option.map_some, gram]
  congr 3
  apply List.map_congr_left
  intro e _
  by_cases h1 : (classes nodes)[i] ∈ e.1 <;> by_cases h2 : (classes nodes)[j] ∈ e.1 <;> simp [ind, h1, h2]

/-- Degree matrix of order `d` (the repaired `degree_matrix`, D24): diagonal entry `i` is the number of hyperedges
of order `d` containing the node of row `i` (the label, not the index), off-diagonal entries are 0. -/
theorem C09_degree_matrix {R : Type} [CommRing R] (d : Nat) (nodes : List Nat) (es : List (Edge × R))
    (i j : Nat) (hi : i < (classes nodes).length) (hj : j < (classes nodes).length) :
    entry (degMatrix d nodes es) i j
      = some (if i = j then ((es.countP fun e => e.1.length == d + 1 && decide ((classes nodes)[i] ∈ e.1) : Nat) : R)
              else 0) := by
  rw [degMatrix_eq, entry_diag _ i j (by simpa using hi) (by simpa using hj)]
  simp only [List.getElem_map, degree_eq_countP, Bool.and_self]

/-! ## Laplacian of order `d` -/

/-- For an unweighted hypergraph `L_d = d·D_d − A_d` entry by entry, with `D_d` the order-`d` degree matrix and
`A_d` the order-`d` adjacency matrix of the model (characterised by `C09_degree_matrix` and `C09_by_order`). -/
theorem C09_laplacian {R : Type} [CommRing R] (d : Nat) (nodes : List Nat) (es : List (Edge × R))
    (hN : nodes.Nodup) (hE : ∀ e ∈ es, ∀ x ∈ e.1, x ∈ nodes) (hW : ∀ e ∈ es, e.2 = 1)
    (i j : Nat) (hi : i < (classes nodes).length) (hj : j < (classes nodes).length) :
    entry (laplacian d nodes es) i j
      = (entry (degMatrix d nodes es) i j).bind fun a =>
          (entry (adjByOrder d nodes es) i j).map fun b => (d : R) * a - b := by
  rw [lap_entry d nodes es hN hE i j hi hj, C09_degree_matrix d nodes es i j hi hj,
    C09_by_order d nodes es hN hE hW i j hi hj, gram_unweighted d es hW]
  simp only [Option.bind_some, Option.map_some, Option.some.injEq]
  by_cases h : i = j
  · subst h
    simp only [if_true, degree_eq_countP, Bool.and_self]
    push_cast
    ring
  · simp [h]

/-- The Laplacian is symmetric (any weights). -/
theorem C09_laplacian_symm {R : Type} [CommRing R] (d : Nat) (nodes : List Nat) (es : List (Edge × R))
    (hN : nodes.Nodup) (hE : ∀ e ∈ es, ∀ x ∈ e.1, x ∈ nodes)
    (i j : Nat) (hi : i < (classes nodes).length) (hj : j < (classes nodes).length) :
    entry (laplacian d nodes es) i j = entry (laplacian d nodes es) j i := by
  rw [lap_entry d nodes es hN hE i j hi hj, lap_entry d nodes es hN hE j i hj hi, gram_comm]
  by_cases h : i = j
  · subst h; rfl
  · have h' : ¬ j = i := fun e => h e.symm
    simp [h, h']

/-- Every row of the Laplacian of an unweighted hypergraph sums to zero (hyperedges are duplicate-free tuples of
nodes of the hypergraph: a hyperedge of order `d` has exactly `d + 1` members among the rows). -/
theorem C09_laplacian_row_sums {R : Type} [CommRing R] (d : Nat) (nodes : List Nat) (es : List (Edge × R))
    (hN : nodes.Nodup) (hE : ∀ e ∈ es, ∀ x ∈ e.1, x ∈ nodes) (hD : ∀ e ∈ es, e.1.Nodup) (hW : ∀ e ∈ es, e.2 = 1)
    (i : Nat) (hi : i < (classes nodes).length) :
    ((laplacian d nodes es)[i]?).map List.sum = some 0 := by
  rw [lap_row d nodes es hN hE i hi, Option.map_some, sum_zipWith_sub _ _ (by simp),
    sum_gram_unweighted d nodes es hE hD hW, sum_map_mul_left', sum_range_ite _ i hi]
  simp

/-! ## adjacency tensor of a uniform hypergraph on nodes `0..N-1` -/

/-- The routine returns a tensor exactly for a non-empty uniform hypergraph (it raises otherwise). -/
theorem C09_tensor_defined {R : Type} [CommRing R] (N : Nat) (edges : List Edge) :
    ((tensor N edges : Option (List (List Nat × R))).isSome ↔ edges ≠ [] ∧ ∃ k, ∀ e ∈ edges, e.length = k) := by
  unfold tensor
  cases h : uniformSize edges with
  | none =>
    simp only [Option.isSome_none, Bool.false_eq_true, false_iff, not_and, not_exists]
    intro hne k hk
    have := (uniformSize_eq_some edges k).2 ⟨hne, hk⟩
    rw [h] at this; cases this
  | some k =>
    simp only [Option.isSome_some, true_iff]
    exact ⟨((uniformSize_eq_some edges k).1 h).1, k, ((uniformSize_eq_some edges k).1 h).2⟩

/-- For hyperedges of common size `k`, the tensor is the map defined on exactly the index tuples of length `k` over
`0..N-1` (each with one value), and `T[p] = 1` when `p` is a permutation of a hyperedge, `0` otherwise:
the symmetric indicator of the hyperedges. -/
theorem C09_tensor {R : Type} [CommRing R] (N k : Nat) (edges : List Edge)
    (hne : edges ≠ []) (hU : ∀ e ∈ edges, e.length = k) :
    ∃ t : List (List Nat × R), tensor N edges = some t ∧ t.map (·.1) = tuples N k ∧
      ∀ p v, (p, v) ∈ t ↔ (p.length = k ∧ ∀ x ∈ p, x < N) ∧ v = if ∃ e ∈ edges, p.Perm e then 1 else 0 := by
  have hk := (uniformSize_eq_some edges k).2 ⟨hne, hU⟩
  refine ⟨(tuples N k).map fun p => (p, ind ((edges.flatMap perms).contains p)), by unfold tensor; rw [hk],
    by rw [List.map_map]; exact (List.map_congr_left (fun _ _ => rfl)).trans (List.map_id _), ?_⟩
  intro p v
  simp only [List.mem_map, Prod.mk.injEq]
  have hind : (ind ((edges.flatMap perms).contains p) : R) = if ∃ e ∈ edges, p.Perm e then 1 else 0 := by
    have : (edges.flatMap perms).contains p = decide (∃ e ∈ edges, p.Perm e) := by
      rw [Bool.eq_iff_iff]
      simp [List.mem_flatMap, mem_perms]
    rw [this]
    by_cases h : ∃ e ∈ edges, p.Perm e <;> simp [ind, h]
  constructor
  · rintro ⟨q, hq, rfl, rfl⟩
    exact ⟨(mem_tuples N k q).1 hq, hind⟩
  · rintro ⟨hp, rfl⟩
    exact ⟨p, (mem_tuples N k p).2 hp, rfl, hind⟩

/-- Symmetry: the tensor takes the same value at an index tuple and at each of its permutations. -/
theorem C09_tensor_symm {R : Type} [CommRing R] (N : Nat) (edges : List Edge) (t : List (List Nat × R))
    (ht : tensor N edges = some t) (p q : List Nat) (hpq : p.Perm q) (v w : R)
    (hv : (p, v) ∈ t) (hw : (q, w) ∈ t) : v = w := by
  have hsome : (tensor N edges : Option (List (List Nat × R))).isSome := by rw [ht]; rfl
  obtain ⟨hne, k, hU⟩ := (C09_tensor_defined N edges).1 hsome
  obtain ⟨t', ht', _, hchar⟩ := C09_tensor (R := R) N k edges hne hU
  rw [ht] at ht'
  cases ht'
  rw [((hchar p v).1 hv).2, ((hchar q w).1 hw).2]
  have : (∃ e ∈ edges, p.Perm e) ↔ (∃ e ∈ edges, q.Perm e) :=
    ⟨fun ⟨e, he, h⟩ => ⟨e, he, hpq.symm.trans h⟩, fun ⟨e, he, h⟩ => ⟨e, he, hpq.trans h⟩⟩
  simp [this]

/-! ## temporal hypergraph -/

/-- The matrix at time `t` is the adjacency matrix of the snapshot at `t`: the listed times are those of the records,
the snapshot's nodes are the nodes of the hyperedges recorded at `t`, and entry `(i, j)`, `i ≠ j`, is the number of
records `(t, e)` whose hyperedge contains both nodes (zero diagonal). -/
theorem C09_temporal {R : Type} [CommRing R] (recs : List (Rec R)) (t : Nat) :
    (t ∈ times recs ↔ ∃ r ∈ recs, r.1 = t)
    ∧ (∀ x, x ∈ snapshotNodes recs t ↔ ∃ r ∈ recs, r.1 = t ∧ x ∈ r.2.1)
    ∧ temporalAdj recs t = adj (snapshotNodes recs t) ((snapshot recs t).map (·.1))
    ∧ ∀ i j (hi : i < (classes (snapshotNodes recs t)).length) (hj : j < (classes (snapshotNodes recs t)).length),
        entry (temporalAdj recs t) i j
          = some (if i = j then 0
                  else ((recs.countP fun r => r.1 == t &&
                          (decide ((classes (snapshotNodes recs t))[i] ∈ r.2.1)
                            && decide ((classes (snapshotNodes recs t))[j] ∈ r.2.1)) : Nat) : R)) := by
  have hmem : ∀ x, x ∈ snapshotNodes recs t ↔ ∃ r ∈ recs, r.1 = t ∧ x ∈ r.2.1 := by
    intro x
    simp only [snapshotNodes, snapshot, mem_classes, List.mem_flatten, List.mem_map, List.mem_filter, beq_iff_eq]
    constructor
    · rintro ⟨l, ⟨e, ⟨r, ⟨hr, ht⟩, rfl⟩, rfl⟩, hx⟩
      exact ⟨r, hr, ht, hx⟩
    · rintro ⟨r, hr, ht, hx⟩
      exact ⟨r.2.1, ⟨r.2, ⟨r, ⟨hr, ht⟩, rfl⟩, rfl⟩, hx⟩
  refine ⟨?_, hmem, rfl, ?_⟩
  · simp [times, mem_classes]
  · intro i j hi hj
    unfold temporalAdj
    have hnd : (snapshotNodes recs t).Nodup := by unfold snapshotNodes; exact classes_nodup _
    rw [C09_adjacency (snapshotNodes recs t) _ hnd ?_ i j hi hj]
    · congr 3
      simp only [snapshot, List.map_map, List.countP_map, List.countP_filter]
      congr 1
      funext r
      simp [Function.comp, Bool.and_comm]
    · intro e he x hx
      simp only [snapshot, List.map_map, List.mem_map, List.mem_filter, beq_iff_eq] at he
      obtain ⟨r, ⟨hr, ht⟩, rfl⟩ := he
      exact (hmem x).2 ⟨r, hr, ht, hx⟩

/-- Per-order temporal matrices: the matrix at time `t` is the order-`d` adjacency matrix of the snapshot at `t`;
for unweighted records entry `(i, j)`, `i ≠ j`, counts the records `(t, e)` with `e` of order `d` containing both nodes. -/
theorem C09_temporal_by_order {R : Type} [CommRing R] (d : Nat) (recs : List (Rec R)) (t : Nat)
    (hW : ∀ r ∈ recs, r.2.2 = 1) :
    temporalAdjByOrder d recs t = adjByOrder d (snapshotNodes recs t) (snapshot recs t)
    ∧ ∀ i j (hi : i < (classes (snapshotNodes recs t)).length) (hj : j < (classes (snapshotNodes recs t)).length),
        entry (temporalAdjByOrder d recs t) i j
          = some (if i = j then 0
                  else ((recs.countP fun r => r.1 == t && (r.2.1.length == d + 1 &&
                          (decide ((classes (snapshotNodes recs t))[i] ∈ r.2.1)
                            && decide ((classes (snapshotNodes recs t))[j] ∈ r.2.1))) : Nat) : R)) := by
  refine ⟨rfl, ?_⟩
  intro i j hi hj
  have hmem := (C09_temporal recs t).2.1
  have hnd : (snapshotNodes recs t).Nodup := by unfold snapshotNodes; exact classes_nodup _
  unfold temporalAdjByOrder
  rw [C09_by_order d (snapshotNodes recs t) (snapshot recs t) hnd ?_ ?_ i j hi hj]
  · congr 3
    simp only [snapshot, List.countP_map, List.countP_filter]
    congr 1
    funext r
    simp [Function.comp, Bool.and_comm]
  · intro e he x hx
    simp only [snapshot, List.mem_map, List.mem_filter, beq_iff_eq] at he
    obtain ⟨r, ⟨hr, ht⟩, rfl⟩ := he
    exact (hmem x).2 ⟨r, hr, ht, hx⟩
  · intro e he
    simp only [snapshot, List.mem_map, List.mem_filter, beq_iff_eq] at he
    obtain ⟨r, ⟨hr, _⟩, rfl⟩ := he
    exact hW r hr

/-- Shapes: adjacency, per-order adjacency, degree matrix and Laplacian are `N × N`, the dual is `E × E`
(entries outside are undefined). -/
theorem C09_shapes {R : Type} [CommRing R] [DecidableEq R] (d : Nat) (nodes : List Nat) (es : List (Edge × R))
    (hN : nodes.Nodup) (hE : ∀ e ∈ es, ∀ x ∈ e.1, x ∈ nodes) (i j : Nat) :
    (nodes.length ≤ i ∨ nodes.length ≤ j →
      entry (adj nodes (es.map (·.1)) : List (List R)) i j = none ∧ entry (adjByOrder d nodes es) i j = none
      ∧ entry (laplacian d nodes es) i j = none)
    ∧ (es.length ≤ i ∨ es.length ≤ j → entry (dual nodes (es.map (·.1)) : List (List R)) i j = none) := by
  have hE' : ∀ e ∈ es.map (·.1), ∀ x ∈ e, x ∈ nodes := by
    intro e he x hx
    obtain ⟨e', he', rfl⟩ := List.mem_map.1 he
    exact hE e' he' x hx
  have hl := classes_length nodes hN
  constructor
  · intro h
    rw [← hl] at h
    refine ⟨?_, ?_, ?_⟩
    · unfold adj
      simp only
      rw [binInc_eq nodes _ hN hE', mulT_rows, entry_setDiag0, entry_map_map_none _ _ _ i j h]; rfl
    · unfold adjByOrder
      simp only
      rw [gramMatrix_eq d nodes es hN hE, entry_subDiag, entry_map_map_none _ _ _ i j h]; rfl
    · unfold laplacian
      simp only
      rw [gramMatrix_eq d nodes es hN hE, entry_matSub, entry_map_map_none _ _ _ i j h]
      cases entry (smul ((d + 1 : Nat) : R) (degMatrix d nodes es)) i j <;> rfl
  · intro h
    unfold dual
    simp only
    rw [binInc_eq nodes _ hN hE', transpose_rows, mulT_rows, entry_map_rows,
      entry_map_map_none _ _ _ i j (by simpa using h)]
    rfl

/-! ## extension round: algebraic relations between the matrices, loops over the orders -/

/-- `B Bᵀ = A + D` : the Gram matrix of the binary incidence matrix is the adjacency matrix plus the diagonal matrix of the
(total) degrees - i.e. `A = B Bᵀ − D`, which is what `setdiag(0)` computes. -/
theorem C09_adjacency_gram {R : Type} [CommRing R] (nodes : List Nat) (edges : List Edge)
    (hN : nodes.Nodup) (hE : ∀ e ∈ edges, ∀ x ∈ e, x ∈ nodes)
    (i j : Nat) (hi : i < (classes nodes).length) (hj : j < (classes nodes).length) :
    entry (mulT (binInc nodes edges : List (List R)) (binInc nodes edges)) i j
      = (entry (adj nodes edges : List (List R)) i j).map fun a =>
          a + if i = j then ((edges.countP fun e => decide ((classes nodes)[i] ∈ e) : Nat) : R) else 0 := by
  rw [C09_adjacency nodes edges hN hE i j hi hj, binInc_eq nodes edges hN hE, mulT_rows,
    entry_map_map _ _ _ i j hi hj]
  simp only [ind_mul_ind, sum_map_ind, Option.map_some, Option.some.injEq]
  by_cases h : i = j
  · subst h; simp
  · simp [h]

/-- Per order, unweighted: `I_d I_dᵀ = A_d + D_d` entry by entry (`A_d`, `D_d` the model's order-`d` adjacency and degree
matrices), i.e. `A_d = I_d I_dᵀ − D_d` and `L_d = (d+1) D_d − I_d I_dᵀ = d D_d − A_d`. -/
theorem C09_by_order_gram {R : Type} [CommRing R] (d : Nat) (nodes : List Nat) (es : List (Edge × R))
    (hN : nodes.Nodup) (hE : ∀ e ∈ es, ∀ x ∈ e.1, x ∈ nodes) (hW : ∀ e ∈ es, e.2 = 1)
    (i j : Nat) (hi : i < (classes nodes).length) (hj : j < (classes nodes).length) :
    entry (mulT (incByOrder d true nodes es) (incByOrder d true nodes es)) i j
      = (entry (adjByOrder d nodes es) i j).bind fun a =>
          (entry (degMatrix d nodes es) i j).map fun b => a + b := by
  rw [gramMatrix_eq d nodes es hN hE, entry_map_map _ _ _ i j hi hj, C09_by_order d nodes es hN hE hW i j hi hj,
    C09_degree_matrix d nodes es i j hi hj, gram_unweighted d es hW]
  simp only [Option.bind_some, Option.map_some, Option.some.injEq]
  by_cases h : i = j
  · subst h; simp
  · simp [h]

/-- Degree matrix = row sums: for an unweighted hypergraph (duplicate-free hyperedges) the row of node `a` of the order-`d`
adjacency matrix sums to `d` times the order-`d` degree of `a` (each hyperedge of order `d` through `a` has `d` other members).
`A a b` is the entry in the row / column of the nodes `a`, `b` (located by the node mapping). -/
theorem C09_adjacency_row_sums {R : Type} [CommRing R] (d : Nat) (nodes : List Nat) (es : List (Edge × R))
    (hN : nodes.Nodup) (hE : ∀ e ∈ es, ∀ x ∈ e.1, x ∈ nodes) (hD : ∀ e ∈ es, e.1.Nodup) (hW : ∀ e ∈ es, e.2 = 1) :
    ∃ A : Nat → Nat → R,
      (∀ a ∈ nodes, ∀ b ∈ nodes,
        entry (adjByOrder d nodes es) (encode (classes nodes) a) (encode (classes nodes) b) = some (A a b))
      ∧ ∀ a ∈ nodes, ((classes nodes).map fun b => A a b).sum
          = (d : R) * ((es.countP fun e => e.1.length == d + 1 && decide (a ∈ e.1) : Nat) : R) := by
  refine ⟨fun a b => if a = b then 0 else gram d es a b,
    fun a ha b hb => adjByOrder_entry_label d nodes es hN hE a b ha hb, ?_⟩
  intro a ha
  rw [adj_row_sum_label d nodes es hE hD hW a ha, degree_eq_countP]
  simp only [Bool.and_self]

/-- The adjacency matrix is the sum over the orders `0..max_order` of the per-order adjacency matrices
(unweighted hypergraph): every hyperedge is counted at exactly one order. -/
theorem C09_adjacency_sum_orders {R : Type} [CommRing R] (nodes : List Nat) (es : List (Edge × R))
    (hN : nodes.Nodup) (hE : ∀ e ∈ es, ∀ x ∈ e.1, x ∈ nodes) (hW : ∀ e ∈ es, e.2 = 1)
    (m : Nat) (hm : maxOrder es = some m)
    (i j : Nat) (hi : i < (classes nodes).length) (hj : j < (classes nodes).length) :
    ∃ f : Nat → R, (∀ d, entry (adjByOrder d nodes es) i j = some (f d))
      ∧ entry (adj nodes (es.map (·.1)) : List (List R)) i j = some (((List.range (m + 1)).map f).sum) := by
  have hE' : ∀ e ∈ es.map (·.1), ∀ x ∈ e, x ∈ nodes := by
    intro e he x hx
    obtain ⟨e', he', rfl⟩ := List.mem_map.1 he
    exact hE e' he' x hx
  refine ⟨fun d => if i = j then 0 else ((es.countP fun e => e.1.length == d + 1 &&
      (decide ((classes nodes)[i] ∈ e.1) && decide ((classes nodes)[j] ∈ e.1)) : Nat) : R),
    fun d => C09_by_order d nodes es hN hE hW i j hi hj, ?_⟩
  rw [C09_adjacency nodes _ hN hE' i j hi hj]
  congr 1
  by_cases h : i = j
  · simp [h]
  · simp only [if_neg h]
    have hcast : ∀ (l : List Nat) (g : Nat → Nat), (((l.map g).sum : Nat) : R) = (l.map fun x => ((g x : Nat) : R)).sum := by
      intro l g
      induction l with
      | nil => simp
      | cons a l ih => simp [ih]
    rw [← hcast, countP_orders es (fun e => decide ((classes nodes)[i] ∈ e.1) && decide ((classes nodes)[j] ∈ e.1)) (m + 1),
      List.countP_map]
    congr 1
    apply List.countP_congr
    intro e he
    have hb := (maxOrder_spec es m hm).2.1 e he
    simp only [Function.comp, Bool.and_eq_true, decide_eq_true_eq]
    constructor
    · intro h1
      refine ⟨h1, ?_, hb⟩
      exact List.length_pos_of_mem h1.1
    · intro h1
      exact h1.1

/-- `incidence_matrices_all_orders` / `laplacian_matrices_all_orders`: they raise exactly for a hypergraph without
hyperedges; otherwise the keys are the orders `1..m`, `m = max_order()` the largest order of a hyperedge, and the value at
`d` is the per-order matrix (`incidence_matrix_by_order` / `laplacian_matrix_by_order` with the same flags). -/
theorem C09_all_orders {R : Type} [CommRing R] (k w : Bool) (nodes : List Nat) (es : List (Edge × R)) :
    (es = [] → maxOrder es = none ∧ incAllOrders k nodes es = none ∧ lapAllOrders w nodes es = none)
    ∧ (es ≠ [] → ∃ m, maxOrder es = some m ∧ (∀ e ∈ es, e.1.length ≤ m + 1) ∧ (∃ e ∈ es, e.1.length - 1 = m)
        ∧ incAllOrders k nodes es = some ((List.range m).map fun i => (i + 1, incByOrder (i + 1) k nodes es))
        ∧ lapAllOrders w nodes es = some ((List.range m).map fun i =>
            (i + 1, if w then laplacianScaled (i + 1) nodes es else laplacian (i + 1) nodes es))) := by
  constructor
  · rintro rfl
    simp [maxOrder, incAllOrders, lapAllOrders, orders]
  · intro hne
    cases h : maxOrder es with
    | none => exact absurd ((maxOrder_eq_none es).1 h) hne
    | some m =>
      have hs := maxOrder_spec es m h
      refine ⟨m, rfl, hs.2.1, hs.2.2, ?_, ?_⟩
      · simp [incAllOrders, orders, h, List.map_map, Function.comp]
      · simp [lapAllOrders, lapFlag, orders, h, List.map_map, Function.comp]

/-- `compute_multiorder_laplacian(sigmas, order_weighted, degree_weighted)`: raises exactly without hyperedges; the
Laplacians of the orders `1..max_order` are paired with the sigmas (`zip`: the longer list is cut); with
`degree_weighted` and a used order of average degree 0 nothing is claimed (`1.0/0.0`); without any pair the routine
returns the integer 0; otherwise it returns the matrix whose entry `(i, j)` is
`Σ_d  c_d · σ_d · L_d[i, j]`, `c_d = 1` or `N / Σ_x degree_d(x)` - the sigma-weighted sum of the per-order Laplacians. -/
theorem C09_multiorder_laplacian {R : Type} [Field R] (sigmas : List R) (ow dw : Bool)
    (nodes : List Nat) (es : List (Edge × R)) (hN : nodes.Nodup) (hE : ∀ e ∈ es, ∀ x ∈ e.1, x ∈ nodes) :
    (multiorderLaplacian sigmas ow dw nodes es = none ↔ es = [])
    ∧ ∀ ds, orders es = some ds →
      ((dw = true ∧ ∃ p ∈ ds.zip sigmas, degreeTotal p.1 nodes es = 0) →
          multiorderLaplacian sigmas ow dw nodes es = some MultiLap.undefScale)
      ∧ (¬ (dw = true ∧ ∃ p ∈ ds.zip sigmas, degreeTotal p.1 nodes es = 0) →
          (ds.zip sigmas = [] → multiorderLaplacian sigmas ow dw nodes es = some MultiLap.noMatrix)
          ∧ (ds.zip sigmas ≠ [] → ∃ M, multiorderLaplacian sigmas ow dw nodes es = some (MultiLap.mat M)
              ∧ ∀ i j, i < (classes nodes).length → j < (classes nodes).length →
                ∃ f : Nat → R, (∀ d, entry (lapFlag ow d nodes es) i j = some (f d))
                  ∧ entry M i j = some (((ds.zip sigmas).map fun p =>
                      (if dw then invAvgDegree p.1 nodes es else 1) * (p.2 * f p.1)).sum))) := by
  constructor
  · unfold multiorderLaplacian orders
    rw [Option.map_eq_none_iff, Option.map_eq_none_iff, maxOrder_eq_none]
  · intro ds hds
    have hguard : (dw && (ds.zip sigmas).any (fun p => degreeTotal p.1 nodes es == 0)) = true
        ↔ (dw = true ∧ ∃ p ∈ ds.zip sigmas, degreeTotal p.1 nodes es = 0) := by
      simp
    constructor
    · intro hg
      unfold multiorderLaplacian
      rw [hds]
      simp only [Option.map_some]
      rw [if_pos (hguard.2 hg)]
    · intro hg
      have hg' : ¬ (dw && (ds.zip sigmas).any (fun p => degreeTotal p.1 nodes es == 0)) = true := fun h => hg (hguard.1 h)
      constructor
      · intro hnil
        unfold multiorderLaplacian
        rw [hds]
        simp only [Option.map_some]
        rw [if_neg hg', hnil]
        rfl
      · intro hne
        cases hS : matSum ((ds.zip sigmas).map (multiTerm ow dw nodes es)) with
        | none =>
          exfalso
          rw [matSum_eq_none, List.map_eq_nil_iff] at hS
          exact hne hS
        | some S =>
          refine ⟨S, ?_, ?_⟩
          · unfold multiorderLaplacian
            rw [hds]
            simp only [Option.map_some]
            rw [if_neg hg', hS]
          · intro i j hi hj
            have hlap : ∀ d, entry (laplacian d nodes es) i j
                = some (((d + 1 : Nat) : R) * (if i = j then ((degree d es (classes nodes)[i] : Nat) : R) else 0)
                    - gram d es (classes nodes)[i] (classes nodes)[j]) :=
              fun d => lap_entry d nodes es hN hE i j hi hj
            refine ⟨fun d => if ow then ((scaleFactor d : Nat) : R) *
                (((d + 1 : Nat) : R) * (if i = j then ((degree d es (classes nodes)[i] : Nat) : R) else 0)
                    - gram d es (classes nodes)[i] (classes nodes)[j])
              else (((d + 1 : Nat) : R) * (if i = j then ((degree d es (classes nodes)[i] : Nat) : R) else 0)
                    - gram d es (classes nodes)[i] (classes nodes)[j]), ?_, ?_⟩
            · intro d
              cases ow
              · simp only [lapFlag, Bool.false_eq_true, if_false]; exact hlap d
              · simp only [lapFlag, if_true, laplacianScaled, entry_smul, hlap d, Option.map_some]
            · apply entry_matSum (multiTerm ow dw nodes es) _ i j (ds.zip sigmas) _ S hS
              intro p _
              cases ow <;> cases dw <;>
                simp [multiTerm, lapFlag, laplacianScaled, entry_smul, hlap p.1]

/-- Whatever the flags and the sigmas: for an unweighted hypergraph (hyperedges duplicate-free tuples of nodes) the
multi-order Laplacian is an `N × N` matrix, symmetric, and every row sums to zero. -/
theorem C09_multiorder_invariants {R : Type} [Field R] (sigmas : List R) (ow dw : Bool)
    (nodes : List Nat) (es : List (Edge × R)) (hN : nodes.Nodup) (hE : ∀ e ∈ es, ∀ x ∈ e.1, x ∈ nodes)
    (hD : ∀ e ∈ es, e.1.Nodup) (hW : ∀ e ∈ es, e.2 = 1)
    (M : List (List R)) (hM : multiorderLaplacian sigmas ow dw nodes es = some (MultiLap.mat M)) :
    M.length = nodes.length
    ∧ (∀ r ∈ M, r.length = nodes.length ∧ r.sum = 0)
    ∧ ∀ i j, i < nodes.length → j < nodes.length → entry M i j = entry M j i := by
  have hl := classes_length nodes hN
  have key : LapLike (classes nodes).length M := by
    unfold multiorderLaplacian at hM
    cases hds : orders es with
    | none => rw [hds] at hM; simp at hM
    | some ds =>
      rw [hds] at hM
      simp only [Option.map_some, Option.some.injEq] at hM
      split at hM
      · cases hM
      · cases hS : matSum ((ds.zip sigmas).map (multiTerm ow dw nodes es)) with
        | none => rw [hS] at hM; cases hM
        | some S =>
          rw [hS] at hM
          cases hM
          apply lapLike_matSum _ _ _ _ hS
          intro T hT
          obtain ⟨p, _, rfl⟩ := List.mem_map.1 hT
          have h1 := lapLike_smul _ p.2 _ (lapLike_lapFlag ow p.1 nodes es hN hE hD hW)
          unfold multiTerm
          cases dw
          · simpa using h1
          · simpa using lapLike_smul _ (invAvgDegree p.1 nodes es) _ h1
  rw [← hl]
  exact ⟨key.1.1, fun r hr => ⟨key.1.2 r hr, key.2.2 r hr⟩, key.2.1⟩

/-- The order-`d` Laplacian of an unweighted hypergraph is positive semidefinite, as a sum over the hyperedges: with
`L a b` the entry in the row of node `a` and the column of node `b` (rows located by the node mapping), for every vector
`x` indexed by the nodes  `xᵀ L x = Σ_{e of order d} ((d+1)·Σ_{a∈e} x_a² − (Σ_{a∈e} x_a)²)`  (`= Σ_e Σ_{a<b∈e} (x_a − x_b)²`),
and every summand is `≥ 0` by the Cauchy-Schwarz inequality, in every linearly ordered commutative ring (`Int`, `Rat`). -/
theorem C09_laplacian_psd {R : Type} [CommRing R] [LinearOrder R] [IsStrictOrderedRing R]
    (d : Nat) (nodes : List Nat) (es : List (Edge × R))
    (hN : nodes.Nodup) (hE : ∀ e ∈ es, ∀ x ∈ e.1, x ∈ nodes) (hD : ∀ e ∈ es, e.1.Nodup) (hW : ∀ e ∈ es, e.2 = 1) :
    ∃ L : Nat → Nat → R,
      (∀ a ∈ nodes, ∀ b ∈ nodes,
        entry (laplacian d nodes es) (encode (classes nodes) a) (encode (classes nodes) b) = some (L a b))
      ∧ ∀ x : Nat → R,
          ((classes nodes).map fun a => ((classes nodes).map fun b => x a * L a b * x b).sum).sum
            = ((ofOrder d es).map fun e =>
                ((d + 1 : Nat) : R) * (e.1.map fun a => x a * x a).sum - (e.1.map x).sum * (e.1.map x).sum).sum
          ∧ (∀ e ∈ ofOrder d es,
              0 ≤ ((d + 1 : Nat) : R) * (e.1.map fun a => x a * x a).sum - (e.1.map x).sum * (e.1.map x).sum)
          ∧ 0 ≤ ((classes nodes).map fun a => ((classes nodes).map fun b => x a * L a b * x b).sum).sum := by
  refine ⟨lapL d es, fun a ha b hb => lap_entry_label d nodes es hN hE a b ha hb, fun x =>
    ⟨lap_quadratic_form d nodes es hE hD hW x, ?_, lap_quadratic_form_nonneg d nodes es hE hD hW x⟩⟩
  intro e he
  have hl := ((mem_ofOrder d es e).1 he).2
  have := sq_sum_le e.1 x
  rw [hl] at this
  linarith

/-- Every entry of the adjacency tensor is 0 or 1 (also for a weighted hypergraph: the weights are not used). -/
theorem C09_tensor_values {R : Type} [CommRing R] (N : Nat) (edges : List Edge) (t : List (List Nat × R))
    (ht : tensor N edges = some t) : ∀ pv ∈ t, pv.2 = 0 ∨ pv.2 = 1 := by
  have hsome : (tensor N edges : Option (List (List Nat × R))).isSome := by rw [ht]; rfl
  obtain ⟨hne, k, hU⟩ := (C09_tensor_defined N edges).1 hsome
  obtain ⟨t', ht', _, hchar⟩ := C09_tensor (R := R) N k edges hne hU
  rw [ht] at ht'
  cases ht'
  intro pv hpv
  have := ((hchar pv.1 pv.2).1 hpv).2
  rw [this]
  split
  · right; rfl
  · left; rfl

/-- `temporal_adjacency_matrices_all_orders(th, max_order)`: raises only when `max_order` is not given and there is no
record; the keys are the orders `1..m` (`m` = the given `max_order`, else the largest order of a record); under each
order the keys are the times of the records and the matrix at `t` is the order-`d` adjacency matrix of the snapshot at `t`. -/
theorem C09_temporal_all_orders {R : Type} [CommRing R] (mo : Option Nat) (recs : List (Rec R)) :
    (temporalAdjAllOrders mo recs = none ↔ mo = none ∧ recs = [])
    ∧ ∀ l, temporalAdjAllOrders mo recs = some l →
        ∃ m, (mo = some m ∨ (mo = none ∧ temporalMaxOrder recs = some m))
          ∧ l.map (·.1) = (List.range m).map (· + 1)
          ∧ ∀ d tm, (d, tm) ∈ l → tm.map (·.1) = times recs
              ∧ ∀ t M, (t, M) ∈ tm → M = adjByOrder d (snapshotNodes recs t) (snapshot recs t) := by
  have hval : ∀ m l, l = ((List.range m).map (· + 1)).map (fun d => (d, temporalAdjByOrderAll d recs)) →
      l.map (·.1) = (List.range m).map (· + 1)
      ∧ ∀ d tm, (d, tm) ∈ l → tm.map (·.1) = times recs
          ∧ ∀ t M, (t, M) ∈ tm → M = adjByOrder d (snapshotNodes recs t) (snapshot recs t) := by
    intro m l hl
    subst hl
    refine ⟨by simp [List.map_map, Function.comp], ?_⟩
    intro d tm hmem
    obtain ⟨d', _, hd'⟩ := List.mem_map.1 hmem
    cases hd'
    refine ⟨by simp [temporalAdjByOrderAll, List.map_map, Function.comp_def], ?_⟩
    intro t M htM
    obtain ⟨t', _, ht'⟩ := List.mem_map.1 htM
    cases ht'
    rfl
  cases mo with
  | some m =>
    refine ⟨by simp [temporalAdjAllOrders], ?_⟩
    intro l hl
    simp only [temporalAdjAllOrders, Option.map_some, Option.some.injEq] at hl
    exact ⟨m, Or.inl rfl, hval m l hl.symm⟩
  | none =>
    constructor
    · simp only [temporalAdjAllOrders, Option.map_eq_none_iff, temporalMaxOrder, maxOrder_eq_none, true_and,
        List.map_eq_nil_iff]
    · intro l hl
      simp only [temporalAdjAllOrders] at hl
      cases hm : temporalMaxOrder recs with
      | none => rw [hm] at hl; cases hl
      | some m =>
        rw [hm] at hl
        simp only [Option.map_some, Option.some.injEq] at hl
        exact ⟨m, Or.inr ⟨rfl, rfl⟩, hval m l hl.symm⟩

/-! ## why D25 had to be repaired: the same model in arithmetic modulo 256 -/

/-- In `uint8` arithmetic (`R = ZMod 256`, the unrepaired code) the adjacency claim fails: whenever two nodes share
exactly 256 hyperedges their adjacency entry is 0. -/
theorem C09_adjacency_wraps (nodes : List Nat) (edges : List Edge)
    (hN : nodes.Nodup) (hE : ∀ e ∈ edges, ∀ x ∈ e, x ∈ nodes)
    (i j : Nat) (hi : i < (classes nodes).length) (hj : j < (classes nodes).length) (hij : i ≠ j)
    (h256 : (edges.countP fun e => decide ((classes nodes)[i] ∈ e) && decide ((classes nodes)[j] ∈ e)) = 256) :
    entry (adj nodes edges : List (List (ZMod 256))) i j = some 0
    ∧ entry (adj nodes edges : List (List Int)) i j = some 256 := by
  rw [C09_adjacency nodes edges hN hE i j hi hj, C09_adjacency nodes edges hN hE i j hi hj, if_neg hij, if_neg hij, h256]
  exact ⟨by congr 1, by simp⟩

/-- A concrete witness: a legitimate hypergraph (distinct nodes, 256 distinct duplicate-free hyperedges) in which
nodes `3` and `5` (rows 0 and 1) share 256 hyperedges: adjacency entry 0 modulo 256, 256 over the integers. -/
theorem C09_adjacency_wraps_witness :
    wrapNodes.Nodup ∧ wrapEdges.Nodup ∧ (∀ e ∈ wrapEdges, e.Nodup ∧ ∀ x ∈ e, x ∈ wrapNodes)
    ∧ entry (adj wrapNodes wrapEdges : List (List (ZMod 256))) 0 1 = some 0
    ∧ entry (adj wrapNodes wrapEdges : List (List Int)) 0 1 = some 256 := by
  have h1 : wrapNodes.Nodup := by decide +kernel
  have h2 : wrapEdges.Nodup := by
    have hk : wrapEdges.map wrapKey = (List.range 256).map (fun m : Nat => m + 512) := by decide +kernel
    apply List.Nodup.of_map wrapKey
    rw [hk]
    exact List.Nodup.map (fun a b h => by simpa using h) List.nodup_range
  have h3 : ∀ e ∈ wrapEdges, e.Nodup ∧ ∀ x ∈ e, x ∈ wrapNodes := by decide +kernel
  exact ⟨h1, h2, h3, C09_adjacency_wraps wrapNodes wrapEdges h1 (fun e he => (h3 e he).2) 0 1
    (by decide +kernel) (by decide +kernel) (by decide) (by decide +kernel)⟩

/-- **Only the current content matters (histories).**  A history of edits (removals, re-insertions) changes the
ORDER in which `get_nodes()` lists the nodes; every matrix and every mapping is the same for two listings of the
same node set (and the same hyperedge listing).  No hypothesis beyond `Perm`. -/
theorem C09_node_listing_irrelevant {R : Type} [CommRing R] [DecidableEq R] (nodes nodes' : List Nat)
    (es : List (Edge × R)) (h : nodes.Perm nodes') :
    mapping nodes = mapping nodes'
    ∧ (binInc nodes (es.map (·.1)) : List (List R)) = binInc nodes' (es.map (·.1))
    ∧ inc nodes es = inc nodes' es
    ∧ (adj nodes (es.map (·.1)) : List (List R)) = adj nodes' (es.map (·.1))
    ∧ (dual nodes (es.map (·.1)) : List (List R)) = dual nodes' (es.map (·.1))
    ∧ (∀ d k, incByOrder d k nodes es = incByOrder d k nodes' es
          ∧ mappingByOrder d k nodes es = mappingByOrder d k nodes' es)
    ∧ (∀ d, adjByOrder d nodes es = adjByOrder d nodes' es
          ∧ degMatrix d nodes es = degMatrix d nodes' es
          ∧ laplacian d nodes es = laplacian d nodes' es) := by
  have hc := classes_perm_congr nodes nodes' h
  have hl : nodes.length = nodes'.length := h.length_eq
  have hB : ∀ edges : List Edge, (binInc nodes edges : List (List R)) = binInc nodes' edges := by
    intro edges; simp only [binInc, hc, hl]
  have hI : ∀ es' : List (Edge × R), inc nodes es' = inc nodes' es' := by
    intro es'; simp only [inc, hB]
  have hM : mapping nodes = mapping nodes' := by simp only [mapping, hc]
  have hO : ∀ d k, incByOrder d k nodes es = incByOrder d k nodes' es
      ∧ mappingByOrder d k nodes es = mappingByOrder d k nodes' es := by
    intro d k
    cases k
    · exact ⟨rfl, rfl⟩
    · simp only [incByOrder, mappingByOrder, subNodes, if_true, hI, hM, and_self]
  refine ⟨hM, hB _, hI es, by simp only [adj, hB], by simp only [dual, hB], hO, ?_⟩
  intro d
  have hd : degMatrix d nodes es = degMatrix d nodes' es := by simp only [degMatrix, hM]
  refine ⟨by simp only [adjByOrder, (hO d true).1], hd, by simp only [laplacian, (hO d true).1, hd]⟩

/-- **The mapping follows the node SET, not the node COUNT.**  For duplicate-free node listings two mappings are
equal exactly when the listings hold the same nodes: a mapping computed for an earlier node set of the same size
(a stale cache after "remove one node, add another") is never the mapping of the current hypergraph. -/
theorem C09_mapping_tracks_nodes (nodes nodes' : List Nat) (hN : nodes.Nodup) (hN' : nodes'.Nodup) :
    mapping nodes = mapping nodes' ↔ nodes.Perm nodes' := by
  constructor
  · intro h
    have h1 := (C09_mapping_bij nodes hN).2.1
    have h2 := (C09_mapping_bij nodes' hN').2.1
    rw [h] at h1
    exact h1.symm.trans h2
  · intro h
    simp only [mapping, classes_perm_congr nodes nodes' h]

/-- **Only the ORDER of the labels matters, never their values or their type.**  For every strictly increasing
relabelling `f` of the nodes (in particular the rank map by which comparable labels of any type - non-integer or
negative floats, strings, integers beyond 2^63 - are sent to the model's `Nat` labels, and maps such as
`0, 0.5, 2 ↦ 0, 1, 2`): the mapping lists the relabelled nodes at the same indices and every matrix is unchanged.
Hence no routine may read a label as a number (use it as a row index, truncate it, compare it with `N`): that is
not invariant under `f`.  No hypothesis on the hypergraph. -/
theorem C09_relabel_invariant {R : Type} [CommRing R] [DecidableEq R] (f : Nat → Nat) (hf : ∀ a b, a < b → f a < f b)
    (nodes : List Nat) (es : List (Edge × R)) :
    mapping (nodes.map f) = (mapping nodes).map (fun p => (p.1, f p.2))
    ∧ (binInc (nodes.map f) ((relabelEs f es).map (·.1)) : List (List R)) = binInc nodes (es.map (·.1))
    ∧ inc (nodes.map f) (relabelEs f es) = inc nodes es
    ∧ (adj (nodes.map f) ((relabelEs f es).map (·.1)) : List (List R)) = adj nodes (es.map (·.1))
    ∧ (dual (nodes.map f) ((relabelEs f es).map (·.1)) : List (List R)) = dual nodes (es.map (·.1))
    ∧ (∀ d k, incByOrder d k (nodes.map f) (relabelEs f es) = incByOrder d k nodes es
          ∧ mappingByOrder d k (nodes.map f) (relabelEs f es)
              = (mappingByOrder d k nodes es).map (fun p => (p.1, f p.2)))
    ∧ (∀ d, adjByOrder d (nodes.map f) (relabelEs f es) = adjByOrder d nodes es
          ∧ degMatrix d (nodes.map f) (relabelEs f es) = degMatrix d nodes es
          ∧ laplacian d (nodes.map f) (relabelEs f es) = laplacian d nodes es
          ∧ laplacianScaled d (nodes.map f) (relabelEs f es) = laplacianScaled d nodes es) := by
  have hf' : Increasing f := hf
  refine ⟨mapping_map f hf' nodes, ?_, inc_map f hf' nodes es, ?_, ?_, ?_, ?_⟩
  · rw [relabelEs_fst]; exact binInc_map f hf' nodes _
  · rw [relabelEs_fst]; exact adj_map f hf' nodes _
  · rw [relabelEs_fst]; exact dual_map f hf' nodes _
  · intro d k
    exact ⟨incByOrder_map f hf' d k nodes es, mappingByOrder_map f hf' d k nodes es⟩
  · intro d
    exact ⟨adjByOrder_map f hf' d nodes es, degMatrix_map f hf' d nodes es, laplacian_map f hf' d nodes es,
      laplacianScaled_map f hf' d nodes es⟩

/-- ... and the same for the temporal matrices: times, snapshot matrices per time (all orders and per order) are
unchanged, the snapshot's node list (hence its mapping) is relabelled. -/
theorem C09_relabel_invariant_temporal {R : Type} [CommRing R] [DecidableEq R] (f : Nat → Nat)
    (hf : ∀ a b, a < b → f a < f b) (recs : List (Rec R)) :
    times (relabelRecs f recs) = times recs
    ∧ ∀ t, snapshotNodes (relabelRecs f recs) t = (snapshotNodes recs t).map f
        ∧ mapping (snapshotNodes (relabelRecs f recs) t) = (mapping (snapshotNodes recs t)).map (fun p => (p.1, f p.2))
        ∧ temporalAdj (relabelRecs f recs) t = temporalAdj recs t
        ∧ ∀ d, temporalAdjByOrder d (relabelRecs f recs) t = temporalAdjByOrder d recs t := by
  have hf' : Increasing f := hf
  refine ⟨times_map f recs, fun t => ⟨snapshotNodes_map f hf' recs t, ?_, temporalAdj_map f hf' recs t,
    fun d => temporalAdjByOrder_map f hf' d recs t⟩⟩
  rw [snapshotNodes_map f hf', mapping_map f hf']; rfl

/-- **When may the encoder be skipped?**  The row index of every node equals its label exactly when the sorted
labels are `0, 1, .., N-1`.  (Over `Nat` labels `min = 0 ∧ max = N-1` happens to imply that; over labels that are
merely comparable - `0, 0.5, 2` - it does not, and `C09_relabel_invariant` shows that such labels behave like
`0, 1, 4`, for which the encoder is not the identity: see the example below.) -/
theorem C09_encoder_identity_iff (nodes : List Nat) (hN : nodes.Nodup) :
    (∀ x ∈ nodes, encode (classes nodes) x = x) ↔ classes nodes = List.range nodes.length := by
  constructor
  · exact classes_eq_range_of_encode_id nodes hN
  · intro h x hx
    have hx' : x ∈ classes nodes := (mem_classes x nodes).2 hx
    rw [h] at hx' ⊢
    exact encode_range _ x (List.mem_range.1 hx')

/-! ## non-vacuity: every theorem instantiated on a concrete hypergraph with labels that are not `0..N-1`,
an isolated node (50), overlapping hyperedges of orders 1 and 2 -/

local notation "exN" => ([30, 10, 20, 7, 50] : List Nat)
local notation "exE" => ([[10, 20, 30], [20, 10], [7, 30], [30, 20, 7]] : List Edge)
local notation "exW" => ([([10, 20, 30], 1), ([20, 10], 1), ([7, 30], 1), ([30, 20, 7], 1)] : List (Edge × Int))
local notation "exQ" => ([([10, 20, 30], 2), ([20, 10], 3), ([7, 30], 1), ([30, 20, 7], 5)] : List (Edge × Int))

example : mapping exN = [(0, 7), (1, 10), (2, 20), (3, 30), (4, 50)] := by decide
example : (mapping exN).map (·.1) = List.range 5 := (C09_mapping_bij exN (by decide)).1
example : entry (binInc (α := Int) exN exE) 3 2 = some 1 :=
  (C09_incidence exN exE (by decide) (by decide) 3 2 (by decide) (by decide)).trans (by decide)
example : entry (binInc (α := Int) exN exE) 5 0 = none :=
  C09_incidence_shape exN exE (by decide) (by decide) 5 0 (by decide)
example : entry (inc exN exQ) 2 3 = some 5 :=
  (C09_incidence_weighted exN exQ (by decide) (by decide) 2 3 (by decide) (by decide)).trans (by decide)
example : entry (adj (α := Int) exN exE) 2 3 = some 2 :=
  (C09_adjacency exN exE (by decide) (by decide) 2 3 (by decide) (by decide)).trans (by decide)
example : entry (dual (α := Int) exN exE) 1 2 = some 0 ∧ entry (dual (α := Int) exN exE) 1 3 = some 1 := by decide
example : entry (dual (α := Int) exN exE) 1 3 = some 1 :=
  (C09_dual exN exE (by decide) (by decide) 1 3 (by decide) (by decide)).trans (by decide)
example : classes (subNodes 1 false exN exW) = [7, 10, 20, 30] ∧ incByOrder 1 false exN exW = [[0, 1], [1, 0], [1, 0], [0, 1]] := by
  decide
example : (subNodes 1 false exN exW).Nodup := (C09_by_order_incidence 1 false exN exW (by decide) (by decide)).1
example : entry (adjByOrder 2 exN exW) 2 3 = some 2 :=
  (C09_by_order 2 exN exW (by decide) (by decide) (by decide) 2 3 (by decide) (by decide)).trans (by decide)
example : entry (adjByOrder 2 exN exQ) 2 3 = some 29 :=
  (C09_by_order_weighted 2 exN exQ (by decide) (by decide) 2 3 (by decide) (by decide)).trans (by decide)
example : entry (degMatrix 2 exN exW) 3 3 = some 2 :=
  (C09_degree_matrix 2 exN exW 3 3 (by decide) (by decide)).trans (by decide)
example : laplacian 2 exN exW =
    [[2, 0, -1, -1, 0], [0, 2, -1, -1, 0], [-1, -1, 4, -2, 0], [-1, -1, -2, 4, 0], [0, 0, 0, 0, 0]] := by decide
example : entry (laplacian 2 exN exW) 2 3 = some (2 * 0 - 2) :=
  (C09_laplacian 2 exN exW (by decide) (by decide) (by decide) 2 3 (by decide) (by decide)).trans (by decide)
example : entry (laplacian 2 exN exQ) 2 3 = entry (laplacian 2 exN exQ) 3 2 :=
  C09_laplacian_symm 2 exN exQ (by decide) (by decide) 2 3 (by decide) (by decide)
example : ((laplacian 2 exN exW)[2]?).map List.sum = some 0 :=
  C09_laplacian_row_sums 2 exN exW (by decide) (by decide) (by decide) (by decide) 2 (by decide)
example : (tensor (α := Int) 3 [[0, 1], [2, 1]]).map (fun t => t.map (·.2)) = some [0, 1, 0, 1, 0, 1, 0, 1, 0] := by decide
example : (tensor (α := Int) 3 [[0, 1], [2, 1]]).isSome :=
  (C09_tensor_defined (R := Int) 3 [[0, 1], [2, 1]]).2 ⟨by decide, 2, by decide⟩
example : ∃ t : List (List Nat × Int), tensor 3 [[0, 1], [2, 1]] = some t ∧ t.map (·.1) = tuples 3 2 := by
  obtain ⟨t, h1, h2, _⟩ := C09_tensor (R := Int) 3 2 [[0, 1], [2, 1]] (by decide) (by decide)
  exact ⟨t, h1, h2⟩
example : (tensor (α := Int) 3 [[0, 1], [2, 1, 0]]) = none := by decide
local notation "exR" => ([(3, [10, 20, 30], 1), (3, [20, 30], 1), (7, [5, 10], 1), (3, [30, 40], 1)] : List (Rec Int))
example : times exR = [3, 7] ∧ snapshotNodes exR 3 = [10, 20, 30, 40]
    ∧ temporalAdj exR 3 = [[0, 1, 1, 0], [1, 0, 2, 0], [1, 2, 0, 1], [0, 0, 1, 0]] := by decide
example : entry (temporalAdj exR 3) 1 2 = some 2 :=
  ((C09_temporal exR 3).2.2.2 1 2 (by decide) (by decide)).trans (by decide)
example : temporalAdjByOrder 1 exR 3 = [[0, 0, 0, 0], [0, 0, 1, 0], [0, 1, 0, 1], [0, 0, 1, 0]] := by decide
example : entry (temporalAdjByOrder 1 exR 3) 2 3 = some 1 :=
  ((C09_temporal_by_order 1 exR 3 (by decide)).2 2 3 (by decide) (by decide)).trans (by decide)
example : entry (adj (α := Int) exN (List.map (·.1) exW)) 5 0 = none :=
  ((C09_shapes 2 exN exW (by decide) (by decide) 5 0).1 (by decide)).1
example : (hyeBinInc (α := Int) [[0, 2, 2], [], [1]] none) = some [[1, 0, 0], [0, 0, 1], [1, 0, 0]]
    ∧ (hyeBinInc (α := Int) [[0, 2, 2], [], [1]] (some (2, 3))) = none
    ∧ (hyeBinInc (α := Int) [[0, 2, 2], [], [1]] (some (3, 4))) = some [[1, 0, 0, 0], [0, 0, 1, 0], [1, 0, 0, 0]] := by decide
example : entry (binInc (α := Int) exN exE) 3 2 = some 1 := by
  have h := C09_incidence_call (R := Int) exN exE (by decide) (by decide)
  exact ((C09_hye_list _ _).2.2.2 _ h 3 2 (by decide) (by decide)).trans (by decide)
example : entry (binInc (α := Int) exN exE) 3 2 = some 1 :=
  (C09_incidence_iff exN exE (by decide) (by decide) 3 2 (by decide) (by decide)).2 (by decide)
example : entry (dual (α := Int) exN exE) 1 3 = some 1 :=
  (C09_dual_iff exN exE (by decide) (by decide) 1 3 (by decide) (by decide)).2 ⟨20, by decide, by decide⟩

example : mapping [10, 30, 20] = mapping [20, 10, 30] :=
  (C09_node_listing_irrelevant (R := Int) [10, 30, 20] [20, 10, 30] [] (by decide)).1
example : adj (α := Int) [50, 7, 30, 10, 20] exE = adj exN exE :=
  (C09_node_listing_irrelevant (R := Int) [50, 7, 30, 10, 20] exN exW (by decide)).2.2.2.1
example : [10, 20, 30].length = [10, 20, 40].length ∧ mapping [10, 20, 30] ≠ mapping [10, 20, 40] := by decide
example : ¬ ([10, 20, 30] : List Nat).Perm [10, 20, 40] :=
  fun h => absurd ((C09_mapping_tracks_nodes _ _ (by decide) (by decide)).2 h) (by decide)

/-! the order type of the labels `0, 0.5, 2` (seeded C09-c1) is that of `0, 1, 4`: `f` below maps `0, 1, 2` to it -/
local notation "exF" => (fun x : Nat => x * x)
example : ∀ a b : Nat, a < b → exF a < exF b := fun _ _ h => Nat.mul_lt_mul'' h h
example : mapping ([2, 0, 1].map exF) = [(0, 0), (1, 1), (2, 4)]
    ∧ binInc (α := Int) ([2, 0, 1].map exF) [[0, 1], [1, 4]] = binInc [2, 0, 1] [[0, 1], [1, 2]] := by decide
example : binInc (α := Int) ([2, 0, 1].map exF) ((relabelEs exF [([0, 1], (1 : Int)), ([1, 2], 1)]).map (·.1))
    = binInc [2, 0, 1] [[0, 1], [1, 2]] :=
  (C09_relabel_invariant (R := Int) exF (fun _ _ h => Nat.mul_lt_mul'' h h) [2, 0, 1] [([0, 1], 1), ([1, 2], 1)]).2.1
example : adjByOrder 2 (List.map (3 * · + 2) exN) (relabelEs (3 * · + 2) exQ) = adjByOrder 2 exN exQ :=
  ((C09_relabel_invariant (R := Int) (3 * · + 2) (fun _ _ h => by omega) exN exQ).2.2.2.2.2.2 2).1
example : laplacian 2 (List.map (3 * · + 2) exN) (relabelEs (3 * · + 2) exQ) = laplacian 2 exN exQ
    ∧ mapping (List.map (3 * · + 2) exN) = [(0, 23), (1, 32), (2, 62), (3, 92), (4, 152)] := by decide
example : temporalAdj (relabelRecs (3 * · + 2) exR) 3 = temporalAdj exR 3 :=
  ((C09_relabel_invariant_temporal (R := Int) (3 * · + 2) (fun _ _ h => by omega) exR).2 3).2.2.1
example : snapshotNodes (relabelRecs (3 * · + 2) exR) 3 = [32, 62, 92, 122] := by decide
example : ∀ x ∈ [2, 0, 1], encode (classes [2, 0, 1]) x = x :=
  (C09_encoder_identity_iff [2, 0, 1] (by decide)).2 (by decide)
example : classes [4, 0, 1] ≠ List.range 3 ∧ encode (classes [4, 0, 1]) 4 = 2 := by decide
example : ¬ ∀ x ∈ [4, 0, 1], encode (classes [4, 0, 1]) x = x :=
  fun h => absurd ((C09_encoder_identity_iff [4, 0, 1] (by decide)).1 h) (by decide)

/-! ### extension round -/
local notation "exWq" => ([([10, 20, 30], 1), ([20, 10], 1), ([7, 30], 1), ([30, 20, 7], 1)] : List (Edge × Rat))

example : entry (mulT (binInc (α := Int) exN exE) (binInc exN exE)) 3 3 = some (0 + 3)
    ∧ entry (mulT (binInc (α := Int) exN exE) (binInc exN exE)) 2 3 = some (2 + 0) :=
  ⟨(C09_adjacency_gram exN exE (by decide) (by decide) 3 3 (by decide) (by decide)).trans (by decide),
   (C09_adjacency_gram exN exE (by decide) (by decide) 2 3 (by decide) (by decide)).trans (by decide)⟩
example : entry (mulT (incByOrder 2 true exN exW) (incByOrder 2 true exN exW)) 3 3 = some (0 + 2) :=
  (C09_by_order_gram 2 exN exW (by decide) (by decide) (by decide) 3 3 (by decide) (by decide)).trans (by decide)
example : maxOrder exW = some 2 ∧ orders exW = some [1, 2] := by decide
example : ∃ f : Nat → Int, (∀ d, entry (adjByOrder d exN exW) 2 3 = some (f d))
    ∧ entry (adj (α := Int) exN (List.map (·.1) exW)) 2 3 = some (f 0 + (f 1 + (f 2 + 0))) :=
  C09_adjacency_sum_orders exN exW (by decide) (by decide) (by decide) 2 (by decide) 2 3 (by decide) (by decide)
example : adj (α := Int) exN (List.map (·.1) exW) = matAdd (adjByOrder 1 exN exW) (adjByOrder 2 exN exW) := by decide
example : incAllOrders false exN exW = some [(1, [[0, 1], [1, 0], [1, 0], [0, 1]]), (2, [[0, 1], [1, 0], [1, 1], [1, 1]])] := by decide
example : ∃ m, maxOrder exW = some m ∧ lapAllOrders false exN exW
    = some ((List.range m).map fun i => (i + 1, laplacian (i + 1) exN exW)) := by
  obtain ⟨m, h1, _, _, _, h2⟩ := (C09_all_orders false false exN exW).2 (by decide)
  exact ⟨m, h1, h2⟩
example : ∃ M, multiorderLaplacian [2, 3] false false exN exWq = some (MultiLap.mat M)
    ∧ M.length = 5 ∧ (∀ r ∈ M, r.length = 5 ∧ r.sum = 0) ∧ entry M 2 3 = entry M 3 2 := by
  obtain ⟨M, h, _⟩ := (((C09_multiorder_laplacian [2, 3] false false exN exWq (by decide) (by decide)).2 [1, 2] (by decide)).2
    (by simp)).2 (by simp)
  have hi := C09_multiorder_invariants [2, 3] false false exN exWq (by decide) (by decide) (by decide) (by simp) M h
  exact ⟨M, h, hi.1, hi.2.1, hi.2.2 2 3 (by decide) (by decide)⟩
example : multiorderLaplacian [2, 3, 4] true true exN exWq ≠ some MultiLap.undefScale
    ∧ multiorderLaplacian [2] false true [10, 20, 30] [([10, 20, 30], (1 : Rat))] = some MultiLap.undefScale
    ∧ multiorderLaplacian [] false true exN exWq = some MultiLap.noMatrix
    ∧ multiorderLaplacian [2] false false exN ([] : List (Edge × Rat)) = none := by
  refine ⟨?_, ?_, ?_, ?_⟩
  · intro h
    have := ((C09_multiorder_laplacian [2, 3, 4] true true exN exWq (by decide) (by decide)).2 [1, 2] (by decide)).2
      (by decide)
    obtain ⟨M, hM, _⟩ := this.2 (by simp)
    rw [h] at hM
    cases hM
  · exact ((C09_multiorder_laplacian [2] false true [10, 20, 30] [([10, 20, 30], (1 : Rat))] (by decide) (by decide)).2
      [1, 2] (by decide)).1 ⟨rfl, (1, 2), by simp, by decide⟩
  · exact (((C09_multiorder_laplacian [] false true exN exWq (by decide) (by decide)).2 [1, 2] (by decide)).2
      (by simp)).1 (by simp)
  · exact (C09_multiorder_laplacian [2] false false exN ([] : List (Edge × Rat)) (by decide) (by simp)).1.2 rfl
example : ∀ pv ∈ ((tensor (α := Int) 3 [[0, 1], [2, 1]]).getD []), pv.2 = 0 ∨ pv.2 = 1 := by decide
example (t : List (List Nat × Int)) (h : tensor 3 [[0, 1], [2, 1]] = some t) : ∀ pv ∈ t, pv.2 = 0 ∨ pv.2 = 1 :=
  C09_tensor_values 3 [[0, 1], [2, 1]] t h
example : (temporalAdjAllOrders (none : Option Nat) exR).map (fun l => l.map (·.1)) = some [1, 2]
    ∧ (temporalAdjAllOrders (some 1) exR).map (fun l => l.map fun p => p.2.map (·.1)) = some [[3, 7]] := by decide
example : temporalAdjAllOrders (none : Option Nat) ([] : List (Rec Int)) = none :=
  (C09_temporal_all_orders none ([] : List (Rec Int))).1.2 ⟨rfl, rfl⟩
example : ((classes exN).map fun (a : Nat) => ((classes exN).map fun (b : Nat) => Int.ofNat a * lapL 2 exW a b * Int.ofNat b).sum).sum = 1398
    ∧ lapL 2 exW 20 30 = -2 ∧ lapL 2 exW 30 30 = 4 := by decide
example : (0 : Int) ≤ ((classes exN).map fun (a : Nat) => ((classes exN).map fun (b : Nat) => Int.ofNat a * lapL 2 exW a b * Int.ofNat b).sum).sum :=
  lap_quadratic_form_nonneg 2 exN exW (by decide) (by decide) (by decide) Int.ofNat
example : ∃ L : Nat → Nat → Int, ∀ a ∈ exN, ∀ b ∈ exN,
    entry (laplacian 2 exN exW) (encode (classes exN) a) (encode (classes exN) b) = some (L a b) := by
  obtain ⟨L, h, _⟩ := C09_laplacian_psd 2 exN exW (by decide) (by decide) (by decide) (by decide)
  exact ⟨L, h⟩
example : ∃ A : Nat → Nat → Int, A 30 20 = 2 ∧ A 30 7 = 1 ∧ A 30 30 = 0
    ∧ entry (adjByOrder 2 exN exW) (encode (classes exN) 30) (encode (classes exN) 20) = some (A 30 20)
    ∧ ((classes exN).map fun b => A 30 b).sum = 2 * 2 := by
  refine ⟨fun a b => if a = b then 0 else gram 2 exW a b, by decide, by decide, by decide,
    adjByOrder_entry_label 2 exN exW (by decide) (by decide) 30 20 (by decide) (by decide), ?_⟩
  exact (adj_row_sum_label 2 exN exW (by decide) (by decide) (by decide) 30 (by decide)).trans (by decide)

/-! ## Second extension round: annealed matrices and `adjacency_factor` -/

/-- `annealed_adjacency_matrices_all_orders`, one order: the routine raises exactly when there is no time stamp or two
snapshots have different numbers of nodes (scipy: inconsistent shapes); otherwise every entry of the returned matrix is
the AVERAGE over the time stamps of that entry of the per-time order-`d` adjacency matrices (sum divided by the number of times). -/
theorem C09_annealed_by_order {R : Type} [Field R] [DecidableEq R] (d : Nat) (recs : List (Rec R)) :
    (annealedOne d recs = none ↔ times recs = [] ∨
        ¬ (∀ t ∈ times recs, ∀ t' ∈ times recs,
            (temporalAdjByOrder d recs t).length = (temporalAdjByOrder d recs t').length))
    ∧ ∀ M, annealedOne d recs = some M →
        ∀ i j (f : Nat → R), (∀ t ∈ times recs, entry (temporalAdjByOrder d recs t) i j = some (f t)) →
          entry M i j = some (((times recs).map f).sum / (((times recs).length : Nat) : R)) := by
  have hs : sameLen ((times recs).map (temporalAdjByOrder d recs)) = true
      ↔ ∀ t ∈ times recs, ∀ t' ∈ times recs,
          (temporalAdjByOrder d recs t).length = (temporalAdjByOrder d recs t').length := by
    rw [sameLen_spec]
    simp only [List.forall_mem_map]
  constructor
  · unfold annealedOne
    simp only []
    by_cases h : sameLen ((times recs).map (temporalAdjByOrder d recs)) = true
    · rw [if_pos h, Option.map_eq_none_iff, matSum_eq_none, List.map_eq_nil_iff]
      constructor
      · intro e; exact Or.inl e
      · rintro (e | e)
        · exact e
        · exact absurd (hs.1 h) e
    · rw [if_neg h]
      simp only [true_iff]
      exact Or.inr (fun e => h (hs.2 e))
  · intro M hM i j f hf
    unfold annealedOne at hM
    simp only [] at hM
    split at hM
    · obtain ⟨S, hS, rfl⟩ := Option.map_eq_some_iff.1 hM
      rw [entry_divScalar, entry_matSum (temporalAdjByOrder d recs) f i j (times recs) hf S hS, List.length_map]
      rfl
    · cases hM

/-- `annealed_adjacency_matrices_all_orders`: raises without records; when it returns, the keys are the orders
`1..max_order` and the value at `d` is the average matrix of `C09_annealed_by_order`. -/
theorem C09_annealed_all_orders {R : Type} [Field R] [DecidableEq R] (recs : List (Rec R)) :
    (recs = [] → annealedAllOrders recs = none)
    ∧ ∀ l, annealedAllOrders recs = some l →
        ∃ m, temporalMaxOrder recs = some m ∧ l.map (·.1) = (List.range m).map (· + 1)
          ∧ ∀ p ∈ l, annealedOne p.1 recs = some p.2 := by
  constructor
  · intro h
    subst h
    rfl
  · intro l hl
    unfold annealedAllOrders at hl
    cases hm : temporalMaxOrder recs with
    | none => rw [hm] at hl; cases hl
    | some m =>
      rw [hm] at hl
      simp only [Option.bind_some] at hl
      obtain ⟨h1, h2⟩ := allSome_spec _ l hl
      refine ⟨m, rfl, ?_, ?_⟩
      · rw [h1]
        simp [List.map_map]
      · intro p hp
        have := h2 p hp
        obtain ⟨d, _, hd⟩ := List.mem_map.1 this
        simp only [Prod.mk.injEq] at hd
        rw [← hd.1, hd.2]

/-- `x ** t` of the model is the ring power -/
theorem C09_powN_eq_pow {R : Type} [CommRing R] [DecidableEq R] (x : R) (t : Nat) : powN x t = x ^ t := by
  induction t with
  | zero => simp [powN]
  | succ n ih => simp [powN, ih, pow_succ]

/-- `adjacency_factor(hypergraph, t)`: one entry per node, in `get_nodes()` order; the value of node `a` is the sum over the
OTHER nodes `b` that share at least one hyperedge with `a` of `c(a,b) ^ t`, `c(a,b)` the number of hyperedges containing both
(`t = 0`: the number of neighbours; `t = 1`: the row sum of the adjacency matrix). -/
theorem C09_adjacency_factor {R : Type} [CommRing R] [DecidableEq R] (t : Nat) (nodes : List Nat) (edges : List Edge)
    (hN : nodes.Nodup) (hE : ∀ e ∈ edges, ∀ x ∈ e, x ∈ nodes) :
    (adjFactor t nodes edges : List (Nat × R)) = nodes.map fun a =>
      (a, ((nodes.filter fun b => b != a).map fun b =>
        if ((edges.countP fun e => decide (a ∈ e) && decide (b ∈ e) : Nat) : R) = 0 then 0
        else ((edges.countP fun e => decide (a ∈ e) && decide (b ∈ e) : Nat) : R) ^ t).sum) := by
  unfold adjFactor
  simp only []
  apply List.map_congr_left
  intro a ha
  congr 1
  apply congrArg List.sum
  apply List.map_congr_left
  intro b hb
  obtain ⟨hb, hne⟩ := List.mem_filter.1 hb
  have hne' : b ≠ a := by simpa using hne
  have ha' := (mem_classes a nodes).2 ha
  have hb' := (mem_classes b nodes).2 hb
  have hij : ¬ encode (classes nodes) a = encode (classes nodes) b :=
    fun e => hne' ((encode_inj_mem _ a b ha' hb').1 e).symm
  have he := C09_adjacency (R := R) nodes edges hN hE _ _ (encode_lt _ a ha') (encode_lt _ b hb')
  rw [if_neg hij] at he
  simp only [getElem_encode _ a ha', getElem_encode _ b hb'] at he
  rw [entryD_of_entry _ _ _ _ he, C09_powN_eq_pow]

example : annealedOne 1 ([] : List (Rec Rat)) = none := (C09_annealed_by_order (R := Rat) 1 []).1.2 (Or.inl rfl)
example : (adjFactor 2 [5, 1, 9, 4] [[1, 5], [5, 1, 9]] : List (Nat × Int)) = [(5, 5), (1, 5), (9, 2), (4, 0)] := by decide
example : (adjFactor 0 [5, 1, 9, 4] [[1, 5], [5, 1, 9]] : List (Nat × Int)) = [(5, 2), (1, 2), (9, 2), (4, 0)] :=
  (C09_adjacency_factor 0 [5, 1, 9, 4] [[1, 5], [5, 1, 9]] (by decide) (by decide)).trans (by decide)

/-- Positive semidefiniteness of the multi-order Laplacian (corollary of `C09_laplacian_psd`): for an unweighted hypergraph,
NON-NEGATIVE sigmas and every choice of the flags, whenever `compute_multiorder_laplacian` returns a matrix `M`, its entries under
the node mapping are `L a b = Σ_d c_d · σ_d · s_d · L_d(a, b)` (`c_d = 1` or `N / Σ_x degree_d(x)`, `s_d = 1` or `(d-1)!`) and
`xᵀ M x ≥ 0` for every vector `x` - a non-negative combination of positive semidefinite matrices. -/
theorem C09_multiorder_psd {R : Type} [Field R] [LinearOrder R] [IsStrictOrderedRing R] (sigmas : List R) (ow dw : Bool)
    (nodes : List Nat) (es : List (Edge × R)) (hN : nodes.Nodup) (hE : ∀ e ∈ es, ∀ x ∈ e.1, x ∈ nodes)
    (hD : ∀ e ∈ es, e.1.Nodup) (hW : ∀ e ∈ es, e.2 = 1) (hσ : ∀ σ ∈ sigmas, 0 ≤ σ)
    (M : List (List R)) (hM : multiorderLaplacian sigmas ow dw nodes es = some (MultiLap.mat M)) :
    ∃ L : Nat → Nat → R,
      (∀ a ∈ nodes, ∀ b ∈ nodes, entry M (encode (classes nodes) a) (encode (classes nodes) b) = some (L a b))
      ∧ ∀ x : Nat → R,
          0 ≤ ((classes nodes).map fun a => ((classes nodes).map fun b => x a * L a b * x b).sum).sum := by
  obtain ⟨ds, hds⟩ : ∃ ds, orders es = some ds := by
    cases h : orders es with
    | none => unfold multiorderLaplacian at hM; rw [h] at hM; cases hM
    | some ds => exact ⟨ds, rfl⟩
  have hspec := (C09_multiorder_laplacian sigmas ow dw nodes es hN hE).2 ds hds
  have hnot : ¬ (dw = true ∧ ∃ p ∈ ds.zip sigmas, degreeTotal p.1 nodes es = 0) := by
    intro hg
    rw [hspec.1 hg] at hM
    cases hM
  have hne : ds.zip sigmas ≠ [] := by
    intro hnil
    rw [(hspec.2 hnot).1 hnil] at hM
    cases hM
  obtain ⟨M', hM', hent⟩ := (hspec.2 hnot).2 hne
  rw [hM] at hM'
  cases hM'
  let k : Nat × R → R := fun p =>
    (if dw then invAvgDegree p.1 nodes es else 1) * (p.2 * (if ow then ((scaleFactor p.1 : Nat) : R) else 1))
  refine ⟨fun a b => ((ds.zip sigmas).map fun p => k p * lapL p.1 es a b).sum, ?_, ?_⟩
  · intro a ha b hb
    have ha' := (mem_classes a nodes).2 ha
    have hb' := (mem_classes b nodes).2 hb
    obtain ⟨f, hf, hMe⟩ := hent _ _ (encode_lt _ a ha') (encode_lt _ b hb')
    rw [hMe]
    congr 1
    apply congrArg List.sum
    apply List.map_congr_left
    intro p _
    have h1 := hf p.1
    have h2 := lap_entry_label p.1 nodes es hN hE a b ha hb
    cases ow
    · simp only [lapFlag, Bool.false_eq_true, if_false] at h1
      rw [h2] at h1
      have := Option.some.inj h1
      simp only [k, Bool.false_eq_true, if_false, ← this]
      ring
    · simp only [lapFlag, if_true, laplacianScaled, entry_smul, h2, Option.map_some] at h1
      have := Option.some.inj h1
      simp only [k, if_true, ← this]
      ring
  · intro x
    rw [quad_sum_swap]
    apply sum_nonneg'
    intro p hp
    apply mul_nonneg
    · apply mul_nonneg
      · cases dw
        · simp
        · simp only [if_true, invAvgDegree]
          exact div_nonneg (Nat.cast_nonneg _) (Nat.cast_nonneg _)
      · apply mul_nonneg (hσ p.2 (List.of_mem_zip hp).2)
        cases ow
        · simp
        · simp only [if_true]
          exact Nat.cast_nonneg _
    · exact lap_quadratic_form_nonneg p.1 nodes es hE hD hW x

example : ∃ M, multiorderLaplacian [2, 3] false false exN exWq = some (MultiLap.mat M)
    ∧ ∃ L : Nat → Nat → Rat, ∀ x : Nat → Rat,
        0 ≤ ((classes exN).map fun a => ((classes exN).map fun b => x a * L a b * x b).sum).sum := by
  obtain ⟨M, h, _⟩ := (((C09_multiorder_laplacian [2, 3] false false exN exWq (by decide) (by decide)).2 [1, 2] (by decide)).2
    (by simp)).2 (by simp)
  obtain ⟨L, _, hL⟩ := C09_multiorder_psd [2, 3] false false exN exWq (by decide) (by decide) (by decide) (by simp)
    (by intro σ hσ; rcases List.mem_cons.1 hσ with rfl | hσ; · norm_num
        · rcases List.mem_cons.1 hσ with rfl | hσ; · norm_num
          · cases hσ) M h
  exact ⟨M, h, L, hL⟩

/-- Duality: the dual hypergraph has one node per hyperedge and one hyperedge per node `i` (the indices of the hyperedges
containing the node of row `i`). `hye_list_to_binary_incidence` accepts it with the shape `(E, N)` and the incidence matrix
of the dual is the TRANSPOSE of the binary incidence matrix: entry `(j, i)` of the one is entry `(i, j)` of the other. -/
theorem C09_dual_incidence_transpose {R : Type} [CommRing R] (nodes : List Nat) (edges : List Edge)
    (hN : nodes.Nodup) (hE : ∀ e ∈ edges, ∀ x ∈ e, x ∈ nodes) :
    ∃ T : List (List R), dualInc nodes edges = some T
      ∧ ∀ j i, j < edges.length → i < nodes.length →
          entry T j i = entry (binInc nodes edges : List (List R)) i j := by
  have hl := classes_length nodes hN
  have hlen : (dualHyes nodes edges).length = nodes.length := by simp [dualHyes, hl]
  obtain ⟨_, hinf, hnone, hent⟩ := C09_hye_list (R := R) (dualHyes nodes edges) (some (edges.length, nodes.length))
  have hlt : ∀ e ∈ dualHyes nodes edges, ∀ x ∈ e, x < edges.length := by
    intro e he x hx
    obtain ⟨a, _, rfl⟩ := List.mem_map.1 he
    exact List.mem_range.1 (List.mem_filter.1 hx).1
  cases hT : (dualInc nodes edges : Option (List (List R))) with
  | none =>
    exfalso
    obtain ⟨n, e, hs, hbad⟩ := hnone.1 hT
    cases hs
    rcases hbad with h | h
    · exact absurd (hinf _ hlt) (Nat.not_le.2 h)
    · rw [hlen] at h; exact Nat.lt_irrefl _ h
  | some T =>
    refine ⟨T, rfl, ?_⟩
    intro j i hj hi
    rw [hent T hT j i (by simpa using hj) (by simpa using hi),
      C09_incidence nodes edges hN hE i j (by rw [hl]; exact hi) hj]
    congr 1
    have hi' : i < (classes nodes).length := by rw [hl]; exact hi
    have hget : (dualHyes nodes edges)[i]? = some ((List.range edges.length).filter fun j' =>
        (edges.getD j' []).contains (classes nodes)[i]) := by
      simp [dualHyes, List.getElem?_map, List.getElem?_eq_getElem hi']
    have hiff : (∃ e, (dualHyes nodes edges)[i]? = some e ∧ j ∈ e) ↔ (classes nodes)[i] ∈ edges[j] := by
      rw [hget]
      constructor
      · rintro ⟨e, he, hje⟩
        cases he
        have := (List.mem_filter.1 hje).2
        simpa [List.getD_eq_getElem?_getD, List.getElem?_eq_getElem hj] using this
      · intro h
        refine ⟨_, rfl, List.mem_filter.2 ⟨List.mem_range.2 hj, ?_⟩⟩
        simpa [List.getD_eq_getElem?_getD, List.getElem?_eq_getElem hj] using h
    by_cases h : (classes nodes)[i] ∈ edges[j]
    · rw [if_pos h, if_pos (hiff.2 h)]
    · rw [if_neg h, if_neg (fun h' => h (hiff.1 h'))]

example : dualHyes [5, 1, 9, 4] [[1, 5], [5, 1, 9]] = [[0, 1], [], [0, 1], [1]]
    ∧ (dualInc [5, 1, 9, 4] [[1, 5], [5, 1, 9]] : Option (List (List Int))) = some [[1, 0, 1, 0], [1, 0, 1, 1]]
    ∧ (binInc [5, 1, 9, 4] [[1, 5], [5, 1, 9]] : List (List Int)) = [[1, 1], [0, 0], [1, 1], [0, 1]] := by decide
