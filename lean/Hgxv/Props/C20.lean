import Hgxv.Proofs.C20
import Hgxv.Proofs.C20Reads
import Hgxv.Proofs.C20Eigen
import Hgxv.Proofs.C20Cent
import Hgxv.Proofs.C20CentSum
import Hgxv.Proofs.C20CentHG
/-! # C20 - centralities are the advertised functionals of the hypergraph's projections  (PARTIAL by nature)

Proved here: the glue of `hypergraphx/measures/s_centralities.py` for EVERY centrality routine
`cent : Graph V → V → Rat` (the networkx routine is a parameter; its contract is `C20.centDict`: one item per vertex
of the graph), every label type `α` with decidable equality, every `srt` (= `tuple(sorted(·))`).
Not proved (trusted base, watched by the harness): that networkx computes betweenness / closeness, `eigh`,
`logsumexp`, convergence of the power iterations to a positive vector.

Hypotheses are those the containers guarantee: `get_edges()` / `get_nodes()` list pairwise different keys
(`Nodup`), stored keys are sorted (`srt e = e`), `sorted` returns a permutation of its argument. -/
open C20

/-- `s_betweenness(H, s)` / `s_closeness(H, s)`: no `KeyError`; the result is the list `edgeItems`, i.e. its keys
are the hyperedges in `get_edges()` order, each exactly once, and hyperedge number `i` carries
`cent (line graph) i` - the centrality of ITS vertex of the s-line graph. -/
theorem C20_edges_once {α : Type} [DecidableEq α] (cent : Graph Nat → Nat → Rat) (srt : List α → List α)
    (H : HG α) (s : Nat) (hk : (H.edges.map srt).Nodup) :
    sEdges cent srt H s = some (edgeItems cent srt H s) ∧
    AL.keys (edgeItems cent srt H s) = H.edges.map srt ∧ (AL.keys (edgeItems cent srt H s)).Nodup ∧
    ∀ i (hi : i < H.edges.length),
      AL.get? (edgeItems cent srt H s) (srt H.edges[i]) = some (cent (lineGraph srt H s) i) := by
  have hkeys := keys_edgeItems cent srt H s
  refine ⟨?_, hkeys, hkeys ▸ hk, ?_⟩
  · rw [sEdges, sEdgesItems_eq, Option.map_some, dictOf_of_nodup _ (hkeys ▸ hk)]
  · intro i hi
    have := get?_zipIdx_map (H.edges.map srt) 0 (cent (lineGraph srt H s)) hk i (by simpa using hi)
    simpa [edgeItems] using this

example : sEdges (fun g v => (g.edges.length + v : Nat)) id ({ nodes := [1, 2, 3, 4], edges := [[1, 2, 3], [2, 4], [4]] } : HG Nat) 1
    = some [([1, 2, 3], 2), ([2, 4], 3), ([4], 4)] := by decide

/-! ### the readings of `line_graph`

`projections.line_graph` does not only read `get_edges()`: the vertices are `range(len(h))` and two hyperedges are
compared only when some `get_incident_edges(node)` lists both (`Model/C20Reads.lean`).  For an object whose three
readings fit together (`Coherent`: what a well-formed `Hypergraph` guarantees - the invariant of the container model
C01: `len(h)` = number of listed hyperedges, `get_incident_edges(n)` = the listed hyperedges containing `n`, each
once, every member of a hyperedge is a node) the loops produce the line graph of the LISTING, and the centralities are
those of `C20_edges_once`.  The two `example`s after the theorems are the shapes in which coherence fails (a hyperedge
registered half-way by a call that raised; member-less edges counted by `__len__`): there the statement is false -
such objects are what the harness's session stream hunts for. -/

/-- Coherent readings: no `KeyError`; the graph built by the loops of `line_graph` has the vertices of the
listing-level line graph, no edge twice, and exactly its edges. -/
theorem C20_line_reads {α : Type} [DecidableEq α] (srt : List α → List α) (R : Reads α) (hc : Coherent srt R) (s : Nat) :
    ∃ es, lineGraphR srt R s = some { verts := (lineGraph srt ⟨R.inc.map (·.1), R.edges⟩ s).verts, edges := es } ∧
      es.Nodup ∧ ∀ i j, (i, j) ∈ es ↔ (i, j) ∈ (lineGraph srt ⟨R.inc.map (·.1), R.edges⟩ s).edges := by
  refine ⟨edgesR s srt R, ?_, edgesR_nodup s srt R, fun i j => mem_edgesR_iff srt R hc s i j⟩
  simp [lineGraphR, lineEdgesR_eq srt R hc s, lineGraph, hc.len_eq]

/-- Coherent readings, `cent` a function of the vertex list and the edge SET of the graph (betweenness and closeness
are): `s_betweenness` / `s_closeness` as the code computes them from `len(h)` and `get_incident_edges` are the
listing-level ones - every listed hyperedge exactly one value, that of its vertex in the s-line graph. -/
theorem C20_edges_reads {α : Type} [DecidableEq α] (cent : Graph Nat → Nat → Rat)
    (hcent : ∀ g g' : Graph Nat, g.verts = g'.verts → (∀ e, e ∈ g.edges ↔ e ∈ g'.edges) → ∀ v, cent g v = cent g' v)
    (srt : List α → List α) (R : Reads α) (hc : Coherent srt R) (s : Nat) :
    sEdgesR cent srt R s = sEdges cent srt ⟨R.inc.map (·.1), R.edges⟩ s ∧
    sEdgesR cent srt R s = some (edgeItems cent srt ⟨R.inc.map (·.1), R.edges⟩ s) := by
  obtain ⟨es, hg, _, hes⟩ := C20_line_reads srt R hc s
  have h1 : sEdgesR cent srt R s = sEdges cent srt ⟨R.inc.map (·.1), R.edges⟩ s := by
    unfold sEdgesR
    rw [hg, Option.bind_some]
    unfold sEdges sEdgesItems centDict
    congr 2
    apply List.map_congr_left
    intro v _
    rw [hcent { verts := (lineGraph srt ⟨R.inc.map (·.1), R.edges⟩ s).verts, edges := es }
      (lineGraph srt ⟨R.inc.map (·.1), R.edges⟩ s) rfl (fun e => hes e.1 e.2) v]
  exact ⟨h1, h1.trans (C20_edges_once cent srt ⟨R.inc.map (·.1), R.edges⟩ s hc.keys_nodup).1⟩

/-- non-vacuity: the readings of a well-formed listing are coherent (`coherent_readsOf`), e.g. a 4-cycle of hyperedges -/
example : Coherent id (readsOf id ({ nodes := [0, 1, 2, 3, 4, 5, 6, 7], edges := [[0, 1, 2], [2, 3, 4], [4, 5, 6], [0, 6, 7]] } : HG Nat)) :=
  coherent_readsOf id _ (by decide) (by decide) (by decide)

example : (lineGraphR id (readsOf id ({ nodes := [0, 1, 2, 3, 4, 5, 6, 7], edges := [[0, 1, 2], [2, 3, 4], [4, 5, 6], [0, 6, 7]] } : HG Nat)) 1).map (·.edges)
    = some [(0, 3), (0, 1), (1, 2), (2, 3)] := by decide

/-- where coherence fails (1): the hyperedge `[0, 6, 7]` is listed by `get_edges()` / `len(h)` but no node is incident to
it (an `add_edge` that raised after registering the key): the loops see a path plus an isolated vertex, not the
4-cycle of the listing. -/
example : (lineGraphR id ({ edges := [[0, 1, 2], [2, 3, 4], [4, 5, 6], [0, 6, 7]], len := 4, inc := [(0, [[0, 1, 2]]), (1, [[0, 1, 2]]), (2, [[0, 1, 2], [2, 3, 4]]), (3, [[2, 3, 4]]), (4, [[2, 3, 4], [4, 5, 6]]), (5, [[4, 5, 6]]), (6, [[4, 5, 6]])] } : Reads Nat) 1).map (·.edges)
      = some [(0, 1), (1, 2)] ∧
    (lineGraph id ({ nodes := [0, 1, 2, 3, 4, 5, 6], edges := [[0, 1, 2], [2, 3, 4], [4, 5, 6], [0, 6, 7]] } : HG Nat) 1).edges
      = [(0, 1), (0, 3), (1, 2), (2, 3)] := by decide

/-- where coherence fails (2): `len(h)` counts a member-less edge: vertex 2 has no entry in the id table - `KeyError`,
no hyperedge receives a value, whatever `cent` is. -/
example (cent : Graph Nat → Nat → Rat) :
    sEdgesR cent id ({ edges := [[0, 1], [1, 2]], len := 3, inc := [(0, [[0, 1]]), (1, [[0, 1], [1, 2]]), (2, [[1, 2]])] } : Reads Nat) 1 = none := by
  rfl

/-- the test `"E" not in k` on the vertices of the bipartite projection selects exactly the node vertices `N<i>` -/
theorem C20_node_filter (i j : Nat) :
    isNodeName (nameN i) = true ∧ isNodeName (nameE j) = false ∧ nameN i ≠ nameE j ∧
    (∀ i', nameN i = nameN i' → i = i') :=
  ⟨isNodeName_nameN i, isNodeName_nameE j, nameN_ne_nameE i j, fun _ h => nameN_inj h⟩

/-- `s_betweenness_nodes(H)` / `s_closeness_nodes(H)`: no `KeyError`; the keys of the result are the nodes in
`get_nodes()` order, each exactly once (no hyperedge slips through the name filter), and node number `i` carries
`cent (bipartite projection) "N<i>"`. -/
theorem C20_nodes_once {α : Type} [DecidableEq α] (cent : Graph String → String → Rat) (srt : List α → List α)
    (H : HG α) (hn : H.nodes.Nodup) :
    sNodes cent srt H = some (nodeItems cent srt H) ∧
    AL.keys (nodeItems cent srt H) = H.nodes.map Sum.inl ∧ (AL.keys (nodeItems cent srt H)).Nodup ∧
    ∀ i (hi : i < H.nodes.length),
      AL.get? (nodeItems cent srt H) (Sum.inl H.nodes[i]) = some (cent (bipGraph srt H) (nameN i)) := by
  have hkeys := keys_nodeItems cent srt H
  have hnd : (H.nodes.map (Sum.inl : α → Obj α)).Nodup := (nodup_map_inl H.nodes).mpr hn
  refine ⟨?_, hkeys, hkeys ▸ hnd, ?_⟩
  · rw [sNodes, sNodesItems_eq, Option.map_some, dictOf_of_nodup _ (hkeys ▸ hnd)]
  · intro i hi
    have := get?_zipIdx_map (H.nodes.map (Sum.inl : α → Obj α)) 0 (fun i => cent (bipGraph srt H) (nameN i)) hnd i
      (by simpa using hi)
    simpa [nodeItems] using this

example : sNodes (fun g v => (g.edges.length + v.length : Nat)) id
      ({ nodes := ["ANNE", "E1", "x"], edges := [["ANNE", "E1"], ["x"]] } : HG String)
    = some [(Sum.inl "ANNE", 5), (Sum.inl "E1", 5), (Sum.inl "x", 5)] := by decide

/-- The averaged versions, generically: if every snapshot yields its items without exception (`hper`) with pairwise
different keys (`hnd`), the result has pairwise different keys, contains exactly the keys that occur in some
snapshot, and the value of `k` is (Σ over ALL snapshots of its value there, absent = 0) / #snapshots. -/
theorem C20_averaged {α κ : Type} [DecidableEq κ] (per : HG α → Option (List (κ × Rat)))
    (items : HG α → List (κ × Rat)) (snaps : List (HG α))
    (hper : ∀ H ∈ snaps, per H = some (items H)) (hnd : ∀ H ∈ snaps, (AL.keys (items H)).Nodup) :
    ∃ d, averaged per snaps = some d ∧ (AL.keys d).Nodup ∧
      (∀ k, (∃ H ∈ snaps, k ∈ AL.keys (items H)) →
        AL.get? d k = some (total (snaps.map items) k / (snaps.length : Rat))) ∧
      (∀ k, (¬ ∃ H ∈ snaps, k ∈ AL.keys (items H)) → AL.get? d k = none) := by
  have hval : ∀ k, AL.get? ((List.foldl accumulate [] (snaps.map items)).map fun p => (p.1, p.2 / (snaps.length : Rat))) k =
      if ∃ H ∈ snaps, k ∈ AL.keys (items H) then some (total (snaps.map items) k / (snaps.length : Rat)) else none := by
    intro k
    rw [get?_map_div, get?_foldl_accumulate _ [] k (by
      intro l hl
      obtain ⟨H, hH, rfl⟩ := List.mem_map.mp hl
      exact hnd H hH)]
    have hiff : (∃ l ∈ snaps.map items, k ∈ AL.keys l) ↔ ∃ H ∈ snaps, k ∈ AL.keys (items H) := by
      constructor
      · rintro ⟨l, hl, hk⟩
        obtain ⟨H, hH, rfl⟩ := List.mem_map.mp hl
        exact ⟨H, hH, hk⟩
      · rintro ⟨H, hH, hk⟩
        exact ⟨items H, List.mem_map_of_mem hH, hk⟩
    by_cases hex : ∃ H ∈ snaps, k ∈ AL.keys (items H)
    · rw [if_pos hex, if_pos (Or.inr (hiff.mpr hex))]
      simp [Rat.zero_add]
    · rw [if_neg hex, if_neg (by
        rintro (h | h)
        · simp [AL.keys] at h
        · exact hex (hiff.mp h))]
      rfl
  refine ⟨_, by rw [averaged, mapM_eq_some_map per items snaps hper, Option.map_some], ?_, ?_, ?_⟩
  · rw [keys_map_div]
    exact keys_foldl_accumulate_nodup _ [] (by simp [AL.keys])
  · intro k hk; rw [hval k, if_pos hk]
  · intro k hk; rw [hval k, if_neg hk]

/-- `s_betweenness_averaged(T, s)` / `s_closeness_averaged(T, s)` for temporal hypergraphs with pairwise different
`(time, key)` records and sorted keys: value = (Σ_t value in the snapshot of time `t`) / #snapshots, where the value in
a snapshot is `cent (its s-line graph) (id of the hyperedge)` by `C20_edges_once` and 0 if the hyperedge is absent. -/
theorem C20_averaged_edges {α : Type} [DecidableEq α] (cent : Graph Nat → Nat → Rat) (srt : List α → List α)
    (T : THG α) (s : Nat) (hT : T.edges.Nodup) (hcanon : ∀ p ∈ T.edges, srt p.2 = p.2) :
    ∃ d, sEdgesAveraged cent srt T s = some d ∧ (AL.keys d).Nodup ∧
      (∀ e, (∃ H ∈ snapshots srt T, e ∈ H.edges.map srt) → AL.get? d e =
        some (total ((snapshots srt T).map fun H => edgeItems cent srt H s) e / ((snapshots srt T).length : Rat))) ∧
      (∀ e, (¬ ∃ H ∈ snapshots srt T, e ∈ H.edges.map srt) → AL.get? d e = none) := by
  have := C20_averaged (fun H => sEdgesItems cent srt H s) (fun H => edgeItems cent srt H s) (snapshots srt T)
    (fun H _ => sEdgesItems_eq cent srt H s)
    (fun H hH => by
      obtain ⟨t, _, rfl⟩ := List.mem_map.mp hH
      rw [keys_edgeItems]; exact snapshot_edges_nodup srt T t hT hcanon)
  simpa only [keys_edgeItems, sEdgesAveraged] using this

/-- `s_betweenness_nodes_averaged(T)` / `s_closenness_nodes_averaged(T)` (after the repair of D33), for ANY label
type: every node of some snapshot gets exactly one value, (Σ_t value in snapshot `t`) / #snapshots. -/
theorem C20_averaged_nodes {α : Type} [DecidableEq α] (cent : Graph String → String → Rat) (srt : List α → List α)
    (T : THG α) :
    ∃ d, sNodesAveraged cent srt T = some d ∧ (AL.keys d).Nodup ∧
      (∀ o, (∃ H ∈ snapshots srt T, o ∈ H.nodes.map (Sum.inl : α → Obj α)) → AL.get? d o =
        some (total ((snapshots srt T).map fun H => nodeItems cent srt H) o / ((snapshots srt T).length : Rat))) ∧
      (∀ o, (¬ ∃ H ∈ snapshots srt T, o ∈ H.nodes.map (Sum.inl : α → Obj α)) → AL.get? d o = none) := by
  have := C20_averaged (sNodesItems cent srt) (nodeItems cent srt) (snapshots srt T)
    (fun H _ => sNodesItems_eq cent srt H)
    (fun H hH => by
      obtain ⟨t, _, rfl⟩ := List.mem_map.mp hH
      rw [keys_nodeItems, nodup_map_inl]
      exact snapshot_nodes_nodup srt T t)
  simpa only [keys_nodeItems, sNodesAveraged] using this

example : sNodesAveraged (fun g _ => (g.edges.length : Nat)) id
      ({ edges := [(1, [1, 2, 3]), (1, [2, 4]), (2, [1, 4])] } : THG Nat)
    = some [(Sum.inl 1, 7 / 2), (Sum.inl 2, 5 / 2), (Sum.inl 3, 5 / 2), (Sum.inl 4, 7 / 2)] := by
  decide +kernel

/-- Relabelling the nodes by an injective `f` (keys become `srt' (map f e)`): the s-line graph is THE SAME graph
(same vertices, same edge list), hence for every `cent` each relabelled hyperedge carries the value of the original. -/
theorem C20_relabel {α β : Type} [DecidableEq α] [DecidableEq β] (f : α → β) (srt : List α → List α)
    (srt' : List β → List β) (H : HG α) (h : RelabelHyp f srt srt' H) (cent : Graph Nat → Nat → Rat) (s : Nat) :
    lineGraph srt' (H.relabel f (relKey f srt')) s = lineGraph srt H s ∧
    sEdgesItems cent srt' (H.relabel f (relKey f srt')) s
      = (sEdgesItems cent srt H s).map (List.map fun p => (relKey f srt' p.1, p.2)) := by
  refine ⟨lineGraph_relabel h s, ?_⟩
  rw [sEdgesItems_eq, sEdgesItems_eq, edgeItems_relabel h, Option.map_some]

/-- ... and the bipartite projection has the same vertices and the same edges up to the order in which networkx
receives them; hence for every `cent` that depends on the edge SET only (`hcent`) each relabelled node carries the
value of the original. -/
theorem C20_relabel_nodes {α β : Type} [DecidableEq α] [DecidableEq β] (f : α → β) (srt : List α → List α)
    (srt' : List β → List β) (H : HG α) (h : RelabelHyp f srt srt' H) (cent : Graph String → String → Rat)
    (hcent : ∀ g g' : Graph String, g.verts = g'.verts → g.edges.Perm g'.edges → cent g = cent g') :
    (bipGraph srt' (H.relabel f (relKey f srt'))).verts = (bipGraph srt H).verts ∧
    (bipGraph srt' (H.relabel f (relKey f srt'))).edges.Perm (bipGraph srt H).edges ∧
    sNodesItems cent srt' (H.relabel f (relKey f srt'))
      = (sNodesItems cent srt H).map (List.map fun p => (Sum.map f (relKey f srt') p.1, p.2)) := by
  refine ⟨bipGraph_relabel_verts srt srt' _ H, bipGraph_relabel_edges h, ?_⟩
  rw [sNodesItems_eq, sNodesItems_eq, nodeItems_relabel h cent hcent, Option.map_some]

/-! ## Eigenvector centralities: the algebra of the two iterations (nodes `0..n-1`, exact rationals; the irrational
ingredients - the Euclidean norm `c` of `W x`, the root vector `r` of `apply x` - are parameters with their defining
equation as hypothesis; convergence and positivity are NOT proved). -/

/-- `apply(HG, x, g)[j]` with `g = prod` is, for duplicate-free hyperedges, the sum over the hyperedges containing `j`
of the product of the other members' scores - the left-hand side of the HEC eigen-equation. -/
theorem C20_apply_spec (n : Nat) (edges : List (List Nat)) (x : List Rat) (j : Nat) (hj : j < n)
    (h : ∀ e ∈ edges, e.Nodup) :
    (C20.apply n edges x).getD j 0 = (edges.map fun e => if j ∈ e then prodAt x (e.erase j) else 0).sum :=
  apply_spec n edges x j hj h

/-- the matrix handed to `power_method` is the clique-expansion matrix: `W[a,b]` = number of hyperedges containing
both `a` and `b` for `a ≠ b`, 0 on the diagonal -/
theorem C20_cecW_spec (n : Nat) (edges : List (List Nat)) (a b : Nat) (ha : a < n) (hb : b < n)
    (h : ∀ e ∈ edges, e.Nodup) :
    getD2 (cecW n edges) a b = (edges.map fun e => if a ∈ e ∧ b ∈ e ∧ a ≠ b then (1 : Rat) else 0).sum :=
  cecW_spec n edges a b ha hb h

/-- CEC: a fixed point of the power step `x ↦ W x / c` (`c = ‖W x‖₂ ≠ 0`) is an eigenvector, `W x = c x` -/
theorem C20_cec_fixed_point (W : List (List Rat)) (c : Rat) (x : List Rat) (hc : c ≠ 0)
    (h : cecStep W c x = x) : matVec W x = x.map (c * ·) :=
  cec_fixed W c x hc h

example : cecStep (cecW 3 [[0, 1, 2]]) 2 [1, 1, 1] = [1, 1, 1] := by decide +kernel

/-- CEC, residual at the stopping rule: `‖W x − c x‖₂² = c² ‖x − W x / c‖₂²`; so when `power_method` stops with
`‖x − y/‖y‖‖₂ ≤ tol` the eigen-equation holds up to `c · tol` -/
theorem C20_cec_residual (W : List (List Rat)) (c tol : Rat) (x : List Rat) (hc : c ≠ 0)
    (hstop : sq2 (vsub x (cecStep W c x)) ≤ tol * tol) :
    sq2 (vsub (matVec W x) (x.map (c * ·))) = c * c * sq2 (vsub x (cecStep W c x)) ∧
    sq2 (vsub (matVec W x) (x.map (c * ·))) ≤ (c * tol) * (c * tol) := by
  have h := sq2_residual c hc (matVec W x) x
  refine ⟨h, ?_⟩
  rw [h]
  have : 0 ≤ c * c := mul_self_nonneg c
  calc c * c * sq2 (vsub x (cecStep W c x)) ≤ c * c * (tol * tol) := mul_le_mul_of_nonneg_left hstop this
    _ = (c * tol) * (c * tol) := by ring

example : sq2 (vsub [1, 2, 3] (cecStep (cecW 3 [[0, 1, 2]]) 2 [1, 2, 3])) ≤ 3 * 3 := by decide +kernel

/-- HEC: let `r` be the root vector of `apply x` (`r_i ^ m = apply(x)_i`, `m = size − 1`, what `np.power(·, 1/m)` returns)
with `r_0 > 0` (so `np.sign` is 1). If `x` is a fixed point of the step, `x = r / ‖r‖₁`, then for EVERY node `j` the sum
over its hyperedges of the product of the other members' scores equals `c · x_j ^ m` with the SAME `c = ‖r‖₁ ^ m`. -/
theorem C20_hec_fixed_point (n : Nat) (edges : List (List Nat)) (x r : List Rat) (m : Nat)
    (hnd : ∀ e ∈ edges, e.Nodup) (h0 : 0 < r.getD 0 0)
    (hroot : ∀ i, (r.getD i 0) ^ m = (C20.apply n edges x).getD i 0) (hfix : x = hecNormalize r) :
    ∀ j, j < n →
      (edges.map fun e => if j ∈ e then prodAt x (e.erase j) else 0).sum = (l1 r) ^ m * (x.getD j 0) ^ m := by
  intro j hj
  have hs := apply_spec n edges x j hj hnd
  simp only [contrib] at hs
  rw [← hs]
  have := hec_step_identity (C20.apply n edges x) r m h0 hroot j
  rw [← hfix] at this
  exact this

example : hecNormalize [1/3, 1/3, 1/3] = [1/3, 1/3, 1/3] ∧ C20.apply 3 [[0, 1, 2]] [1/3, 1/3, 1/3] = [1/9, 1/9, 1/9] := by
  decide +kernel

/-- HEC, residual at the stopping rule: with `x_new = r / ‖r‖₁` the next iterate, `apply(x)_j = c · x_new_j ^ m`
exactly, hence `|apply(x)_j − c · x_j ^ m| ≤ c · m · tol` whenever `|x_new_j − x_j| ≤ tol` (entries in `[0, 1]`):
when the iteration stops with `‖x − x_new‖₂ ≤ tol` every eigen-equation holds up to `c · m · tol`. -/
theorem C20_hec_residual (y r x : List Rat) (m : Nat) (tol : Rat) (h0 : 0 < r.getD 0 0)
    (hroot : ∀ i, (r.getD i 0) ^ m = y.getD i 0) (j : Nat)
    (hx0 : 0 ≤ x.getD j 0) (hx1 : x.getD j 0 ≤ 1)
    (hn0 : 0 ≤ (hecNormalize r).getD j 0) (hn1 : (hecNormalize r).getD j 0 ≤ 1)
    (hstop : |(hecNormalize r).getD j 0 - x.getD j 0| ≤ tol) :
    |y.getD j 0 - (l1 r) ^ m * (x.getD j 0) ^ m| ≤ (l1 r) ^ m * (m * tol) := by
  have hS : 0 ≤ (l1 r) ^ m := pow_nonneg (l1_nonneg r) m
  rw [hec_step_identity y r m h0 hroot j, ← mul_sub, abs_mul, abs_of_nonneg hS]
  apply mul_le_mul_of_nonneg_left _ hS
  calc |(hecNormalize r).getD j 0 ^ m - x.getD j 0 ^ m| ≤ m * |(hecNormalize r).getD j 0 - x.getD j 0| :=
        pow_sub_pow_le _ _ hn0 hn1 hx0 hx1 m
    _ ≤ m * tol := mul_le_mul_of_nonneg_left hstop (Nat.cast_nonneg m)

/-- CEC, the vector `power_method` RETURNS: it returns `x' = W x / c` (`c = ‖W x‖₂`), one step after the iterate `x` the
stopping test was applied to. Exactly `W x' − c x' = W (x' − x)`: with `‖x' − x‖₂ ≤ tol` at the stop and `‖W‖₂ = λ_max`
(symmetric `W`) the returned vector satisfies the eigen-equation up to `λ_max · tol` (and the Rayleigh quotient can only
make the residual smaller) - the bound the harness demands of every run within the documented budget. -/
theorem C20_cec_returned (W : List (List Rat)) (c : Rat) (x : List Rat) (hc : c ≠ 0) (hlen : W.length = x.length) :
    vsub (matVec W (cecStep W c x)) ((cecStep W c x).map (c * ·)) = matVec W (vsub (cecStep W c x) x) := by
  rw [scale_cecStep W c x hc, matVec_vsub W _ x (by simp [cecStep, matVec, hlen])]

/-- non-vacuity (`c = 1`): `x = (1,2,3)`, `x' = W x = (5,4,3)`, `W x' − x' = (2,4,6) = W (x' − x)` -/
example : vsub (matVec (cecW 3 [[0, 1, 2]]) (cecStep (cecW 3 [[0, 1, 2]]) 1 [1, 2, 3]))
      ((cecStep (cecW 3 [[0, 1, 2]]) 1 [1, 2, 3]).map ((1 : Rat) * ·)) = [2, 4, 6] ∧
    matVec (cecW 3 [[0, 1, 2]]) (vsub (cecStep (cecW 3 [[0, 1, 2]]) 1 [1, 2, 3]) [1, 2, 3]) = [2, 4, 6] := by
  decide +kernel

/-- `power_method(W, max_iter = K, tol)` as a loop (`nrm` = `np.linalg.norm`): when the run is left by its test
(`passes < K`), (i) every larger budget `K' ≥ K` returns the same vector after the same number of passes - the default
`max_iter` does not matter once it suffices; (ii) the returned vector is `W xp / ‖W xp‖` for an iterate `xp` with
`‖xp − W xp / ‖W xp‖‖ ≤ tol`, i.e. the hypothesis of `C20_cec_residual` / `C20_cec_returned` holds. A run with a smaller
budget than the documented one is NOT covered: that is what the harness watches with the documented iteration. -/
theorem C20_power_budget (nrm : List Rat → Rat) (W : List (List Rat)) (K : Nat) (tol : Rat) (x : List Rat)
    (h : (powerMethod nrm W K tol x).2 < K) :
    (∀ K', K ≤ K' → powerMethod nrm W K' tol x = powerMethod nrm W K tol x) ∧
    ∃ xp, (powerMethod nrm W K tol x).1 = cecStep W (nrm (matVec W xp)) xp ∧
      nrm (vsub xp (cecStep W (nrm (matVec W xp)) xp)) ≤ tol := by
  refine ⟨fun K' hK => pmLoop_stable _ tol K none x h K' hK, ?_⟩
  rcases pmLoop_left (pmBody nrm W) tol K none x h with ⟨hno, _⟩ | ⟨xp, h1, h2⟩
  · simp [pmGoOn] at hno
  · refine ⟨xp, h1.symm, ?_⟩
    simp only [pmGoOn, decide_eq_false_iff_not, not_lt] at h2
    exact h2

/-- non-vacuity: residuals 1/2, 1/4, 1/16 against `tol = 1/8`: three passes with budget 10 (left by the test), two with budget 2 -/
example : pmLoop (fun (j : Nat) => (j + 1, ([1/2, 1/4, 1/16] : List Rat).getD j 0)) (1/8) 10 none 0 = (3, 3) ∧
    pmLoop (fun (j : Nat) => (j + 1, ([1/2, 1/4, 1/16] : List Rat).getD j 0)) (1/8) 2 none 0 = (2, 2) := by decide +kernel

/-- the HEC loop (`for iter in range(K): … if ‖x − new_x‖ ≤ tol: break`), generic in the step: when it is left by the
`break`, every larger budget gives the same result, at most `K` passes were made, and the RETURNED iterate passes the
stopping test - the hypothesis `hstop` of `C20_hec_residual` / `C20_hec_residual_sharp` (with `‖·‖₂ ≥ |·_j|`). -/
theorem C20_hec_budget {X : Type} (step : X → X) (dist : X → X → Rat) (tol : Rat) (K : Nat) (x : X)
    (h : (hecLoop step dist tol K x).2.2 = true) :
    (∀ K', K ≤ K' → hecLoop step dist tol K' x = hecLoop step dist tol K x) ∧
    dist (hecLoop step dist tol K x).1 (step (hecLoop step dist tol K x).1) ≤ tol ∧
    (hecLoop step dist tol K x).2.1 ≤ K :=
  ⟨fun K' hK => hecLoop_stable step dist tol K x h K' hK, hecLoop_left step dist tol K x h, hecLoop_passes_le step dist tol K x⟩

example : hecLoop (fun (j : Nat) => j + 1) (fun j _ => ([1/2, 1/4, 1/16] : List Rat).getD j 0) (1/8) 10 0 = (2, 3, true) ∧
    hecLoop (fun (j : Nat) => j + 1) (fun j _ => ([1/2, 1/4, 1/16] : List Rat).getD j 0) (1/8) 2 0 = (2, 2, false) := by decide +kernel

/-- HEC, sharp residual: for entries of `x` and of the next iterate in `[0, M]`,
`|apply(x)_j − c · x_j ^ m| ≤ c · m · M^(m-1) · |x_new_j − x_j|` (`c = ‖r‖₁ ^ m`). Summing the squares: at a stop with
`‖x_new − x‖₂ ≤ tol` the eigen-equation holds in the 2-norm up to `c · m · M^(m-1) · tol`, `M` the largest score. -/
theorem C20_hec_residual_sharp (y r x : List Rat) (m : Nat) (M : Rat) (h0 : 0 < r.getD 0 0)
    (hroot : ∀ i, (r.getD i 0) ^ m = y.getD i 0) (j : Nat)
    (hx0 : 0 ≤ x.getD j 0) (hx1 : x.getD j 0 ≤ M)
    (hn0 : 0 ≤ (hecNormalize r).getD j 0) (hn1 : (hecNormalize r).getD j 0 ≤ M) :
    |y.getD j 0 - (l1 r) ^ m * (x.getD j 0) ^ m| ≤
      (l1 r) ^ m * (m * M ^ (m - 1) * |(hecNormalize r).getD j 0 - x.getD j 0|) := by
  have hS : 0 ≤ (l1 r) ^ m := pow_nonneg (l1_nonneg r) m
  rw [hec_step_identity y r m h0 hroot j, ← mul_sub, abs_mul, abs_of_nonneg hS]
  exact mul_le_mul_of_nonneg_left (pow_sub_pow_le_of_le _ _ M hn0 hn1 hx0 hx1 m) hS

/-- Relabelling the nodes `0..n-1` by an injective `σ` (a permutation): `apply` and the matrix `W` are carried
along entrywise, hence so is every iterate of both power iterations when the random start is carried along. -/
theorem C20_eigen_relabel (n : Nat) (edges : List (List Nat)) (x x' : List Rat) (σ : Nat → Nat)
    (hσ : Function.Injective σ) (hnd : ∀ e ∈ edges, e.Nodup)
    (hx : ∀ e ∈ edges, ∀ i ∈ e, getR x' (σ i) = getR x i) (a b : Nat) (ha : a < n) (hb : b < n)
    (hσa : σ a < n) (hσb : σ b < n) :
    (C20.apply n (edges.map (List.map σ)) x').getD (σ a) 0 = (C20.apply n edges x).getD a 0 ∧
    getD2 (cecW n (edges.map (List.map σ))) (σ a) (σ b) = getD2 (cecW n edges) a b :=
  ⟨apply_relabel n edges x x' σ hσ hnd hx a ha hσa, cecW_relabel n edges σ hσ hnd a b ha hb hσa hσb⟩

/-! ## Sub-hypergraph centrality -/

/-- For a real matrix `A` with an orthonormal eigendecomposition (`Uᵀ U = 1`, `A U = U diag(ev)` - what
`numpy.linalg.eigh` returns for the symmetric adjacency matrix), `(exp A)_ii = Σ_j U_ij² e^{ev_j}`; the routine
returns `logsumexp(ev, b = U_i·²) = log Σ_j U_ij² e^{ev_j}`, i.e. the logarithm of the diagonal entry of the matrix
exponential. -/
theorem C20_subhg {n : ℕ} (A U : Matrix (Fin n) (Fin n) ℝ) (ev : Fin n → ℝ)
    (hU : U.transpose * U = 1) (hE : A * U = U * Matrix.diagonal ev) (i : Fin n) :
    (NormedSpace.exp A) i i = ∑ j, (U i j) ^ 2 * Real.exp (ev j) ∧
    Real.log (∑ j, (U i j) ^ 2 * Real.exp (ev j)) = Real.log ((NormedSpace.exp A) i i) := by
  have h := subhg_exp_diag A U ev hU (subhg_decomp_of_eigen A U ev hU hE) i
  exact ⟨h, by rw [h]⟩

/-- non-vacuity of `C20_subhg`: `A = 0`, `U = 1`, `ev = 0` -/
example : (1 : Matrix (Fin 2) (Fin 2) ℝ).transpose * 1 = 1 ∧
    (0 : Matrix (Fin 2) (Fin 2) ℝ) * 1 = 1 * Matrix.diagonal (fun _ => (0 : ℝ)) := by
  constructor <;> simp

/-! ## further non-vacuity examples -/
/-- non-vacuity of the relabelling hypotheses: integer labels to their decimal strings (injective, not monotone) -/
example : RelabelHyp (fun x : Nat => toString x) id id ({ nodes := [9, 10, 11], edges := [[9, 10], [10, 11]] } : HG Nat) :=
  ⟨fun _ _ h => toString_inj h, fun _ => List.Perm.refl _, fun _ => List.Perm.refl _, fun _ => rfl, fun _ _ => rfl⟩

example : sEdgesItems (fun g v => (g.edges.length + v : Nat)) id
    (({ nodes := [9, 10, 11], edges := [[9, 10], [10, 11]] } : HG Nat).relabel (fun x => toString x) (relKey (fun x => toString x) id)) 1
    = some [(["9", "10"], 1), (["10", "11"], 2)] := by decide +kernel

/-- non-vacuity of `C20_averaged_edges`: distinct records, sorted keys -/
example : ([(1, [1, 2, 3]), (1, [2, 4]), (2, [1, 4])] : List (Nat × List Nat)).Nodup ∧
    sEdgesAveraged (fun g v => (g.edges.length + v : Nat)) id ({ edges := [(1, [1, 2, 3]), (1, [2, 4]), (2, [1, 4])] } : THG Nat) 1
      = some [([1, 2, 3], 1 / 2), ([2, 4], 1), ([1, 4], 0)] := by decide +kernel

/-- non-vacuity of `C20_hec_fixed_point` / `C20_hec_residual` / `C20_apply_spec` / `C20_eigen_relabel` -/
example : (0 : Rat) < ([1/3, 1/3, 1/3] : List Rat).getD 0 0 ∧
    (∀ i, i < 3 → (([1/3, 1/3, 1/3] : List Rat).getD i 0) ^ 2 = (C20.apply 3 [[0, 1, 2]] [1/3, 1/3, 1/3]).getD i 0) ∧
    C20.apply 4 [[0, 1, 2], [1, 2, 3]] [1/4, 1/2, 1/8, 1/8] = [1/16, 3/64, 3/16, 1/16] ∧
    C20.apply 4 ([[0, 1, 2], [1, 2, 3]].map (List.map fun i => 3 - i)) [1/8, 1/8, 1/2, 1/4] = [1/16, 3/16, 3/64, 1/16] := by
  decide +kernel

/-! ## the hyperedge without members (round e) -/
/-- the hyperedge WITHOUT members `()` (left behind by `remove_node(x, keep_edges=True)` on a singleton, or added as such) is a
hyperedge like any other: for every hypergraph - no hypothesis on the listing - both projections have one vertex per listed
hyperedge, member-less or not (so it counts in the number of vertices that networkx normalises with); in the line graph it is
adjacent to nothing for every `s` (even `s = 0`), and in the bipartite projection no edge leaves its vertex `E<j>`
(`sorted(()) = ()` is the only thing asked of `srt`). -/
theorem C20_memberless {α : Type} [DecidableEq α] (srt : List α → List α) (H : HG α) (s : Nat) :
    (lineGraph srt H s).verts = List.range H.edges.length ∧
    (bipGraph srt H).verts.length = H.nodes.length + H.edges.length ∧
    (∀ j, j < H.edges.length → nameE j ∈ (bipGraph srt H).verts) ∧
    (∀ b : List α, linked s ([] : List α) b = false ∧ linked s b ([] : List α) = false) ∧
    (∀ j, srt [] = [] → H.edges[j]? = some [] → ∀ p ∈ (bipGraph srt H).edges, p.1 ≠ nameE j) := by
  refine ⟨rfl, by simp [bipGraph], ?_, ?_, ?_⟩
  · intro j hj
    simp only [bipGraph, List.mem_append, List.mem_map, List.mem_range]
    exact Or.inr ⟨j, hj, rfl⟩
  · intro b
    constructor
    · simp [linked, inter]
    · have h : inter b ([] : List α) = 0 := by
        unfold inter
        induction b with
        | nil => rfl
        | cons a t ih => simp
      simp [linked, h]
  · intro j hs hj p hp heq
    simp only [bipGraph, bipEdges, List.mem_flatMap, List.mem_map] at hp
    obtain ⟨q, hq, x, hx, rfl⟩ := hp
    have hq1 : q.1 < H.edges.length ∧ H.edges[q.1]? = some q.2 := by
      obtain ⟨i, hi⟩ := List.mem_iff_getElem?.mp hq
      rw [List.getElem?_zip_eq_some] at hi
      obtain ⟨h1, h2⟩ := hi
      have h1' := List.getElem?_eq_some_iff.mp h1
      obtain ⟨hlt, he⟩ := h1'
      simp at he hlt
      subst he
      exact ⟨(List.getElem?_eq_some_iff.mp h2).1, h2⟩
    have hj' : q.1 = j := nameE_inj heq
    rw [hj'] at hq1
    rw [hq1.2] at hj
    have : q.2 = [] := Option.some.inj hj
    rw [this, hs] at hx
    exact absurd hx (List.not_mem_nil)


/-- non-vacuity of `C20_memberless`: the object left by `remove_node(6, keep_edges=True)` on `(0,1,2),(2,3),(3,4,5),(5,),(6,)`:
the member-less hyperedge has its vertex `E4` (11 vertices in all), no edge leaves it, and it is an isolated vertex 4 of the line graph -/
example : let H : HG Nat := { nodes := [0, 1, 2, 3, 4, 5], edges := [[0, 1, 2], [2, 3], [3, 4, 5], [5], []] }
    H.edges[4]? = some [] ∧ (bipGraph id H).verts.length = 11 ∧ nameE 4 ∈ (bipGraph id H).verts ∧
    ((bipGraph id H).edges.filter fun p => p.1 = nameE 4) = [] ∧ (bipGraph id H).edges.length = 9 ∧
    (lineGraph id H 1).verts = [0, 1, 2, 3, 4] ∧ (lineGraph id H 1).edges = [(0, 1), (1, 2), (2, 3)] := by
  decide +kernel


/-! ## Extension round: the networkx routines themselves (`Model/C20Cent.lean`: `closeness`, `betweenness` in exact rationals,
compared with `nx.closeness_centrality` / `nx.betweenness_centrality` and - level by level - with networkx's own
breadth-first search on every run) are no longer only a parameter: what they compute is proved here. `reachIn g s k v` =
"there is a walk of length `k` from `s` to `v`"; `walkCount g s k v` = the number of such walks (`σ`-recursion of Brandes). -/

/-- `distSigma (levels g s) v = some (d, c)` (what the breadth-first search of networkx yields from source `s`): `d < |V|` is the
length of a SHORTEST walk from `s` to `v`, `c` is the number of walks of that length, i.e. the number of shortest paths, and it
obeys `σ_0(v) = [v = s]`, `σ_{k+1}(v) = Σ_{u ~ v} σ_k(u)`; `none` iff no walk of length `< |V|` exists. -/
theorem C20_dist_spec {V : Type} [DecidableEq V] (g : Graph V) (s v : V) :
    (∀ d c, distSigma (levels g s) v = some (d, c) ↔
      d < g.verts.length ∧ reachIn g s d v ∧ (∀ j, j < d → ¬ reachIn g s j v) ∧ c = walkCount g s d v) ∧
    (distSigma (levels g s) v = none ↔ ∀ k, k < g.verts.length → ¬ reachIn g s k v) ∧
    (∀ k u, reachIn g s k u ↔ 0 < walkCount g s k u) ∧
    (∀ k u, walkCount g s (k + 1) u = if u ∈ g.verts then ((nbrs g u).map (walkCount g s k)).sum else 0) :=
  ⟨distSigma_spec g s v, distSigma_none g s v, reachIn_iff_walkCount g s, fun _ _ => rfl⟩

example : let g : Graph Nat := { verts := [0, 1, 2, 3, 4], edges := [(0, 1), (1, 2), (0, 3), (3, 2)] }
    distSigma (levels g 0) 2 = some (2, 2) ∧ distSigma (levels g 0) 4 = none ∧ walkCount g 0 2 2 = 2 := by decide +kernel

/-- the computed distance is a metric on each component: symmetric (also in "unreachable"), and it satisfies the triangle
inequality -/
theorem C20_dist_metric {V : Type} [DecidableEq V] (g : Graph V) (s u t : V) :
    dist g s t = dist g t s ∧
    (∀ a b c, dist g s u = some a → dist g u t = some b → dist g s t = some c → c ≤ a + b) :=
  ⟨dist_symm g s t, fun a b c => dist_triangle g s u t a b c⟩

example : let g : Graph Nat := { verts := [0, 1, 2, 3, 4], edges := [(0, 1), (1, 2), (0, 3), (3, 2)] }
    dist g 1 3 = some 2 ∧ dist g 3 1 = some 2 ∧ dist g 1 0 = some 1 ∧ dist g 0 3 = some 1 ∧ dist g 4 0 = none := by decide +kernel

/-- ... and the bound `< |V|` on the walk lengths that `levels` explores loses nothing (a shortest walk visits pairwise different
vertices): `dist g s v = some d` iff `d` is the length of a shortest walk from `s` to `v` among walks of ANY length, `none` iff
there is no walk at all. -/
theorem C20_dist_unbounded {V : Type} [DecidableEq V] (g : Graph V) (s v : V) :
    (∀ d, dist g s v = some d ↔ reachIn g s d v ∧ ∀ j, j < d → ¬ reachIn g s j v) ∧
    (dist g s v = none ↔ ∀ k, ¬ reachIn g s k v) :=
  ⟨dist_spec' g s v, dist_none' g s v⟩

example : let g : Graph Nat := { verts := [0, 1, 2, 3, 4], edges := [(0, 1), (1, 2), (0, 3), (3, 2)] }
    dist g 0 2 = some 2 ∧ dist g 0 4 = none := by decide +kernel

/-- `nx.closeness_centrality(G)[v]` (Wasserman-Faust, as `s_closeness` calls it): with `D` the distances from `v` to the vertices it
reaches (itself included), the value is `(|D|-1)/ΣD · (|D|-1)/(n-1)`, and 0 when nothing else is reached or `n ≤ 1`. -/
theorem C20_closeness_formula {V : Type} [DecidableEq V] (g : Graph V) (v : V) :
    closeness g v =
      if 0 < (g.verts.filterMap (dist g v)).sum ∧ 1 < g.verts.length then
        ((((g.verts.filterMap (dist g v)).length - 1 : Nat) : Rat) / (((g.verts.filterMap (dist g v)).sum : Nat) : Rat)) *
        ((((g.verts.filterMap (dist g v)).length - 1 : Nat) : Rat) / ((g.verts.length - 1 : Nat) : Rat))
      else 0 :=
  closeness_formula g v

example : let g : Graph Nat := { verts := [0, 1, 2, 3, 4], edges := [(0, 1), (1, 2), (2, 3)] }
    g.verts.filterMap (dist g 0) = [0, 1, 2, 3] ∧ closeness g 0 = 3 / 8 := by decide +kernel

/-- both routines (and the degree) read the vertex list and the edge SET only - not the order or multiplicity in which
networkx received the edges -/
theorem C20_nx_congr {V : Type} [DecidableEq V] (g g' : Graph V) (hv : g.verts = g'.verts)
    (he : ∀ e, e ∈ g.edges ↔ e ∈ g'.edges) :
    closeness g = closeness g' ∧ betweenness g = betweenness g' ∧ degree g = degree g' :=
  ⟨closeness_congr g g' hv he, betweenness_congr g g' hv he, by funext v; unfold degree; rw [nbrs_congr g g' hv he]⟩

example : let g : Graph Nat := { verts := [0, 1, 2], edges := [(0, 1), (1, 2)] }
    let g' : Graph Nat := { verts := [0, 1, 2], edges := [(1, 2), (0, 1), (1, 2)] }
    g.edges ≠ g'.edges ∧ (∀ e, e ∈ g.edges ↔ e ∈ g'.edges) ∧ betweenness g 1 = 1 ∧ betweenness g' 1 = 1 := by
  refine ⟨by decide, ?_, by decide +kernel, by decide +kernel⟩
  intro e; grind

/-- `C20_relabel_nodes` WITHOUT its hypothesis on `cent`, for the two routines the code calls: the node versions of the
s-centralities are carried along unchanged by an injective relabelling of the nodes. -/
theorem C20_relabel_nodes_nx {α β : Type} [DecidableEq α] [DecidableEq β] (f : α → β) (srt : List α → List α)
    (srt' : List β → List β) (H : HG α) (h : RelabelHyp f srt srt' H) :
    sNodesItems closeness srt' (H.relabel f (relKey f srt'))
      = (sNodesItems closeness srt H).map (List.map fun p => (Sum.map f (relKey f srt') p.1, p.2)) ∧
    sNodesItems betweenness srt' (H.relabel f (relKey f srt'))
      = (sNodesItems betweenness srt H).map (List.map fun p => (Sum.map f (relKey f srt') p.1, p.2)) :=
  ⟨(C20_relabel_nodes f srt srt' H h closeness fun g g' hv hp => closeness_congr g g' hv fun _ => hp.mem_iff).2.2,
   (C20_relabel_nodes f srt srt' H h betweenness fun g g' hv hp => betweenness_congr g g' hv fun _ => hp.mem_iff).2.2⟩

/-- `C20_edges_reads` WITHOUT its hypothesis on `cent`: on coherent readings `s_closeness` / `s_betweenness` as the loops of
`line_graph` + the networkx routine compute them give every listed hyperedge exactly one value, that of its vertex in the
listing-level s-line graph. -/
theorem C20_edges_reads_nx {α : Type} [DecidableEq α] (srt : List α → List α) (R : Reads α) (hc : Coherent srt R) (s : Nat) :
    sEdgesR closeness srt R s = some (edgeItems closeness srt ⟨R.inc.map (·.1), R.edges⟩ s) ∧
    sEdgesR betweenness srt R s = some (edgeItems betweenness srt ⟨R.inc.map (·.1), R.edges⟩ s) :=
  ⟨(C20_edges_reads closeness (fun g g' hv he v => by rw [closeness_congr g g' hv he]) srt R hc s).2,
   (C20_edges_reads betweenness (fun g g' hv he v => by rw [betweenness_congr g g' hv he]) srt R hc s).2⟩

/-- a vertex without neighbours gets closeness 0 and betweenness 0; a vertex with exactly ONE neighbour (a leaf) lies on no
shortest path between two other vertices: betweenness 0 -/
theorem C20_isolated_leaf {V : Type} [DecidableEq V] (g : Graph V) (v : V) :
    (nbrs g v = [] → closeness g v = 0 ∧ betweenness g v = 0) ∧
    (∀ u, nbrs g v = [u] → betweenness g v = 0) :=
  ⟨fun h => ⟨closeness_isolated g v h, betweenness_isolated g v h⟩, fun u h => betweenness_leaf g v u h⟩

example : let g : Graph Nat := { verts := [0, 1, 2, 3, 4], edges := [(0, 1), (1, 2), (2, 3)] }
    nbrs g 4 = [] ∧ nbrs g 0 = [1] ∧ nbrs g 1 = [0, 2] ∧ betweenness g 1 = 1 / 3 := by decide +kernel

/-- the hyperedge without members gets the value 0 from `s_closeness` and `s_betweenness`, for every `s` (it is an isolated
vertex of the s-line graph, `C20_memberless`) -/
theorem C20_memberless_value {α : Type} [DecidableEq α] (srt : List α → List α) (H : HG α) (s i : Nat)
    (hs : srt [] = []) (hi : H.edges[i]? = some []) :
    closeness (lineGraph srt H s) i = 0 ∧ betweenness (lineGraph srt H s) i = 0 := by
  have hl : ∀ b : List α, linked s ([] : List α) b = false ∧ linked s b ([] : List α) = false :=
    (C20_memberless srt H s).2.2.2.1
  have hmi : (H.edges.map srt)[i]? = some [] := by rw [List.getElem?_map, hi, Option.map_some, hs]
  have hn : nbrs (lineGraph srt H s) i = [] := by
    unfold nbrs
    rw [List.filter_eq_nil_iff]
    intro j _ hj
    simp only [decide_eq_true_eq] at hj
    have hadj := hj.2
    unfold adjacent at hadj
    rw [List.any_eq_true] at hadj
    obtain ⟨e, he, h⟩ := hadj
    simp only [decide_eq_true_eq] at h
    rcases h with ⟨h1, h2⟩ | ⟨h1, h2⟩
    · have he' : (j, i) ∈ lineEdges s (idTable srt H.edges) := by rw [← h1, ← h2]; exact he
      obtain ⟨_, a, b, _, hb, hab⟩ := (mem_lineEdges_idTable s srt H.edges j i).mp he'
      rw [hmi] at hb; cases hb
      rw [(hl a).2] at hab; cases hab
    · have he' : (i, j) ∈ lineEdges s (idTable srt H.edges) := by rw [← h1, ← h2]; exact he
      obtain ⟨_, a, b, ha, _, hab⟩ := (mem_lineEdges_idTable s srt H.edges i j).mp he'
      rw [hmi] at ha; cases ha
      rw [(hl b).1] at hab; cases hab
  exact ⟨closeness_isolated _ i hn, betweenness_isolated _ i hn⟩

example : let H : HG Nat := { nodes := [0, 1, 2, 3, 4, 5], edges := [[0, 1, 2], [2, 3], [3, 4, 5], [5], []] }
    H.edges[4]? = some [] ∧ closeness (lineGraph id H 1) 4 = 0 ∧ closeness (lineGraph id H 1) 1 = 9 / 16 := by decide +kernel

/-- Chapman-Kolmogorov for the walk counts (vertex list duplicate-free, as in every networkx graph): a walk of length `a + b`
from `s` to `t` splits at its `a`-th vertex. This is what makes `σ_sv · σ_vt` the number of shortest `s`-`t` paths through `v`. -/
theorem C20_walk_split {V : Type} [DecidableEq V] (g : Graph V) (hn : g.verts.Nodup) (s t : V) (a b : Nat) :
    walkCount g s (a + b) t = (g.verts.map fun v => walkCount g s a v * walkCount g v b t).sum :=
  walkCount_add g hn s t a b

example : let g : Graph Nat := { verts := [0, 1, 2, 3, 4], edges := [(0, 1), (1, 2), (0, 3), (3, 2), (2, 4)] }
    g.verts.Nodup ∧ walkCount g 0 3 4 = 2 ∧ walkCount g 0 2 2 = 2 ∧ walkCount g 2 1 4 = 1 := by decide +kernel

/-- **Sum identity for one pair.** `s ≠ t` at distance `d`: the pair dependencies `σ_st(v)/σ_st` (`pairDep`, the summand of
`nx.betweenness_centrality`) of all OTHER vertices add up to `d - 1` - every shortest path has `d - 1` inner vertices; and every
pair dependency of an unreachable pair is 0. -/
theorem C20_pair_dependency_sum {V : Type} [DecidableEq V] (g : Graph V) (hn : g.verts.Nodup) (s t : V) (hst : s ≠ t) :
    (∀ d, dist g s t = some d →
      (((g.verts.filter (· ≠ s)).filter (· ≠ t)).map fun v => pairDep (levels g s) (levels g v) v t).sum = ((d - 1 : Nat) : Rat)) ∧
    (dist g s t = none → ∀ v, pairDep (levels g s) (levels g v) v t = 0) :=
  ⟨fun d hd => pairDep_sum g hn s t hst d hd, fun hd v => pairDep_unreachable g s t v hd⟩

example : let g : Graph Nat := { verts := [0, 1, 2, 3, 4], edges := [(0, 1), (1, 2), (0, 3), (3, 2), (2, 4)] }
    dist g 0 4 = some 3 ∧ pairDep (levels g 0) (levels g 1) 1 4 = 1 / 2 ∧ pairDep (levels g 0) (levels g 3) 3 4 = 1 / 2 ∧
    pairDep (levels g 0) (levels g 2) 2 4 = 1 := by decide +kernel

/-- **Sum identity for betweenness.** The values `nx.betweenness_centrality` gives to ALL vertices add up to the sum over the ordered
pairs `s ≠ t` of connected vertices of `d(s,t) - 1` (`pairInner`), divided by `(n-1)(n-2)` when `n ≥ 3` (networkx's normalisation). -/
theorem C20_betweenness_sum {V : Type} [DecidableEq V] (g : Graph V) (hn : g.verts.Nodup) :
    (g.verts.map (betweenness g)).sum =
      if 3 ≤ g.verts.length then
        (g.verts.map fun s => ((g.verts.filter (· ≠ s)).map fun t => pairInner g s t).sum).sum
          / (((g.verts.length - 1) * (g.verts.length - 2) : Nat) : Rat)
      else (g.verts.map fun s => ((g.verts.filter (· ≠ s)).map fun t => pairInner g s t).sum).sum :=
  betweenness_sum g hn

example : let g : Graph Nat := { verts := [0, 1, 2, 3], edges := [(0, 1), (1, 2), (2, 3)] }
    g.verts.map (betweenness g) = [0, 2 / 3, 2 / 3, 0] ∧
    (g.verts.map fun s => ((g.verts.filter (· ≠ s)).map fun t => pairInner g s t).sum).sum = 8 := by decide +kernel

/-- the hypothesis of the two sum identities and of `closeness ≤ 1` holds for both projections of every hypergraph -/
theorem C20_projection_verts_nodup {α : Type} [DecidableEq α] (srt : List α → List α) (H : HG α) (s : Nat) :
    (lineGraph srt H s).verts.Nodup ∧ (bipGraph srt H).verts.Nodup :=
  ⟨lineGraph_verts_nodup srt H s, bipGraph_verts_nodup srt H⟩

/-- ranges: betweenness and closeness are never negative, closeness is at most 1 -/
theorem C20_value_ranges {V : Type} [DecidableEq V] (g : Graph V) (v : V) :
    0 ≤ betweenness g v ∧ 0 ≤ closeness g v ∧ (g.verts.Nodup → closeness g v ≤ 1) :=
  ⟨betweenness_nonneg g v, closeness_nonneg g v, fun hn => closeness_le_one g hn v⟩

example : let g : Graph Nat := { verts := [0, 1, 2], edges := [(0, 1), (1, 2)] }
    g.verts.Nodup ∧ closeness g 1 = 1 ∧ closeness g 0 = 2 / 3 := by decide +kernel

/-- what "neighbour" means in the two projections, in terms of the hypergraph: in the s-line graph `i ≠ j` are neighbours iff the
hyperedges number `i`, `j` are `linked` (≥ max(1, s) common nodes); in the bipartite projection `E<j>` is a neighbour of `N<i>` iff
hyperedge number `j` has a member at position `i` of `get_nodes()`. With `C20_dist_spec` this makes the distances inside
`s_closeness` / `s_betweenness` lengths of shortest s-walks of hyperedges, resp. of node-hyperedge incidence walks. -/
theorem C20_adjacency_hypergraph {α : Type} [DecidableEq α] (srt : List α → List α) (H : HG α) (s i j : Nat) :
    (j ∈ nbrs (lineGraph srt H s) i ↔
      j < H.edges.length ∧ j ≠ i ∧ ∃ a b, (H.edges.map srt)[i]? = some a ∧ (H.edges.map srt)[j]? = some b ∧
        (if i < j then linked s a b else linked s b a) = true) ∧
    (nameE j ∈ nbrs (bipGraph srt H) (nameN i) ↔ ∃ e x, H.edges[j]? = some e ∧ x ∈ srt e ∧ H.nodes.idxOf x = i) :=
  ⟨mem_nbrs_lineGraph srt H s i j, mem_nbrs_bipGraph srt H i j⟩

example : let H : HG Nat := { nodes := [5, 6, 7, 8], edges := [[5, 6, 7], [7, 8], [6, 7, 8]] }
    nbrs (lineGraph id H 2) 2 = [0, 1] ∧ nbrs (lineGraph id H 2) 0 = [2] ∧
    nbrs (bipGraph id H) (nameN 3) = [nameE 1, nameE 2] := by decide +kernel

/-- both routines are carried along unchanged by an injective relabelling of the vertices of ANY graph (vertex list and edge
list mapped through `f`) -/
theorem C20_nx_relabel {V W : Type} [DecidableEq V] [DecidableEq W] (f : V → W) (hf : Function.Injective f) (g : Graph V) (v : V) :
    closeness (g.map f) (f v) = closeness g v ∧ betweenness (g.map f) (f v) = betweenness g v :=
  ⟨closeness_map f hf g v, betweenness_map f hf g v⟩

example : let g : Graph Nat := { verts := [0, 1, 2, 3], edges := [(0, 1), (1, 2), (2, 3)] }
    betweenness (g.map (· + 10)) 11 = betweenness g 1 ∧ (g.map (· + 10)).edges = [(10, 11), (11, 12), (12, 13)] :=
  ⟨(C20_nx_relabel (· + 10) (fun a b h => by simpa using h) _ 1).2, rfl⟩
