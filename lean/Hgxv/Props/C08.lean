import Hgxv.Proofs.C08Bfs
import Hgxv.Proofs.C08Hist
import Hgxv.Proofs.C08Nbrs
import Hgxv.Proofs.C08LinkC01
import Hgxv.Proofs.C08LinkDeg
import Hgxv.Proofs.C08LinkHist
import Hgxv.Proofs.C08Visit
import Hgxv.Proofs.C08Comp
/-! # C08 — degrees and connected components equal their combinatorial definitions

Property theorems about the model `Hgxv/Model/C08.lean` (specification vocabulary `Adj`, `Reach`, `WF`, `Disj` in
`Hgxv/Proofs/C08.lean`).  All statements hold for every node list, every list of hyperedges / keyed records and
every filter `f : Filt` (`none`, `size s`, `order o`); the SAME `f` appears on both sides of every statement.
Hypotheses are what the containers guarantee for the output of `get_nodes()/get_edges()`:
`nodes.Nodup` (dict keys), `keys.Nodup` (distinct records), duplicate-free hyperedges over nodes of the hypergraph
(`WF`).  They are spelled out per theorem; most theorems need none of them. -/
open C08

/-! ## degrees -/

/-- The degree of a node is the number of DISTINCT filtered records containing it: whatever duplicate-free listing
`L` of exactly the records that pass the filter and contain `n` one takes, `degree` is its length.  Generic over the
record type (`Hypergraph`: hyperedge; `TemporalHypergraph`: (time, hyperedge); `MultiplexHypergraph`: (hyperedge,
layer)); `hk`: the container lists distinct records. -/
theorem C08_degree {κ : Type} (members : κ → List Nat) (nodes : List Nat) (keys : List κ) (hk : keys.Nodup)
    (n : Nat) (hn : n ∈ nodes) (f : Filt) (L : List κ) (hL : L.Nodup)
    (hmem : ∀ k, k ∈ L ↔ k ∈ keys ∧ passes f (members k).length = true ∧ n ∈ members k) :
    degreeG? members nodes keys n f = some L.length := by
  simp only [degreeG?, hn, if_true, degG]
  congr 1
  apply List.Perm.length_eq
  apply (List.perm_ext_iff_of_nodup (hk.filter _) hL).mpr
  intro k
  rw [hmem k]
  exact mem_incidentG members keys n f k

/-- the filter means what its name says: `size=s` keeps the records with `s` members, `order=o` those with `o+1` -/
theorem C08_filter (len : Nat) (s o : Int) :
    passes .none len = true ∧ (passes (.size s) len = true ↔ (len : Int) = s) ∧
    (passes (.order o) len = true ↔ (len : Int) = o + 1) :=
  ⟨rfl, passes_size s len, passes_order o len⟩

/-- a node that is not in the hypergraph has no degree (the code raises) -/
theorem C08_degree_absent {κ : Type} (members : κ → List Nat) (nodes : List Nat) (keys : List κ) (n : Nat)
    (hn : n ∉ nodes) (f : Filt) : degreeG? members nodes keys n f = none := by
  simp [degreeG?, hn]

/-- `DirectedHypergraph`: the code adds the source-incident and the target-incident hyperedges; with disjoint sides
(C02's hyperedges) this is the number of hyperedges containing the node, filtered by the size of the whole
hyperedge. -/
theorem C08_degree_directed (keys : List (List Nat × List Nat)) (hdis : ∀ k ∈ keys, ∀ x ∈ k.1, x ∉ k.2)
    (n : Nat) (f : Filt) : dirDeg keys n f = degG dirMembers keys n f := by
  induction keys with
  | nil => simp [dirDeg, degG, incidentG]
  | cons k t ih =>
    have ih' := ih (fun k' hk' => hdis k' (List.mem_cons_of_mem _ hk'))
    have hd := hdis k List.mem_cons_self n
    rw [degG_cons, ← ih']
    simp only [dirDeg, List.filter_cons, dirMembers, List.length_append, List.mem_append, Bool.and_eq_true,
      decide_eq_true_eq]
    by_cases h1 : n ∈ k.1 <;> by_cases h2 : n ∈ k.2 <;> by_cases hp : passes f (k.1.length + k.2.length) = true <;>
      simp [h1, h2, hp] <;> first | omega | exact absurd h2 (hd h1)

/-- Handshake: the degrees sum to the total size of the filtered records (`hn`: `get_nodes()` has no repetition;
`hm`: every record is a duplicate-free tuple of nodes of the hypergraph). -/
theorem C08_handshake {κ : Type} (members : κ → List Nat) (nodes : List Nat) (keys : List κ) (hn : nodes.Nodup)
    (hm : ∀ k ∈ keys, (members k).Nodup ∧ ∀ x ∈ members k, x ∈ nodes) (f : Filt) :
    (nodes.map (fun n => degG members keys n f)).sum
      = ((keys.filter (fun k => passes f (members k).length)).map (fun k => (members k).length)).sum := by
  induction keys with
  | nil => simp only [degG, incidentG, List.filter_nil, List.length_nil, List.map_nil, List.sum_nil]; exact sum_map_zero nodes
  | cons k t ih =>
    have ih' := ih (fun k' hk' => hm k' (List.mem_cons_of_mem _ hk'))
    obtain ⟨hknd, hksub⟩ := hm k List.mem_cons_self
    simp only [degG_cons, sum_map_add, ih', List.filter_cons]
    by_cases hp : passes f (members k).length = true
    · simp only [hp, and_true, if_true, List.map_cons, List.sum_cons]
      rw [sum_indicator nodes (fun x => x ∈ members k), count_members nodes (members k) hn hknd hksub]
    · simp only [hp, and_false, if_false, Bool.false_eq_true]
      rw [sum_map_zero]; simp

/-- Handshake for `DirectedHypergraph` (hyperedges with disjoint duplicate-free sides over nodes of the hypergraph):
source and target incidences together sum to the total size `|sources| + |targets|` of the filtered hyperedges. -/
theorem C08_handshake_directed (nodes : List Nat) (keys : List (List Nat × List Nat)) (hn : nodes.Nodup)
    (hm : ∀ k ∈ keys, (k.1 ++ k.2).Nodup ∧ ∀ x ∈ k.1 ++ k.2, x ∈ nodes) (f : Filt) :
    (nodes.map (fun n => dirDeg keys n f)).sum
      = ((keys.filter (fun k => passes f (k.1.length + k.2.length))).map (fun k => k.1.length + k.2.length)).sum := by
  have hdis : ∀ k ∈ keys, ∀ x ∈ k.1, x ∉ k.2 := fun k hk x hx1 hx2 =>
    (List.nodup_append.mp (hm k hk).1).2.2 x hx1 x hx2 rfl
  have h := C08_handshake dirMembers nodes keys hn hm f
  simp only [dirMembers, List.length_append] at h
  rw [← h]
  congr 1
  apply List.map_congr_left
  intro n _
  exact C08_degree_directed keys hdis n f

/-- `degree_sequence` lists every node once, in `get_nodes()` order, with its degree; `degree_distribution` is the
histogram of those numbers: degree `d` is a key iff some node has it, its value is the number of such nodes, no key
repeats, and the values add up to the number of nodes. -/
theorem C08_seq_dist {κ : Type} (members : κ → List Nat) (nodes : List Nat) (keys : List κ) (f : Filt) :
    degreeSeqG members nodes keys f = nodes.map (fun n => (n, degG members keys n f)) ∧
    (∀ d, lookup d (degreeDistG members nodes keys f)
        = (let c := (nodes.map (fun n => degG members keys n f)).count d; if c = 0 then none else some c)) ∧
    ((degreeDistG members nodes keys f).map (·.1)).Nodup ∧
    ((degreeDistG members nodes keys f).map (·.2)).sum = nodes.length := by
  have hseq : ∀ g, degreeSeqG members nodes keys g = nodes.map (fun n => (n, degG members keys n g)) := by
    intro g; simp only [degreeSeqG, degG_toOrder]
  have hfold : degreeDistG members nodes keys f
      = (nodes.map (fun n => degG members keys n f)).foldl (fun a x => bump x a) [] := by
    simp only [degreeDistG, hseq, degG_toOrder, List.foldl_map]
  refine ⟨hseq f, ?_, ?_, ?_⟩
  · intro d
    rw [hfold, lookup_hist]
    simp [lookup]
  · rw [hfold]
    exact nodup_hist _ [] (by simp)
  · rw [hfold, sum_hist]; simp

/-- the same for the directed sequence / histogram -/
theorem C08_seq_dist_directed (nodes : List Nat) (keys : List (List Nat × List Nat)) (f : Filt) :
    dirDegreeSeq nodes keys f = nodes.map (fun n => (n, dirDeg keys n f)) ∧
    (∀ d, lookup d (dirDegreeDist nodes keys f)
        = (let c := (nodes.map (fun n => dirDeg keys n f)).count d; if c = 0 then none else some c)) := by
  have hd : ∀ g n, dirDeg keys n (toOrder g) = dirDeg keys n g := by
    intro g n; simp only [dirDeg, passes_toOrder]
  have hfold : dirDegreeDist nodes keys f = (nodes.map (fun n => dirDeg keys n f)).foldl (fun a x => bump x a) [] := by
    simp only [dirDegreeDist, dirDegreeSeq, hd, List.foldl_map]
  refine ⟨by simp only [dirDegreeSeq, hd], ?_⟩
  intro d
  rw [hfold, lookup_hist]
  simp [lookup]

/-! ## breadth-first search -/

/-- `_bfs(hg, u, order|size)` returns exactly the nodes reachable from `u` through hyperedges that pass the
filter, each once; it rejects a start node that is not in the hypergraph.  No hypothesis on the input. -/
theorem C08_bfs (nodes : List Nat) (es : List Edge) (f : Filt) (u : Nat) :
    (u ∈ nodes → ∃ c, bfsFrom nodes es f u = some c ∧ c.Nodup ∧ ∀ v, v ∈ c ↔ Reach es f u v) ∧
    (u ∉ nodes → bfsFrom nodes es f u = none) := by
  constructor
  · intro hu
    exact ⟨bfsH es f u, by simp [bfsFrom, hu], bfsH_nodup es f u, fun v => mem_bfsH es f u v⟩
  · intro hu; simp [bfsFrom, hu]

/-! ## connected components -/

/-- `connected_components(order|size)` is the partition of the node set into the classes of `Reach es f`:
the components cover the nodes and contain nothing else, are pairwise disjoint, non-empty, repetition-free, and each
one is the reachability class of each of its members.  (`WF` is only used for "nothing else".) -/
theorem C08_partition (nodes : List Nat) (es : List Edge) (f : Filt) (hwf : WF nodes es) :
    (∀ n ∈ nodes, ∃ c ∈ components nodes es f, n ∈ c) ∧
    (∀ c ∈ components nodes es f, ∀ x ∈ c, x ∈ nodes) ∧
    (components nodes es f).Pairwise Disj ∧
    (∀ c ∈ components nodes es f, c ≠ [] ∧ c.Nodup) ∧
    (∀ c ∈ components nodes es f, ∀ u ∈ c, ∀ v, v ∈ c ↔ Reach es f u v) := by
  obtain ⟨h1, h2, h3⟩ := components_spec nodes es f
  refine ⟨h3, ?_, h2, ?_, components_class nodes es f⟩
  · intro c hc x hx
    obtain ⟨r, hr, rfl⟩ := h1 c hc
    exact ((mem_bfsH es f r x).mp hx).mem_nodes hwf hr
  · intro c hc
    obtain ⟨r, _, rfl⟩ := h1 c hc
    exact ⟨List.ne_nil_of_mem ((mem_bfsH es f r r).mpr (Reach.refl r)), bfsH_nodup es f r⟩

/-- two nodes lie in a common component iff one is reachable from the other -/
theorem C08_same_component (nodes : List Nat) (es : List Edge) (f : Filt) (u v : Nat) (hu : u ∈ nodes) :
    (∃ c ∈ components nodes es f, u ∈ c ∧ v ∈ c) ↔ Reach es f u v := by
  constructor
  · rintro ⟨c, hc, huc, hvc⟩
    exact (components_class nodes es f c hc u huc v).mp hvc
  · intro hr
    obtain ⟨c, hc, huc⟩ := (components_spec nodes es f).2.2 u hu
    exact ⟨c, hc, huc, (components_class nodes es f c hc u huc v).mpr hr⟩

/-- `num_connected_components` is the number of reachability classes: every system of representatives `R` (nodes,
pairwise not reachable from each other, every node reachable from one of them) has exactly that many members. -/
theorem C08_count (nodes : List Nat) (es : List Edge) (f : Filt) (R : List Nat) (hR : ∀ r ∈ R, r ∈ nodes)
    (hpair : R.Pairwise (fun a b => ¬ Reach es f a b)) (hcov : ∀ n ∈ nodes, ∃ r ∈ R, Reach es f r n) :
    numComponents nodes es f = R.length :=
  components_count nodes es f R hR hpair hcov

/-- The two primitives of `hypergraph.py` that every C08 function reads.  `get_incident_edges(n, f)` lists exactly the
filtered hyperedges containing `n` (each once when the container lists distinct hyperedges; `degree` is its length).
`get_neighbors(n, f)` is exactly the set of the OTHER members of those hyperedges: it never contains `n` itself -
whatever equal object denotes the node, labels enter only through `==` - and lists nobody twice.  No hypothesis. -/
theorem C08_neighbors (es : List Edge) (f : Filt) (n : Nat) :
    (∀ e, e ∈ incident es n f ↔ e ∈ es ∧ n ∈ e ∧ passes f e.length = true) ∧
    (es.Nodup → (incident es n f).Nodup) ∧ deg es n f = (incident es n f).length ∧
    (∀ v, v ∈ neighbors es f n ↔ v ≠ n ∧ ∃ e ∈ incident es n f, v ∈ e) ∧
    n ∉ neighbors es f n ∧ (neighbors es f n).Nodup := by
  refine ⟨mem_incident es f n, incident_nodup es f n, rfl, ?_, self_not_mem_neighbors es f n, neighbors_nodup es f n⟩
  intro v
  rw [mem_neighbors]
  constructor
  · rintro ⟨hne, e, he, hp, hn, hv⟩
    exact ⟨hne, e, (mem_incident es f n e).mpr ⟨he, hn, hp⟩, hv⟩
  · rintro ⟨hne, e, he, hv⟩
    obtain ⟨he', hn, hp⟩ := (mem_incident es f n e).mp he
    exact ⟨hne, e, he', hp, hn, hv⟩

/-- non-vacuity: node 1 lies in a singleton hyperedge, a pair and a triple; with `size=1` it has an incident hyperedge
and no neighbour, with `size=2` the neighbour 0, without a filter the neighbours 0, 2, 3 -/
example : incident [[0, 1], [1], [1, 2, 3], [4]] 1 (.size 1) = [[1]] ∧ neighbors [[0, 1], [1], [1, 2, 3], [4]] (.size 1) 1 = []
    ∧ neighbors [[0, 1], [1], [1, 2, 3], [4]] (.size 2) 1 = [0] ∧ neighbors [[0, 1], [1], [1, 2, 3], [4]] .none 1 = [0, 2, 3] := by
  decide

/-- A node is isolated (`is_isolated`, `isolated_nodes`) iff no filtered hyperedge of size ≥ 2 contains it, iff its
reachability class is `{n}`, iff its connected component is the singleton `[n]`.
(Hyperedges are duplicate-free tuples: hypothesis of the "size ≥ 2" form only.) -/
theorem C08_isolated (nodes : List Nat) (es : List Edge) (f : Filt) (n : Nat) (hn : n ∈ nodes) :
    ((∀ e ∈ es, e.Nodup) →
      (isIsolated? nodes es f n = some true ↔ ∀ e ∈ es, passes f e.length = true → n ∈ e → e.length < 2)) ∧
    (isIsolated? nodes es f n = some true ↔ ∀ v, Reach es f n v ↔ v = n) ∧
    (isIsolated? nodes es f n = some true ↔ [n] ∈ components nodes es f) ∧
    (n ∈ isolatedNodes nodes es f ↔ isIsolated? nodes es f n = some true) := by
  have hiso : isIsolated? nodes es f n = some true ↔ ∀ v, Adj es f n v → v = n := by
    simp only [isIsolated?, hn, if_true, Option.some.injEq, List.isEmpty_iff, neighbors_eq_nil_iff]
  have hreach : (∀ v, Adj es f n v → v = n) ↔ ∀ v, Reach es f n v ↔ v = n := by
    constructor
    · intro h v
      exact ⟨reach_of_no_adj es f n h v, fun hv => by rw [hv]; exact Reach.refl n⟩
    · intro h v ha
      exact (h v).mp (Reach.single ha)
  refine ⟨?_, hiso.trans hreach, ?_, ?_⟩
  · intro hnd
    rw [hiso]
    constructor
    · intro h e he hp hne
      apply Decidable.byContradiction
      intro hlen
      obtain ⟨v, hv, hvn⟩ := exists_ne_of_two_le e (hnd e he) (by omega) n
      exact hvn (h v ⟨e, he, hp, hne, hv⟩)
    · intro h v ⟨e, he, hp, hne, hv⟩
      apply Decidable.byContradiction
      intro hvn
      have := two_le_of_mem_ne e n v hne hv hvn
      have := h e he hp hne
      omega
  · rw [hiso.trans hreach]
    constructor
    · intro h
      obtain ⟨c, hc, hnc⟩ := (components_spec nodes es f).2.2 n hn
      obtain ⟨r, _, hr⟩ := (components_spec nodes es f).1 c hc
      have hmem : ∀ v, v ∈ c ↔ v = n := fun v => (components_class nodes es f c hc n hnc v).trans (h v)
      have hcnd : c.Nodup := hr ▸ bfsH_nodup es f r
      have : c = [n] := by
        match c, hmem, hcnd with
        | [], hmem, _ => exact absurd ((hmem n).mpr rfl) (by simp)
        | [a], hmem, _ => rw [(hmem a).mp List.mem_cons_self]
        | a :: b :: t, hmem, hcnd =>
          have ha := (hmem a).mp List.mem_cons_self
          have hb := (hmem b).mp (by simp)
          rw [ha, hb] at hcnd
          exact absurd List.mem_cons_self (List.nodup_cons.mp hcnd).1
      exact this ▸ hc
    · intro hc v
      rw [← components_class nodes es f [n] hc n List.mem_cons_self v]
      simp
  · simp only [isolatedNodes, isIsolated?, hn, if_true, List.mem_filter, true_and, Option.some.injEq]

/-- All wrappers of `utils/cc.py` agree with the partition of `C08_partition` under the SAME filter `f`:
count, connectedness, the component of a node, the largest component and its size. -/
theorem C08_consistent (nodes : List Nat) (es : List Edge) (f : Filt) :
    numComponents nodes es f = (components nodes es f).length ∧
    (isConnected nodes es f = true ↔ (components nodes es f).length = 1) ∧
    (isConnected nodes es f = true ↔ nodes ≠ [] ∧ ∀ u ∈ nodes, ∀ v ∈ nodes, Reach es f u v) ∧
    (∀ n ∈ nodes, ∃ c' c, nodeComponent nodes es f n = some c' ∧ c ∈ components nodes es f ∧ n ∈ c ∧ c.Perm c') ∧
    (∀ n, n ∉ nodes → nodeComponent nodes es f n = none) ∧
    (nodes ≠ [] → ∃ c ∈ components nodes es f, largestComponent nodes es f = some c ∧
        largestComponentSize nodes es f = some c.length ∧ ∀ d ∈ components nodes es f, d.length ≤ c.length) ∧
    (nodes = [] → components nodes es f = [] ∧ largestComponent nodes es f = none ∧
        largestComponentSize nodes es f = none) := by
  obtain ⟨h1, h2, h3⟩ := components_spec nodes es f
  have hnonempty : ∀ c ∈ components nodes es f, ∃ x ∈ nodes, x ∈ c := by
    intro c hc
    obtain ⟨r, hr, rfl⟩ := h1 c hc
    exact ⟨r, hr, (mem_bfsH es f r r).mpr (Reach.refl r)⟩
  refine ⟨rfl, by simp [isConnected], ?_, ?_, ?_, ?_, ?_⟩
  · simp only [isConnected, beq_iff_eq]
    constructor
    · intro hlen
      match hcs : components nodes es f, hlen with
      | [c], _ =>
        rw [hcs] at h3 hnonempty
        obtain ⟨x, hx, _⟩ := hnonempty c List.mem_cons_self
        refine ⟨List.ne_nil_of_mem hx, ?_⟩
        intro u hu v hv
        obtain ⟨cu, hcu, huc⟩ := h3 u hu
        obtain ⟨cv, hcv, hvc⟩ := h3 v hv
        simp only [List.mem_singleton] at hcu hcv
        rw [hcu] at huc; rw [hcv] at hvc
        exact (components_class nodes es f c (by rw [hcs]; exact List.mem_cons_self) u huc v).mp hvc
    · rintro ⟨hne, hall⟩
      match hcs : components nodes es f with
      | [] =>
        obtain ⟨x, hx⟩ := List.exists_mem_of_ne_nil _ hne
        obtain ⟨c, hc, _⟩ := h3 x hx
        rw [hcs] at hc; cases hc
      | [c] => rfl
      | a :: b :: t =>
        exfalso
        rw [hcs] at h2 hnonempty
        obtain ⟨x, hx, hxa⟩ := hnonempty a List.mem_cons_self
        obtain ⟨y, hy, hyb⟩ := hnonempty b (by simp)
        have hya : y ∈ a :=
          (components_class nodes es f a (by rw [hcs]; exact List.mem_cons_self) x hxa y).mpr (hall x hx y hy)
        have hdisj : Disj a b := (List.pairwise_cons.mp h2).1 b List.mem_cons_self
        exact hdisj y hya hyb
  · intro n hn
    obtain ⟨c, hc, hnc⟩ := h3 n hn
    obtain ⟨r, _, hr⟩ := h1 c hc
    refine ⟨bfsH es f n, c, by simp [nodeComponent, bfsFrom, hn], hc, hnc, ?_⟩
    apply (List.perm_ext_iff_of_nodup (hr ▸ bfsH_nodup es f r) (bfsH_nodup es f n)).mpr
    intro v
    rw [components_class nodes es f c hc n hnc v, mem_bfsH]
  · intro n hn; simp [nodeComponent, bfsFrom, hn]
  · intro hne
    have hcne : components nodes es f ≠ [] := by
      obtain ⟨x, hx⟩ := List.exists_mem_of_ne_nil _ hne
      obtain ⟨c, hc, _⟩ := h3 x hx
      exact List.ne_nil_of_mem hc
    obtain ⟨c, hmax, hc, hle⟩ := maxByLen_spec _ hcne
    exact ⟨c, hc, hmax, by simp [largestComponentSize, largestComponent, hmax], hle⟩
  · intro hnil
    have : components nodes es f = [] := by subst hnil; rfl
    simp [largestComponentSize, largestComponent, this, maxByLen]

/-! ## non-vacuity: the hypotheses are satisfiable and the conclusions are not trivial

`D23`'s shape: a size-2 path `0-1`, a size-3 hyperedge `{1,2,3}`, a size-2 hyperedge `3-4`, an isolated node 5 and a
singleton hyperedge `{6}`. -/

def exNodes : List Nat := [0, 1, 2, 3, 4, 5, 6]
def exEdges : List Edge := [[0, 1], [1, 2, 3], [3, 4], [6]]

example : exNodes.Nodup ∧ exEdges.Nodup ∧ WF exNodes exEdges ∧ ∀ e ∈ exEdges, e.Nodup := by
  refine ⟨by decide, by decide, ?_, by decide⟩
  intro e he x hx
  simp only [exEdges, List.mem_cons, List.not_mem_nil, or_false] at he
  rcases he with rfl | rfl | rfl | rfl <;> simp [exNodes] at hx ⊢ <;> omega

-- degrees: node 1 lies in two hyperedges, one of size 2 and one of size 3
example : degree? exNodes exEdges 1 .none = some 2 ∧ degree? exNodes exEdges 1 (.size 2) = some 1
    ∧ degree? exNodes exEdges 1 (.order 2) = some 1 ∧ degree? exNodes exEdges 9 .none = none := by decide
-- handshake: 2 + 3 + 2 + 1 = 8, and 2 + 2 = 4 with size=2
example : ((exNodes.map (fun n => deg exEdges n .none)).sum, (exNodes.map (fun n => deg exEdges n (.size 2))).sum)
    = (8, 4) := by decide
example : degreeSeq exNodes exEdges (.size 2) = [(0, 1), (1, 1), (2, 0), (3, 1), (4, 1), (5, 0), (6, 0)]
    ∧ degreeDist exNodes exEdges (.size 2) = [(1, 4), (0, 3)] := by decide
example : dirDeg [([0, 1], [2]), ([2], [0])] 0 .none = 2 ∧ dirDeg [([0, 1], [2]), ([2], [0])] 0 (.size 3) = 1 := by
  decide
-- BFS / components: the three filters give three different partitions (`bfs` is defined by well-founded recursion,
-- so it is evaluated by rewriting with its equations instead of `decide`)
macro "c08_eval" : tactic => `(tactic|
  simp [components, compLoop, isConnected, numComponents, largestComponent, largestComponentSize, maxByLen,
    nodeComponent, bfsFrom, bfsH, bfs, neighbors, incident, incidentG, addAll, addNew, passes, exEdges, exNodes])

set_option maxRecDepth 4000 in
example : bfsFrom exNodes exEdges .none 0 = some [4, 3, 2, 1, 0] ∧ bfsFrom exNodes exEdges (.size 2) 0 = some [1, 0]
    ∧ bfsFrom exNodes exEdges .none 7 = none := by c08_eval
set_option maxRecDepth 4000 in
example : components exNodes exEdges .none = [[4, 3, 2, 1, 0], [5], [6]]
    ∧ components exNodes exEdges (.size 2) = [[1, 0], [2], [4, 3], [5], [6]]
    ∧ components exNodes exEdges (.size 3) = [[0], [3, 2, 1], [4], [5], [6]] := by c08_eval
set_option maxRecDepth 4000 in
example : Reach exEdges .none 0 4 ∧ ¬ Reach exEdges (.size 2) 0 4 := by
  have a01 : Adj exEdges .none 0 1 := ⟨[0, 1], by decide, rfl, by decide, by decide⟩
  have a13 : Adj exEdges .none 1 3 := ⟨[1, 2, 3], by decide, rfl, by decide, by decide⟩
  have a34 : Adj exEdges .none 3 4 := ⟨[3, 4], by decide, rfl, by decide, by decide⟩
  refine ⟨((Reach.single a01).step a13).step a34, fun h => ?_⟩
  obtain ⟨c, hc, _, hmem⟩ := (C08_bfs exNodes exEdges (.size 2) 0).1 (by decide)
  have hb : bfsFrom exNodes exEdges (.size 2) 0 = some [1, 0] := by c08_eval
  rw [hb] at hc
  cases hc
  exact absurd ((hmem 4).mpr h) (by decide)
set_option maxRecDepth 4000 in
example : ∃ R : List Nat, (∀ r ∈ R, r ∈ exNodes) ∧ R.Pairwise (fun a b => ¬ Reach exEdges .none a b) ∧
    (∀ n ∈ exNodes, ∃ r ∈ R, Reach exEdges .none r n) ∧ R.length = 3 := by
  have b0 : bfsH exEdges .none 0 = [4, 3, 2, 1, 0] := by c08_eval
  have b5 : bfsH exEdges .none 5 = [5] := by c08_eval
  have r0 : ∀ v, Reach exEdges .none 0 v ↔ v ∈ [4, 3, 2, 1, 0] := fun v => by rw [← b0, mem_bfsH]
  have r5 : ∀ v, Reach exEdges .none 5 v ↔ v ∈ [5] := fun v => by rw [← b5, mem_bfsH]
  refine ⟨[0, 5, 6], by decide, ?_, ?_, rfl⟩
  · simp [r0, r5]
  · intro n hn
    simp only [exNodes, List.mem_cons, List.not_mem_nil, or_false] at hn
    rcases hn with rfl | rfl | rfl | rfl | rfl | rfl | rfl
    · exact ⟨0, by decide, (r0 _).mpr (by decide)⟩
    · exact ⟨0, by decide, (r0 _).mpr (by decide)⟩
    · exact ⟨0, by decide, (r0 _).mpr (by decide)⟩
    · exact ⟨0, by decide, (r0 _).mpr (by decide)⟩
    · exact ⟨0, by decide, (r0 _).mpr (by decide)⟩
    · exact ⟨5, by decide, Reach.refl 5⟩
    · exact ⟨6, by decide, Reach.refl 6⟩
set_option maxRecDepth 4000 in
example : isConnected exNodes exEdges .none = false ∧ isConnected [0, 1, 2] [[0, 1], [1, 2]] (.order 1) = true
    ∧ numComponents exNodes exEdges (.size 2) = 5 ∧ largestComponent exNodes exEdges (.size 3) = some [3, 2, 1]
    ∧ largestComponentSize exNodes exEdges (.size 2) = some 2 ∧ largestComponent [] [] .none = none := by c08_eval
example : isolatedNodes exNodes exEdges .none = [5, 6] ∧ isolatedNodes exNodes exEdges (.size 3) = [0, 4, 5, 6]
    ∧ isIsolated? exNodes exEdges (.size 2) 2 = some true ∧ isIsolated? exNodes exEdges .none 2 = some false := by
  decide

/-! ## every object a user can hold

"For every hypergraph" ranges over every `Hypergraph` object reachable through a program of the public operations over
several objects (`Hgxv/Model/C08Hist.lean`: `add_node`, `add_edge`, `remove_edge`, `remove_node(keep_edges)`, `clear`,
`copy`, `subhypergraph`; batches and the constructor are sequences of these).  The theorems above take the listing
`get_nodes()` / `get_edges()` of such an object; the next ones say that every reachable object meets their hypotheses
and that an operation on one object leaves every other object alone. -/

/-- Every object of every program state satisfies the hypotheses used above: distinct nodes, distinct canonical
(strictly increasing, hence duplicate-free) hyperedges over nodes of the object.  `hv`: `add_edge` is given
duplicate-free tuples (the property's hyperedges); rejected operations (`none`: the code raises) end a program. -/
theorem C08_history_wf (ops : List Hist.Op) (hv : ∀ op ∈ ops, op.Valid) (st : List Hist.Content)
    (hr : Hist.run [{}] ops = some st) (c : Hist.Content) (hc : c ∈ st) :
    c.nodes.Nodup ∧ c.es.Nodup ∧ WF c.nodes c.es ∧ (∀ e ∈ c.es, e.Nodup) ∧ (∀ e ∈ c.es, e.Pairwise (· < ·)) := by
  have h := Hist.inv_run ops [{}] st hv (by intro d hd; simp at hd; subst hd; exact Hist.inv_empty) hr c hc
  exact ⟨h.nodes_nodup, h.es_nodup, h.wf, fun e he => Hist.nodup_of_sorted e (h.sorted e he), h.sorted⟩

/-- An operation applied to object `i` leaves every other object `j` of the program exactly as it was (`copy` and
`subhypergraph` change no existing object), and the object `copy` appends has the content of its source.  This is what
a copy sharing adjacency lists with its original violates. -/
theorem C08_history_frame (st st' : List Hist.Content) (op : Hist.Op) (hs : Hist.step st op = some st') :
    (∀ j, j < st.length → op.target ≠ some j → st'[j]? = st[j]?) ∧
    (∀ i, op = .copy i → st'[st.length]? = st[i]? ∧ st'.length = st.length + 1) :=
  ⟨fun j hj ht => Hist.frame_step st st' op j hj ht hs, fun i hi => Hist.copy_step st st' i (hi ▸ hs)⟩

/-- Handshake for every reachable object, every filter: no hypothesis on the content is left. -/
theorem C08_history_handshake (ops : List Hist.Op) (hv : ∀ op ∈ ops, op.Valid) (st : List Hist.Content)
    (hr : Hist.run [{}] ops = some st) (c : Hist.Content) (hc : c ∈ st) (f : Filt) :
    (c.nodes.map (fun n => deg c.es n f)).sum
      = ((c.es.filter (fun e => passes f e.length)).map (fun e => e.length)).sum := by
  obtain ⟨hn, _, hwf, hnd, _⟩ := C08_history_wf ops hv st hr c hc
  exact C08_handshake id c.nodes c.es hn (fun e he => ⟨hnd e he, hwf e he⟩) f

/-- non-vacuity: a program with a temporary hyperedge, a copy, and later mutations of both objects -/
def exProgram : List Hist.Op :=
  [.addEdge 0 [2, 1], .addEdge 0 [9, 8], .addEdge 0 [4, 2, 3], .removeEdge 0 [8, 9], .copy 0,
   .removeEdge 1 [1, 2], .addEdge 1 [1, 9], .removeNode 0 2 true, .sub 0 [3, 4, 8]]

example : (∀ op ∈ exProgram, op.Valid) ∧ Hist.run [{}] exProgram = some
    [⟨[1, 8, 9, 3, 4], [[1], [3, 4]]⟩, ⟨[1, 2, 8, 9, 3, 4], [[2, 3, 4], [1, 9]]⟩, ⟨[3, 4, 8], [[3, 4]]⟩] := by
  refine ⟨?_, by decide⟩
  intro op hop
  simp only [exProgram, List.mem_cons, List.mem_nil_iff, or_false] at hop
  rcases hop with h | h | h | h | h | h | h | h | h <;> subst h <;> simp [Hist.Op.Valid]

/-- **Rejected calls inside a program; objects that enter a program from outside.**  `Hist.runSkip` is the history a user
really has: a call the code rejects (`Hist.step = none`: `remove_edge` / `remove_node` of something absent, an object that does
not exist) raises, the exception is caught and the program goes on.  For every such program - which may also take over objects
made by a loader / generator / filter (`Op.load`), restore a snapshot (`Op.restore` = `populate_from_dict`) or continue from the
listing of an object (`Op.put`) - every object still has distinct nodes, distinct duplicate-free hyperedges over its nodes, and
its degrees sum to the total size of its (filtered) hyperedges; a rejected call leaves the WHOLE state as it was, and a program
without rejected calls is `Hist.run`.  Hypotheses (`Op.Valid`): `add_edge` gets a duplicate-free tuple; a listing taken from
outside is well-formed (the harness checks that on the listing itself before it hands it to the model). -/
theorem C08_history_rejected (ops : List Hist.Op) (hv : ∀ op ∈ ops, op.Valid) (c : Hist.Content)
    (hc : c ∈ Hist.runSkip [{}] ops) (f : Filt) :
    (c.nodes.Nodup ∧ c.es.Nodup ∧ WF c.nodes c.es ∧ (∀ e ∈ c.es, e.Nodup) ∧ (∀ e ∈ c.es, e.Pairwise (· < ·))) ∧
    (c.nodes.map (fun n => deg c.es n f)).sum
      = ((c.es.filter (fun e => passes f e.length)).map (fun e => e.length)).sum ∧
    (∀ st op, Hist.step st op = none → Hist.stepSkip st op = st) ∧
    (∀ st, Hist.run [{}] ops = some st → Hist.runSkip [{}] ops = st) := by
  have h := Hist.inv_runSkip ops [{}] hv (by intro d hd; simp at hd; subst hd; exact Hist.inv_empty) c hc
  have hnd : ∀ e ∈ c.es, e.Nodup := fun e he => Hist.nodup_of_sorted e (h.sorted e he)
  exact ⟨⟨h.nodes_nodup, h.es_nodup, h.wf, hnd, h.sorted⟩,
    C08_handshake id c.nodes c.es h.nodes_nodup (fun e he => ⟨hnd e he, h.wf e he⟩) f,
    fun st op hs => (Hist.stepSkip_eq st op).1 hs,
    fun st hr => Hist.runSkip_of_run ops [{}] st hr⟩

/-- non-vacuity: rejected removals (absent hyperedge, absent node, absent object) in the middle of a program, an object taken
over from a generator, a snapshot restored into it, and a listing put in place of the first object; `Hist.run` gives up at
the first rejected call -/
def exRejected : List Hist.Op :=
  [.addEdge 0 [2, 1], .removeEdge 0 [1, 3], .addEdge 0 [3, 2, 4], .removeNode 0 7 false, .load ⟨[0, 1, 2], [[0, 1]]⟩,
   .removeEdge 5 [1, 2], .addNode 1 9, .restore 1 0, .removeEdge 1 [1, 2], .put 0 ⟨[5, 6], [[5, 6], [6]]⟩, .clear 0, .addNode 0 6]

example : (∀ op ∈ exRejected, op.Valid) ∧ Hist.run [{}] exRejected = none ∧
    Hist.runSkip [{}] exRejected = [⟨[6], []⟩, ⟨[1, 2, 3, 4], [[2, 3, 4]]⟩] := by
  refine ⟨?_, by decide, by decide⟩
  intro op hop
  simp only [exRejected, List.mem_cons, List.mem_nil_iff, or_false] at hop
  rcases hop with h | h | h | h | h | h | h | h | h | h | h | h <;> subst h <;>
    first
      | (simp [Hist.Op.Valid]; done)
      | exact ⟨by decide, by decide, by decide, by decide⟩

/-! ## Links to the full container models (C01 … C04)

The theorems above take LISTINGS.  The four container classes have complete models with refinement proofs for every
history of public calls (`Hgxv/Model/C01 … C04.lean`: concrete id-indexed `Store`, abstract `Spec`, `abs`, class invariant,
`answer` / query functions).  `Hgxv/Proofs/C08LinkC01.lean`, `C08LinkDeg.lean`, `C08LinkHist.lean` compose the two, and the
corollaries below quantify over EVERY history: `cs` is any finite list of well-formed public calls on `k` slots
(`C01.Cmd`: constructor, `copy`, the 18 mutating calls, accepted or rejected), `s` the object in slot `i` afterwards.
No hypothesis on the content is left: distinct nodes, distinct canonical hyperedges over nodes of the object, incidence
sound and complete are discharged from the class invariant (`C01.run_inv` etc.).

Vocabulary (`namespace C08.Link`): `nodesOf s` / `edgesOf s` = what `get_nodes()` / `get_edges()` of the object list;
`toFilter f` = the `order=` / `size=` keywords of a C08 filter; `componentsObj s f` / `bfsFromObj s f u` = the code of
`connected_components` / `_bfs` run against the GETTERS of the object (`get_nodes`, `check_node`, `get_neighbors`);
`C01.abs s` = the abstract hypergraph of the history (`C08_link_listing`): node ↦ metadata, node set ↦ (weight,
metadata); `Reach (keys (abs s).edges) f` is the property's reachability relation on that abstract content. -/
open C08.Link

/-- **What the object lists, for every history.**  `get_nodes()` / `get_edges()` of the object are `nodesOf s` /
`edgesOf s`; the abstract run of the same history has `C01.abs s` in the same slot and answers EVERY getter identically;
the two listings are the key lists of that abstract hypergraph, and they satisfy every hypothesis used by the C08
theorems: no node twice, no hyperedge twice, every hyperedge a duplicate-free sorted tuple of nodes of the object. -/
theorem C08_link_listing (k : Nat) (cs : List C01.Cmd) (hwf : ∀ c ∈ cs, c.WF) (i : Nat) (s : C01.Store)
    (hs : (C01.run (C01.init k) cs)[i]? = some s) :
    C01.answer s .nodes = .nats (nodesOf s) ∧ C01.answer s (.edges {}) = .edges (edgesOf s) ∧
    (C01.Spec.run (C01.Spec.init k) cs)[i]? = some (C01.abs s) ∧
    (∀ q, C01.answer s q = C01.Spec.answer (C01.abs s) q) ∧
    nodesOf s = AL.keys (C01.abs s).nodes ∧ edgesOf s = AL.keys (C01.abs s).edges ∧
    (nodesOf s).Nodup ∧ (edgesOf s).Nodup ∧ WF (nodesOf s) (edgesOf s) ∧
    (∀ e ∈ edgesOf s, e.Nodup ∧ e.Pairwise (· ≤ ·)) := by
  have h := C08.Link.inv_of_history k cs hwf i s hs
  have hsim := (C01.run_sim cs _ _ hwf (C01.init_sim k)).1
  obtain ⟨w1, w2, w3, w4, w5⟩ := listing_wf h
  refine ⟨answer_nodes s, answer_edges s, ?_, C01.answer_abs s h, (listing_abs h).1, (listing_abs h).2, w1, w2, w3,
    fun e he => ⟨w4 e he, w5 e he⟩⟩
  rw [hsim, List.getElem?_map, hs]; rfl

/-- **Every getter C08 reads, for every history.**  With the filter `f` handed over as keywords, the object answers
`get_incident_edges`, `get_neighbors`, `degree`, `degree_sequence`, `degree_distribution`, `isolated_nodes`,
`is_isolated` exactly as the C08 functions compute them from the two listings - same values, same listing order, rejected
(`rej`: the call raises) exactly for a node that is not in the hypergraph. -/
theorem C08_link_getters (k : Nat) (cs : List C01.Cmd) (hwf : ∀ c ∈ cs, c.WF) (i : Nat) (s : C01.Store)
    (hs : (C01.run (C01.init k) cs)[i]? = some s) (f : Filt) (n : Nat) :
    C01.answer s (.incident n (toFilter f)) =
      (if n ∈ nodesOf s then .edges (incident (edgesOf s) n f) else .rej) ∧
    C01.answer s (.neighbors n (toFilter f)) =
      (if n ∈ nodesOf s then .nats (neighbors (edgesOf s) f n) else .rej) ∧
    C01.answer s (.degree n (toFilter f)) =
      (match degree? (nodesOf s) (edgesOf s) n f with
        | some d => .int d
        | none => .rej) ∧
    C01.answer s (.degreeSeq (toFilter f)) =
      .pairs ((degreeSeq (nodesOf s) (edgesOf s) f).map fun p => ((p.1 : Int), p.2)) ∧
    C01.answer s (.degreeDist (toFilter f)) =
      .pairs ((degreeDist (nodesOf s) (edgesOf s) f).map fun p => ((p.1 : Int), p.2)) ∧
    C01.answer s (.isolated (toFilter f)) = .nats (isolatedNodes (nodesOf s) (edgesOf s) f) ∧
    C01.answer s (.isIsolated n (toFilter f)) =
      (match isIsolated? (nodesOf s) (edgesOf s) f n with
        | some b => .bool b
        | none => .rej) := by
  have h := C08.Link.inv_of_history k cs hwf i s hs
  exact ⟨answer_incident h n f, answer_neighbors h n f, answer_degree h n f, answer_degreeSeq h f,
    answer_degreeDist h f, answer_isolated h f, answer_isIsolated h n f⟩

/-- **Degrees, for every history** (`C08_degree`, `C08_handshake`, `C08_seq_dist` composed with C01).  `K` = the node
sets of the abstract hypergraph of the history.  The degree the object answers for a node `n` is the number of DISTINCT
members of `K` that pass the filter and contain `n` (the length of any duplicate-free listing `L` of exactly those); a
node that is not in the hypergraph is rejected; `degree_sequence` lists every node once, in `get_nodes()` order, with the
degree the object answers for it; those numbers sum to the total size of the filtered members of `K`; and
`degree_distribution` is their histogram. -/
theorem C08_link_degree (k : Nat) (cs : List C01.Cmd) (hwf : ∀ c ∈ cs, c.WF) (i : Nat) (s : C01.Store)
    (hs : (C01.run (C01.init k) cs)[i]? = some s) (f : Filt) :
    let K := AL.keys (C01.abs s).edges
    (∀ n ∈ nodesOf s, ∀ L : List Edge, L.Nodup →
        (∀ e, e ∈ L ↔ e ∈ K ∧ passes f e.length = true ∧ n ∈ e) →
        C01.answer s (.degree n (toFilter f)) = .int L.length) ∧
    (∀ n, n ∉ nodesOf s → C01.answer s (.degree n (toFilter f)) = .rej) ∧
    (∃ seq : List (Nat × Nat),
        C01.answer s (.degreeSeq (toFilter f)) = .pairs (seq.map fun p => ((p.1 : Int), p.2)) ∧
        seq.map (·.1) = nodesOf s ∧
        (∀ p ∈ seq, C01.answer s (.degree p.1 (toFilter f)) = .int p.2) ∧
        (seq.map (·.2)).sum = ((K.filter (fun e => passes f e.length)).map List.length).sum ∧
        ∃ dist : List (Nat × Nat),
          C01.answer s (.degreeDist (toFilter f)) = .pairs (dist.map fun p => ((p.1 : Int), p.2)) ∧
          (dist.map (·.1)).Nodup ∧ (dist.map (·.2)).sum = (nodesOf s).length ∧
          ∀ d, lookup d dist = (let c := (seq.map (·.2)).count d; if c = 0 then none else some c)) := by
  intro K
  have h := C08.Link.inv_of_history k cs hwf i s hs
  have hK : edgesOf s = K := (listing_abs h).2
  obtain ⟨w1, w2, w3, w4, _⟩ := listing_wf h
  have hdeg : ∀ n ∈ nodesOf s, C01.answer s (.degree n (toFilter f)) = .int (deg (edgesOf s) n f) := by
    intro n hn
    rw [answer_degree h n f]
    simp only [degree?, degreeG?, hn, if_true]
    rfl
  refine ⟨?_, ?_, ?_⟩
  · intro n hn L hL hmem
    have := C08_degree id (nodesOf s) (edgesOf s) w2 n hn f L hL (by rw [hK]; exact hmem)
    rw [answer_degree h n f]
    show (match degreeG? id (nodesOf s) (edgesOf s) n f with
      | some d => C01.Ans.int d
      | none => C01.Ans.rej) = _
    rw [this]
  · intro n hn
    rw [answer_degree h n f]
    simp only [degree?, degreeG?, hn, if_false]
  · obtain ⟨q1, q2, q3, q4⟩ := C08_seq_dist id (nodesOf s) (edgesOf s) f
    have hsnd : (degreeSeq (nodesOf s) (edgesOf s) f).map (·.2) = (nodesOf s).map (fun n => deg (edgesOf s) n f) := by
      show (degreeSeqG id (nodesOf s) (edgesOf s) f).map (·.2) = _
      rw [q1, List.map_map]; rfl
    refine ⟨degreeSeq (nodesOf s) (edgesOf s) f, answer_degreeSeq h f, ?_, ?_, ?_,
      degreeDist (nodesOf s) (edgesOf s) f, answer_degreeDist h f, q3, q4, ?_⟩
    · show (degreeSeqG id (nodesOf s) (edgesOf s) f).map (·.1) = _
      rw [q1, List.map_map]
      exact List.map_id' _
    · intro p hp
      have hp' : p ∈ degreeSeqG id (nodesOf s) (edgesOf s) f := hp
      rw [q1] at hp'
      obtain ⟨n, hn, rfl⟩ := List.mem_map.mp hp'
      exact hdeg n hn
    · rw [hsnd, ← hK]
      exact C08_handshake id (nodesOf s) (edgesOf s) w1 (fun e he => ⟨w4 e he, w3 e he⟩) f
    · intro d
      rw [hsnd]
      exact q2 d

/-- **Connected components, for every history** (`C08_bfs`, `C08_partition` composed with C01).  The loop of
`connected_components(order|size)` run against `get_nodes()` / `get_neighbors()` of the object returns the partition of
its node set into the classes of the reachability relation generated by the filtered node sets `K` of the abstract
hypergraph of the history: the components cover the nodes and contain nothing else, are pairwise disjoint, non-empty,
repetition-free, each one is the class of each of its members; `_bfs(hg, u, order|size)` returns the class of `u`, each
member once, and rejects a `u` that is not in the hypergraph.  (First conjunct: that loop IS the C08 function of the two
listings.) -/
theorem C08_link_components (k : Nat) (cs : List C01.Cmd) (hwf : ∀ c ∈ cs, c.WF) (i : Nat) (s : C01.Store)
    (hs : (C01.run (C01.init k) cs)[i]? = some s) (f : Filt) :
    let K := AL.keys (C01.abs s).edges
    componentsObj s f = components (nodesOf s) (edgesOf s) f ∧
    (∀ n ∈ nodesOf s, ∃ c ∈ componentsObj s f, n ∈ c) ∧
    (∀ c ∈ componentsObj s f, ∀ x ∈ c, x ∈ nodesOf s) ∧
    (componentsObj s f).Pairwise Disj ∧
    (∀ c ∈ componentsObj s f, c ≠ [] ∧ c.Nodup) ∧
    (∀ c ∈ componentsObj s f, ∀ u ∈ c, ∀ v, v ∈ c ↔ Reach K f u v) ∧
    (∀ u, (u ∈ nodesOf s → ∃ c, bfsFromObj s f u = some c ∧ c.Nodup ∧ ∀ v, v ∈ c ↔ Reach K f u v) ∧
          (u ∉ nodesOf s → bfsFromObj s f u = none)) := by
  intro K
  have h := C08.Link.inv_of_history k cs hwf i s hs
  have hK : edgesOf s = K := (listing_abs h).2
  have hwf' : WF (nodesOf s) (edgesOf s) := (listing_wf h).2.2.1
  obtain ⟨p1, p2, p3, p4, p5⟩ := C08_partition (nodesOf s) (edgesOf s) f hwf'
  rw [componentsObj_eq h f]
  refine ⟨rfl, p1, p2, p3, p4, by rw [← hK]; exact p5, ?_⟩
  intro u
  rw [bfsFromObj_eq h f u, ← hK]
  exact C08_bfs (nodesOf s) (edgesOf s) f u

/-- **The wrappers of `utils/cc.py`, for every history** (`C08_consistent`, `C08_count`, `C08_isolated` composed with
C01).  With `comps` = what `connected_components(order|size)` returns on the object: `is_connected`
(`len(comps) == 1`) holds iff the hypergraph has a node and all its nodes are mutually reachable; `len(comps)` is the
number of reachability classes (the length of every system of representatives); `node_connected_component(n)` is, as a
set, the member of `comps` containing `n`; `max(comps, key=len)` is a member of maximal length (and raises on the empty
hypergraph); `is_isolated(n)` as the object answers it holds iff `[n]` is a component, iff no filtered abstract hyperedge
of size ≥ 2 contains `n`; `isolated_nodes` lists exactly those nodes.  The SAME filter everywhere. -/
theorem C08_link_wrappers (k : Nat) (cs : List C01.Cmd) (hwf : ∀ c ∈ cs, c.WF) (i : Nat) (s : C01.Store)
    (hs : (C01.run (C01.init k) cs)[i]? = some s) (f : Filt) :
    let K := AL.keys (C01.abs s).edges
    let comps := componentsObj s f
    ((comps.length == 1) = true ↔ nodesOf s ≠ [] ∧ ∀ u ∈ nodesOf s, ∀ v ∈ nodesOf s, Reach K f u v) ∧
    (∀ R : List Nat, (∀ r ∈ R, r ∈ nodesOf s) → R.Pairwise (fun a b => ¬ Reach K f a b) →
        (∀ n ∈ nodesOf s, ∃ r ∈ R, Reach K f r n) → comps.length = R.length) ∧
    (∀ n ∈ nodesOf s, ∃ c' c, bfsFromObj s f n = some c' ∧ c ∈ comps ∧ n ∈ c ∧ c.Perm c') ∧
    (nodesOf s ≠ [] → ∃ c ∈ comps, maxByLen comps = some c ∧ ∀ d ∈ comps, d.length ≤ c.length) ∧
    (nodesOf s = [] → comps = [] ∧ maxByLen comps = none) ∧
    (∀ n ∈ nodesOf s,
        (C01.answer s (.isIsolated n (toFilter f)) = .bool true ↔ [n] ∈ comps) ∧
        (C01.answer s (.isIsolated n (toFilter f)) = .bool true ↔
          ∀ e ∈ K, passes f e.length = true → n ∈ e → e.length < 2) ∧
        (∃ L, C01.answer s (.isolated (toFilter f)) = .nats L ∧
          (n ∈ L ↔ C01.answer s (.isIsolated n (toFilter f)) = .bool true))) := by
  intro K comps
  have h := C08.Link.inv_of_history k cs hwf i s hs
  have hK : edgesOf s = K := (listing_abs h).2
  have hc : comps = components (nodesOf s) (edgesOf s) f := componentsObj_eq h f
  obtain ⟨_, c2, c3, c4, _, c6, c7⟩ := C08_consistent (nodesOf s) (edgesOf s) f
  have hiso : ∀ n ∈ nodesOf s, (C01.answer s (.isIsolated n (toFilter f)) = .bool true ↔
      isIsolated? (nodesOf s) (edgesOf s) f n = some true) := by
    intro n hn
    rw [answer_isIsolated h n f]
    simp only [isIsolated?, hn, if_true, Option.some.injEq, C01.Ans.bool.injEq]
  refine ⟨?_, ?_, ?_, ?_, ?_, ?_⟩
  · rw [hc, ← hK]; exact c3
  · intro R hR hp hcov
    rw [hc]
    exact C08_count (nodesOf s) (edgesOf s) f R hR (by rw [hK]; exact hp) (by rw [hK]; exact hcov)
  · intro n hn
    rw [hc, bfsFromObj_eq h f n]
    exact c4 n hn
  · intro hne
    rw [hc]
    obtain ⟨c, hcm, hmax, _, hle⟩ := c6 hne
    exact ⟨c, hcm, hmax, hle⟩
  · intro hnil
    rw [hc]
    obtain ⟨a1, a2, _⟩ := c7 hnil
    exact ⟨a1, a2⟩
  · intro n hn
    obtain ⟨i1, _, i3, i4⟩ := C08_isolated (nodesOf s) (edgesOf s) f n hn
    refine ⟨?_, ?_, isolatedNodes (nodesOf s) (edgesOf s) f, answer_isolated h f, ?_⟩
    · rw [hiso n hn, hc]; exact i3
    · rw [hiso n hn, ← hK]; exact i1 (listing_wf h).2.2.2.1
    · rw [hiso n hn]; exact i4

/-- non-vacuity: a history on two slots with a temporary hyperedge (an id gap), a `copy`, mutations of the original and
of the copy afterwards (`remove_node(keep_edges=True)` on the copy), an isolated node, a singleton hyperedge and a
batched node removal.  Slot 0 ends with the listings `exNodes` / `exEdges` used above. -/
def C08.Link.exHistory : List C01.Cmd :=
  [.on 0 (.addEdge [1, 0] none none), .on 0 (.addEdge [9, 8] none none), .on 0 (.addEdge [3, 1, 2] none none),
   .on 0 (.removeEdge [8, 9]), .on 0 (.addEdge [4, 3] none none), .copy 0 1, .on 1 (.removeNode 1 true),
   .on 0 (.addNode 5 none), .on 0 (.addEdge [6] none none), .on 0 (.removeNodes [8, 9] false)]

theorem C08.Link.exHistory_wf : ∀ c ∈ C08.Link.exHistory, c.WF := by
  intro c hc
  simp only [C08.Link.exHistory, List.mem_cons, List.not_mem_nil, or_false] at hc
  rcases hc with h | h | h | h | h | h | h | h | h | h <;> subst h <;> simp [C01.Cmd.WF, C01.Op.WF]

example : ((C01.run (C01.init 2) exHistory)[0]?.map fun s => (nodesOf s, edgesOf s)) = some (exNodes, exEdges) ∧
    ((C01.run (C01.init 2) exHistory)[1]?.map fun s => (nodesOf s, edgesOf s))
      = some ([0, 8, 9, 2, 3, 4], [[3, 4], [0], [2, 3]]) := by decide

/-- the object in slot 0 of the example history, by its listings -/
theorem C08.Link.exHistory_slot0 (s : C01.Store) (hs : (C01.run (C01.init 2) exHistory)[0]? = some s) :
    nodesOf s = exNodes ∧ edgesOf s = exEdges := by
  have h : ((C01.run (C01.init 2) exHistory)[0]?.map fun s => (nodesOf s, edgesOf s)) = some (exNodes, exEdges) := by
    decide
  rw [hs] at h
  simpa using h

-- the getters of that object, asked directly: degree 2 / 1, neighbours under `size=2`, rejected non-node, isolated nodes
example : ∃ s, (C01.run (C01.init 2) exHistory)[0]? = some s ∧
    C01.answer s (.degree 1 (toFilter .none)) = .int 2 ∧ C01.answer s (.degree 1 (toFilter (.size 2))) = .int 1 ∧
    C01.answer s (.neighbors 3 (toFilter (.size 2))) = .nats [4] ∧ C01.answer s (.degree 8 (toFilter .none)) = .rej ∧
    C01.answer s (.degreeDist (toFilter (.size 2))) = .pairs [(1, 4), (0, 3)] ∧
    C01.answer s (.isolated (toFilter (.order 2))) = .nats [0, 4, 5, 6] :=
  ⟨_, rfl, by decide⟩

-- connected components computed over the getters of that object, three filters
set_option maxRecDepth 4000 in
example : ∃ s, (C01.run (C01.init 2) exHistory)[0]? = some s ∧
    componentsObj s .none = [[4, 3, 2, 1, 0], [5], [6]] ∧
    componentsObj s (.size 2) = [[1, 0], [2], [4, 3], [5], [6]] ∧
    bfsFromObj s (.size 3) 1 = some [3, 2, 1] ∧ bfsFromObj s .none 8 = none := by
  have hex : ∃ s, (C01.run (C01.init 2) exHistory)[0]? = some s := ⟨_, rfl⟩
  obtain ⟨s, hs'⟩ := hex
  refine ⟨s, hs', ?_⟩
  have h := C08.Link.inv_of_history 2 exHistory exHistory_wf 0 s hs'
  obtain ⟨hn, he⟩ := exHistory_slot0 s hs'
  rw [componentsObj_eq h, componentsObj_eq h, bfsFromObj_eq h, bfsFromObj_eq h, hn, he]
  c08_eval

/-! ### degrees of the other three containers -/

/-- **`DirectedHypergraph`, every history** (`C08_degree_directed`, `C08_degree`, `C08_handshake_directed` composed with
C02).  `cs`: any finite list of well-formed constructor calls, copies and public mutating calls; `s` the object in a slot
afterwards; `f` a filter the getters accept, `g` its C08 reading.  The listings `N`, `K` of the object are the node list
and the (source tuple, target tuple) key list of its abstract content; they satisfy the hypotheses of the C08 theorems
(distinct nodes, distinct keys, duplicate-free DISJOINT sides over nodes of the object); `degree(n)` as the object
answers it is the number of distinct filtered keys having `n` on either side; a non-node is rejected; `degree_sequence`
is the per-node view, `degree_distribution` its histogram; the degrees sum to the total size `|sources| + |targets|` of the filtered keys. -/
theorem C08_link_degree_C02 (cs : List C02.Cmd) (hcs : ∀ c ∈ cs, c.WF) (slot : Nat) (s : C02.Store)
    (hs : AL.get? (C02.runCmds [] cs) slot = some s) (f : C02.Filt) (g : Filt) (hg : ofFilt02 f = some g) :
    let N := nodes02 s
    let K := keys02 s
    N = AL.keys (C02.abs s).nodes ∧ K = AL.keys (C02.abs s).edges ∧
    N.Nodup ∧ K.Nodup ∧ (∀ k ∈ K, (k.1 ++ k.2).Nodup ∧ ∀ x ∈ k.1 ++ k.2, x ∈ N) ∧
    (∀ n ∈ N, ∀ L : List (List Nat × List Nat), L.Nodup →
        (∀ k, k ∈ L ↔ k ∈ K ∧ passes g (k.1.length + k.2.length) = true ∧ (n ∈ k.1 ∨ n ∈ k.2)) →
        C02.degree s n f = some L.length) ∧
    (∀ n, n ∉ N → C02.degree s n f = none) ∧
    C02.degreeSeq s f = some (N.map fun n => (n, dirDeg K n g)) ∧
    (∀ n ∈ N, C02.degree s n f = some (dirDeg K n g)) ∧
    (∃ dist, C02.degreeDist s f = some dist ∧
      ∀ d, AL.get? dist d = (let c := (N.map (fun n => dirDeg K n g)).count d; if c = 0 then none else some c)) ∧
    (N.map (fun n => dirDeg K n g)).sum =
      ((K.filter (fun k => passes g (k.1.length + k.2.length))).map (fun k => k.1.length + k.2.length)).sum := by
  intro N K
  have h : C02.Inv s := C02.runCmds_inv [] cs hcs (fun _ _ h => by simp [AL.get?] at h) slot s hs
  obtain ⟨l1, l2, l3, l4⟩ := listing02 h
  have hd : ∀ n, dirDeg (keys02 s) n (toOrder g) = dirDeg (keys02 s) n g := by
    intro n; simp only [dirDeg, passes_toOrder]
  refine ⟨(C02.abs_nodes_keys s).symm, (C02.abs_edges_keys s).symm, l1, l2, l3, ?_, ?_, ?_, ?_, ?_, ?_⟩
  · intro n hn L hL hmem
    rw [degree02 h n f g hg, if_pos hn, C08_degree_directed K l4 n g]
    have := C08_degree dirMembers N K l2 n hn g L hL (by
      intro k
      rw [hmem k]
      simp only [dirMembers, List.length_append, List.mem_append])
    simpa [degreeG?, hn] using this
  · intro n hn
    rw [degree02 h n f g hg, if_neg hn]
  · rw [degreeSeq02 h f g hg]
    simp only [dirDegreeSeq, hd]
    rfl
  · intro n hn
    rw [degree02 h n f g hg, if_pos hn]
  · obtain ⟨dist, hd1, hd2⟩ := degreeDist02 h f g hg
    refine ⟨dist, hd1, fun d => ?_⟩
    rw [hd2 d]
    exact (C08_seq_dist_directed N K g).2 d
  · exact C08_handshake_directed N K l1 l3 g

/-- non-vacuity: constructor with two hyperedges, a re-insertion in permuted order, a temporary hyperedge, a copy mutated
afterwards -/
def C08.Link.exHistory02 : List C02.Cmd :=
  [.new 0 false none none (some [.ofLists [2, 1] [3], .ofLists [3] [4, 5]]) none none,
   .op 0 (.addEdge (.ofLists [1, 2] [3]) none none), .op 0 (.addEdge (.ofLists [7] [8]) none none),
   .op 0 (.removeEdge (.ofLists [7] [8])), .copy 0 1, .op 1 (.removeNode 3 false),
   .op 0 (.addEdge (.ofLists [5] [1]) none none)]

example : (∀ c ∈ exHistory02, c.WF) ∧ (AL.get? (C02.runCmds [] exHistory02) 0).isSome = true ∧
    (let s := (AL.get? (C02.runCmds [] exHistory02) 0).getD {}
     nodes02 s = [1, 2, 3, 4, 5, 7, 8] ∧ keys02 s = [([1, 2], [3]), ([3], [4, 5]), ([5], [1])] ∧
     C02.degree s 3 .all = some 2 ∧ C02.degree s 3 (.size 3) = some 2 ∧ C02.degree s 1 (.order 1) = some 1 ∧
     C02.degree s 6 .all = none ∧
     C02.degreeSeq s (.size 2) = some [(1, 1), (2, 0), (3, 0), (4, 0), (5, 1), (7, 0), (8, 0)]) ∧
    ofFilt02 (.size 3) = some (.size 3) :=
  ⟨C02.cmds_WF_of_ok _ (by decide), by decide, by decide, rfl⟩

/-- **`TemporalHypergraph`, every history** (`C08_degree`, `C08_handshake`, `C08_seq_dist` composed with C03).  Records are
`(time, node tuple)`; `s` is any object reachable by well-formed public calls; `(os03 f).1`, `(os03 f).2` are the two
keywords of the filter.  The listings are those of the abstract map of the history and satisfy the hypotheses; `degree(n)`
as the object answers it is the number of distinct filtered RECORDS containing `n` - a hyperedge present at two times
counts twice -; a non-node is rejected; `degree_sequence` is the per-node view, `degree_distribution` the histogram
(`V.degreeSeq` / `V.degreeDist` are what the getters of the object answer); the degrees sum to the total size of the
filtered records. -/
theorem C08_link_degree_C03 (s : C03.Store) (hr : C03.Reachable s) (f : Filt) :
    let N := nodes03 s
    let K := keys03 s
    N = AL.keys (C03.abs s).nodes ∧ K = AL.keys (C03.abs s).recs ∧
    N.Nodup ∧ K.Nodup ∧ (∀ k ∈ K, k.2.Nodup ∧ ∀ x ∈ k.2, x ∈ N) ∧
    (∀ n ∈ N, ∀ L : List (Nat × List Nat), L.Nodup →
        (∀ k, k ∈ L ↔ k ∈ K ∧ passes f k.2.length = true ∧ n ∈ k.2) →
        C03.degree s n (os03 f).1 (os03 f).2 = some L.length) ∧
    (∀ n, n ∉ N → C03.degree s n (os03 f).1 (os03 f).2 = none) ∧
    C03.V.degreeSeq (C03.view s) (os03 f).1 (os03 f).2
      = some (N.map fun n => (n, degG (fun k : Nat × List Nat => k.2) K n f)) ∧
    (∃ dist : List (Nat × Nat),
      C03.V.degreeDist (C03.view s) (os03 f).1 (os03 f).2 = some (dist.map fun p => ((p.1 : Int), p.2)) ∧
      (dist.map (·.1)).Nodup ∧ (dist.map (·.2)).sum = N.length ∧
      ∀ d, lookup d dist = (let c := (N.map (fun n => degG (fun k : Nat × List Nat => k.2) K n f)).count d
                            if c = 0 then none else some c)) ∧
    (N.map (fun n => degG (fun k : Nat × List Nat => k.2) K n f)).sum =
      ((K.filter (fun k => passes f k.2.length)).map (fun k => k.2.length)).sum := by
  intro N K
  have h := C03.reachable_inv hr
  obtain ⟨l1, l2, l3⟩ := listing03 h
  refine ⟨rfl, (C03.keys_records s).symm, l1, l2, l3, ?_, ?_, ?_, ?_, ?_⟩
  · intro n hn L hL hmem
    rw [degree03 h n f]
    exact C08_degree (fun k : Nat × List Nat => k.2) N K l2 n hn f L hL hmem
  · intro n hn
    rw [degree03 h n f]
    exact C08_degree_absent _ N K n hn f
  · rw [degreeSeq03 h f]
    simp only [degreeSeqG, degG_toOrder]
    rfl
  · obtain ⟨_, q2, q3, q4⟩ := C08_seq_dist (fun k : Nat × List Nat => k.2) N K f
    exact ⟨_, degreeDist03 h f, q3, q4, q2⟩
  · exact C08_handshake (fun k : Nat × List Nat => k.2) N K l1 l3 f

/-- non-vacuity: the hyperedge `{1,2}` at times 0 and 3 (two records), a temporary record, a copy -/
def C08.Link.exHistory03 : List C03.Op :=
  [.new 0 false, .on 0 (.addEdge [2, 1] (.int 0) none none), .on 0 (.addEdge [1, 2] (.int 3) none none),
   .on 0 (.addEdge [9, 1] (.int 1) none none), .on 0 (.removeEdge [1, 9] (.int 1)),
   .on 0 (.addEdge [3, 1, 2] (.int 3) none none), .copy 0 1, .on 1 (.removeNode 1 false)]

example : (∀ op ∈ exHistory03, op.WF) ∧
    ((AL.get? (C03.run [] exHistory03) 0).map fun s => (nodes03 s, keys03 s, C03.degree s 1 none none,
      C03.degree s 1 (os03 (.size 2)).1 (os03 (.size 2)).2, C03.degree s 7 none none)) =
    some ([1, 2, 9, 3], [(0, [1, 2]), (3, [1, 2]), (3, [1, 2, 3])], some 3, some 2, none) := by decide

/-- **`MultiplexHypergraph`, every history** (same composition with C04).  Records are `(node tuple, layer)`; the same
node set in two layers counts twice. -/
theorem C08_link_degree_C04 (w : Bool) (hm : C04.HMeta) (ops : List C04.Op) (hw : ∀ op ∈ ops, op.WF)
    (f : C04.Filt) (g : Filt) (hg : ofFilt04 f = some g) :
    let s := C04.run (C04.init w hm) ops
    let N := nodes04 s
    let K := keys04 s
    N = AL.keys (C04.abs s).nodes ∧ K = AL.keys (C04.abs s).edges ∧
    N.Nodup ∧ K.Nodup ∧ (∀ k ∈ K, k.1.Nodup ∧ ∀ x ∈ k.1, x ∈ N) ∧
    (∀ n ∈ N, ∀ L : List (List Nat × Nat), L.Nodup →
        (∀ k, k ∈ L ↔ k ∈ K ∧ passes g k.1.length = true ∧ n ∈ k.1) → C04.degree s n f = some L.length) ∧
    (∀ n, n ∉ N → C04.degree s n f = none) ∧
    C04.degreeSeq s f = some (N.map fun n => (n, degG (fun k : List Nat × Nat => k.1) K n g)) ∧
    (N.map (fun n => degG (fun k : List Nat × Nat => k.1) K n g)).sum =
      ((K.filter (fun k => passes g k.1.length)).map (fun k => k.1.length)).sum := by
  intro s N K
  have h : C04.Inv s := C04.run_inv _ ops (C04.inv_init w hm) hw
  obtain ⟨l1, l2, l3⟩ := listing04 h
  refine ⟨rfl, C04.records_abs s, l1, l2, l3, ?_, ?_, ?_, ?_⟩
  · intro n hn L hL hmem
    rw [degree04 h n f g hg]
    exact C08_degree (fun k : List Nat × Nat => k.1) N K l2 n hn g L hL hmem
  · intro n hn
    rw [degree04 h n f g hg]
    exact C08_degree_absent _ N K n hn g
  · rw [degreeSeq04 h f g hg]
    simp only [degreeSeqG, degG_toOrder]
    rfl
  · exact C08_handshake (fun k : List Nat × Nat => k.1) N K l1 l3 g

/-- non-vacuity: `{1,2,3}` in layers 0 and 1, `{2,3}` in layer 0, a temporary record -/
def C08.Link.exHistory04 : List C04.Op :=
  [.addEdge [3, 1, 2] 0 none none, .addEdge [2, 3] 0 none none, .addEdge [2, 1, 3] 1 none none,
   .addEdge [7, 8] 2 none none, .removeEdge [8, 7] 2, .addNode 5 none]

example : (∀ op ∈ exHistory04, op.WF) ∧
    (let s := C04.run (C04.init false) exHistory04
     nodes04 s = [1, 2, 3, 7, 8, 5] ∧ keys04 s = [([1, 2, 3], 0), ([2, 3], 0), ([1, 2, 3], 1)] ∧
     C04.degree s 2 .all = some 3 ∧ C04.degree s 2 (.size 3) = some 2 ∧ C04.degree s 1 (.order 1) = some 0 ∧
     C04.degree s 6 .all = none ∧
     C04.degreeSeq s (.size 2) = some [(1, 0), (2, 1), (3, 1), (7, 0), (8, 0), (5, 0)]) :=
  ⟨by decide, by decide⟩

/-! ### the history model of this file and C01's abstract hypergraph -/

/-- **`C08_history_*` and C01, operation by operation.**  `Hist.Content` (`Hgxv/Model/C08Hist.lean`, the small history
model used by `C08_history_wf / _frame / _handshake`) is C01's abstract hypergraph with weights and metadata forgotten:
for the abstract hypergraph `a` of ANY history, `contentOf a` lists what the object lists, satisfies `Hist.Inv`, and every
single-object operation of `Hist` is the corresponding call of `C01.Spec` on `a` - same resulting listings in the same
order, and a call is rejected by C01 exactly when the `Hist` operation is `none`: `add_node`; `add_edge` with any optional
arguments (always accepted without a weight); `remove_edge`; `remove_node(n, keep_edges)` for both values of
`keep_edges`; `clear`.  (`Hist.Op.copy` appends a new object where `C01.Cmd.copy` overwrites a slot - both leave the
content as it is; `Hist.sub` has no single C01 call.) -/
theorem C08_link_hist_ops (k : Nat) (cs : List C01.Cmd) (hwf : ∀ c ∈ cs, c.WF) (i : Nat) (s : C01.Store)
    (hs : (C01.run (C01.init k) cs)[i]? = some s) :
    let a := C01.abs s
    let c := contentOf a
    c.nodes = nodesOf s ∧ c.es = edgesOf s ∧ Hist.Inv c ∧
    (∀ n md, contentOf (C01.Spec.apply a (.addNode n md)).1 = Hist.addNode c n) ∧
    (∀ raw w md, (C01.Spec.apply a (.addEdge raw w md)).2 = .ok →
        contentOf (C01.Spec.apply a (.addEdge raw w md)).1 = Hist.addEdge c raw) ∧
    (∀ raw md, (C01.Spec.apply a (.addEdge raw none md)).2 = .ok) ∧
    (∀ raw, Hist.removeEdge c raw =
        if (C01.Spec.apply a (.removeEdge raw)).2 = .ok then some (contentOf (C01.Spec.apply a (.removeEdge raw)).1)
        else none) ∧
    (∀ n keep, Hist.removeNode c n keep =
        if (C01.Spec.apply a (.removeNode n keep)).2 = .ok
        then some (contentOf (C01.Spec.apply a (.removeNode n keep)).1) else none) ∧
    contentOf (C01.Spec.apply a .clear).1 = Hist.clear c := by
  intro a c
  have h := C08.Link.inv_of_history k cs hwf i s hs
  obtain ⟨w1, w2, w3, w4, w5⟩ := listing_wf h
  have e1 : c.nodes = nodesOf s := (listing_abs h).1.symm
  have e2 : c.es = edgesOf s := (listing_abs h).2.symm
  refine ⟨e1, e2, ⟨by rw [e1]; exact w1, by rw [e2]; exact w2, ?_, ?_⟩, fun n md => addNode_content a n md,
    fun raw w md hok => addEdge_content a raw w md hok, fun raw md => addEdge_ok a raw md,
    fun raw => removeEdge_content a raw, fun n keep => removeNode_verdict a (C01.abs_swf h) n keep, clear_content a⟩
  · intro e he
    rw [e2] at he
    exact C08.Link.sorted_strict e (w4 e he) (w5 e he)
  · intro e he x hx
    rw [e2] at he
    rw [e1]
    exact w3 e he x hx

/-- non-vacuity: on the abstract hypergraph of the example history (slot 0), `remove_node(3, keep_edges=True)` and
`remove_edge` of an absent hyperedge, computed by `Hist` -/
example : ((C01.run (C01.init 2) exHistory)[0]?.map fun s =>
      (Hist.removeNode (contentOf (C01.abs s)) 3 true, Hist.removeEdge (contentOf (C01.abs s)) [1, 3])) =
    some (some ⟨[0, 1, 2, 4, 5, 6], [[0, 1], [6], [1, 2], [4]]⟩, none) := by decide

/-! ## Extension round: `utils/visits.py` in full (`_bfs` / `_dfs`, `max_depth`), the filter as a restriction, the
components as THE partition into reachability classes, cross-consistency of the connectivity functions

`Model/C08Visit.lean`: one loop `search` for `_bfs` (FIFO) and `_dfs` (LIFO) over `(node, depth)` pairs with the test
`max_depth is None or depth < max_depth`; `visitFrom nodes es f md dfs u` is `_bfs` / `_dfs` `(hg, u, max_depth=md, f)`.
`Walk es f u k v`: a walk of exactly `k` steps from `u` to `v`, every step inside one hyperedge that passes `f`. -/

/-- `_bfs` and `_dfs` with `max_depth=None` (every filter): the start must be a node; the visited set never repeats a node
and is exactly the reachability class of the start - so both searches return the same set; and the depth-aware `_bfs`
is, list for list, the `_bfs` all functions of `utils/cc.py` are built on (`bfsFrom`, theorems above).  No hypothesis. -/
theorem C08_visit_unbounded (nodes : List Nat) (es : List Edge) (f : Filt) (dfs : Bool) (u : Nat) :
    (u ∈ nodes → ∃ c, visitFrom nodes es f none dfs u = some c ∧ c.Nodup ∧ ∀ v, v ∈ c ↔ Reach es f u v) ∧
    (∀ md, u ∉ nodes → visitFrom nodes es f md dfs u = none) ∧
    visitFrom nodes es f none false u = bfsFrom nodes es f u ∧
    (∀ c d, visitFrom nodes es f none true u = some c → visitFrom nodes es f none false u = some d → c.Perm d) := by
  refine ⟨?_, ?_, ?_, ?_⟩
  · intro hu
    exact ⟨visitH es f none dfs u, by simp [visitFrom, hu], visitH_nodup es f none dfs u,
      fun v => mem_visitH_none es f dfs u v⟩
  · intro md hu; simp [visitFrom, hu]
  · simp only [visitFrom, bfsFrom, visitH_eq_bfsH]
  · intro c d hc hd
    by_cases hu : u ∈ nodes
    · simp only [visitFrom, hu, if_true, Option.some.injEq] at hc hd
      subst hc; subst hd
      apply (List.perm_ext_iff_of_nodup (visitH_nodup es f none true u) (visitH_nodup es f none false u)).mpr
      intro v
      rw [mem_visitH_none, mem_visitH_none]
    · simp [visitFrom, hu] at hc

/-- `_bfs(hg, u, max_depth=m, order|size)` for every integer bound `m` (also 0 and negative ones): the visited set is
exactly the ball of radius `max m 0` around `u` - the nodes a walk of at most `m` steps along filtered hyperedges reaches.
(`Walk` and `Reach` speak about the same relation: reachable = reached by a walk of some length.)  No hypothesis. -/
theorem C08_bfs_depth (nodes : List Nat) (es : List Edge) (f : Filt) (m : Int) (u : Nat) (hu : u ∈ nodes) :
    (∃ c, visitFrom nodes es f (some m) false u = some c ∧ c.Nodup ∧
      ∀ v, v ∈ c ↔ ∃ k : Nat, (k : Int) ≤ max m 0 ∧ Walk es f u k v) ∧
    (∀ v, Reach es f u v ↔ ∃ k, Walk es f u k v) := by
  refine ⟨⟨visitH es f (some m) false u, by simp [visitFrom, hu], visitH_nodup es f _ _ u, fun v => ?_⟩,
    fun v => ⟨reach_walk, fun ⟨_, hk⟩ => hk.reach⟩⟩
  rw [mem_visitH_bfs]
  constructor
  · rintro ⟨k, hw, hok⟩; exact ⟨k, (okLen_some m k).mp hok, hw⟩
  · rintro ⟨k, hok, hw⟩; exact ⟨k, hw, (okLen_some m k).mpr hok⟩

/-- Consequences for the bound: a larger bound visits at least as much; every bounded search stays inside the reachability
class (= the unbounded search); a bound `≤ 0` visits the start only; `max_depth=1` visits the start and exactly its
`get_neighbors`. -/
theorem C08_bfs_depth_mono (es : List Edge) (f : Filt) (u : Nat) :
    (∀ m m' : Int, m ≤ m' → ∀ v ∈ visitH es f (some m) false u, v ∈ visitH es f (some m') false u) ∧
    (∀ (m : Int) (dfs : Bool), ∀ v ∈ visitH es f (some m) dfs u, v ∈ visitH es f none dfs u) ∧
    (∀ (m : Int) (dfs : Bool), m ≤ 0 → ∀ v, v ∈ visitH es f (some m) dfs u ↔ v = u) ∧
    (∀ v, v ∈ visitH es f (some 1) false u ↔ v = u ∨ v ∈ neighbors es f u) := by
  refine ⟨?_, ?_, ?_, ?_⟩
  · intro m m' hmm v hv
    rw [mem_visitH_bfs] at hv ⊢
    obtain ⟨k, hw, hok⟩ := hv
    refine ⟨k, hw, ?_⟩
    rw [okLen_some] at hok ⊢; omega
  · intro m dfs v hv
    obtain ⟨k, hw, _⟩ := mem_visitH_sound es f _ dfs u v hv
    exact (mem_visitH_none es f dfs u v).mpr hw.reach
  · intro m dfs hm v
    constructor
    · intro hv
      obtain ⟨k, hw, hok⟩ := mem_visitH_sound es f _ dfs u v hv
      rw [okLen_some] at hok
      have hk : k = 0 := by omega
      subst hk
      cases hw; rfl
    · intro hv; rw [hv]; exact self_mem_visitH es f _ dfs u
  · intro v
    rw [mem_visitH_bfs]
    constructor
    · rintro ⟨k, hw, hok⟩
      rw [okLen_some] at hok
      have hk : k = 0 ∨ k = 1 := by omega
      rcases hk with rfl | rfl
      · cases hw; exact Or.inl rfl
      · cases hw with
        | step hw0 ha =>
          cases hw0
          by_cases hvu : v = u
          · exact Or.inl hvu
          · obtain ⟨e, he, hp, hue, hve⟩ := ha
            exact Or.inr ((mem_neighbors es f u v).mpr ⟨hvu, e, he, hp, hue, hve⟩)
    · rintro (rfl | hv)
      · exact ⟨0, Walk.zero _, trivial⟩
      · obtain ⟨_, e, he, hp, hue, hve⟩ := (mem_neighbors es f u v).mp hv
        exact ⟨1, Walk.step (Walk.zero u) ⟨e, he, hp, hue, hve⟩, by rw [okLen_some]; omega⟩

/-- A bound of at least `|nodes| - 1` is no bound: in a hypergraph as the containers list it (hyperedges over nodes) every
reachable node is reachable by a walk of fewer steps than there are nodes, so `_bfs(u, max_depth=m)` with `m ≥ |nodes| - 1`
visits exactly the reachability class - the same set as `max_depth=None` and as `node_connected_component(u)`. -/
theorem C08_bfs_depth_full (nodes : List Nat) (es : List Edge) (f : Filt) (hwf : WF nodes es) (u : Nat) (hu : u ∈ nodes) :
    (∀ v, Reach es f u v → ∃ k, k < nodes.length ∧ Walk es f u k v) ∧
    (∀ m : Int, (nodes.length : Int) - 1 ≤ m → ∀ v, v ∈ visitH es f (some m) false u ↔ Reach es f u v) ∧
    (∀ m : Int, (nodes.length : Int) - 1 ≤ m → ∃ c d, visitFrom nodes es f (some m) false u = some c ∧
      nodeComponent nodes es f u = some d ∧ c.Perm d) := by
  have hshort := fun v => reach_short nodes es f hwf u v hu
  have hfull : ∀ m : Int, (nodes.length : Int) - 1 ≤ m → ∀ v, v ∈ visitH es f (some m) false u ↔ Reach es f u v := by
    intro m hm v
    rw [mem_visitH_bfs]
    constructor
    · rintro ⟨k, hw, _⟩; exact hw.reach
    · intro hr
      obtain ⟨k, hk, hw⟩ := hshort v hr
      exact ⟨k, hw, by rw [okLen_some]; omega⟩
  refine ⟨hshort, hfull, ?_⟩
  intro m hm
  refine ⟨visitH es f (some m) false u, bfsH es f u, by simp [visitFrom, hu], by simp [nodeComponent, bfsFrom, hu], ?_⟩
  apply (List.perm_ext_iff_of_nodup (visitH_nodup es f _ _ u) (bfsH_nodup es f u)).mpr
  intro v
  rw [hfull m hm v, mem_bfsH]

/-- `_dfs(hg, u, max_depth=m, order|size)`: visits the start, never repeats a node, and everything it visits lies within
`max m 0` steps - i.e. inside what `_bfs` visits with the same bound.  Equality does NOT hold in general and cannot be
demanded: a depth-limited depth-first search marks a node the first time it meets it, possibly at a depth where it is no
longer expanded, so the visited set depends on the iteration order of the neighbour sets (witness below: the same four
hyperedges listed in two orders).  With `max_depth=None` it is exactly the class (`C08_visit_unbounded`). -/
theorem C08_dfs_depth (nodes : List Nat) (es : List Edge) (f : Filt) (m : Int) (u : Nat) (hu : u ∈ nodes) :
    ∃ c, visitFrom nodes es f (some m) true u = some c ∧ c.Nodup ∧ u ∈ c ∧
      (∀ v ∈ c, ∃ k : Nat, (k : Int) ≤ max m 0 ∧ Walk es f u k v) ∧
      (∀ d, visitFrom nodes es f (some m) false u = some d → ∀ v ∈ c, v ∈ d) := by
  refine ⟨visitH es f (some m) true u, by simp [visitFrom, hu], visitH_nodup es f _ _ u, self_mem_visitH es f _ _ u, ?_, ?_⟩
  · intro v hv
    obtain ⟨k, hw, hok⟩ := mem_visitH_sound es f _ true u v hv
    exact ⟨k, (okLen_some m k).mp hok, hw⟩
  · intro d hd v hv
    simp only [visitFrom, hu, if_true, Option.some.injEq] at hd
    subst hd
    exact (mem_visitH_bfs es f _ u v).mpr (mem_visitH_sound es f _ true u v hv)

/-- The correspondence runs `_dfs` / `_bfs` also on a recorded table of `get_neighbors` answers (each answer in the order the
Python set was iterated): when the table records what `get_neighbors` answers, that run is the search of the hypergraph. -/
theorem C08_visit_table (es : List Edge) (f : Filt) (tab : List (Nat × List Nat)) (md : Option Int) (dfs : Bool) (u : Nat)
    (htab : ∀ x, nbrsTab tab x = neighbors es f x) : visitTab tab md dfs u = visitH es f md dfs u :=
  visitTab_eq es f tab md dfs u htab

macro "c08_visit" : tactic => `(tactic|
  simp [visitFrom, visitH, search, push, expand, within, neighbors, incident, incidentG, addAll, addNew, passes, exEdges,
    exNodes])

-- non-vacuity: the path-like example; radius 0, 1, 2 and no bound, with and without a filter, both searches
set_option maxRecDepth 4000 in
example : visitFrom exNodes exEdges .none (some 0) false 0 = some [0] ∧ visitFrom exNodes exEdges .none (some 1) false 0 = some [1, 0]
    ∧ visitFrom exNodes exEdges .none (some 2) false 0 = some [3, 2, 1, 0]
    ∧ visitFrom exNodes exEdges .none (some (-3)) true 0 = some [0]
    ∧ visitFrom exNodes exEdges .none none true 0 = some [2, 4, 3, 1, 0]
    ∧ visitFrom exNodes exEdges (.size 2) (some 5) false 0 = some [1, 0]
    ∧ visitFrom exNodes exEdges .none (some 2) true 9 = none := by c08_visit
-- `C08_bfs_depth_full`: 7 nodes, bound 6 - the whole class of node 0 (its farthest member is 3 steps away)
set_option maxRecDepth 4000 in
example : visitFrom exNodes exEdges .none (some 6) false 0 = some [4, 3, 2, 1, 0]
    ∧ visitFrom exNodes exEdges .none (some 3) false 0 = some [4, 3, 2, 1, 0] := by c08_visit
-- the depth-limited `_dfs` depends on the order in which the neighbours come: node 3 is two steps from 0 (0-1-3), `_bfs`
-- with `max_depth=2` visits it for both listings, `_dfs` misses it when it meets 1 at depth 2 first (0-2-1)
set_option maxRecDepth 4000 in
example : visitH [[0, 1], [0, 2], [1, 2], [1, 3]] .none (some 2) true 0 = [1, 2, 0]
    ∧ visitH [[0, 2], [0, 1], [1, 2], [1, 3]] .none (some 2) true 0 = [2, 3, 1, 0]
    ∧ visitH [[0, 1], [0, 2], [1, 2], [1, 3]] .none (some 2) false 0 = [3, 2, 1, 0] := by
  simp [visitH, search, push, expand, within, neighbors, incident, incidentG, addAll, addNew, passes]
example : visitTab [(0, [2, 1]), (1, [0, 2, 3]), (2, [1, 0]), (3, [1])] (some 2) true 0 = [2, 3, 1, 0] := by
  simp [visitTab, nbrsTab, search, push, expand, within]

/-- The reachability relation "generated by the (filtered) hyperedges": `Reach es f` is an equivalence relation that
contains "lie together in a filtered hyperedge", and it is the least reflexive transitive relation that does. -/
theorem C08_reach_equivalence (es : List Edge) (f : Filt) :
    (∀ u, Reach es f u u) ∧ (∀ u v, Reach es f u v → Reach es f v u) ∧
    (∀ u v w, Reach es f u v → Reach es f v w → Reach es f u w) ∧ (∀ u v, Adj es f u v → Reach es f u v) ∧
    (∀ R : Nat → Nat → Prop, (∀ a, R a a) → (∀ a b c, R a b → R b c → R a c) → (∀ a b, Adj es f a b → R a b) →
      ∀ u v, Reach es f u v → R u v) :=
  ⟨Reach.refl, fun _ _ h => h.symm, fun _ _ _ h1 h2 => h1.trans h2, fun _ _ h => Reach.single h,
    fun R h1 h2 h3 _ _ h => Reach.least R h1 h2 h3 h⟩

/-- "Exactly the classes": the list `connected_components` returns is THE partition of the node set into reachability
classes - every family `P` of non-empty, pairwise disjoint lists of nodes that covers the nodes and in which each list is
the class of each of its members has as many members as there are components, and each of them is (as a set) one of the
components.  No hypothesis on the hypergraph. -/
theorem C08_components_unique (nodes : List Nat) (es : List Edge) (f : Filt) (P : List (List Nat))
    (hcls : ∀ p ∈ P, p ≠ [] ∧ ∀ u ∈ p, u ∈ nodes ∧ ∀ v, v ∈ p ↔ Reach es f u v)
    (hcov : ∀ n ∈ nodes, ∃ p ∈ P, n ∈ p) (hdis : P.Pairwise Disj) :
    P.length = numComponents nodes es f ∧ ∀ p ∈ P, ∃ c ∈ components nodes es f, ∀ v, v ∈ p ↔ v ∈ c :=
  components_unique nodes es f P hcls hcov hdis

/-- The order/size filter IS the restriction of the hypergraph to the hyperedges that pass it: every degree and
connectivity function (and both searches, any depth bound) called with filter `f` returns - as lists, same order - what the
same function returns without a filter on the hypergraph that keeps only the hyperedges passing `f` (and all nodes). -/
theorem C08_filter_restrict (nodes : List Nat) (es : List Edge) (f : Filt) :
    (∀ e, e ∈ restrict es f ↔ e ∈ es ∧ passes f e.length = true) ∧
    (∀ n, incident es n f = incident (restrict es f) n .none) ∧
    (∀ n, neighbors es f n = neighbors (restrict es f) .none n) ∧
    (∀ n, degree? nodes es n f = degree? nodes (restrict es f) n .none) ∧
    degreeSeq nodes es f = degreeSeq nodes (restrict es f) .none ∧
    degreeDist nodes es f = degreeDist nodes (restrict es f) .none ∧
    components nodes es f = components nodes (restrict es f) .none ∧
    isConnected nodes es f = isConnected nodes (restrict es f) .none ∧
    numComponents nodes es f = numComponents nodes (restrict es f) .none ∧
    (∀ n, nodeComponent nodes es f n = nodeComponent nodes (restrict es f) .none n) ∧
    largestComponent nodes es f = largestComponent nodes (restrict es f) .none ∧
    largestComponentSize nodes es f = largestComponentSize nodes (restrict es f) .none ∧
    isolatedNodes nodes es f = isolatedNodes nodes (restrict es f) .none ∧
    (∀ n, isIsolated? nodes es f n = isIsolated? nodes (restrict es f) .none n) ∧
    (∀ md dfs n, visitFrom nodes es f md dfs n = visitFrom nodes (restrict es f) .none md dfs n) := by
  have hc := components_restrict nodes es f
  have hn := neighbors_restrict es f
  refine ⟨mem_restrict es f, incident_restrict es f, fun n => by rw [hn], ?_, degreeSeq_restrict nodes es f,
    degreeDist_restrict nodes es f, hc, by simp only [isConnected, hc], by simp only [numComponents, hc], ?_,
    by simp only [largestComponent, hc], by simp only [largestComponentSize, largestComponent, hc],
    by simp only [isolatedNodes, hn], fun n => by simp only [isIsolated?, hn], ?_⟩
  · intro n
    have := deg_restrict es f n
    simp only [deg] at this
    simp only [degree?, degreeG?, this]
  · intro n; simp only [nodeComponent, bfsFrom, bfsH_restrict es f]
  · intro md dfs n; simp only [visitFrom, visitH_restrict es f md dfs]

/-- `size=s` and `order=s-1` are the same filter for every function: they select the same hyperedges, so by
`C08_filter_restrict` every function above returns the same list for both keywords. -/
theorem C08_size_order (nodes : List Nat) (es : List Edge) (s : Int) :
    restrict es (.size s) = restrict es (.order (s - 1)) ∧
    degreeSeq nodes es (.size s) = degreeSeq nodes es (.order (s - 1)) ∧
    degreeDist nodes es (.size s) = degreeDist nodes es (.order (s - 1)) ∧
    components nodes es (.size s) = components nodes es (.order (s - 1)) ∧
    isolatedNodes nodes es (.size s) = isolatedNodes nodes es (.order (s - 1)) ∧
    largestComponent nodes es (.size s) = largestComponent nodes es (.order (s - 1)) ∧
    (∀ n, degree? nodes es n (.size s) = degree? nodes es n (.order (s - 1))) ∧
    (∀ n, nodeComponent nodes es (.size s) n = nodeComponent nodes es (.order (s - 1)) n) ∧
    (∀ n, isIsolated? nodes es (.size s) n = isIsolated? nodes es (.order (s - 1)) n) ∧
    (∀ md dfs n, visitFrom nodes es (.size s) md dfs n = visitFrom nodes es (.order (s - 1)) md dfs n) := by
  obtain ⟨_, _, _, a4, a5, a6, a7, _, _, a10, a11, _, a13, a14, a15⟩ := C08_filter_restrict nodes es (.size s)
  obtain ⟨_, _, _, b4, b5, b6, b7, _, _, b10, b11, _, b13, b14, b15⟩ := C08_filter_restrict nodes es (.order (s - 1))
  have hr := restrict_size_order es s
  rw [← hr] at b4 b5 b6 b7 b10 b11 b13 b14 b15
  exact ⟨hr, a5.trans b5.symm, a6.trans b6.symm, a7.trans b7.symm, a13.trans b13.symm, a11.trans b11.symm,
    fun n => (a4 n).trans (b4 n).symm, fun n => (a10 n).trans (b10 n).symm, fun n => (a14 n).trans (b14 n).symm,
    fun md dfs n => (a15 md dfs n).trans (b15 md dfs n).symm⟩

/-- A filter can only split: filtered reachability implies unfiltered reachability, so every component under `f` lies
inside one component of the unfiltered hypergraph, there are at least as many of them, and a hypergraph connected under `f`
is connected. -/
theorem C08_filter_refines (nodes : List Nat) (es : List Edge) (f : Filt) :
    (∀ u v, Reach es f u v → Reach es .none u v) ∧
    (∀ c ∈ components nodes es f, ∃ d ∈ components nodes es .none, ∀ x ∈ c, x ∈ d) ∧
    numComponents nodes es .none ≤ numComponents nodes es f ∧
    (isConnected nodes es f = true → isConnected nodes es .none = true) := by
  refine ⟨fun _ _ h => h.unfilter, ?_, numComponents_le nodes es f, ?_⟩
  · intro c hc
    obtain ⟨r, hr, rfl⟩ := (components_spec nodes es f).1 c hc
    obtain ⟨d, hd, hrd⟩ := (components_spec nodes es .none).2.2 r hr
    refine ⟨d, hd, fun x hx => ?_⟩
    exact (components_class nodes es .none d hd r hrd x).mpr ((mem_bfsH es f r x).mp hx).unfilter
  · intro h
    have h3 := (C08_consistent nodes es f).2.2.1
    have h3' := (C08_consistent nodes es .none).2.2.1
    obtain ⟨hne, hall⟩ := h3.mp h
    exact h3'.mpr ⟨hne, fun u hu v hv => (hall u hu v hv).unfilter⟩

/-- Cross-consistency on a hypergraph as the containers list it (distinct nodes, hyperedges over nodes): the sizes of the
components add up to the number of nodes (so there are at most that many), `is_connected` iff the largest component has
all the nodes, `is_isolated(n)` iff `node_connected_component(n)` is `[n]`, and a node of (filtered) degree 0 is isolated
(the converse fails exactly for nodes whose filtered hyperedges are singletons). -/
theorem C08_cross (nodes : List Nat) (es : List Edge) (f : Filt) (hn : nodes.Nodup) (hwf : WF nodes es) :
    ((components nodes es f).map List.length).sum = nodes.length ∧
    numComponents nodes es f ≤ nodes.length ∧
    (isConnected nodes es f = true ↔ largestComponentSize nodes es f = some nodes.length) ∧
    (∀ n ∈ nodes, (isIsolated? nodes es f n = some true ↔ nodeComponent nodes es f n = some [n])) ∧
    (∀ n, degree? nodes es n f = some 0 → isIsolated? nodes es f n = some true) := by
  have hsum := components_sum_length nodes es f hn hwf
  refine ⟨hsum, ?_, isConnected_iff_largest nodes es f hn hwf, ?_, ?_⟩
  · have hpos := components_nonempty nodes es f
    rw [← hsum]
    unfold numComponents
    generalize components nodes es f = l at hpos
    induction l with
    | nil => simp
    | cons a t ih =>
      have := hpos a List.mem_cons_self
      have := ih (fun c hc => hpos c (List.mem_cons_of_mem _ hc))
      simp only [List.length_cons, List.map_cons, List.sum_cons]; omega
  · intro n hnn
    rw [(C08_isolated nodes es f n hnn).2.1]
    simp only [nodeComponent, bfsFrom, hnn, if_true, Option.some.injEq]
    constructor
    · intro h
      exact eq_singleton_of_mem_iff _ n (bfsH_nodup es f n) (fun v => (mem_bfsH es f n v).trans (h v))
    · intro h v
      rw [← mem_bfsH, h]; simp
  · intro n h
    by_cases hnn : n ∈ nodes
    · simp only [degree?, degreeG?, hnn, if_true, Option.some.injEq] at h
      have hinc : incident es n f = [] := List.eq_nil_of_length_eq_zero h
      simp [isIsolated?, hnn, neighbors, hinc]
    · simp [degree?, degreeG?, hnn] at h

-- non-vacuity: the example satisfies the hypotheses (checked above); three filters, three different partitions
set_option maxRecDepth 4000 in
example : ((components exNodes exEdges (.size 2)).map List.length).sum = 7 ∧ restrict exEdges (.size 2) = [[0, 1], [3, 4]]
    ∧ components exNodes (restrict exEdges (.size 2)) .none = [[1, 0], [2], [4, 3], [5], [6]]
    ∧ numComponents exNodes exEdges .none = 3 ∧ numComponents exNodes exEdges (.order 1) = 5
    ∧ largestComponentSize [0, 1, 2] [[0, 1], [1, 2]] (.size 2) = some 3
    ∧ nodeComponent exNodes exEdges (.size 2) 6 = some [6] ∧ degree? exNodes exEdges 6 .none = some 1 := by
  simp [components, compLoop, numComponents, largestComponent, largestComponentSize, maxByLen, nodeComponent, bfsFrom, bfsH,
    bfs, neighbors, incident, incidentG, addAll, addNew, passes, exEdges, exNodes, restrict, degree?, degreeG?, degG]

