import Hgxv.Proofs.C08Bfs
import Hgxv.Proofs.C08Hist
import Hgxv.Proofs.C08Nbrs
/-! # C08 — degrees and connected components equal their combinatorial definitions

Property theorems about the model `Hgxv/Model/C08.lean` (specification vocabulary `Adj`, `Reach`, `WF`, `Disj` in
`Hgxv/Proofs/C08.lean`).  All statements hold for every node list, every list of hyperedges / keyed records and
every filter `f : Filt` (`none`, `size s`, `order o`); the SAME `f` appears on both sides of every statement.
Hypotheses are what the containers guarantee for the output of `get_nodes()/get_edges()`:
`nodes.Nodup` (dict keys), `keys.Nodup` (distinct records), duplicate-free hyperedges over nodes of the hypergraph
(`WF`).  They are spelled out per theorem; most theorems need none of them. -/
open C08

/-! ## degrees -/

/-- The degree of a node is the number of DISTINCT filtered records containing it: whatever duplicate-free listing
`L` of exactly the records that pass the filter and contain `n` one takes, `degree` is its length.  Generic over the
record type (`Hypergraph`: hyperedge; `TemporalHypergraph`: (time, hyperedge); `MultiplexHypergraph`: (hyperedge,
layer)); `hk`: the container lists distinct records. -/
theorem C08_degree {κ : Type} (members : κ → List Nat) (nodes : List Nat) (keys : List κ) (hk : keys.Nodup)
    (n : Nat) (hn : n ∈ nodes) (f : Filt) (L : List κ) (hL : L.Nodup)
    (hmem : ∀ k, k ∈ L ↔ k ∈ keys ∧ passes f (members k).length = true ∧ n ∈ members k) :
    degreeG? members nodes keys n f = some L.length := by
  simp only [degreeG?, hn, if_true, degG]
  congr 1
  apply List.Perm.length_eq
  apply (List.perm_ext_iff_of_nodup (hk.filter _) hL).mpr
  intro k
  rw [hmem k]
  exact mem_incidentG members keys n f k

/-- the filter means what its name says: `size=s` keeps the records with `s` members, `order=o` those with `o+1` -/
theorem C08_filter (len : Nat) (s o : Int) :
    passes .none len = true ∧ (passes (.size s) len = true ↔ (len : Int) = s) ∧
    (passes (.order o) len = true ↔ (len : Int) = o + 1) :=
  ⟨rfl, passes_size s len, passes_order o len⟩

/-- a node that is not in the hypergraph has no degree (the code raises) -/
theorem C08_degree_absent {κ : Type} (members : κ → List Nat) (nodes : List Nat) (keys : List κ) (n : Nat)
    (hn : n ∉ nodes) (f : Filt) : degreeG? members nodes keys n f = none := by
  simp [degreeG?, hn]

/-- `DirectedHypergraph`: the code adds the source-incident and the target-incident hyperedges; with disjoint sides
(C02's hyperedges) this is the number of hyperedges containing the node, filtered by the size of the whole
hyperedge. -/
theorem C08_degree_directed (keys : List (List Nat × List Nat)) (hdis : ∀ k ∈ keys, ∀ x ∈ k.1, x ∉ k.2)
    (n : Nat) (f : Filt) : dirDeg keys n f = degG dirMembers keys n f := by
  induction keys with
  | nil => simp [dirDeg, degG, incidentG]
  | cons k t ih =>
    have ih' := ih (fun k' hk' => hdis k' (List.mem_cons_of_mem _ hk'))
    have hd := hdis k List.mem_cons_self n
    rw [degG_cons, ← ih']
    simp only [dirDeg, List.filter_cons, dirMembers, List.length_append, List.mem_append, Bool.and_eq_true,
      decide_eq_true_eq]
    by_cases h1 : n ∈ k.1 <;> by_cases h2 : n ∈ k.2 <;> by_cases hp : passes f (k.1.length + k.2.length) = true <;>
      simp [h1, h2, hp] <;> first | omega | exact absurd h2 (hd h1)

/-- Handshake: the degrees sum to the total size of the filtered records (`hn`: `get_nodes()` has no repetition;
`hm`: every record is a duplicate-free tuple of nodes of the hypergraph). -/
theorem C08_handshake {κ : Type} (members : κ → List Nat) (nodes : List Nat) (keys : List κ) (hn : nodes.Nodup)
    (hm : ∀ k ∈ keys, (members k).Nodup ∧ ∀ x ∈ members k, x ∈ nodes) (f : Filt) :
    (nodes.map (fun n => degG members keys n f)).sum
      = ((keys.filter (fun k => passes f (members k).length)).map (fun k => (members k).length)).sum := by
  induction keys with
  | nil => simp only [degG, incidentG, List.filter_nil, List.length_nil, List.map_nil, List.sum_nil]; exact sum_map_zero nodes
  | cons k t ih =>
    have ih' := ih (fun k' hk' => hm k' (List.mem_cons_of_mem _ hk'))
    obtain ⟨hknd, hksub⟩ := hm k List.mem_cons_self
    simp only [degG_cons, sum_map_add, ih', List.filter_cons]
    by_cases hp : passes f (members k).length = true
    · simp only [hp, and_true, if_true, List.map_cons, List.sum_cons]
      rw [sum_indicator nodes (fun x => x ∈ members k), count_members nodes (members k) hn hknd hksub]
    · simp only [hp, and_false, if_false, Bool.false_eq_true]
      rw [sum_map_zero]; simp

/-- Handshake for `DirectedHypergraph` (hyperedges with disjoint duplicate-free sides over nodes of the hypergraph):
source and target incidences together sum to the total size `|sources| + |targets|` of the filtered hyperedges. -/
theorem C08_handshake_directed (nodes : List Nat) (keys : List (List Nat × List Nat)) (hn : nodes.Nodup)
    (hm : ∀ k ∈ keys, (k.1 ++ k.2).Nodup ∧ ∀ x ∈ k.1 ++ k.2, x ∈ nodes) (f : Filt) :
    (nodes.map (fun n => dirDeg keys n f)).sum
      = ((keys.filter (fun k => passes f (k.1.length + k.2.length))).map (fun k => k.1.length + k.2.length)).sum := by
  have hdis : ∀ k ∈ keys, ∀ x ∈ k.1, x ∉ k.2 := fun k hk x hx1 hx2 =>
    (List.nodup_append.mp (hm k hk).1).2.2 x hx1 x hx2 rfl
  have h := C08_handshake dirMembers nodes keys hn hm f
  simp only [dirMembers, List.length_append] at h
  rw [← h]
  congr 1
  apply List.map_congr_left
  intro n _
  exact C08_degree_directed keys hdis n f

/-- `degree_sequence` lists every node once, in `get_nodes()` order, with its degree; `degree_distribution` is the
histogram of those numbers: degree `d` is a key iff some node has it, its value is the number of such nodes, no key
repeats, and the values add up to the number of nodes. -/
theorem C08_seq_dist {κ : Type} (members : κ → List Nat) (nodes : List Nat) (keys : List κ) (f : Filt) :
    degreeSeqG members nodes keys f = nodes.map (fun n => (n, degG members keys n f)) ∧
    (∀ d, lookup d (degreeDistG members nodes keys f)
        = (let c := (nodes.map (fun n => degG members keys n f)).count d; if c = 0 then none else some c)) ∧
    ((degreeDistG members nodes keys f).map (·.1)).Nodup ∧
    ((degreeDistG members nodes keys f).map (·.2)).sum = nodes.length := by
  have hseq : ∀ g, degreeSeqG members nodes keys g = nodes.map (fun n => (n, degG members keys n g)) := by
    intro g; simp only [degreeSeqG, degG_toOrder]
  have hfold : degreeDistG members nodes keys f
      = (nodes.map (fun n => degG members keys n f)).foldl (fun a x => bump x a) [] := by
    simp only [degreeDistG, hseq, degG_toOrder, List.foldl_map]
  refine ⟨hseq f, ?_, ?_, ?_⟩
  · intro d
    rw [hfold, lookup_hist]
    simp [lookup]
  · rw [hfold]
    exact nodup_hist _ [] (by simp)
  · rw [hfold, sum_hist]; simp

/-- the same for the directed sequence / histogram -/
theorem C08_seq_dist_directed (nodes : List Nat) (keys : List (List Nat × List Nat)) (f : Filt) :
    dirDegreeSeq nodes keys f = nodes.map (fun n => (n, dirDeg keys n f)) ∧
    (∀ d, lookup d (dirDegreeDist nodes keys f)
        = (let c := (nodes.map (fun n => dirDeg keys n f)).count d; if c = 0 then none else some c)) := by
  have hd : ∀ g n, dirDeg keys n (toOrder g) = dirDeg keys n g := by
    intro g n; simp only [dirDeg, passes_toOrder]
  have hfold : dirDegreeDist nodes keys f = (nodes.map (fun n => dirDeg keys n f)).foldl (fun a x => bump x a) [] := by
    simp only [dirDegreeDist, dirDegreeSeq, hd, List.foldl_map]
  refine ⟨by simp only [dirDegreeSeq, hd], ?_⟩
  intro d
  rw [hfold, lookup_hist]
  simp [lookup]

/-! ## breadth-first search -/

/-- `_bfs(hg, u, order|size)` returns exactly the nodes reachable from `u` through hyperedges that pass the
filter, each once; it rejects a start node that is not in the hypergraph.  No hypothesis on the input. -/
theorem C08_bfs (nodes : List Nat) (es : List Edge) (f : Filt) (u : Nat) :
    (u ∈ nodes → ∃ c, bfsFrom nodes es f u = some c ∧ c.Nodup ∧ ∀ v, v ∈ c ↔ Reach es f u v) ∧
    (u ∉ nodes → bfsFrom nodes es f u = none) := by
  constructor
  · intro hu
    exact ⟨bfsH es f u, by simp [bfsFrom, hu], bfsH_nodup es f u, fun v => mem_bfsH es f u v⟩
  · intro hu; simp [bfsFrom, hu]

/-! ## connected components -/

/-- `connected_components(order|size)` is the partition of the node set into the classes of `Reach es f`:
the components cover the nodes and contain nothing else, are pairwise disjoint, non-empty, repetition-free, and each
one is the reachability class of each of its members.  (`WF` is only used for "nothing else".) -/
theorem C08_partition (nodes : List Nat) (es : List Edge) (f : Filt) (hwf : WF nodes es) :
    (∀ n ∈ nodes, ∃ c ∈ components nodes es f, n ∈ c) ∧
    (∀ c ∈ components nodes es f, ∀ x ∈ c, x ∈ nodes) ∧
    (components nodes es f).Pairwise Disj ∧
    (∀ c ∈ components nodes es f, c ≠ [] ∧ c.Nodup) ∧
    (∀ c ∈ components nodes es f, ∀ u ∈ c, ∀ v, v ∈ c ↔ Reach es f u v) := by
  obtain ⟨h1, h2, h3⟩ := components_spec nodes es f
  refine ⟨h3, ?_, h2, ?_, components_class nodes es f⟩
  · intro c hc x hx
    obtain ⟨r, hr, rfl⟩ := h1 c hc
    exact ((mem_bfsH es f r x).mp hx).mem_nodes hwf hr
  · intro c hc
    obtain ⟨r, _, rfl⟩ := h1 c hc
    exact ⟨List.ne_nil_of_mem ((mem_bfsH es f r r).mpr (Reach.refl r)), bfsH_nodup es f r⟩

/-- two nodes lie in a common component iff one is reachable from the other -/
theorem C08_same_component (nodes : List Nat) (es : List Edge) (f : Filt) (u v : Nat) (hu : u ∈ nodes) :
    (∃ c ∈ components nodes es f, u ∈ c ∧ v ∈ c) ↔ Reach es f u v := by
  constructor
  · rintro ⟨c, hc, huc, hvc⟩
    exact (components_class nodes es f c hc u huc v).mp hvc
  · intro hr
    obtain ⟨c, hc, huc⟩ := (components_spec nodes es f).2.2 u hu
    exact ⟨c, hc, huc, (components_class nodes es f c hc u huc v).mpr hr⟩

/-- `num_connected_components` is the number of reachability classes: every system of representatives `R` (nodes,
pairwise not reachable from each other, every node reachable from one of them) has exactly that many members. -/
theorem C08_count (nodes : List Nat) (es : List Edge) (f : Filt) (R : List Nat) (hR : ∀ r ∈ R, r ∈ nodes)
    (hpair : R.Pairwise (fun a b => ¬ Reach es f a b)) (hcov : ∀ n ∈ nodes, ∃ r ∈ R, Reach es f r n) :
    numComponents nodes es f = R.length :=
  components_count nodes es f R hR hpair hcov

/-- The two primitives of `hypergraph.py` that every C08 function reads.  `get_incident_edges(n, f)` lists exactly the
filtered hyperedges containing `n` (each once when the container lists distinct hyperedges; `degree` is its length).
`get_neighbors(n, f)` is exactly the set of the OTHER members of those hyperedges: it never contains `n` itself -
whatever equal object denotes the node, labels enter only through `==` - and lists nobody twice.  No hypothesis. -/
theorem C08_neighbors (es : List Edge) (f : Filt) (n : Nat) :
    (∀ e, e ∈ incident es n f ↔ e ∈ es ∧ n ∈ e ∧ passes f e.length = true) ∧
    (es.Nodup → (incident es n f).Nodup) ∧ deg es n f = (incident es n f).length ∧
    (∀ v, v ∈ neighbors es f n ↔ v ≠ n ∧ ∃ e ∈ incident es n f, v ∈ e) ∧
    n ∉ neighbors es f n ∧ (neighbors es f n).Nodup := by
  refine ⟨mem_incident es f n, incident_nodup es f n, rfl, ?_, self_not_mem_neighbors es f n, neighbors_nodup es f n⟩
  intro v
  rw [mem_neighbors]
  constructor
  · rintro ⟨hne, e, he, hp, hn, hv⟩
    exact ⟨hne, e, (mem_incident es f n e).mpr ⟨he, hn, hp⟩, hv⟩
  · rintro ⟨hne, e, he, hv⟩
    obtain ⟨he', hn, hp⟩ := (mem_incident es f n e).mp he
    exact ⟨hne, e, he', hp, hn, hv⟩

/-- non-vacuity: node 1 lies in a singleton hyperedge, a pair and a triple; with `size=1` it has an incident hyperedge
and no neighbour, with `size=2` the neighbour 0, without a filter the neighbours 0, 2, 3 -/
example : incident [[0, 1], [1], [1, 2, 3], [4]] 1 (.size 1) = [[1]] ∧ neighbors [[0, 1], [1], [1, 2, 3], [4]] (.size 1) 1 = []
    ∧ neighbors [[0, 1], [1], [1, 2, 3], [4]] (.size 2) 1 = [0] ∧ neighbors [[0, 1], [1], [1, 2, 3], [4]] .none 1 = [0, 2, 3] := by
  decide

/-- A node is isolated (`is_isolated`, `isolated_nodes`) iff no filtered hyperedge of size ≥ 2 contains it, iff its
reachability class is `{n}`, iff its connected component is the singleton `[n]`.
(Hyperedges are duplicate-free tuples: hypothesis of the "size ≥ 2" form only.) -/
theorem C08_isolated (nodes : List Nat) (es : List Edge) (f : Filt) (n : Nat) (hn : n ∈ nodes) :
    ((∀ e ∈ es, e.Nodup) →
      (isIsolated? nodes es f n = some true ↔ ∀ e ∈ es, passes f e.length = true → n ∈ e → e.length < 2)) ∧
    (isIsolated? nodes es f n = some true ↔ ∀ v, Reach es f n v ↔ v = n) ∧
    (isIsolated? nodes es f n = some true ↔ [n] ∈ components nodes es f) ∧
    (n ∈ isolatedNodes nodes es f ↔ isIsolated? nodes es f n = some true) := by
  have hiso : isIsolated? nodes es f n = some true ↔ ∀ v, Adj es f n v → v = n := by
    simp only [isIsolated?, hn, if_true, Option.some.injEq, List.isEmpty_iff, neighbors_eq_nil_iff]
  have hreach : (∀ v, Adj es f n v → v = n) ↔ ∀ v, Reach es f n v ↔ v = n := by
    constructor
    · intro h v
      exact ⟨reach_of_no_adj es f n h v, fun hv => by rw [hv]; exact Reach.refl n⟩
    · intro h v ha
      exact (h v).mp (Reach.single ha)
  refine ⟨?_, hiso.trans hreach, ?_, ?_⟩
  · intro hnd
    rw [hiso]
    constructor
    · intro h e he hp hne
      apply Decidable.byContradiction
      intro hlen
      obtain ⟨v, hv, hvn⟩ := exists_ne_of_two_le e (hnd e he) (by omega) n
      exact hvn (h v ⟨e, he, hp, hne, hv⟩)
    · intro h v ⟨e, he, hp, hne, hv⟩
      apply Decidable.byContradiction
      intro hvn
      have := two_le_of_mem_ne e n v hne hv hvn
      have := h e he hp hne
      omega
  · rw [hiso.trans hreach]
    constructor
    · intro h
      obtain ⟨c, hc, hnc⟩ := (components_spec nodes es f).2.2 n hn
      obtain ⟨r, _, hr⟩ := (components_spec nodes es f).1 c hc
      have hmem : ∀ v, v ∈ c ↔ v = n := fun v => (components_class nodes es f c hc n hnc v).trans (h v)
      have hcnd : c.Nodup := hr ▸ bfsH_nodup es f r
      have : c = [n] := by
        match c, hmem, hcnd with
        | [], hmem, _ => exact absurd ((hmem n).mpr rfl) (by simp)
        | [a], hmem, _ => rw [(hmem a).mp List.mem_cons_self]
        | a :: b :: t, hmem, hcnd =>
          have ha := (hmem a).mp List.mem_cons_self
          have hb := (hmem b).mp (by simp)
          rw [ha, hb] at hcnd
          exact absurd List.mem_cons_self (List.nodup_cons.mp hcnd).1
      exact this ▸ hc
    · intro hc v
      rw [← components_class nodes es f [n] hc n List.mem_cons_self v]
      simp
  · simp only [isolatedNodes, isIsolated?, hn, if_true, List.mem_filter, true_and, Option.some.injEq]

/-- All wrappers of `utils/cc.py` agree with the partition of `C08_partition` under the SAME filter `f`:
count, connectedness, the component of a node, the largest component and its size. -/
theorem C08_consistent (nodes : List Nat) (es : List Edge) (f : Filt) :
    numComponents nodes es f = (components nodes es f).length ∧
    (isConnected nodes es f = true ↔ (components nodes es f).length = 1) ∧
    (isConnected nodes es f = true ↔ nodes ≠ [] ∧ ∀ u ∈ nodes, ∀ v ∈ nodes, Reach es f u v) ∧
    (∀ n ∈ nodes, ∃ c' c, nodeComponent nodes es f n = some c' ∧ c ∈ components nodes es f ∧ n ∈ c ∧ c.Perm c') ∧
    (∀ n, n ∉ nodes → nodeComponent nodes es f n = none) ∧
    (nodes ≠ [] → ∃ c ∈ components nodes es f, largestComponent nodes es f = some c ∧
        largestComponentSize nodes es f = some c.length ∧ ∀ d ∈ components nodes es f, d.length ≤ c.length) ∧
    (nodes = [] → components nodes es f = [] ∧ largestComponent nodes es f = none ∧
        largestComponentSize nodes es f = none) := by
  obtain ⟨h1, h2, h3⟩ := components_spec nodes es f
  have hnonempty : ∀ c ∈ components nodes es f, ∃ x ∈ nodes, x ∈ c := by
    intro c hc
    obtain ⟨r, hr, rfl⟩ := h1 c hc
    exact ⟨r, hr, (mem_bfsH es f r r).mpr (Reach.refl r)⟩
  refine ⟨rfl, by simp [isConnected], ?_, ?_, ?_, ?_, ?_⟩
  · simp only [isConnected, beq_iff_eq]
    constructor
    · intro hlen
      match hcs : components nodes es f, hlen with
      | [c], _ =>
        rw [hcs] at h3 hnonempty
        obtain ⟨x, hx, _⟩ := hnonempty c List.mem_cons_self
        refine ⟨List.ne_nil_of_mem hx, ?_⟩
        intro u hu v hv
        obtain ⟨cu, hcu, huc⟩ := h3 u hu
        obtain ⟨cv, hcv, hvc⟩ := h3 v hv
        simp only [List.mem_singleton] at hcu hcv
        rw [hcu] at huc; rw [hcv] at hvc
        exact (components_class nodes es f c (by rw [hcs]; exact List.mem_cons_self) u huc v).mp hvc
    · rintro ⟨hne, hall⟩
      match hcs : components nodes es f with
      | [] =>
        obtain ⟨x, hx⟩ := List.exists_mem_of_ne_nil _ hne
        obtain ⟨c, hc, _⟩ := h3 x hx
        rw [hcs] at hc; cases hc
      | [c] => rfl
      | a :: b :: t =>
        exfalso
        rw [hcs] at h2 hnonempty
        obtain ⟨x, hx, hxa⟩ := hnonempty a List.mem_cons_self
        obtain ⟨y, hy, hyb⟩ := hnonempty b (by simp)
        have hya : y ∈ a :=
          (components_class nodes es f a (by rw [hcs]; exact List.mem_cons_self) x hxa y).mpr (hall x hx y hy)
        have hdisj : Disj a b := (List.pairwise_cons.mp h2).1 b List.mem_cons_self
        exact hdisj y hya hyb
  · intro n hn
    obtain ⟨c, hc, hnc⟩ := h3 n hn
    obtain ⟨r, _, hr⟩ := h1 c hc
    refine ⟨bfsH es f n, c, by simp [nodeComponent, bfsFrom, hn], hc, hnc, ?_⟩
    apply (List.perm_ext_iff_of_nodup (hr ▸ bfsH_nodup es f r) (bfsH_nodup es f n)).mpr
    intro v
    rw [components_class nodes es f c hc n hnc v, mem_bfsH]
  · intro n hn; simp [nodeComponent, bfsFrom, hn]
  · intro hne
    have hcne : components nodes es f ≠ [] := by
      obtain ⟨x, hx⟩ := List.exists_mem_of_ne_nil _ hne
      obtain ⟨c, hc, _⟩ := h3 x hx
      exact List.ne_nil_of_mem hc
    obtain ⟨c, hmax, hc, hle⟩ := maxByLen_spec _ hcne
    exact ⟨c, hc, hmax, by simp [largestComponentSize, largestComponent, hmax], hle⟩
  · intro hnil
    have : components nodes es f = [] := by subst hnil; rfl
    simp [largestComponentSize, largestComponent, this, maxByLen]

/-! ## non-vacuity: the hypotheses are satisfiable and the conclusions are not trivial

`D23`'s shape: a size-2 path `0-1`, a size-3 hyperedge `{1,2,3}`, a size-2 hyperedge `3-4`, an isolated node 5 and a
singleton hyperedge `{6}`. -/

def exNodes : List Nat := [0, 1, 2, 3, 4, 5, 6]
def exEdges : List Edge := [[0, 1], [1, 2, 3], [3, 4], [6]]

example : exNodes.Nodup ∧ exEdges.Nodup ∧ WF exNodes exEdges ∧ ∀ e ∈ exEdges, e.Nodup := by
  refine ⟨by decide, by decide, ?_, by decide⟩
  intro e he x hx
  simp only [exEdges, List.mem_cons, List.not_mem_nil, or_false] at he
  rcases he with rfl | rfl | rfl | rfl <;> simp [exNodes] at hx ⊢ <;> omega

-- degrees: node 1 lies in two hyperedges, one of size 2 and one of size 3
example : degree? exNodes exEdges 1 .none = some 2 ∧ degree? exNodes exEdges 1 (.size 2) = some 1
    ∧ degree? exNodes exEdges 1 (.order 2) = some 1 ∧ degree? exNodes exEdges 9 .none = none := by decide
-- handshake: 2 + 3 + 2 + 1 = 8, and 2 + 2 = 4 with size=2
example : ((exNodes.map (fun n => deg exEdges n .none)).sum, (exNodes.map (fun n => deg exEdges n (.size 2))).sum)
    = (8, 4) := by decide
example : degreeSeq exNodes exEdges (.size 2) = [(0, 1), (1, 1), (2, 0), (3, 1), (4, 1), (5, 0), (6, 0)]
    ∧ degreeDist exNodes exEdges (.size 2) = [(1, 4), (0, 3)] := by decide
example : dirDeg [([0, 1], [2]), ([2], [0])] 0 .none = 2 ∧ dirDeg [([0, 1], [2]), ([2], [0])] 0 (.size 3) = 1 := by
  decide
-- BFS / components: the three filters give three different partitions (`bfs` is defined by well-founded recursion,
-- so it is evaluated by rewriting with its equations instead of `decide`)
macro "c08_eval" : tactic => `(tactic|
  simp [components, compLoop, isConnected, numComponents, largestComponent, largestComponentSize, maxByLen,
    nodeComponent, bfsFrom, bfsH, bfs, neighbors, incident, incidentG, addAll, addNew, passes, exEdges, exNodes])

set_option maxRecDepth 4000 in
example : bfsFrom exNodes exEdges .none 0 = some [4, 3, 2, 1, 0] ∧ bfsFrom exNodes exEdges (.size 2) 0 = some [1, 0]
    ∧ bfsFrom exNodes exEdges .none 7 = none := by c08_eval
set_option maxRecDepth 4000 in
example : components exNodes exEdges .none = [[4, 3, 2, 1, 0], [5], [6]]
    ∧ components exNodes exEdges (.size 2) = [[1, 0], [2], [4, 3], [5], [6]]
    ∧ components exNodes exEdges (.size 3) = [[0], [3, 2, 1], [4], [5], [6]] := by c08_eval
set_option maxRecDepth 4000 in
example : Reach exEdges .none 0 4 ∧ ¬ Reach exEdges (.size 2) 0 4 := by
  have a01 : Adj exEdges .none 0 1 := ⟨[0, 1], by decide, rfl, by decide, by decide⟩
  have a13 : Adj exEdges .none 1 3 := ⟨[1, 2, 3], by decide, rfl, by decide, by decide⟩
  have a34 : Adj exEdges .none 3 4 := ⟨[3, 4], by decide, rfl, by decide, by decide⟩
  refine ⟨((Reach.single a01).step a13).step a34, fun h => ?_⟩
  obtain ⟨c, hc, _, hmem⟩ := (C08_bfs exNodes exEdges (.size 2) 0).1 (by decide)
  have hb : bfsFrom exNodes exEdges (.size 2) 0 = some [1, 0] := by c08_eval
  rw [hb] at hc
  cases hc
  exact absurd ((hmem 4).mpr h) (by decide)
set_option maxRecDepth 4000 in
example : ∃ R : List Nat, (∀ r ∈ R, r ∈ exNodes) ∧ R.Pairwise (fun a b => ¬ Reach exEdges .none a b) ∧
    (∀ n ∈ exNodes, ∃ r ∈ R, Reach exEdges .none r n) ∧ R.length = 3 := by
  have b0 : bfsH exEdges .none 0 = [4, 3, 2, 1, 0] := by c08_eval
  have b5 : bfsH exEdges .none 5 = [5] := by c08_eval
  have r0 : ∀ v, Reach exEdges .none 0 v ↔ v ∈ [4, 3, 2, 1, 0] := fun v => by rw [← b0, mem_bfsH]
  have r5 : ∀ v, Reach exEdges .none 5 v ↔ v ∈ [5] := fun v => by rw [← b5, mem_bfsH]
  refine ⟨[0, 5, 6], by decide, ?_, ?_, rfl⟩
  · simp [r0, r5]
  · intro n hn
    simp only [exNodes, List.mem_cons, List.not_mem_nil, or_false] at hn
    rcases hn with rfl | rfl | rfl | rfl | rfl | rfl | rfl
    · exact ⟨0, by decide, (r0 _).mpr (by decide)⟩
    · exact ⟨0, by decide, (r0 _).mpr (by decide)⟩
    · exact ⟨0, by decide, (r0 _).mpr (by decide)⟩
    · exact ⟨0, by decide, (r0 _).mpr (by decide)⟩
    · exact ⟨0, by decide, (r0 _).mpr (by decide)⟩
    · exact ⟨5, by decide, Reach.refl 5⟩
    · exact ⟨6, by decide, Reach.refl 6⟩
set_option maxRecDepth 4000 in
example : isConnected exNodes exEdges .none = false ∧ isConnected [0, 1, 2] [[0, 1], [1, 2]] (.order 1) = true
    ∧ numComponents exNodes exEdges (.size 2) = 5 ∧ largestComponent exNodes exEdges (.size 3) = some [3, 2, 1]
    ∧ largestComponentSize exNodes exEdges (.size 2) = some 2 ∧ largestComponent [] [] .none = none := by c08_eval
example : isolatedNodes exNodes exEdges .none = [5, 6] ∧ isolatedNodes exNodes exEdges (.size 3) = [0, 4, 5, 6]
    ∧ isIsolated? exNodes exEdges (.size 2) 2 = some true ∧ isIsolated? exNodes exEdges .none 2 = some false := by
  decide

/-! ## every object a user can hold

"For every hypergraph" ranges over every `Hypergraph` object reachable through a program of the public operations over
several objects (`Hgxv/Model/C08Hist.lean`: `add_node`, `add_edge`, `remove_edge`, `remove_node(keep_edges)`, `clear`,
`copy`, `subhypergraph`; batches and the constructor are sequences of these).  The theorems above take the listing
`get_nodes()` / `get_edges()` of such an object; the next ones say that every reachable object meets their hypotheses
and that an operation on one object leaves every other object alone. -/

/-- Every object of every program state satisfies the hypotheses used above: distinct nodes, distinct canonical
(strictly increasing, hence duplicate-free) hyperedges over nodes of the object.  `hv`: `add_edge` is given
duplicate-free tuples (the property's hyperedges); rejected operations (`none`: the code raises) end a program. -/
theorem C08_history_wf (ops : List Hist.Op) (hv : ∀ op ∈ ops, op.Valid) (st : List Hist.Content)
    (hr : Hist.run [{}] ops = some st) (c : Hist.Content) (hc : c ∈ st) :
    c.nodes.Nodup ∧ c.es.Nodup ∧ WF c.nodes c.es ∧ (∀ e ∈ c.es, e.Nodup) ∧ (∀ e ∈ c.es, e.Pairwise (· < ·)) := by
  have h := Hist.inv_run ops [{}] st hv (by intro d hd; simp at hd; subst hd; exact Hist.inv_empty) hr c hc
  exact ⟨h.nodes_nodup, h.es_nodup, h.wf, fun e he => Hist.nodup_of_sorted e (h.sorted e he), h.sorted⟩

/-- An operation applied to object `i` leaves every other object `j` of the program exactly as it was (`copy` and
`subhypergraph` change no existing object), and the object `copy` appends has the content of its source.  This is what
a copy sharing adjacency lists with its original violates. -/
theorem C08_history_frame (st st' : List Hist.Content) (op : Hist.Op) (hs : Hist.step st op = some st') :
    (∀ j, j < st.length → op.target ≠ some j → st'[j]? = st[j]?) ∧
    (∀ i, op = .copy i → st'[st.length]? = st[i]? ∧ st'.length = st.length + 1) :=
  ⟨fun j hj ht => Hist.frame_step st st' op j hj ht hs, fun i hi => Hist.copy_step st st' i (hi ▸ hs)⟩

/-- Handshake for every reachable object, every filter: no hypothesis on the content is left. -/
theorem C08_history_handshake (ops : List Hist.Op) (hv : ∀ op ∈ ops, op.Valid) (st : List Hist.Content)
    (hr : Hist.run [{}] ops = some st) (c : Hist.Content) (hc : c ∈ st) (f : Filt) :
    (c.nodes.map (fun n => deg c.es n f)).sum
      = ((c.es.filter (fun e => passes f e.length)).map (fun e => e.length)).sum := by
  obtain ⟨hn, _, hwf, hnd, _⟩ := C08_history_wf ops hv st hr c hc
  exact C08_handshake id c.nodes c.es hn (fun e he => ⟨hnd e he, hwf e he⟩) f

/-- non-vacuity: a program with a temporary hyperedge, a copy, and later mutations of both objects -/
def exProgram : List Hist.Op :=
  [.addEdge 0 [2, 1], .addEdge 0 [9, 8], .addEdge 0 [4, 2, 3], .removeEdge 0 [8, 9], .copy 0,
   .removeEdge 1 [1, 2], .addEdge 1 [1, 9], .removeNode 0 2 true, .sub 0 [3, 4, 8]]

example : (∀ op ∈ exProgram, op.Valid) ∧ Hist.run [{}] exProgram = some
    [⟨[1, 8, 9, 3, 4], [[1], [3, 4]]⟩, ⟨[1, 2, 8, 9, 3, 4], [[2, 3, 4], [1, 9]]⟩, ⟨[3, 4, 8], [[3, 4]]⟩] := by
  refine ⟨?_, by decide⟩
  intro op hop
  simp only [exProgram, List.mem_cons, List.mem_nil_iff, or_false] at hop
  rcases hop with h | h | h | h | h | h | h | h | h <;> subst h <;> simp [Hist.Op.Valid]
