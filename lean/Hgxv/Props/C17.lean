import Hgxv.Proofs.C17Init
import Hgxv.Proofs.C17Book
import Hgxv.Proofs.C17EM
import Hgxv.Proofs.C17Ex
import Hgxv.Proofs.C17Norm
import Hgxv.Proofs.C17Ext
import Hgxv.Proofs.C17Lap
/-! # C17 — Hypergraph-MT / spectral clustering: valid reproducible output, EM ascends

Property theorems about the model `Hgxv/Model/C17.lean`.  The numerical definitions of the model are generic in the
number type; here they are instantiated at an arbitrary linearly ordered field `α` (algebraic statements) and at `ℝ`
(statements with `log`).  Hypotheses are what the code guarantees: `CfgOk` (`min_value_par ≥ 0`, the upper clamp and
its replacement value `1e2` are not below it), node indices of the permutation `< N`, draws `uk ≥ 0`
(`RandomState.random_sample`).  The clamps on `u` ARE covered by `C17_psi`/`C17_loglik_agrees` (the tables are
maintained across them); they are excluded only from the ascent theorems. -/
set_option linter.unusedSectionVars false
open C17

section field
variable {α : Type} [Field α] [LinearOrder α] [IsStrictOrderedRing α]

/-- **the incremental tables are the elementary symmetric polynomials.**  At every point reached,
`psiOmega[d][k] = e_{d+1}(u[:,k])`; all entries of `u` and `psiBarOmega` are non-negative (so the negative-value
repairs never fire) and every entry of `u` is `0` or `≥ min_value_par`. -/
theorem C17_psi (c : Cfg α) (hc : CfgOk c) (r0 : Bool) (uk : List α) (huk : ∀ x ∈ uk, 0 ≤ x) (u0 w0 : Mat α)
    (lams : List α) (perms : List (List Nat)) (hp : ∀ p ∈ perms, ∀ i ∈ p, i < c.N) (d k : Nat) (hd : d < c.D)
    (hk : k < c.K) :
    at2 (reach c r0 uk u0 w0 lams perms).psi d k
      = esymm (d + 1) (col c.N (reach c r0 uk u0 w0 lams perms).u k) :=
  (reach_inv c hc r0 uk huk u0 w0 lams perms hp).psi d k hd hk

/-- the step form: any single pass of the loop body of `_update_u` (with its clamps, `check_u`, any multiplier)
preserves the invariant -/
theorem C17_psi_step (c : Cfg α) (hc : CfgOk c) (s : St α) (hs : Inv c s) (i : Nat) (hi : i < c.N) :
    Inv c (uNode c s i) := uNode_inv c hc s hs i hi

/-- **`_update_psiBarOmega(i, ks)`** leaves in every recomputed column `k` the elementary symmetric polynomials of
column `k` of `u` without node `i`, and the repair does nothing -/
theorem C17_psiBar (c : Cfg α) (hc : CfgOk c) (s : St α) (hs : Inv c s) (i : Nat) (hi : i < c.N) (d k : Nat)
    (hd : d < c.D) (hk : k < c.K) (hact : actK c s i k = true) :
    at2 (barNew c s i) d k = esymm (d + 1) (restL c.N (fun j => at2 s.u j k) i) := by
  rw [barNew_eq c hc s hs.toInv0 i hi, barUpd_spec c hc s hs.toInv0 i hi _ d k hd hk, hact]; rfl

/-- **incremental = definition.**  At every point reached (any `min_value_par ≥ 0`, in particular `0`) the penalty
term `sum(w * psiOmega[1:])` of `_LogLikelihood` equals `Σ_{d,k} w[d,k] e_{d+2}(u[:,k])`; the data term is the same
expression of `(u, w)` in both, so the two log-likelihoods coincide (see `C17_loglik_agrees_real`). -/
theorem C17_loglik_agrees (c : Cfg α) (hc : CfgOk c) (r0 : Bool) (uk : List α) (huk : ∀ x ∈ uk, 0 ≤ x) (u0 w0 : Mat α)
    (lams : List α) (perms : List (List Nat)) (hp : ∀ p ∈ perms, ∀ i ∈ p, i < c.N) :
    penIncr c (reach c r0 uk u0 w0 lams perms).w (reach c r0 uk u0 w0 lams perms).psi
      = penDef c (reach c r0 uk u0 w0 lams perms).u (reach c r0 uk u0 w0 lams perms).w := by
  have h := reach_inv c hc r0 uk huk u0 w0 lams perms hp
  unfold penIncr penDef
  apply sumR_congr; intro d hd
  apply sumR_congr; intro k hk
  rw [h.psi (d + 1) k (by omega) hk]

/-- **zero rows stay zero**: a node whose row of `u` is zero is never touched by `_update_u` -/
theorem C17_zero_row_stays (c : Cfg α) (hc : CfgOk c) (s : St α) (j : Nat) (hj : ∀ k, at2 s.u j k = 0) (i : Nat)
    (k : Nat) : at2 (uNode c s i).u j k = 0 := zero_row_stays c hc s j hj i k

/-- **zero rows for isolated nodes**: at every point reached the row of an isolated node (no hyperedge contains it)
is zero; with `C17_bookkeeping` this is the row of the returned `u` -/
theorem C17_isolated_rows_zero (c : Cfg α) (hc : CfgOk c) (r0 : Bool) (uk : List α) (u0 w0 : Mat α)
    (lams : List α) (perms : List (List Nat)) (i : Nat) (hi : i < c.N) (hiso : c.isIso i = true) (k : Nat) :
    at2 (reach c r0 uk u0 w0 lams perms).u i k = 0 := by
  unfold reach
  have h0 : ∀ k, at2 (initState c r0 uk u0 w0 lams).u i k = 0 := by
    intro k
    rw [initState_u c r0 uk u0 w0 lams i k hi]
    split
    · simp [initRow, hiso]
    · rfl
  generalize initState c r0 uk u0 w0 lams = s at h0
  revert k
  induction perms generalizing s with
  | nil => exact h0
  | cons p ps ih =>
    simp only [List.foldl_cons]
    apply ih
    intro k
    unfold emSweep
    exact uSweep_zero_row c hc i p _ (by simpa using h0) k

/-- **normalised rows (`normalizeU = True`).**  The root finder is outside the proof; its contract is `LamOk`: the
multiplier consumed by the update of node `i` is the root of `Σ_{k ∈ ks} num_k / (λ + den_k) = 1` on the branch where every
term with a positive numerator has a positive denominator (D36 was a multiplier violating one of the two clauses).  Then,
for every reachable state (`Inv`), non-negative responsibilities and an upper clamp `≥ 1` (`1e2` in the code): `check_u`
does not fire, every recomputed entry is the non-negative raw value `num_k / (λ + den_k)` (set to 0 below the threshold),
and the new row sums to one up to `K · min_value_par`.  (`uNode` writes `vNew c s i` into row `i`.) -/
theorem C17_normalized_row (c : Cfg α) (hc : CfgOk c) (hn : c.normU = true)
    (hmax : ∀ t v, c.maxv = some (t, v) → 1 ≤ t) (s : St α) (hs : Inv c s) (i : Nat) (hi : i < c.N)
    (hnum : ∀ k, 0 ≤ uNum c s.rho i k) (hl : LamOk c s i) :
    negNew c s i = false ∧
    (∀ k, k < c.K → actK c s i k = true →
        vNew c s i k = clampLow c (rawNew c s i k) ∧ 0 ≤ rawNew c s i k ∧ rawNew c s i k ≤ 1) ∧
    1 - (c.K : α) * c.minv ≤ sumR c.K (vNew c s i) ∧ sumR c.K (vNew c s i) ≤ 1 + (c.K : α) * c.minv :=
  ⟨nrm_negNew_false c hn s i hnum hl,
   fun k hk ha => ⟨nrm_vNew_active c hc hn hmax s hs i hi hnum hl k hk ha, nrm_rawNew_nonneg c hn s i hnum hl k hk ha,
                  nrm_rawNew_le_one c hn s i hnum hl k hk ha⟩,
   nrm_row_sum_bounds c hc hn hmax s hs i hi hnum hl⟩

end field

/-! ## EM ascent (over `ℝ`; `Setup`: no clamps, `EPS = 0`, `normalizeU = False`) -/

/-- **free energy.**  For any responsibilities `rho` (positive, rows summing to one) the variational free energy
`FQ` is a lower bound of the log-likelihood `LL` (the definition: `Σ_e A_e log Σ_k w_{|e|,k} Π_{i∈e} u_ik -
Σ_{d,k} w_dk e_d(u_·k)`), with equality at the posterior that `_update_rho` computes. -/
theorem C17_free_energy (c : Cfg ℝ) (hS : Setup c) (u w : Mat ℝ) (hP : Pos c u w) :
    (∀ rho, RhoOk c rho → FQ c u w rho ≤ LL c u w) ∧ FQ c u w (rhoUpdate c u w) = LL c u w ∧
    RhoOk c (rhoUpdate c u w) :=
  ⟨fun _ hR => FQ_le_LL hS hP hR, FQ_eq_LL hS hP, rhoUpdate_ok hS hP⟩

/-- **M-step for `w`**: `_update_w` (with the maintained table `psi = e(u)`) does not decrease the free energy -/
theorem C17_mstep_w (c : Cfg ℝ) (hS : Setup c) (u w rho psi : Mat ℝ) (hP : Pos c u w) (hu : ∀ i k, 0 ≤ at2 u i k)
    (hR : RhoOk c rho) (hpsi : ∀ d k, d < c.D → k < c.K → at2 psi d k = esymm (d + 1) (col c.N u k)) :
    Pos c u (wUpdate c rho psi) ∧ FQ c u w rho ≤ FQ c u (wUpdate c rho psi) rho :=
  wstep hS hP hu hR hpsi

/-- **M-step for one node**: one pass of the loop body of `_update_u` (responsibilities NOT refreshed, as in the
code) does not decrease the free energy; without clamps the new row is `Σ_{e∋i} A_e rho_ek / Σ_d w_dk psiBar_dk` -/
theorem C17_mstep_u (c : Cfg ℝ) (hS : Setup c) (s : St ℝ) (hI : Inv c s) (hP : Pos c s.u s.w) (hZ : IsoZero c s.u)
    (hR : RhoOk c s.rho) (i : Nat) (hi : i < c.N) :
    FQ c s.u s.w s.rho ≤ FQ c (uNode c s i).u (uNode c s i).w (uNode c s i).rho ∧
    (∀ e, e < c.E → i ∈ c.edge e → ∀ k, k < c.K →
      at2 (uNode c s i).u i k = uNum c s.rho i k / uDen c s.w (barNew c s i) k) := by
  refine ⟨(uNode_good hS s hI hP hZ hR i hi).2.2.2.2.2, ?_⟩
  intro e he hie k hk
  rw [uNode_eq hS s hI hP hR i e hi he hie]
  simp only
  unfold setRow
  rw [at2_tab2 _ _ _ _ _ hi hk, if_pos rfl]
  exact vNew_eq hS s hI hP hR i e hi he hie k hk

/-- **ascent of one sweep.**  If the tables are exact (`Inv`), parameters are positive where the model has one,
isolated rows are zero and `rho` is the posterior (all true after the initialisation and re-established here), then
the log-likelihood after a full `_update_em` sweep (`_update_w`, `_update_rho`, `_update_u` in any node order,
`_update_rho`) is at least the one before. -/
theorem C17_ascent (c : Cfg ℝ) (hS : Setup c) (s : St ℝ) (hI : Inv c s) (hP : Pos c s.u s.w) (hZ : IsoZero c s.u)
    (hrho : s.rho = rhoUpdate c s.u s.w) (perm : List Nat) (hp : ∀ i ∈ perm, i < c.N) :
    LL c s.u s.w ≤ LL c (emSweep c s perm).u (emSweep c s perm).w ∧
    Inv c (emSweep c s perm) ∧ Pos c (emSweep c s perm).u (emSweep c s perm).w ∧ IsoZero c (emSweep c s perm).u ∧
    (emSweep c s perm).rho = rhoUpdate c (emSweep c s perm).u (emSweep c s perm).w :=
  em_ascent hS s hI hP hZ hrho perm hp

/-- **ascent along a whole realisation.**  From the initialisation with positive random values (`uk ≥ 0`; `u0 > 0`
on non-isolated nodes, `w0 > 0` on the occurring sizes: probability one) every further sweep, with any node orders,
does not decrease the log-likelihood evaluated from its definition - which by `C17_loglik_agrees` is the recorded one. -/
theorem C17_ascent_run (c : Cfg ℝ) (hS : Setup c) (r0 : Bool) (uk : List ℝ) (huk : ∀ x ∈ uk, 0 ≤ x) (u0 w0 : Mat ℝ)
    (hu0 : ∀ i k, i < c.N → k < c.K → c.isIso i = false → 0 < at2 u0 i k)
    (hw0 : ∀ e, e < c.E → ∀ k, k < c.K → 0 < at2 w0 ((c.edge e).length - 2) k)
    (hw0n : ∀ d k, 0 ≤ at2 w0 d k)
    (perms : List (List Nat)) (p : List Nat) (hp : ∀ q ∈ perms ++ [p], ∀ i ∈ q, i < c.N) :
    LL c (reach c r0 uk u0 w0 [] perms).u (reach c r0 uk u0 w0 [] perms).w
      ≤ LL c (reach c r0 uk u0 w0 [] (perms ++ [p])).u (reach c r0 uk u0 w0 [] (perms ++ [p])).w := by
  have hgood : ∀ (qs : List (List Nat)), (∀ q ∈ qs, ∀ i ∈ q, i < c.N) →
      Inv c (reach c r0 uk u0 w0 [] qs) ∧ Pos c (reach c r0 uk u0 w0 [] qs).u (reach c r0 uk u0 w0 [] qs).w ∧
      IsoZero c (reach c r0 uk u0 w0 [] qs).u ∧
      (reach c r0 uk u0 w0 [] qs).rho = rhoUpdate c (reach c r0 uk u0 w0 [] qs).u (reach c r0 uk u0 w0 [] qs).w := by
    intro qs
    induction qs using List.reverseRecOn with
    | nil =>
      intro _
      obtain ⟨hP, hZ⟩ := initState_pos hS r0 uk u0 w0 [] hu0 hw0 hw0n
      exact ⟨initState_inv c hS.cfgOk r0 uk huk u0 w0 [], hP, hZ, initState_rho hS r0 uk u0 w0 []⟩
    | append_singleton qs q ih =>
      intro hq
      obtain ⟨hI, hP, hZ, hr⟩ := ih (fun q' hq' => hq q' (by simp [hq']))
      have : reach c r0 uk u0 w0 [] (qs ++ [q]) = emSweep c (reach c r0 uk u0 w0 [] qs) q := by
        unfold reach; rw [List.foldl_append]; rfl
      rw [this]
      exact (em_ascent hS _ hI hP hZ hr q (hq q (by simp))).2
  obtain ⟨hI, hP, hZ, hr⟩ := hgood perms (fun q hq => hp q (by simp [hq]))
  have : reach c r0 uk u0 w0 [] (perms ++ [p]) = emSweep c (reach c r0 uk u0 w0 [] perms) p := by
    unfold reach; rw [List.foldl_append]; rfl
  rw [this]
  exact (em_ascent hS _ hI hP hZ hr p (hp p (by simp))).1

/-- the two log-likelihoods (maintained table / definition) as real numbers -/
theorem C17_loglik_agrees_real (c : Cfg ℝ) (hc : CfgOk c) (r0 : Bool) (uk : List ℝ) (huk : ∀ x ∈ uk, 0 ≤ x)
    (u0 w0 : Mat ℝ) (lams : List ℝ) (perms : List (List Nat)) (hp : ∀ p ∈ perms, ∀ i ∈ p, i < c.N) :
    (∑ e ∈ Finset.range c.E, c.wt e * Real.log (lamE c (reach c r0 uk u0 w0 lams perms).u (reach c r0 uk u0 w0 lams perms).w e))
        - penIncr c (reach c r0 uk u0 w0 lams perms).w (reach c r0 uk u0 w0 lams perms).psi
      = LL c (reach c r0 uk u0 w0 lams perms).u (reach c r0 uk u0 w0 lams perms).w := by
  unfold LL; rw [C17_loglik_agrees c hc r0 uk huk u0 w0 lams perms hp]

/-! ## bookkeeping of `fit` -/

/-- **returned `maxL` and parameters.**  `rs` lists, per realisation, the final `loglik` and the parameters `(u, w)`
at that moment; `inf = -1e10`.  The returned value bounds every realisation's final value; it is attained by a
realisation, whose parameters are the ones returned, as soon as one realisation ends above `-1e10` (otherwise nothing
is stored: `fit` then has no `u_f` to return). -/
theorem C17_bookkeeping {α β : Type} [LinearOrder α] (inf : α) (rs : List (α × β)) :
    (∀ r ∈ rs, r.1 ≤ (bestOf inf rs).1) ∧ inf ≤ (bestOf inf rs).1 ∧
    ((∃ r ∈ rs, inf < r.1) → ∃ b, (bestOf inf rs).2 = some b ∧ ((bestOf inf rs).1, b) ∈ rs) ∧
    ((∀ r ∈ rs, r.1 ≤ inf) → bestOf inf rs = (inf, none)) := by
  obtain ⟨h1, h2, h3⟩ := best_fold rs (inf, (none : Option β))
  refine ⟨h2, h1, ?_, ?_⟩
  · rintro ⟨r, hr, hlt⟩
    rcases h3 with h3 | ⟨b, hb1, hb2, _⟩
    · exfalso
      have := h2 r hr
      rw [h3] at this
      exact absurd hlt (not_lt.mpr this)
    · exact ⟨b, hb1, hb2⟩
  · intro hall
    rcases h3 with h3 | ⟨b, _, hb2, hb3⟩
    · exact h3
    · exact absurd hb3 (not_lt.mpr (hall _ hb2))

/-- **the value compared is the last recorded one.**  The `loglik` a realisation ends with is the `loglik` entry of
its newest `train_info` row, and (for `max_iter ≥ 1`) there is such a row. -/
theorem C17_bookkeeping_last_row {α : Type} [Sub α] [Zero α] [LT α] [DecidableLT α] (tol : α) (thr every maxIter : Nat)
    (inf : α) (L : α) (Ls : List α) (hm : 1 ≤ maxIter) :
    ∃ r, (runReal tol thr every maxIter inf (L :: Ls)).rows.head? = some r ∧
      r.2.1 = (runReal tol thr every maxIter inf (L :: Ls)).loglik := by
  have hok : RowsOk (runReal tol thr every maxIter inf (L :: Ls)) := by
    unfold runReal; apply go_rowsOk; intro r hr; simp at hr
  have hne : (runReal tol thr every maxIter inf (L :: Ls)).rows ≠ [] := by
    unfold runReal
    obtain ⟨n, rfl⟩ : ∃ n, maxIter = n + 1 := ⟨maxIter - 1, by omega⟩
    unfold runReal.go
    simp only [Bool.false_eq_true, if_false]
    apply go_rows_ne
    apply convStep_rows_ne
    right; simp
  cases hrows : (runReal tol thr every maxIter inf (L :: Ls)).rows with
  | nil => exact absurd hrows hne
  | cons r rest => exact ⟨r, by simp, hok r (by simp [hrows])⟩

/-! ## several calls of `fit` on one object ("run twice" on the SAME `HypergraphMT`) -/

/-- **a used object fits like a fresh one.**  `o` is any state a `HypergraphMT` object can be in (the `maxL` and the
stored `(u_f, w_f)` of whatever it was fitted on before); `rs` lists the finals of the realisations of this call, of
which one ends above `inf = -1e10` (as `C17_bookkeeping` needs for a result to exist at all).  The repaired `fit`
returns exactly what a fresh object returns. -/
theorem C17_refit_fresh {α β : Type} [LinearOrder α] (inf : α) (o : α × Option β) (rs : List (α × β))
    (h : ∃ r ∈ rs, inf < r.1) : fitCall inf o rs = bestOf inf rs := by
  unfold fitCall bestOf
  exact fold_forgets rs inf o.2 none h

/-- **every call of a session returns what a fresh object returns for it**, whatever was fitted before on the same
object (other hypergraph, other seed, the same call): the results of a session are the results of its calls taken
alone.  Hence two equal calls in one session return equal results. -/
theorem C17_session_fresh {α β : Type} [LinearOrder α] (inf : α) (calls : List (List (α × β)))
    (h : ∀ rs ∈ calls, ∃ r ∈ rs, inf < r.1) (o : α × Option β) :
    session inf o calls = calls.map (bestOf inf) := by
  induction calls generalizing o with
  | nil => rfl
  | cons rs cs ih =>
    simp only [session, List.map_cons]
    rw [C17_refit_fresh inf o rs (h rs (by simp))]
    congr 1
    exact ih (fun x hx => h x (List.mem_cons_of_mem _ hx)) _

/-- **the defect D52 (before the repair).**  `maxL` was set in `__init__` only: a call none of whose realisations ends
above the `maxL` the object already holds returns the OLD `maxL` and the OLD `(u_f, w_f)` - of another seed or another
hypergraph.  (With equal arguments the old and the new finals coincide, which is why two equal calls agreed.) -/
theorem C17_refit_stale_defect {α β : Type} [LinearOrder α] (o : α × Option β) (rs : List (α × β))
    (h : ∀ r ∈ rs, r.1 ≤ o.1) : fitCallStale o rs = o := by
  unfold fitCallStale
  exact fold_keeps rs o h

/-- non-vacuity / witness: first call finals `-3` (parameters `7`), second call on the same object finals `-8, -5`
(parameters `1, 2`): the repaired session returns `(-5, 2)` for the second call, the unrepaired one `(-3, 7)` again -/
example : session (-10 : Int) (-10, (none : Option Nat)) [[(-3, 7)], [(-8, 1), (-5, 2)]] = [(-3, some 7), (-5, some 2)] ∧
    sessionStale (-10, (none : Option Nat)) [[((-3 : Int), 7)], [(-8, 1), (-5, 2)]] = [(-3, some 7), (-3, some 7)] := by
  decide

/-! ## `HySC.apply_kmeans` -/

/-- **one 1 per non-isolated row, none otherwise**, given k-means labels in `[0, K)` (one per non-isolated node);
all entries are 0 or 1 -/
theorem C17_hysc_shape (N K : Nat) (nonIso labels : List Nat) (hnd : nonIso.Nodup)
    (hlen : labels.length = nonIso.length) (hlab : ∀ l ∈ labels, l < K) (j : Nat) (hj : j < N) :
    (∀ k, k < K → at2 (assemble N K nonIso labels) j k = 0 ∨ at2 (assemble N K nonIso labels) j k = 1) ∧
    (j ∈ nonIso → ∃ k, k < K ∧ at2 (assemble N K nonIso labels) j k = 1 ∧
        ∀ k', k' < K → k' ≠ k → at2 (assemble N K nonIso labels) j k' = 0) ∧
    (j ∉ nonIso → ∀ k, k < K → at2 (assemble N K nonIso labels) j k = 0) := by
  have hent : ∀ k, k < K → at2 (assemble N K nonIso labels) j k = if (j, k) ∈ nonIso.zip labels then 1 else 0 := by
    intro k hk
    rw [assemble_eq, asm_fold N K _ _ j k hj hk, at2_tab2 _ _ _ _ _ hj hk]
  refine ⟨?_, ?_, ?_⟩
  · intro k hk; rw [hent k hk]; split <;> simp
  · intro hmem
    obtain ⟨k, hkl, hz⟩ := zip_total nonIso labels hlen j hmem
    refine ⟨k, hlab k hkl, ?_, ?_⟩
    · rw [hent k (hlab k hkl)]; simp [hz]
    · intro k' hk' hne
      rw [hent k' hk']
      split
      · rename_i hz'; exact absurd (zip_functional nonIso labels hnd j k' k hz' hz) hne
      · rfl
  · intro hnot k hk
    rw [hent k hk]
    split
    · rename_i hz; exact absurd (List.of_mem_zip hz).1 hnot
    · rfl

/-- `non_isolates` is duplicate-free and lists exactly the nodes of some hyperedge (the hypothesis of `C17_hysc_shape`) -/
theorem C17_nonIsolates_spec (N : Nat) (edges : List (List Nat)) :
    (nonIsolates N edges).Nodup ∧
    ∀ i, i ∈ nonIsolates N edges ↔ i < N ∧ ∃ e ∈ edges, i ∈ e := by
  unfold nonIsolates
  refine ⟨List.Nodup.filter _ List.nodup_range, ?_⟩
  intro i; simp [List.mem_filter]

/-! ## non-vacuity (concrete instances; `Rat` does not reduce in the kernel, so they are stated over `Nat`) -/

example : assemble 4 2 [0, 2, 3] [1, 0, 1] = [[0, 1], [0, 0], [1, 0], [0, 1]] := by decide
example : nonIsolates 4 [[0, 2], [2, 3]] = [0, 2, 3] := by decide
example : (bestOf (0 : Nat) [(3, "a"), (5, "b"), (5, "c"), (4, "d")]) = (5, some "b") := by decide
example : (esymm 2 [1, 2, 3] : Nat) = 11 := by decide
/-- the hypotheses of `C17_ascent_run` hold on a concrete weighted hypergraph with an edge of size 2 and one of size 3 -/
example (perms : List (List Nat)) (p : List Nat) (hp : ∀ q ∈ perms ++ [p], ∀ i ∈ q, i < cEx.N) :
    LL cEx (reach cEx true [1] [[1], [2], [3]] [[1], [5]] [] perms).u (reach cEx true [1] [[1], [2], [3]] [[1], [5]] [] perms).w
      ≤ LL cEx (reach cEx true [1] [[1], [2], [3]] [[1], [5]] [] (perms ++ [p])).u
          (reach cEx true [1] [[1], [2], [3]] [[1], [5]] [] (perms ++ [p])).w :=
  C17_ascent_run cEx cEx_setup true [1] (by simp) _ _ cEx_init.1 cEx_init.2.1 cEx_init.2.2 perms p hp
example : CfgOk cEx := cEx_setup.cfgOk
/-- bookkeeping of one realisation on integers: tolerance 1, two consecutive hits needed, `max_iter = 6` -/
example : ((runReal (1 : Int) 1 1 6 (-100) [-9, -5, -5, -5, -5, -5]).rows.map (fun r => (r.1, r.2.1, r.2.2)))
    = [(3, -5, true), (2, -5, false), (1, -5, false), (0, -9, false)] := by decide
example : (nonIsolates 3 [[0, 1]]) = [0, 1] ∧
    ({ N := 3, K := 1, D := 2, edges := [[0, 1]], A := [1], minv := 0, maxv := none, eps := 0, rtol := 1,
       normU := false } : Cfg Int).isIso 2 = true := by decide

/-- non-vacuity of `C17_normalized_row`: two nodes, one hyperedge, K = 2, the code's thresholds; the multiplier `1/2` -/
example : negNew cNorm sNorm 0 = false ∧ 1 - (cNorm.K : ℚ) * cNorm.minv ≤ sumR cNorm.K (vNew cNorm sNorm 0) :=
  let h := C17_normalized_row cNorm cNorm_ok rfl
    (by intro t v h; simp only [cNorm, Option.some.injEq, Prod.mk.injEq] at h; obtain ⟨rfl, _⟩ := h; norm_num)
    sNorm sNorm_inv 0 (by decide) sNorm_num sNorm_lamOk
  ⟨h.1, h.2.2.1⟩
example : sumR cNorm.K (vNew cNorm sNorm 0) = 1 := by decide +kernel

/-! # Extension round: what used to be a parameter of the model

The initial `u0`, `w0` are computed from the RAW outputs of `prng.random_sample` (`Model/C17Ext.lean`: `randU0`,
`randW0`, `addNoise`, `initFromDraws`), the clamps of `_update_u` are a function with its algebra (`clampU`), the
termination logic of `fit` is characterised for every `check_convergence_every`, and the Laplacian of `HySC` is inside the
model (`lap`, the square root being its only parameter). -/

section ext
variable {α : Type} [Field α] [LinearOrder α] [IsStrictOrderedRing α]

/-- **`_randomize_w0`.**  The initial affinity of size `d + 2` and community `k` is the raw draw when some hyperedge has
that size and exactly `0` otherwise (such a row then stays out of every likelihood term); with draws `≥ 0`
(`random_sample`) the whole matrix is non-negative. -/
theorem C17_randW0_spec (c : Cfg α) (dw : Mat α) :
    (∀ d k, d < c.D - 1 → k < c.K →
      at2 (randW0 c dw) d k = if (∃ e, e < c.E ∧ (c.edge e).length = d + 2) then at2 dw d k else 0) ∧
    ((∀ d k, d < c.D - 1 → k < c.K → 0 ≤ at2 dw d k) → ∀ d k, 0 ≤ at2 (randW0 c dw) d k) := by
  refine ⟨?_, fun h d k => randW0_nonneg c dw h d k⟩
  intro d k hd hk
  rw [randW0_at c dw d k hd hk]
  by_cases h : sizePresent c d = true
  · rw [if_pos h, if_pos ((sizePresent_iff c d).mp h)]
  · rw [if_neg h, if_neg (fun h' => h ((sizePresent_iff c d).mpr h'))]

/-- **`_randomize_u0`.**  From non-negative raw draws: every entry is non-negative, and every row whose draws have a
positive sum sums to exactly one. -/
theorem C17_randU0_stochastic (c : Cfg α) (du : Mat α) (h : ∀ i k, i < c.N → k < c.K → 0 ≤ at2 du i k) :
    (∀ i k, 0 ≤ at2 (randU0 c du) i k) ∧
    (∀ i, i < c.N → 0 < sumR c.K (fun k => at2 du i k) → sumR c.K (fun k => at2 (randU0 c du) i k) = 1) :=
  ⟨fun i k => randU0_nonneg c du h i k, fun i hi hs => randU0_rowsum c du i hi hs⟩

/-- **start around the spectral solution** (`baseline_r0`, realisation 0; also `_add_noise_input`).  For a non-negative
matrix `X` (the 0/1 matrix of `HySC`), noise level `≥ 0` and draws `≥ 0`: `np.max` bounds every entry, no entry is
decreased, and when `X` has a positive entry, the noise level and the draws are positive, every entry is positive. -/
theorem C17_baseline_start (n m : Nat) (noise : α) (X dr : Mat α) (hX : ∀ i k, 0 ≤ at2 X i k) :
    (∀ i k, i < n → k < m → at2 X i k ≤ matMax n m X) ∧
    (0 ≤ noise → (∀ i k, i < n → k < m → 0 ≤ at2 dr i k) →
      ∀ i k, i < n → k < m → at2 X i k ≤ at2 (addNoise n m noise X dr) i k) ∧
    (0 < noise → (∃ i k, i < n ∧ k < m ∧ 0 < at2 X i k) → (∀ i k, i < n → k < m → 0 < at2 dr i k) →
      ∀ i k, i < n → k < m → 0 < at2 (addNoise n m noise X dr) i k) :=
  ⟨fun i k hi hk => le_matMax n m X i k hi hk,
   fun hn hd i k hi hk => addNoise_ge n m noise hn X dr hX hd i k hi hk,
   fun hn h1 hd i k hi hk => addNoise_pos n m noise hn X dr hX h1 hd i k hi hk⟩

/-- **the clamps of `_update_u` as a function** (`clampU x` = low clamp, then high clamp).  The result is `0` or at least
`min_value_par`, and at most `max(max_value_par, 1e2)`; clamping twice is clamping once; and the map is monotone when
the value written at the upper clamp is not below the bound (`1e2` for the default `max_value_par = 1e2`). -/
theorem C17_clamp_algebra (c : Cfg α) (hc : CfgOk c) :
    (∀ x, clampU c x = 0 ∨ c.minv ≤ clampU c x) ∧
    (∀ t v, c.maxv = some (t, v) → ∀ x, clampU c x ≤ max t v) ∧
    (∀ x, clampU c (clampU c x) = clampU c x) ∧
    ((∀ t v, c.maxv = some (t, v) → t ≤ v) → ∀ x y, x ≤ y → clampU c x ≤ clampU c y) ∧
    (∀ x, c.minv ≤ x → (∀ t v, c.maxv = some (t, v) → x ≤ t) → clampU c x = x) := by
  refine ⟨clampU_zero_or c hc, fun t v hm x => clampU_le c t v hm x, clampU_idem c hc, ?_, ?_⟩
  · intro hv x y hxy
    exact clampHigh_mono c hv _ _ (clampLow_mono c hc x y hxy)
  · intro x hx hm
    unfold clampU
    rw [clampLow_fix c x (Or.inr hx)]
    unfold clampHigh
    cases h : c.maxv with
    | none => rfl
    | some tv => obtain ⟨t, v⟩ := tv; simp only; rw [if_neg (not_lt.mpr (hm t v h))]

/-- the new row written by a node update is the clamp of the unclamped value (`vNew` is `clampU` of it) -/
theorem C17_vNew_clamped (c : Cfg α) (hc : CfgOk c) (s : St α) (i k : Nat) :
    clampU c (vNew c s i k) = vNew c s i k := by
  unfold vNew; exact clampU_idem c hc _

/-- **the Laplacian of `HySC._extract_laplacian`** (binary or `weighted_L`, any function in place of `sqrt`) is symmetric,
and the row and the column of an isolated node are those of the identity (the code then restricts to `non_isolates`). -/
theorem C17_lap_symm (c : Cfg α) (sq : α → α) (wl : Bool) :
    (∀ i j, at2 (lap c sq wl) i j = at2 (lap c sq wl) j i) ∧
    (∀ i j, i < c.N → j < c.N → degN c i = 0 →
      at2 (lap c sq wl) i j = (if i = j then 1 else 0) ∧ at2 (lap c sq wl) j i = (if i = j then 1 else 0)) := by
  refine ⟨lap_symm c sq wl, fun i j hi hj h0 => ⟨lap_isolated c sq wl i j hi hj h0, ?_⟩⟩
  rw [lap_symm c sq wl j i]; exact lap_isolated c sq wl i j hi hj h0

/-- **`L · sqrt(degree) = 0`.**  For the binary Laplacian of a hypergraph whose hyperedges are non-empty lists of distinct
node indices `< N` (columns of the incidence matrix) and any `sq` with `sq(x)² = x` on `x ≥ 0`: the vector
`degree_j · sq(1/degree_j)` (`= sqrt(degree_j)`, `0` for isolated nodes) is annihilated by every row of `L` - the trivial
eigenvector that `extract_eigenvectors` drops (`sorted_indices[1:K]`). -/
theorem C17_lap_kernel (c : Cfg α) (hE : EdgesOk c) (sq : α → α) (hsq : ∀ x, 0 ≤ x → sq x * sq x = x) (i : Nat)
    (hi : i < c.N) :
    sumR c.N (fun j => at2 (lap c sq false) i j * ((degN c j : α) * invS c sq j)) = 0 :=
  lap_kernel c hE sq hsq i hi

end ext

/-- **ascent from the raw draws.**  `C17_ascent_run` with its hypotheses on `u0`, `w0` discharged: start from the raw
outputs of `random_sample` - `uk ≥ 0`, `du > 0` on `N × K`, `dw > 0` on `(D-1) × K` (probability one) - `u` either random
(`hysc = none`) or around a non-negative matrix with a positive entry (`hysc = some X`: the spectral baseline or the input
of `initialize_u0`, noise level `> 0`), `w` either random or around a non-negative input of `initialize_w0` that is positive
on the occurring sizes: along every list of sweeps the log-likelihood evaluated from its definition never decreases. -/
theorem C17_ascent_from_draws (c : Cfg ℝ) (hS : Setup c) (r0 : Bool) (hysc winit : Option (Mat ℝ)) (noise : ℝ)
    (hn : 0 < noise)
    (hX : ∀ X, hysc = some X → (∀ i k, 0 ≤ at2 X i k) ∧ ∃ i k, i < c.N ∧ k < c.K ∧ 0 < at2 X i k)
    (hW : ∀ W, winit = some W → (∀ d k, 0 ≤ at2 W d k) ∧
      ∀ e, e < c.E → ∀ k, k < c.K → 0 < at2 W ((c.edge e).length - 2) k)
    (uk : List ℝ) (huk : ∀ x ∈ uk, 0 ≤ x) (du dw : Mat ℝ)
    (hdu : ∀ i k, i < c.N → k < c.K → 0 < at2 du i k) (hdw : ∀ d k, d < c.D - 1 → k < c.K → 0 < at2 dw d k)
    (perms : List (List Nat)) (p : List Nat) (hp : ∀ q ∈ perms ++ [p], ∀ i ∈ q, i < c.N) :
    LL c (perms.foldl (emSweep c) (initFromDraws c r0 hysc winit noise uk du dw [])).u
         (perms.foldl (emSweep c) (initFromDraws c r0 hysc winit noise uk du dw [])).w
      ≤ LL c ((perms ++ [p]).foldl (emSweep c) (initFromDraws c r0 hysc winit noise uk du dw [])).u
             ((perms ++ [p]).foldl (emSweep c) (initFromDraws c r0 hysc winit noise uk du dw [])).w := by
  have hu0 : ∀ i k, i < c.N → k < c.K → c.isIso i = false → 0 < at2 (u0Of c hysc noise du) i k := by
    intro i k hi hk _
    unfold u0Of
    cases hh : hysc with
    | none => exact randU0_pos c du hdu i k hi hk
    | some X => exact addNoise_pos c.N c.K noise hn X du (hX X hh).1 (hX X hh).2 hdu i k hi hk
  have hw0 : ∀ e, e < c.E → ∀ k, k < c.K → 0 < at2 (w0Of c winit noise dw) ((c.edge e).length - 2) k := by
    intro e he k hk
    have hs := hS.esize e he
    have hd : (c.edge e).length - 2 < c.D - 1 := by omega
    unfold w0Of
    cases hh : winit with
    | none =>
      rw [randW0_at c dw _ k hd hk, if_pos (sizePresent_edge c e he hs.1)]
      exact hdw _ k hd hk
    | some W =>
      exact lt_of_lt_of_le ((hW W hh).2 e he k hk)
        (addNoise_ge (c.D - 1) c.K noise hn.le W dw (hW W hh).1 (fun d k hd hk => (hdw d k hd hk).le) _ k hd hk)
  have hw0n : ∀ d k, 0 ≤ at2 (w0Of c winit noise dw) d k := by
    intro d k
    unfold w0Of
    cases hh : winit with
    | none => exact randW0_nonneg c dw (fun d k hd hk => (hdw d k hd hk).le) d k
    | some W =>
      unfold addNoise
      apply at2_tab2_nonneg
      intro d k hd hk
      have := mul_nonneg (mul_nonneg (matMax_nonneg (c.D - 1) c.K W (hW W hh).1) hn.le) (hdw d k hd hk).le
      have := (hW W hh).1 d k
      linarith
  exact C17_ascent_run c hS r0 uk huk _ _ hu0 hw0 hw0n perms p hp

/-- **ascent with `fix_w` / `fix_communities`.**  `emSweepFix` is `_update_em` for any setting of the two flags (both off:
`emSweep`).  Under the hypotheses of `C17_ascent` the log-likelihood does not decrease for ANY setting - each half of the sweep
ascends on its own -, the hypotheses hold again afterwards, and a fixed parameter is returned untouched. -/
theorem C17_ascent_fixed (c : Cfg ℝ) (hS : Setup c) (fixW fixU : Bool) (s : St ℝ) (hI : Inv c s) (hP : Pos c s.u s.w)
    (hZ : IsoZero c s.u) (hrho : s.rho = rhoUpdate c s.u s.w) (perm : List Nat) (hp : ∀ i ∈ perm, i < c.N) :
    LL c s.u s.w ≤ LL c (emSweepFix c fixW fixU s perm).u (emSweepFix c fixW fixU s perm).w ∧
    Inv c (emSweepFix c fixW fixU s perm) ∧
    Pos c (emSweepFix c fixW fixU s perm).u (emSweepFix c fixW fixU s perm).w ∧
    IsoZero c (emSweepFix c fixW fixU s perm).u ∧
    (emSweepFix c fixW fixU s perm).rho
      = rhoUpdate c (emSweepFix c fixW fixU s perm).u (emSweepFix c fixW fixU s perm).w ∧
    (fixW = true → (emSweepFix c fixW fixU s perm).w = s.w) ∧
    (fixU = true → (emSweepFix c fixW fixU s perm).u = s.u) ∧
    emSweepFix c false false s perm = emSweep c s perm := by
  obtain ⟨a1, a2, a3, a4, a5, a6⟩ := wHalf_good hS fixW s hI hP hZ hrho
  obtain ⟨b1, b2, b3, b4, b5, b6⟩ := uHalf_good hS fixU (wHalf c fixW s) a2 a3 a4 a5 perm hp
  refine ⟨le_trans a1 b1, b2, b3, b4, b5, ?_, ?_, rfl⟩
  · intro h; subst h
    show (uHalf c fixU (wHalf c true s) perm).w = s.w
    rw [b6]; rfl
  · intro h; subst h
    show (uHalf c true (wHalf c fixW s) perm).u = s.u
    exact a6

/-- **termination of the EM loop of one realisation**, for every `check_convergence_every`, tolerance, threshold,
`max_iter` and every sequence of likelihood values: the loop makes at most `max_iter` sweeps; if it ends without the
convergence flag it made exactly `max_iter` of them (as many as values were supplied); if it ends with the flag, the
tolerance was met on more than `threshold_for_convergence` consecutive recorded checks, so more than that many sweeps were
made; every `train_info` row belongs to an iteration that is a multiple of `check_convergence_every`. -/
theorem C17_termination {α : Type} [Sub α] [Zero α] [LT α] [DecidableLT α] (tol : α) (thr every maxIter : Nat) (inf : α)
    (Ls : List α) :
    (runReal tol thr every maxIter inf Ls).it ≤ maxIter ∧ (runReal tol thr every maxIter inf Ls).it ≤ Ls.length ∧
    ((runReal tol thr every maxIter inf Ls).conv = false →
      (runReal tol thr every maxIter inf Ls).it = min maxIter Ls.length) ∧
    ((runReal tol thr every maxIter inf Ls).conv = true →
      thr < (runReal tol thr every maxIter inf Ls).nTol ∧
      (runReal tol thr every maxIter inf Ls).nTol ≤ (runReal tol thr every maxIter inf Ls).rows.length ∧
      thr < (runReal tol thr every maxIter inf Ls).it) ∧
    (∀ r ∈ (runReal tol thr every maxIter inf Ls).rows,
      r.1 % every = 0 ∧ r.1 < (runReal tol thr every maxIter inf Ls).it) := by
  unfold runReal
  have h0 : LoopInv thr every ({ loglik := inf, nTol := 0, conv := false, it := 0, rows := [] } : Conv α) :=
    ⟨Nat.le_refl _, Nat.le_refl _, by simp, by simp⟩
  obtain ⟨hI, h1, h2, _, h4⟩ := go_spec tol thr every maxIter Ls _ h0
  simp only [Nat.zero_add] at h1 h2 h4
  refine ⟨h1, h2, h4, ?_, hI.mult⟩
  intro hc
  have := hI.flag hc
  have := hI.tolRows
  have := hI.rowsIt
  exact ⟨by omega, by omega, by omega⟩

/-! ## non-vacuity of the extension theorems -/

/-- `C17_ascent_from_draws` on the concrete weighted hypergraph `cEx`, random start, all raw draws equal to one -/
example (perms : List (List Nat)) (p : List Nat) (hp : ∀ q ∈ perms ++ [p], ∀ i ∈ q, i < cEx.N) :
    LL cEx (perms.foldl (emSweep cEx) (initFromDraws cEx false none none (1 / 1000) [1]
        (tab2 3 1 (fun _ _ => 1)) (tab2 2 1 (fun _ _ => 1)) [])).u
      (perms.foldl (emSweep cEx) (initFromDraws cEx false none none (1 / 1000) [1]
        (tab2 3 1 (fun _ _ => 1)) (tab2 2 1 (fun _ _ => 1)) [])).w
    ≤ LL cEx ((perms ++ [p]).foldl (emSweep cEx) (initFromDraws cEx false none none (1 / 1000) [1]
        (tab2 3 1 (fun _ _ => 1)) (tab2 2 1 (fun _ _ => 1)) [])).u
      ((perms ++ [p]).foldl (emSweep cEx) (initFromDraws cEx false none none (1 / 1000) [1]
        (tab2 3 1 (fun _ _ => 1)) (tab2 2 1 (fun _ _ => 1)) [])).w :=
  C17_ascent_from_draws cEx cEx_setup false none none (1 / 1000) (by norm_num) (by intro X h; cases h)
    (by intro W h; cases h) [1] (by simp)
    _ _ (fun i k hi hk => by rw [at2_tab2 3 1 _ _ _ (show i < 3 from hi) (show k < 1 from hk)]; exact one_pos)
    (fun d k hd hk => by rw [at2_tab2 2 1 _ _ _ (show d < 2 from hd) (show k < 1 from hk)]; exact one_pos) perms p hp
/-- `C17_ascent_fixed` on `cEx`: the state after the initialisation satisfies its hypotheses, for every setting of the flags -/
example (fixW fixU : Bool) (perm : List Nat) (hp : ∀ i ∈ perm, i < cEx.N) :
    LL cEx (initState cEx true [1] [[1], [2], [3]] [[1], [5]] []).u (initState cEx true [1] [[1], [2], [3]] [[1], [5]] []).w
      ≤ LL cEx (emSweepFix cEx fixW fixU (initState cEx true [1] [[1], [2], [3]] [[1], [5]] []) perm).u
          (emSweepFix cEx fixW fixU (initState cEx true [1] [[1], [2], [3]] [[1], [5]] []) perm).w :=
  (C17_ascent_fixed cEx cEx_setup fixW fixU _ (initState_inv cEx cEx_setup.cfgOk true [1] (by simp) _ _ [])
    (initState_pos cEx_setup true [1] _ _ [] cEx_init.1 cEx_init.2.1 cEx_init.2.2).1
    (initState_pos cEx_setup true [1] _ _ [] cEx_init.1 cEx_init.2.1 cEx_init.2.2).2
    (initState_rho cEx_setup true [1] _ _ []) perm hp).1
/-- the same with the spectral start: the hypothesis on the HySC matrix holds for a 0/1 matrix with a 1 -/
example : (∀ i k, 0 ≤ at2 ([[1], [1], [0]] : Mat ℝ) i k) ∧ ∃ i k, i < cEx.N ∧ k < cEx.K ∧ 0 < at2 ([[1], [1], [0]] : Mat ℝ) i k :=
  ⟨at2_nonneg_of _ (by intro r hr x hx; simp at hr; rcases hr with rfl | rfl | rfl <;> simp at hx <;> rw [hx] <;> norm_num),
   0, 0, by decide, by decide, by simp [at2]⟩
/-- raw draws over the integers: the row of the absent size 4 is zeroed, the others are the draws -/
example : randW0 ({ N := 4, K := 2, D := 4, edges := [[0, 1], [0, 1, 2, 3]], A := [1, 1], minv := 0, maxv := none, eps := 0, rtol := 1, normU := false } : Cfg Int) [[3, 4], [5, 6], [7, 8]] = [[3, 4], [0, 0], [7, 8]] := by decide
example : matMax 2 2 ([[0, 1], [1, 0]] : Mat Int) = 1 ∧
    addNoise 2 2 (2 : Int) [[0, 1], [1, 0]] [[3, 4], [5, 6]] = [[6, 9], [11, 12]] := by decide
/-- the clamps on integers (`min_value_par = 2`, upper bound 10 replaced by 10) -/
example : let c : Cfg Int := { N := 1, K := 1, D := 2, edges := [], A := [], minv := 2, maxv := some (10, 10), eps := 0, rtol := 1, normU := false }
    [clampHigh c (clampLow c 1), clampHigh c (clampLow c 2), clampHigh c (clampLow c 7), clampHigh c (clampLow c 11)] = [0, 2, 7, 10] := by
  decide
/-- termination with `check_convergence_every = 2`, tolerance 1, threshold 1, `max_iter = 9`: the flag is set at the third
recorded check (iteration 4), the loop stops after 5 sweeps, rows at iterations 0, 2, 4 -/
example : ((runReal (1 : Int) 1 2 9 (-100) [-9, -9, -9, -7, -9, -3, -3, -3, -3]).it,
    (runReal (1 : Int) 1 2 9 (-100) [-9, -9, -9, -7, -9, -3, -3, -3, -3]).conv,
    (runReal (1 : Int) 1 2 9 (-100) [-9, -9, -9, -7, -9, -3, -3, -3, -3]).rows.map (fun r => r.1)) = (5, true, [4, 2, 0]) := by
  decide
/-- the Laplacian's combinatorial part on a hypergraph with an isolated node: degrees, and a non-empty `EdgesOk` instance -/
example : let c : Cfg Int := { N := 4, K := 2, D := 3, edges := [[0, 1], [0, 1, 2]], A := [1, 2], minv := 0, maxv := none, eps := 0, rtol := 1, normU := false }
    (List.range 4).map (degN c) = [2, 2, 1, 0] := by decide
example : EdgesOk cEx := by
  refine ⟨fun e he => (cEx_setup.esorted e he).imp (fun h => Nat.ne_of_lt h), cEx_setup.enodes, ?_⟩
  intro e he h
  have := (cEx_setup.esize e he).1
  rw [h] at this; simp at this
